"""C11 -- the hook instruments exactly the named packages, only while installed."""
import json, os, shutil, subprocess, sys, tempfile
sys.path.insert(0, os.path.join(os.path.dirname(os.path.abspath(__file__)), "..", "lib"))
import vf

PID = "C11"
MODULES = ["foo", "foo.a", "foo.bar", "foo.bar.qux", "foobar", "foobar.m", "foo_bar", "zed", "fo"]
NAMESETS = [["foo", "foo.a"], ["foo.a", "foo"], ["foobar", "foobar.m", "foo"], ["foo"], ["foo.bar"], ["foobar"], ["foo", "foobar"], ["zed"], ["foo.a"], ["fo"], ["foo", "foo_bar", "foobar"], ["foo.bar", "zed"], ["foo_bar"], ["foo.bar.qux", "fo"], ["foo", "foo.bar"]]
BODY = "def f(x: int) -> int:\n    return x\n\nclass K:\n    def m(self, x: int) -> int:\n        return x\n"


def make_forest(root):
    def w(path, txt):
        os.makedirs(os.path.dirname(path), exist_ok=True)
        open(path, "w").write(txt)
    w(root + "/foo/__init__.py", BODY)
    w(root + "/foo/a.py", BODY)
    w(root + "/foo/bar/__init__.py", BODY)
    w(root + "/foo/bar/qux.py", "import foo.a\n" + BODY)          # modules importing each other
    w(root + "/foobar/__init__.py", BODY)
    w(root + "/foobar/m.py", BODY)
    w(root + "/foo_bar.py", BODY)
    w(root + "/zed/__init__.py", "import foo_bar\n" + BODY)
    w(root + "/fo.py", BODY)
    # a module that does not compile, and one that tries to import it (swallowing the SyntaxError) before importing `fo`
    w(root + "/brk.py", "def f(:\n    return 1\n")
    w(root + "/imp2.py", "try:\n    import brk\nexcept SyntaxError:\n    pass\nimport fo\n" + BODY)
    # a directory that is NOT on sys.path at first: its modules cannot be imported until the program appends it
    w(root + "/_late/addon.py", BODY)
    w(root + "/_late/addpkg/__init__.py", BODY)
    w(root + "/_late/addpkg/sub.py", BODY)
    w(root + "/spyreg.py", "LOG = []\n")
    for k in ("A", "B", "C"):
        w(root + "/spy%s.py" % k, "import spyreg\n\ndef check(fn, *a, **k):\n    spyreg.LOG.append((getattr(fn, '__module__', None), getattr(fn, '__qualname__', None), %r))\n    return fn\n" % k)


def gen_history(rng):
    ops, nh, live = [], 0, []
    for _ in range(rng.choice([3, 4, 5, 6, 8])):
        r = rng.random()
        if r < .35 or not ops:
            names = list(rng.choice(NAMESETS))
            chk = rng.choice(["A", "B", "C", "A", None])
            prev = [o for o in ops if o[0] == "install"]
            if prev and rng.random() < .35:
                names, chk = list(prev[-1][1]), prev[-1][2]        # the very same hook installed once more (two independent handles)
            ops.append(["install", names, chk, nh, rng.random() < .5]); live.append(nh); nh += 1
        elif r < .55 and nh:
            hid = rng.choice(range(nh))        # possibly already uninstalled: must be harmless
            ops.append(["uninstall", hid, rng.choice(["uninstall", "exit"])])
            if rng.random() < .3:
                ops.append(["uninstall", hid, rng.choice(["uninstall", "exit"])])      # released twice
        else:
            ops.append(["import", rng.choice(MODULES)])
    ops.append(["import", rng.choice(MODULES)])
    if rng.random() < .25:
        # a module that cannot be found yet is imported (ImportError), later its directory is appended to sys.path and the import repeated:
        # it is the FIRST successful import that counts
        late = rng.choice(["addon", "addpkg", "addpkg.sub"])
        k = rng.randrange(0, len(ops) + 1)
        ops.insert(k, ["import_missing", late])
        if rng.random() < .7:       # (handle numbers follow the order of the install calls)
            ops.append(["install", rng.choice([["addon"], ["addpkg"], ["addon", "addpkg", "foo"], ["addpkg.sub"]]), rng.choice(["A", "B", None]), nh, True])
            if rng.random() < .5:
                ops.append(["import_missing", late])
        ops += [["addpath"], ["import", late]]
    return ops


CATALOGUE = [
    # a hooked name beneath another hooked name: modules beneath the OUTER name that sort after the inner one are still beneath a hooked name
    [["install", ["foo", "foo.a"], "A", 0, True], ["import", "foo.bar"], ["import", "foo.bar.qux"], ["import", "foo.a"], ["import", "foobar"]],
    [["install", ["foo.a", "foo"], "B", 0, False], ["import", "foo.bar.qux"], ["import", "fo"]],
    # two install calls with the SAME names and checker; one handle is released twice (its `with` exit, then uninstall()): the other stays
    [["install", ["foo"], "A", 0, True], ["install", ["foo"], "A", 1, True], ["import", "foo.a"], ["uninstall", 1, "exit"], ["uninstall", 1, "uninstall"], ["import", "foo.bar"], ["uninstall", 0, "uninstall"], ["import", "foo.bar.qux"]],
    [["install", ["zed", "fo"], None, 0, True], ["install", ["zed", "fo"], None, 1, True], ["uninstall", 0, "uninstall"], ["uninstall", 0, "exit"], ["uninstall", 0, "uninstall"], ["import", "zed"], ["uninstall", 1, "exit"], ["import", "fo"]],
    [["install", ["addon", "addpkg"], "A", 0, True], ["import_missing", "addon"], ["import_missing", "addpkg.sub"], ["addpath"], ["import", "addon"], ["import", "addpkg.sub"], ["import", "foo"]],
    [["install", ["foo"], "B", 0, True], ["import_missing", "addon"], ["install", ["addon"], "A", 1, True], ["addpath"], ["import", "addon"], ["import_missing", "nosuchmodule"]],
    [["install", ["foo"], "A", 0, True], ["import", "foo"], ["import", "foobar"], ["import", "foo_bar"], ["import", "foo.bar.qux"], ["import", "fo"]],
    [["install", ["foo"], "A", 0, False], ["install", ["foo"], "B", 1, True], ["uninstall", 0, "uninstall"], ["import", "foo.a"]],
    [["install", ["foo"], "A", 0, True], ["install", ["foo"], "A", 1, True], ["import", "foo.a"], ["uninstall", 1, "exit"], ["import", "foo.bar"], ["uninstall", 0, "exit"], ["import", "foo.bar.qux"]],
    [["install", ["foo", "foo_bar", "foobar"], "A", 0, True], ["import", "foo"], ["import", "foo_bar"], ["import", "foobar.m"]],
    [["install", ["foobar", "foo"], "C", 0, True], ["import", "foobar"], ["import", "foo.a"]],
    [["install", ["foo"], None, 0, True], ["import", "foo.a"], ["uninstall", 0, "uninstall"], ["uninstall", 0, "uninstall"], ["import", "foo.bar"]],
    [["install", ["foo.bar"], "A", 0, True], ["install", ["foo"], "B", 1, True], ["import", "foo.bar.qux"], ["import", "zed"]],
    [["install", ["zed"], "A", 0, True], ["import", "zed"]],
    [["import", "foo"], ["install", ["foo"], "A", 0, True], ["import", "foo"], ["import", "foo.a"]],
]


def ops_coq(ops):
    out = []
    for op in ops:
        if op[0] == "install":
            out.append("(Install %s %s)" % (vf.coqlist(op[1], vf.coqstr), vf.coqopt(op[2], vf.coqstr)))
        elif op[0] == "uninstall":
            out.append("(Uninstall %d)" % op[1])
        elif op[0] in ("import_missing", "addpath"):
            continue          # an import that finds nothing loads nothing; the path change is not the hook's business
        else:
            out.append("(Import %s)" % vf.coqstr(op[1]))
    return "[" + "; ".join(out) + "]"


def reference(ops):
    """the property's statement, independently of the Coq model"""
    live, loaded = [], {}
    for op in ops:
        if op[0] == "install":
            live.insert(0, (op[3], op[1], op[2]))
        elif op[0] == "uninstall":
            live = [h for h in live if h[0] != op[1]]
        elif op[0] in ("import_missing", "addpath"):
            continue
        else:
            parts = op[1].split(".")
            for i in range(1, len(parts) + 1):
                m = ".".join(parts[:i])
                if m in loaded:
                    continue
                tag = "plain"
                for (_, names, chk) in live:
                    if any(m == n or m.split(".")[:len(n.split("."))] == n.split(".") for n in names):
                        tag = "hooked:%s" % chk; break
                loaded[m] = tag
                # nested imports performed by the module bodies
                for dep in {"foo.bar.qux": ["foo.a"], "zed": ["foo_bar"], "imp2": ["fo"]}.get(m, []):
                    dparts = dep.split(".")
                    for j in range(1, len(dparts) + 1):
                        d = ".".join(dparts[:j])
                        if d not in loaded:
                            t2 = "plain"
                            for (_, names, chk) in live:
                                if any(d == n or d.split(".")[:len(n.split("."))] == n.split(".") for n in names):
                                    t2 = "hooked:%s" % chk; break
                            loaded[d] = t2
    return loaded


def expand_nested(ops):
    """make the nested imports explicit for the model (the module bodies import them right after being loaded...
    a nested import happens DURING the import of the importer, i.e. before any later operation)"""
    out = []
    for op in ops:
        out.append(op)
        if op[0] == "import":
            if op[1] == "foo.bar.qux":
                out.append(["import", "foo.a"])
            if op[1] == "zed":
                out.append(["import", "foo_bar"])
    return out


PYT_NAMES = ["foo", "foo.bar", "foobar", "foo_bar", "zed", "fo", "foo.a", "foo.bar.qux", ""]
WS = ["", " ", "  ", "\t", " \t "]


def gen_pytest(rng):
    """(preload, value, imports, names, checker) -- value written with optional whitespace padding around every item"""
    r = rng.random()
    if r < .1:
        return dict(preload=[], value=None, imports=[rng.choice(MODULES) for _ in range(3)])
    names = rng.sample(PYT_NAMES, rng.choice([0, 1, 1, 2, 3]))
    chk = "spy%s.check" % rng.choice("ABC")
    pad = (lambda x: rng.choice(WS) + x + rng.choice(WS)) if rng.random() < .6 else (lambda x: x)
    value = ",".join(pad(x) for x in names + [chk])
    preload = [rng.choice(["foo_bar", "fo", "foo.a", "zed"])] if rng.random() < .3 else []
    return dict(preload=preload, value=value, imports=[rng.choice(MODULES) for _ in range(rng.choice([2, 3, 4]))])


PYT_CATALOGUE = [
    dict(preload=[], value="foo,spyA.check", imports=["foo.bar.qux", "foobar", "foo_bar", "fo"]),
    dict(preload=[], value=" foo.bar , zed ,spyB.check ", imports=["foo.bar.qux", "zed", "foo"]),
    dict(preload=[], value="spyA.check", imports=["foo", "zed"]),                       # no names at all: only a checker
    dict(preload=["foo_bar"], value="foo_bar,foo,spyA.check", imports=["foo"]),         # already imported -> RuntimeError
    dict(preload=["foo.a"], value="foo,spyC.check", imports=["foo.bar"]),               # parent package already imported
    dict(preload=["zed"], value="foo,spyC.check", imports=["foo.bar", "zed", "foo_bar"]),  # preloaded, not named: fine
    dict(preload=[], value="foo,foo,spyC.check", imports=["foo.a"]),
    dict(preload=[], value=",spyA.check", imports=["foo", "fo"]),                        # empty name matches nothing
    dict(preload=[], value=None, imports=["foo", "zed"]),
]


def pytest_reference(c):
    """the documented behaviour, independently of the Coq model"""
    NEST = {"foo.bar.qux": ["foo.a"], "zed": ["foo_bar"]}
    loaded = {}
    def imp(m, names, chk):
        parts = m.split(".")
        for i in range(1, len(parts) + 1):
            a = ".".join(parts[:i])
            if a in loaded:
                continue
            hit = names is not None and any(a == n or a.split(".")[:len(n.split("."))] == n.split(".") for n in names if n)
            loaded[a] = "hooked:%s" % chk if hit else "plain"
            for d in NEST.get(a, []):
                imp(d, names, chk)
    for m in c["preload"]:
        imp(m, None, None)
    if c["value"] is None:
        names, chk = None, None
    else:
        items = [x.strip() for x in c["value"].split(",")]
        names, chk = items[:-1], items[-1]
        if any(n in loaded for n in names):
            return "already-imported"
    for m in c["imports"]:
        imp(m, names, chk)
    return loaded


def gen_ipython(rng):
    ops, k = [], 0
    for _ in range(rng.choice([3, 4, 5, 6, 7])):
        r = rng.random()
        if r < .12:
            ops.append([rng.choice(["reset", "shadow"])])     # the user wipes the namespace / binds the name `jaxtyping` themselves
        elif r < .4:
            ops.append(["magic", rng.choice("ABC")])
        elif r < .5:
            ops.append(["other", len(ops)])
        else:
            ops.append(["cell", "fn%d" % k]); k += 1
    ops.append(["cell", "fn%d" % k])
    return ops


IPY_CATALOGUE = [
    [["cell", "f0"], ["magic", "A"], ["cell", "f1"], ["magic", "B"], ["cell", "f2"], ["magic", "B"], ["cell", "f3"]],
    [["other", 1], ["magic", "A"], ["other", 2], ["magic", "C"], ["cell", "g0"], ["other", 3], ["cell", "g1"]],
    [["magic", "A"], ["magic", "A"], ["magic", "A"], ["cell", "h0"]],
    [["magic", "A"], ["cell", "r0"], ["reset"], ["cell", "r1"], ["shadow"], ["cell", "r2"], ["magic", "B"], ["reset"], ["cell", "r3"]],
]


def ipy_reference(ops):
    cur, cells, others = None, [], []
    for op in ops:
        if op[0] == "magic":
            cur = "spy%s.check" % op[1]
        elif op[0] == "other":
            others.append("O%d" % op[1])
        elif op[0] == "cell":
            cells.append([op[1], cur or ""])
    return cells, others, cur


def ipy_coq(ops):
    out = []
    for op in ops:
        if op[0] in ("reset", "shadow"):
            continue          # the model has no user namespace: these steps must change nothing it describes
        out.append("(IMagic %s)" % vf.coqstr("spy%s.check" % op[1]) if op[0] == "magic" else "(IAddOther %d)" % op[1] if op[0] == "other" else "(ICell %s)" % vf.coqstr(op[1]))
    return "[" + "; ".join(out) + "]"


def front_ends(R, root, env):
    """the pytest option and the IPython magic, each against an independent reference and the Coq model"""
    from concurrent.futures import ThreadPoolExecutor
    npt, nip = (250, 250) if R.thorough else (14, 12)
    pyt = [dict(c) for c in PYT_CATALOGUE] + [gen_pytest(R.rng) for _ in range(npt)]
    ipy = list(IPY_CATALOGUE) + [gen_ipython(R.rng) for _ in range(nip)]
    def run(mode, payload):
        p = subprocess.run([vf.PY, os.path.join(vf.VERIF, "harness", "impl_hookfront.py"), mode, root, json.dumps(payload)], capture_output=True, text=True, env=env, timeout=600, cwd=root)
        lines = [l for l in p.stdout.splitlines() if l.startswith("{")]
        if not lines:
            return {"error": (p.stderr or p.stdout)[-600:]}
        return json.loads(lines[-1])
    with ThreadPoolExecutor(12) as ex:
        pres = list(ex.map(lambda c: run("pytest", c), pyt))
        ires = list(ex.map(lambda o: run("ipython", {"ops": o}), ipy))
    pm = vf.coq_eval_strings(["model.HookFront"], "fun c => let '(pre, v, imps) := c in match v with Some v => show_pytest pre v imps | None => show_pytest pre EmptyString imps end",
                             ["(%s, %s, %s)" % (vf.coqlist(expand_mods(c["preload"]), vf.coqstr), vf.coqopt(c["value"], vf.coqstr), vf.coqlist(expand_mods(c["imports"]), vf.coqstr)) for c in pyt], shard=400)
    im = vf.coq_eval_strings(["model.HookFront"], "fun ops => (show_cells (irun ops is0) ++ \"|\" ++ show_xfs (irun ops is0))%string", [ipy_coq(o) for o in ipy], shard=400)
    for c, r, m in zip(pyt, pres, pm):
        R.count("pytest:" + ("already" if "already" in r else "error" if "error" in r else "ran"))
        if "error" in r:
            R.violation("correspondence", "pytest run failed for %s: %s" % (json.dumps(c), r["error"][-300:]), {"case": c}, key={"kind": "pytest-run-error"}, no_input=True); continue
        want = pytest_reference(c)
        got = "already-imported" if "already" in r else {k: v.replace("hooked:A", "hooked:spyA.check").replace("hooked:B", "hooked:spyB.check").replace("hooked:C", "hooked:spyC.check") for k, v in r["loaded"].items()}
        if got != want:
            R.violation("property", "pytest --jaxtyping-packages=%r (preloaded %s, imports %s): modules are %s, the documented rule says %s" % (c["value"], c["preload"], c["imports"], got, want),
                        {"front_end": "pytest", "case": c, "got": got, "expected": want}, key={"kind": "pytest-scope"})
        mm = "already-imported" if m == "already-imported" else (dict(x.split("=") for x in m.split(",")) if m else {})
        if mm != got:
            R.violation("correspondence", "model and implementation disagree on the pytest option %s: impl %s, model %s" % (json.dumps(c), got, mm), {"case": c, "impl": got, "model": mm}, key={"kind": "pytest-model"}, no_input=(got == want))
    for ops, r, m in zip(ipy, ires, im):
        if "error" in r:
            R.violation("correspondence", "IPython history failed %s: %s" % (json.dumps(ops), r["error"][-300:]), {"ops": ops}, key={"kind": "ipython-run-error"}, no_input=True); continue
        cells, others, cur = ipy_reference(ops)
        gx = [x for x in r["xfs"] if not x.startswith("X:")]
        wantx = others + (["J:" + cur] if cur else [])
        R.count("ipython:cells", len(cells))
        if r["cells"] != cells:
            R.violation("property", "IPython magic history %s: cells were instrumented as %s, the latest magic before each cell calls for %s" % (json.dumps(ops), r["cells"], cells),
                        {"front_end": "ipython", "ops": ops, "got": r["cells"], "expected": cells}, key={"kind": "ipython-cells"})
        if sorted(gx) != sorted(wantx) or [x for x in gx if x.startswith("O")] != others:
            R.violation("property", "IPython magic history %s: shell.ast_transformers is %s, expected the other transformers in order plus exactly one jaxtyping transformer: %s" % (json.dumps(ops), gx, wantx),
                        {"front_end": "ipython", "ops": ops, "got": gx, "expected": wantx}, key={"kind": "ipython-transformers"})
        if any(x != [[2], True] for x in r.get("selfc", [])):
            R.violation("property", "IPython magic history %s: the transformer the magic registered does not make a cell self-contained ([positions of `import jaxtyping` in a cell with docstring and __future__ import, runs in an empty namespace] = %s, expected [[2], True])" % (json.dumps(ops), r.get("selfc")),
                        {"front_end": "ipython", "ops": ops, "got": r.get("selfc")}, key={"kind": "ipython-selfcontained"})
        mc, mx = m.split("|")
        mcells = [x.split("=") for x in mc.split(",")] if mc else []
        if mcells != r["cells"] or sorted(mx.split(",") if mx else []) != sorted(gx):
            R.violation("correspondence", "model and implementation disagree on the IPython history %s: impl %s / %s, model %s / %s" % (json.dumps(ops), r["cells"], gx, mcells, mx),
                        {"ops": ops, "impl": r, "model": m}, key={"kind": "ipython-model"}, no_input=(r["cells"] == cells))
    return len(pyt), len(ipy)


def expand_mods(mods):
    out = []
    for m in mods:
        out.append(m)
        out += {"foo.bar.qux": ["foo.a"], "zed": ["foo_bar"]}.get(m, [])
    return out


def bytecode_pairs(R, env):
    """two runs over one forest WITH bytecode caching: what the second run loads must not depend on the first"""
    from concurrent.futures import ThreadPoolExecutor
    n = 150 if R.thorough else 8
    pairs = [([["install", ["foo.bar"], "A", 0, True], ["import", "foo.bar.qux"]], [["install", ["foo.a"], "A", 0, True], ["import", "foo.a"], ["import", "foo.bar.qux"]]),
             ([["install", ["zed"], "B", 0, True], ["import", "zed"]], [["install", ["foo_bar"], "B", 0, True], ["import", "foo_bar"], ["import", "zed"]]),
             ([["install", ["foo_bar"], "B", 0, True], ["import", "foo_bar"]], [["install", ["zed"], "B", 0, True], ["import", "zed"]]),
             # a hooked module that fails to compile, then the first import of an un-hooked module in the same run; the next run hooks that one
             ([["install", ["brk"], "A", 0, True], ["import", "imp2"]], [["install", ["fo"], "A", 0, True], ["import", "fo"]]),
             ([["install", ["brk", "imp2"], "C", 0, True], ["import", "imp2"], ["import", "foo_bar"]], [["install", ["foo_bar", "fo"], "C", 0, True], ["import", "fo"], ["import", "foo_bar"]])]
    # an un-hooked run leaves ordinary .pyc files; the next run hooks those modules
    pairs.append(([["import", "foo_bar"], ["import", "foo.bar.qux"]], [["install", ["foo_bar", "foo"], "A", 0, True], ["import", "foo_bar"], ["import", "foo.bar.qux"]]))
    for _ in range(n):
        pairs.append((gen_history(R.rng), gen_history(R.rng)))
    # every other pair: the second run reads the cache but writes none (python -B / PYTHONDONTWRITEBYTECODE)
    modes = [("bytecode", "bytecode" if i % 2 == 0 else "nowrite") for i in range(len(pairs))]
    modes[5] = ("bytecode", "nowrite")
    pairs.append(pairs[5]); modes.append(("bytecode", "bytecode"))
    def runpair(prm):
        pr, md = prm
        root = tempfile.mkdtemp(prefix="vfc11b")
        try:
            make_forest(root)
            outs = []
            for ops, m in zip(pr, md):
                p = subprocess.run([vf.PY, os.path.join(vf.VERIF, "harness", "impl_hookscope.py"), root, json.dumps(ops), m], capture_output=True, text=True, env=env, timeout=300, cwd=root)
                lines = [l for l in p.stdout.splitlines() if l.startswith("{")]
                outs.append(json.loads(lines[-1]) if lines else {"error": (p.stderr or p.stdout)[-400:]})
            return outs
        finally:
            shutil.rmtree(root, ignore_errors=True)
    with ThreadPoolExecutor(8) as ex:
        res = list(ex.map(runpair, list(zip(pairs, modes))))
    for (pr, md), outs in zip(zip(pairs, modes), res):
        for k, (ops, r) in enumerate(zip(pr, outs)):
            if "error" in r or "loaded" not in r:
                R.violation("correspondence", "bytecode pair run failed: %s" % str(r)[:300], {"pair": pr}, key={"kind": "pair-run-error"}, no_input=True); continue
            want = reference(ops)
            for mod in sorted(set(want) | set(r["loaded"])):
                if r["loaded"].get(mod) != want.get(mod):
                    R.violation("property", "run %d of a pair of runs sharing one __pycache__ (first run %s; second run %s; bytecode modes %s, nowrite = sys.dont_write_bytecode): module %s is %s, the documented rule says %s" % (
                        k + 1, json.dumps(pr[0]), json.dumps(pr[1]), list(md), mod, r["loaded"].get(mod), want.get(mod)),
                        {"pair": pr, "modes": list(md), "run": k + 1, "module": mod, "got": r["loaded"].get(mod), "expected": want.get(mod)}, key={"kind": "scope-after-earlier-run", "module": mod})
    return len(pairs)


def main():
    R = vf.Report(PID)
    proved = R.proof_step()
    n = 2500 if R.thorough else 55
    hists = list(CATALOGUE) + [gen_history(R.rng) for _ in range(n)]
    root = tempfile.mkdtemp(prefix="vfc11")
    try:
        make_forest(root)
        env = vf.impl_env()
        def run(ops):
            p = subprocess.run([vf.PY, os.path.join(vf.VERIF, "harness", "impl_hookscope.py"), root, json.dumps(ops)], capture_output=True, text=True, env=env, timeout=300, cwd=root)
            lines = [l for l in p.stdout.splitlines() if l.startswith("{")]
            if p.returncode != 0 or not lines:
                return {"error": (p.stderr or p.stdout)[-600:]}
            return json.loads(lines[-1])
        from concurrent.futures import ThreadPoolExecutor
        with ThreadPoolExecutor(12) as ex:
            results = list(ex.map(run, hists))
        n_pyt, n_ipy = front_ends(R, root, env)
        n_pairs = bytecode_pairs(R, env)
    finally:
        shutil.rmtree(root, ignore_errors=True)
    model = vf.coq_eval_strings(["model.HookScope"], "fun ops => show_loaded (hrun ops hs0)", [ops_coq(expand_nested(h)) for h in hists], shard=400)
    nontriv, samples = set(), []
    for ops, r, m in zip(hists, results, model):
        if "error" in r:
            R.violation("correspondence", "history could not be run: %s" % r["error"], {"ops": ops}, key={"kind": "run-error"}, no_input=True); continue
        want = reference(ops)
        got = r["loaded"]
        for mod in sorted(set(want) | set(got)):
            R.count("tag:" + str(got.get(mod, "?")).split(":")[0])
            if got.get(mod) != want.get(mod):
                R.violation("property", "after %s: module %s is %s, the documented rule says %s" % (json.dumps(ops), mod, got.get(mod), want.get(mod)), {"ops": ops, "module": mod, "got": got.get(mod), "expected": want.get(mod)},
                            key={"kind": "scope", "module": mod})
        mm = dict(x.split("=") for x in m.split(",")) if m else {}
        if mm != got:
            R.violation("correspondence", "model and implementation disagree after %s: impl %s, model %s" % (json.dumps(ops), got, mm), {"ops": ops, "impl": got, "model": mm}, key={"kind": "model"}, no_input=(got == want))
        if sum(1 for o in ops if o[0] == "install") >= 2:
            nontriv.add(json.dumps(ops))
        if len(samples) < 3 and len(ops) >= 5:
            samples.append({"ops": ops, "loaded": got})
    if not proved:
        R.violation("proof", "proof obligations of props/C11.v no longer check: " + str(R.broken_proof)[-800:],
                    {"theorem_file": "coq/props/C11.v", "log": R.broken_proof}, no_input=not any(v["kind"] == "property" for v in R.violations))
    R.coverage.update(evaluations=len(hists) + n_pyt + n_ipy + n_pairs, pytest_option_runs=n_pyt, ipython_histories=n_ipy, bytecode_pairs=n_pairs, distinct_nontrivial=len(nontriv), samples=samples,
                      rule="%d catalogue + %d PRNG histories of install(names, checker) / uninstall or with-exit (also of already removed hooks) / import over a generated forest (foo, foo.a, foo.bar, foo.bar.qux importing foo.a, foobar, foobar.m, foo_bar, zed importing foo_bar, fo), "
                           "each in a fresh interpreter; 3 spy typecheckers record which module's functions they were applied to, `None` checker detected through __wrapped__. Expected tags from an independent reference of the documented rule; model (Coq hrun) compared on the full sys.modules picture. non-trivial = history with >= 2 installs. "
                           "Front ends: %d real pytest runs with --jaxtyping-packages (whitespace-padded items, no names, empty names, `-p` preloaded modules incl. the already-imported RuntimeError) and %d histories of "
                           "%%jaxtyping.typechecker magics / other AST transformers / cells in a real IPython InteractiveShell, each against an independent reference and model/HookFront.v. "
                           "%d pairs of runs over one forest with bytecode caching ON (second run must load what the rule says whatever the first run cached)" % (len(CATALOGUE), n, n_pyt, n_ipy, n_pairs))
    R.assumptions += ["importlib itself is modelled (first matching finder in sys.meta_path; parents imported first)", "pytest's plugin loading order (-p modules are imported before pytest_configure) and IPython's application of shell.ast_transformers in list order are pytest's / IPython's"]
    sys.exit(R.finish())


if __name__ == "__main__":
    vf.guarded(PID, main)

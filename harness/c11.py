"""C11 -- the hook instruments exactly the named packages, only while installed."""
import json, os, shutil, subprocess, sys, tempfile
sys.path.insert(0, os.path.join(os.path.dirname(os.path.abspath(__file__)), "..", "lib"))
import vf

PID = "C11"
MODULES = ["foo", "foo.a", "foo.bar", "foo.bar.qux", "foobar", "foobar.m", "foo_bar", "zed", "fo"]
NAMESETS = [["foo"], ["foo.bar"], ["foobar"], ["foo", "foobar"], ["zed"], ["foo.a"], ["fo"], ["foo", "foo_bar", "foobar"], ["foo.bar", "zed"], ["foo_bar"], ["foo.bar.qux", "fo"], ["foo", "foo.bar"]]
BODY = "def f(x: int) -> int:\n    return x\n\nclass K:\n    def m(self, x: int) -> int:\n        return x\n"


def make_forest(root):
    def w(path, txt):
        os.makedirs(os.path.dirname(path), exist_ok=True)
        open(path, "w").write(txt)
    w(root + "/foo/__init__.py", BODY)
    w(root + "/foo/a.py", BODY)
    w(root + "/foo/bar/__init__.py", BODY)
    w(root + "/foo/bar/qux.py", "import foo.a\n" + BODY)          # modules importing each other
    w(root + "/foobar/__init__.py", BODY)
    w(root + "/foobar/m.py", BODY)
    w(root + "/foo_bar.py", BODY)
    w(root + "/zed/__init__.py", "import foo_bar\n" + BODY)
    w(root + "/fo.py", BODY)
    w(root + "/spyreg.py", "LOG = []\n")
    for k in ("A", "B", "C"):
        w(root + "/spy%s.py" % k, "import spyreg\n\ndef check(fn, *a, **k):\n    spyreg.LOG.append((getattr(fn, '__module__', None), getattr(fn, '__qualname__', None), %r))\n    return fn\n" % k)


def gen_history(rng):
    ops, nh, live = [], 0, []
    for _ in range(rng.choice([3, 4, 5, 6, 8])):
        r = rng.random()
        if r < .35 or not ops:
            names = list(rng.choice(NAMESETS))
            chk = rng.choice(["A", "B", "C", "A", None])
            ops.append(["install", names, chk, nh, rng.random() < .5]); live.append(nh); nh += 1
        elif r < .55 and nh:
            hid = rng.choice(range(nh))        # possibly already uninstalled: must be harmless
            ops.append(["uninstall", hid, rng.choice(["uninstall", "exit"])])
        else:
            ops.append(["import", rng.choice(MODULES)])
    ops.append(["import", rng.choice(MODULES)])
    return ops


CATALOGUE = [
    [["install", ["foo"], "A", 0, True], ["import", "foo"], ["import", "foobar"], ["import", "foo_bar"], ["import", "foo.bar.qux"], ["import", "fo"]],
    [["install", ["foo"], "A", 0, False], ["install", ["foo"], "B", 1, True], ["uninstall", 0, "uninstall"], ["import", "foo.a"]],
    [["install", ["foo"], "A", 0, True], ["install", ["foo"], "A", 1, True], ["import", "foo.a"], ["uninstall", 1, "exit"], ["import", "foo.bar"], ["uninstall", 0, "exit"], ["import", "foo.bar.qux"]],
    [["install", ["foo", "foo_bar", "foobar"], "A", 0, True], ["import", "foo"], ["import", "foo_bar"], ["import", "foobar.m"]],
    [["install", ["foobar", "foo"], "C", 0, True], ["import", "foobar"], ["import", "foo.a"]],
    [["install", ["foo"], None, 0, True], ["import", "foo.a"], ["uninstall", 0, "uninstall"], ["uninstall", 0, "uninstall"], ["import", "foo.bar"]],
    [["install", ["foo.bar"], "A", 0, True], ["install", ["foo"], "B", 1, True], ["import", "foo.bar.qux"], ["import", "zed"]],
    [["install", ["zed"], "A", 0, True], ["import", "zed"]],
    [["import", "foo"], ["install", ["foo"], "A", 0, True], ["import", "foo"], ["import", "foo.a"]],
]


def ops_coq(ops):
    out = []
    for op in ops:
        if op[0] == "install":
            out.append("(Install %s %s)" % (vf.coqlist(op[1], vf.coqstr), vf.coqopt(op[2], vf.coqstr)))
        elif op[0] == "uninstall":
            out.append("(Uninstall %d)" % op[1])
        else:
            out.append("(Import %s)" % vf.coqstr(op[1]))
    return "[" + "; ".join(out) + "]"


def reference(ops):
    """the property's statement, independently of the Coq model"""
    live, loaded = [], {}
    for op in ops:
        if op[0] == "install":
            live.insert(0, (op[3], op[1], op[2]))
        elif op[0] == "uninstall":
            live = [h for h in live if h[0] != op[1]]
        else:
            parts = op[1].split(".")
            for i in range(1, len(parts) + 1):
                m = ".".join(parts[:i])
                if m in loaded:
                    continue
                tag = "plain"
                for (_, names, chk) in live:
                    if any(m == n or m.split(".")[:len(n.split("."))] == n.split(".") for n in names):
                        tag = "hooked:%s" % chk; break
                loaded[m] = tag
                # nested imports performed by the module bodies
                for dep in {"foo.bar.qux": ["foo.a"], "zed": ["foo_bar"]}.get(m, []):
                    dparts = dep.split(".")
                    for j in range(1, len(dparts) + 1):
                        d = ".".join(dparts[:j])
                        if d not in loaded:
                            t2 = "plain"
                            for (_, names, chk) in live:
                                if any(d == n or d.split(".")[:len(n.split("."))] == n.split(".") for n in names):
                                    t2 = "hooked:%s" % chk; break
                            loaded[d] = t2
    return loaded


def expand_nested(ops):
    """make the nested imports explicit for the model (the module bodies import them right after being loaded...
    a nested import happens DURING the import of the importer, i.e. before any later operation)"""
    out = []
    for op in ops:
        out.append(op)
        if op[0] == "import":
            if op[1] == "foo.bar.qux":
                out.append(["import", "foo.a"])
            if op[1] == "zed":
                out.append(["import", "foo_bar"])
    return out


def main():
    R = vf.Report(PID)
    proved = R.proof_step()
    n = 700 if R.thorough else 55
    hists = list(CATALOGUE) + [gen_history(R.rng) for _ in range(n)]
    root = tempfile.mkdtemp(prefix="vfc11")
    try:
        make_forest(root)
        env = vf.impl_env()
        def run(ops):
            p = subprocess.run([vf.PY, os.path.join(vf.VERIF, "harness", "impl_hookscope.py"), root, json.dumps(ops)], capture_output=True, text=True, env=env, timeout=300, cwd=root)
            lines = [l for l in p.stdout.splitlines() if l.startswith("{")]
            if p.returncode != 0 or not lines:
                return {"error": (p.stderr or p.stdout)[-600:]}
            return json.loads(lines[-1])
        from concurrent.futures import ThreadPoolExecutor
        with ThreadPoolExecutor(12) as ex:
            results = list(ex.map(run, hists))
    finally:
        shutil.rmtree(root, ignore_errors=True)
    model = vf.coq_eval_strings(["model.HookScope"], "fun ops => show_loaded (hrun ops hs0)", [ops_coq(expand_nested(h)) for h in hists], shard=400)
    nontriv, samples = set(), []
    for ops, r, m in zip(hists, results, model):
        if "error" in r:
            R.violation("correspondence", "history could not be run: %s" % r["error"], {"ops": ops}, key={"kind": "run-error"}, no_input=True); continue
        want = reference(ops)
        got = r["loaded"]
        for mod in sorted(set(want) | set(got)):
            R.count("tag:" + str(got.get(mod, "?")).split(":")[0])
            if got.get(mod) != want.get(mod):
                R.violation("property", "after %s: module %s is %s, the documented rule says %s" % (json.dumps(ops), mod, got.get(mod), want.get(mod)), {"ops": ops, "module": mod, "got": got.get(mod), "expected": want.get(mod)},
                            key={"kind": "scope", "module": mod})
        mm = dict(x.split("=") for x in m.split(",")) if m else {}
        if mm != got:
            R.violation("correspondence", "model and implementation disagree after %s: impl %s, model %s" % (json.dumps(ops), got, mm), {"ops": ops, "impl": got, "model": mm}, key={"kind": "model"}, no_input=(got == want))
        if sum(1 for o in ops if o[0] == "install") >= 2:
            nontriv.add(json.dumps(ops))
        if len(samples) < 3 and len(ops) >= 5:
            samples.append({"ops": ops, "loaded": got})
    if not proved:
        R.violation("proof", "proof obligations of props/C11.v no longer check: " + str(R.broken_proof)[-800:],
                    {"theorem_file": "coq/props/C11.v", "log": R.broken_proof}, no_input=not any(v["kind"] == "property" for v in R.violations))
    R.coverage.update(evaluations=len(hists), distinct_nontrivial=len(nontriv), samples=samples,
                      rule="%d catalogue + %d PRNG histories of install(names, checker) / uninstall or with-exit (also of already removed hooks) / import over a generated forest (foo, foo.a, foo.bar, foo.bar.qux importing foo.a, foobar, foobar.m, foo_bar, zed importing foo_bar, fo), "
                           "each in a fresh interpreter; 3 spy typecheckers record which module's functions they were applied to, `None` checker detected through __wrapped__. Expected tags from an independent reference of the documented rule; model (Coq hrun) compared on the full sys.modules picture. non-trivial = history with >= 2 installs" % (len(CATALOGUE), n))
    R.assumptions += ["importlib itself is modelled (first matching finder in sys.meta_path; parents imported first)", "the pytest option and the IPython magic call install_import_hook with the given names (not exercised in this tier)"]
    sys.exit(R.finish())


if __name__ == "__main__":
    vf.guarded(PID, main)

"""C12 -- a check's verdict never depends on earlier, unrelated activity in the process."""
import json, os, sys
sys.path.insert(0, os.path.join(os.path.dirname(os.path.abspath(__file__)), "..", "lib"))
import vf

PID = "C12"
# op -> fault points it has (None = plain run only)
OPS = {"arr_acc": [None], "arr_rej": [None], "arr_unbound_symbolic": [None], "duck_shape": [None, "exc", "base"], "duck_dtype": [None, "exc", "base"],
       "pytree_flatten": [None, "exc", "base"], "pytree_flatten_structured": [None, "exc", "base"], "pytree_leaf": [None, "exc", "base"], "pytree_leaf_structured": [None, "exc", "base"],
       "pytree_annotation_error": [None], "pytree_reject_structured": [None], "pytree_question_leaf": [None], "pytree_symbolic_fault": [None, "exc", "base"], "symbolic_fault": [None, "exc", "base"],
       "call_body": [None, "exc", "base"], "call_body_old": [None, "exc", "base"], "call_illtyped": [None], "call_pytree_arg_fault": [None, "exc", "base"], "call_checker_fault": [None, "exc", "base"],
       "context_block_fault": [None, "exc", "base"], "old_style_generator": [None], "old_style_generator_twin": [None], "reentered_context_object": [None, "exc", "base"], "decorate_inside_call": [None, "exc", "base"], "pytree_union_other_order": [None], "struct_dtype_other_spelling": [None], "generator_suspended": [None, "exc", "base"], "generator_handed_over": [None], "concurrent_flatten": [None], "decorate_other": [None], "pickle": [None], "hook": [None]}
EXPECT = {"path": None, "flat": False, "depth": 0, "bindings": "", "P1_wrong_dtype_rejected": False, "P2_question_outside_raises": "AnnotationError", "P3_structured_pytree": True,
          "P4_alias_rejects_wrong_dtype": False, "P5_alias_rejects_wrong_rank": False, "P6_stateless_toplevel": [True, True], "P7_early_function_rejects_wrong_dtype": "X:TypeCheckError", "P8_union_members_in_written_order": [True, False, True], "P9_struct_dtype_exact_spelling": [True, False]}


def main():
    R = vf.Report(PID)
    proved = R.proof_step()
    hists = []
    # exhaustive single-fault catalogue: every op x every fault x checker x inside/outside a context
    for op, faults in OPS.items():
        for f in faults:
            for chk in (("typeguard", "beartype") if op.startswith("call") or op in ("old_style_generator", "old_style_generator_twin", "decorate_inside_call", "decorate_other", "generator_suspended", "generator_handed_over") else ("typeguard",)):
                for ctx in (False, True):
                    hists.append([{"op": op, "fault": f, "checker": chk, "ctx": ctx}])
    ncat = len(hists)
    allops = [(op, f) for op, fs in OPS.items() for f in fs]
    for _ in range(40000 if R.thorough else 150):
        h = []
        for _ in range(R.rng.choice([2, 3, 4, 6, 8])):
            op, f = R.rng.choice(allops)
            h.append({"op": op, "fault": f, "checker": R.rng.choice(["typeguard", "beartype"]), "ctx": R.rng.random() < .3})
        hists.append(h)
    # at most 250 histories per worker process: every exception that escapes a pytree flatten callback leaks one level of
    # jaxlib's recursion counter (after ~1000 of them EVERY flatten in the process raises RecursionError -- jaxlib's, not
    # jaxtyping's), so a worker must not live long
    per = 250
    chunks = [hists[i:i + per] for i in range(0, len(hists), per)]
    from concurrent.futures import ThreadPoolExecutor
    with ThreadPoolExecutor(8) as ex:
        outs = list(ex.map(lambda kc: vf.impl("impl_hist.py", {"histories": kc[1]}, timeout=3000, bg=(kc[0] % 3 == 1)), list(enumerate(chunks))))
    res = [r for o in outs for r in o]
    nontriv, samples = set(), []
    for i, (h, r) in enumerate(zip(hists, res)):
        for o, oc in zip(h, r["ops"]):
            R.count("op-outcome:" + oc.split(":")[0])
        for o, oc in zip(h, r["ops"]):
            if o["op"] == "decorate_inside_call" and not o["fault"] and oc != "ok:True":
                R.violation("property", "decorating functions inside an active jaxtyped call changed what that call's own checks answer: %s (expected ok:True; the annotations' structure name and axes were unbound) after %s" % (
                    oc, [x["op"] for x in h]), {"history": h, "outcomes": r["ops"]}, key={"kind": "decorate-inside-call", "checker": o.get("checker")})
        bad = {k: v for k, v in r["probes"].items() if v != EXPECT[k]}
        if bad:
            names = [("%s(%s)" % (o["op"], o["fault"]) if o["fault"] else o["op"]) + ("@ctx" if o["ctx"] else "") for o in h]
            gen_alias = any(o["op"] == "old_style_generator" for o in h)
            R.violation("property", "after the history %s (outcomes %s) the probes give %s; expected %s" % (names, r["ops"], bad, {k: EXPECT[k] for k in bad}),
                        {"history": h, "outcomes": r["ops"], "probes": r["probes"], "unexpected": bad},
                        key={"kind": "probe", "probes": ",".join(sorted(bad)), "has_old_style_generator": gen_alias})
        if any(o["fault"] for o in h):
            nontriv.add(json.dumps(h))
        if len(samples) < 3 and i >= ncat and len(h) >= 4:
            samples.append({"history": h, "outcomes": r["ops"], "probes": r["probes"]})
    # the statements the translator cut out of the source, run by CPython with scripted stand-ins, against their translation
    # interpreted inside Coq (lib/storage_corr.py)
    import storage_corr
    R.coverage["source_fragment_cases"] = storage_corr.fragment_correspondence(R, ['flatten'], 600 if R.thorough else 60)
    if not proved:
        R.violation("proof", "proof obligations of props/C12.v no longer check: " + str(R.broken_proof)[-800:],
                    {"theorem_file": "coq/props/C12.v", "log": R.broken_proof}, no_input=not any(v["kind"] == "property" for v in R.violations))
    R.level = "proof"
    R.coverage.update(evaluations=len(hists), distinct_nontrivial=len(nontriv), samples=samples, exhaustive=True,
                      exhaustive_part="single-fault catalogue: %d operations x their fault points (array .shape / .dtype, custom PyTree flattener, leaf __instancecheck__, symbolic expression, wrapped body, typechecker, context-block body) x {Exception, BaseException} x typechecker x inside/outside a context = %d histories" % (len(OPS), ncat),
                      rule="exhaustive single-fault catalogue + %d PRNG histories (length 2-8) of public-API operations, then the probes: flags (leaf position, flatten mode, context depth, print_bindings), wrong dtype must be rejected, '?' outside a PyTree must raise, a structured PyTree check must answer, "
                           "an annotation object shared with the history must still reject wrong dtype / rank, top-level checks stateless. non-trivial = history containing a fault" % (len(hists) - ncat))
    sys.exit(R.finish())


if __name__ == "__main__":
    vf.guarded(PID, main)

"""Run ONE history of install / uninstall / import operations in this fresh interpreter over a package forest.
argv: forest_dir ops_json.  Prints one JSON line: {"loaded": {module: "plain"|"hooked:<K>"|"hooked:None"}, "meta": n}"""
import importlib, json, sys, os


def main():
    forest, ops = sys.argv[1], json.loads(sys.argv[2])
    sys.path.insert(0, forest)
    sys.dont_write_bytecode = not (len(sys.argv) > 3 and sys.argv[3] == "bytecode")
    import spyreg                       # records (module, qualname, spy id) for every function a spy typechecker is applied to
    from jaxtyping import install_import_hook
    handles = {}
    order = []
    for op in ops:
        if op[0] == "install":
            chk = None if op[2] is None else "spy%s.check" % op[2]
            handles[op[3]] = install_import_hook(op[1] if len(op[1]) != 1 or op[4] else op[1][0], chk)
        elif op[0] == "uninstall":
            h = handles.get(op[1])
            if h is not None:
                if op[2] == "exit":
                    h.__exit__(None, None, None)
                else:
                    h.uninstall()
        elif op[0] == "import_missing":
            try:
                importlib.import_module(op[1])
                print(json.dumps({"error": "import %s succeeded although its directory is not on sys.path yet" % op[1]})); return
            except ImportError:
                pass
        elif op[0] == "addpath":
            sys.path.append(os.path.join(forest, "_late"))
        elif op[0] == "import":
            try:
                importlib.import_module(op[1])
            except Exception as e:  # noqa
                print(json.dumps({"error": "import %s failed: %s: %s" % (op[1], type(e).__name__, e)})); return
    loaded = {}
    for name, mod in sorted(sys.modules.items()):
        if name.split(".")[0] in ("foo", "foobar", "foo_bar", "zed", "fo", "imp2", "addon", "addpkg"):
            f = getattr(mod, "f", None)
            if f is None:
                continue
            wrapped = hasattr(f, "__wrapped__")
            who = sorted({k for (m, q, k) in spyreg.LOG if m == name})
            if not wrapped:
                loaded[name] = "plain" if not who else "plain-but-spied:%s" % who
            else:
                loaded[name] = "hooked:%s" % (who[0] if len(who) == 1 else "None" if not who else who)
            # behaviour: an instrumented function checks, a plain one does not
    import sys as _s
    n_meta = sum(1 for h in _s.meta_path if type(h).__name__ == "_JaxtypingFinder")
    print(json.dumps({"loaded": loaded, "meta": n_meta}))


if __name__ == "__main__":
    main()

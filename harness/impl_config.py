"""Implementation-side worker for C19 (switches).  JSON in, JSON out (last line)."""
import json, sys, io, contextlib, os, subprocess, warnings, dataclasses, typing


def decode(v):
    if isinstance(v, dict):
        k = v["py"]
        return {"True": True, "False": False, "None": None, "int0": 0, "int1": 1, "int2": 2, "float1": 1.0, "bytes1": b"1", "list": ["1"]}[k]
    return v


def outcome_of(fn, *a, **k):
    try:
        r = fn(*a, **k)
        return ("ret", repr(type(r).__name__), r)
    except BaseException as e:  # noqa
        return ("exc", type(e).__name__, None)


def main():
    req = json.load(sys.stdin)
    out = {}
    buf = io.StringIO()
    with contextlib.redirect_stdout(buf), warnings.catch_warnings():
        warnings.simplefilter("ignore")
        import numpy as np
        import jaxtyping
        from jaxtyping import config, jaxtyped, Float
        from jaxtyping._storage import get_shape_memo
        import typeguard, beartype
        # ---- switch table
        tab = []
        for item in ("jaxtyping_disable", "JAXTYPING_DISABLE", "jaxtyping_remove_typechecker_stack"):
            for v in req["values"]:
                config.update("jaxtyping_disable", False); config.update("jaxtyping_remove_typechecker_stack", False)
                try:
                    config.update(item, decode(v))
                    tab.append(repr(getattr(config, item.lower())))
                except ValueError:
                    tab.append("ValueError")
                except BaseException as e:  # noqa
                    tab.append("Other:" + type(e).__name__)
        config.update("jaxtyping_disable", False); config.update("jaxtyping_remove_typechecker_stack", False)
        try:
            config.update("no_such_item", True); unknown = "accepted"
        except ValueError:
            unknown = "ValueError"
        except BaseException as e:  # noqa
            unknown = "Other:" + type(e).__name__
        out["table"], out["unknown_item"] = tab, unknown

        # ---- callables
        A = np.ndarray
        good = (np.zeros((2, 3), "float32"), np.zeros((3,), "float32"))
        bad = (np.zeros((2, 3), "float32"), np.zeros((4,), "float32"))

        FLIP = [None]         # when set: the function body itself flips the switch to this value (a decorated `set_checking` helper)

        def mk_plain():
            calls = []

            def f(x: Float[A, "a b"], y: Float[A, "b"]) -> Float[A, "a"]:
                if FLIP[0] is not None:
                    config.update("jaxtyping_disable", FLIP[0])
                calls.append((id(x), id(y)))
                try:
                    inner = isinstance(np.zeros((7,), "float32"), Float[A, "a"])     # manual check inside the body
                except Exception as e:
                    inner = type(e).__name__
                calls.append(("inner", inner, sorted(get_shape_memo()[0].items())))
                return x.sum(axis=1) if x.shape[1] == y.shape[0] else x
            return f, calls

        kinds = {}
        for tcn, tc in (("typeguard", typeguard.typechecked), ("beartype", beartype.beartype)):
            def new(tc=tc):
                f, calls = mk_plain(); return jaxtyped(typechecker=tc)(f), f, calls
            def ntc_above(tc=tc):
                f, calls = mk_plain(); return typing.no_type_check(jaxtyped(typechecker=tc)(f)), f, calls
            def ntc_below(tc=tc):
                f, calls = mk_plain(); g = typing.no_type_check(f); return jaxtyped(typechecker=tc)(g), f, calls
            def method(tc=tc):
                f, calls = mk_plain()
                class C:
                    @jaxtyped(typechecker=tc)
                    def m(self, x: Float[A, "a b"], y: Float[A, "b"]) -> Float[A, "a"]:
                        return f(x, y)
                c = C(); return c.m, f, calls
            def dc(tc=tc):
                @jaxtyped(typechecker=tc)
                @dataclasses.dataclass
                class D:
                    x: Float[A, "a b"]
                    y: Float[A, "b"]
                @dataclasses.dataclass
                class P:
                    x: object
                    y: object
                return D, P, None
            def none_over_wrapper(tc=tc):
                # jaxtyped(typechecker=None) stacked on an ORDINARY decorator (functools.wraps, changes the result): switched off, the stack
                # still behaves like the stack without jaxtyped
                import functools
                f, calls = mk_plain()
                def doubling(fn):
                    @functools.wraps(fn)
                    def w(*a, **k):
                        return fn(*a, **k) * 2 + 1
                    return w
                return jaxtyped(typechecker=None)(doubling(f)), doubling(f), calls
            kinds["none_over_wrapper-" + tcn] = none_over_wrapper
            def old(tc=tc):
                f, calls = mk_plain(); return jaxtyped(tc(f)), f, calls          # the legacy spelling @jaxtyped @typechecker
            def none(tc=tc):
                f, calls = mk_plain(); return jaxtyped(typechecker=None)(f), f, calls
            kinds["old-" + tcn] = old
            if tcn == "typeguard":
                kinds["none-plain"] = none
            kinds["new-" + tcn] = new; kinds["ntc_above-" + tcn] = ntc_above; kinds["ntc_below-" + tcn] = ntc_below
            kinds["method-" + tcn] = method; kinds["dataclass-" + tcn] = dc

        from jaxtyping._storage import _shape_storage

        def compare(wrapped, plain, args, calls, flip=False):
            initial = bool(config.jaxtyping_disable)
            depth0 = len(getattr(_shape_storage, "memo_stack", []))
            n0 = len(calls) if calls is not None else 0
            FLIP[0] = (not initial) if flip else None
            a = outcome_of(wrapped, *args)
            config.update("jaxtyping_disable", initial)
            depth1 = len(getattr(_shape_storage, "memo_stack", []))
            encl = sorted(get_shape_memo()[0].items()) if depth1 else None
            wcalls = list(calls[n0:]) if calls is not None else []
            n1 = len(calls) if calls is not None else 0
            b = outcome_of(plain, *args)
            config.update("jaxtyping_disable", initial)
            FLIP[0] = None
            pcalls = list(calls[n1:]) if calls is not None else []
            same = a[:2] == b[:2]
            if a[0] == "ret" and dataclasses.is_dataclass(a[2]):
                same = (b[0] == "ret") and all(getattr(a[2], k) is getattr(b[2], k) for k in ("x", "y"))
            elif a[0] == "ret" and b[0] == "ret":
                same = same and np.array_equal(a[2], b[2])
            return {"wrapped": a[:2], "plain": b[:2], "same": bool(same), "depth": [depth0, depth1], "enclosing": encl,
                    "body_runs_wrapped": sum(1 for x in wcalls if x[0] != "inner"), "body_runs_plain": sum(1 for x in pcalls if x[0] != "inner"),
                    "inner_wrapped": [(x[1], x[2]) for x in wcalls if x[0] == "inner"], "inner_plain": [(x[1], x[2]) for x in pcalls if x[0] == "inner"]}

        res = []
        for sched in req["schedules"]:
            for kname, mk in kinds.items():
                config.update("jaxtyping_disable", False)
                decorated_under = sched.get("decorate_disabled", False)
                config.update("jaxtyping_disable", decorated_under)
                wrapped, plain, calls = mk()
                config.update("jaxtyping_disable", False)
                steps = []
                for op in sched["ops"]:
                    if op[0] == "set":
                        config.update("jaxtyping_disable", decode(op[1])); steps.append(None); continue
                    args = good if op[1] == "good" else bad
                    def do_call(box):
                        with jaxtyped("context"):
                            # an enclosing context that binds a=9: a transparent call must see it from a manual check
                            isinstance(np.zeros((9,), "float32"), Float[A, "a"])
                            box.append(compare(wrapped, plain, args, calls, flip=(len(op) > 2 and op[2] == "flip")))
                    box = []
                    if len(op) > 2 and op[2] == "thread":
                        # the call is made from ANOTHER thread, started after the last toggle: the switch is process-wide
                        import threading
                        th = threading.Thread(target=do_call, args=(box,)); th.start(); th.join()
                    else:
                        do_call(box)
                    c = box[0] if box else {"wrapped": ["thread-died"], "plain": ["?"], "same": False, "body_runs_wrapped": 0, "body_runs_plain": 0, "inner_wrapped": [], "inner_plain": []}
                    c["flag"] = bool(config.jaxtyping_disable)
                    c["thread"] = len(op) > 2 and op[2] == "thread"
                    steps.append(c)
                res.append({"kind": kname, "steps": steps})
        config.update("jaxtyping_disable", False)
        out["behaviour"] = res

        # ---- a module loaded through the import hook, imported while the switch is on or off
        import tempfile, shutil, importlib
        from jaxtyping import install_import_hook
        hd = tempfile.mkdtemp(prefix="vfc19h")
        sys.path.insert(0, hd)
        sys.dont_write_bytecode = True
        SRC = ("import numpy as np\nfrom jaxtyping import Float\nA = np.ndarray\n\n"
               "def f(x: Float[A, 'a b'], y: Float[A, 'b']) -> Float[A, 'a']:\n    return x.sum(axis=1) if x.shape[1] == y.shape[0] else x\n")
        hooked = []
        try:
            k = 0
            for tcn in ("typeguard.typechecked", "beartype.beartype"):
                for at_import in (True, False):
                    k += 1
                    hn, pn = "c19hook%d" % k, "c19plain%d" % k
                    for nm in (hn, pn):
                        open(os.path.join(hd, nm + ".py"), "w").write(SRC)
                    config.update("jaxtyping_disable", at_import)
                    with install_import_hook(hn, tcn):
                        hm = importlib.import_module(hn)
                    pm = importlib.import_module(pn)
                    steps = []
                    for flag in ([True, False, True, False] if at_import else [False, True, False]):
                        config.update("jaxtyping_disable", flag)
                        for nm, args in (("good", good), ("bad", bad)):
                            a = outcome_of(hm.f, *args); b = outcome_of(pm.f, *args)
                            same = a[:2] == b[:2] and (a[0] != "ret" or np.array_equal(a[2], b[2]))
                            steps.append({"flag": flag, "args": nm, "wrapped": a[:2], "plain": b[:2], "same": bool(same)})
                    hooked.append({"checker": tcn, "disabled_at_import": at_import, "steps": steps})
        finally:
            config.update("jaxtyping_disable", False)
            sys.path.remove(hd)
            shutil.rmtree(hd, ignore_errors=True)
        out["hooked"] = hooked
    # ---- environment variable, fresh interpreters
    envres = []
    for v in req.get("env_values", []):
        env = dict(os.environ); env["JAXTYPING_DISABLE"] = v
        p = subprocess.run([sys.executable, "-c", "import jaxtyping; print('VAL', jaxtyping.config.jaxtyping_disable)"], env=env, capture_output=True, text=True)
        if p.returncode == 0:
            envres.append(p.stdout.strip().split("VAL ")[-1])
        else:
            envres.append("ValueError" if "ValueError" in p.stderr else "Other")
    out["env"] = envres
    # the environment variable and config.update() in sequence: the LAST writer wins, in both directions
    PROG = ("import numpy as np, jaxtyping, typeguard\nfrom jaxtyping import config, jaxtyped, Float\n"
            "@jaxtyped(typechecker=typeguard.typechecked)\ndef f(x: Float[np.ndarray, 'a'], y: Float[np.ndarray, 'a']):\n    return 0\n"
            "def t():\n    try:\n        f(np.zeros(2, 'float32'), np.zeros(3, 'float32')); return 'returns'\n    except Exception as e:\n        return type(e).__name__\n"
            "r = [config.jaxtyping_disable, t()]\nconfig.update('jaxtyping_disable', %s)\nr += [config.jaxtyping_disable, t()]\n"
            "config.update('jaxtyping_disable', %s)\nr += [config.jaxtyping_disable, t()]\nprint('SEQ', r)\n")
    seq = []
    for v, first, second in (("1", "False", "True"), ("true", "'0'", "'TRUE'"), ("0", "True", "False"), ("", "True", "'false'")):
        env = dict(os.environ)
        if v:
            env["JAXTYPING_DISABLE"] = v
        else:
            env.pop("JAXTYPING_DISABLE", None)
        p = subprocess.run([sys.executable, "-c", PROG % (first, second)], env=env, capture_output=True, text=True)
        line = [l for l in p.stdout.splitlines() if l.startswith("SEQ ")]
        seq.append({"env": v, "updates": [first, second], "got": line[-1][4:] if line else "X:" + p.stderr[-200:]})
    out["env_then_update"] = seq
    print(json.dumps(out))


if __name__ == "__main__":
    main()

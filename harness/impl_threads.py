"""C06 worker: deterministic thread schedules on the real code (sys.settrace at line granularity inside jaxtyping's files).
JSON in {"schedules": [[workload names], [tid...]]...}; out per schedule: {"out": [...per thread transcript...], "solo": [...], "steps": n}"""
import sys, threading, json, io, contextlib, warnings


def main():
    req = json.load(sys.stdin)
    import numpy as np
    import jax.tree_util as jtu
    import typeguard
    import jaxtyping, jaxtyping._storage as st, jaxtyping._array_types as at, jaxtyping._pytree_type as pt, jaxtyping._decorator as dc
    from jaxtyping import Float, Int, PyTree, jaxtyped, print_bindings, AnnotationError
    warnings.simplefilter("ignore")
    A = np.ndarray
    FILES = {m.__file__ for m in (st, at, pt, dc)}

    class Node:
        def __init__(self, *cs):
            self.cs = list(cs)
    jtu.register_pytree_node(Node, lambda n: (n.cs, None), lambda aux, cs: Node(*cs))

    # annotation objects SHARED by all threads (module-level aliases, as in real code): transient check state must not live on them
    SH_A, SH_ABC, SH_AB, SH_ACC = Float[A, "a"], Float[A, "a b c"], Float[A, "a b"], Float[A, "a c c"]
    SH_QB, SH_QQ, SH_IA = Float[A, "?b"], Float[A, "?q"], Int[A, "a"]
    PT_A_T, PT_QB_T, PT_QQ_S, PT_IA = PyTree[SH_A, "T"], PyTree[SH_QB, "T"], PyTree[SH_QQ, "S"], PyTree[SH_IA]

    # print_bindings() writes to sys.stdout; contextlib.redirect_stdout swaps that GLOBAL and is not usable from threads that are
    # preempted in the middle of it: route per thread instead
    _tl = threading.local()
    _real = sys.stdout

    class Router:
        def write(self, txt):
            b = getattr(_tl, "buf", None)
            return b.write(txt) if b is not None else _real.write(txt)

        def flush(self):
            _real.flush()
    sys.stdout = Router()

    def B():
        _tl.buf = io.StringIO()
        try:
            print_bindings()
            return _tl.buf.getvalue().strip().replace("\n", ";")
        finally:
            _tl.buf = None

    def safe(f):
        try:
            return f()
        except AnnotationError:
            return "AnnotationError"
        except BaseException as e:  # noqa
            return "EXC:" + type(e).__name__

    def wl_pytree():
        res = []
        with jaxtyped("context"):
            res.append(safe(lambda: isinstance((np.zeros(3), Node(np.zeros(3))), PT_A_T)))
            res.append(safe(lambda: isinstance((np.zeros(4), Node(np.zeros(3))), PT_QB_T)))
            res.append(safe(lambda: isinstance(np.zeros(5), SH_A)))
            res.append(B())
        res.append(B())
        return res

    def wl_array():
        res = []
        with jaxtyped("context"):
            res.append(safe(lambda: isinstance(np.zeros((2, 2), dtype=np.int32), SH_ABC)))   # must be False
            res.append(safe(lambda: isinstance(np.zeros(7), SH_A)))
            res.append(safe(lambda: isinstance(np.zeros(8), SH_A)))
            res.append(safe(lambda: isinstance(np.zeros((7, 2)), SH_AB)))
            res.append(safe(lambda: isinstance(np.zeros((7, 3)), SH_ACC)))               # fails after partial progress: rollback
            res.append(safe(lambda: (isinstance(np.zeros((7, 7)), SH_A), isinstance(np.zeros(7, dtype=np.int32), SH_A), isinstance(np.zeros(7), SH_IA))))   # wrong rank / dtype: all False
            res.append(B())
        res.append(safe(lambda: isinstance(np.zeros(3), SH_QQ)))                             # must raise
        return res

    @jaxtyped(typechecker=typeguard.typechecked)
    def callee(x: Float[A, "n m"], y: Float[A, "m"]) -> Float[A, "n"]:
        return x @ y

    def wl_calls():
        res = []
        res.append(safe(lambda: callee(np.zeros((2, 3)), np.zeros(3)).shape))
        res.append(safe(lambda: callee(np.zeros((2, 3)), np.zeros(4)).shape))        # must raise TypeCheckError
        res.append(safe(lambda: callee(np.zeros((5, 1)), np.zeros(1)).shape))
        res.append(B())
        res.append(safe(lambda: (isinstance(np.zeros(3), Float[A, "k"]), isinstance(np.zeros(4), Float[A, "k"]))))   # stateless outside
        return res

    def wl_question():
        res = []
        with jaxtyped("context"):
            res.append(safe(lambda: isinstance((np.zeros(3), np.zeros(4)), PT_QQ_S)))
            res.append(safe(lambda: isinstance((np.zeros(3), np.zeros(5)), PT_QQ_S)))
            res.append(safe(lambda: isinstance({"k": np.zeros(2)}, PT_IA)))
            res.append(B())
        return res

    SH_M = Float[A, "m"]

    def wl_nested():
        # context blocks nested two deep: the inner one is entered while this thread's context stack already has a frame
        res = []
        with jaxtyped("context"):
            res.append(safe(lambda: isinstance(np.zeros(5), SH_M)))
            with jaxtyped("context"):
                res.append(safe(lambda: isinstance(np.zeros(6), SH_M)))
                res.append(B())
            res.append(safe(lambda: isinstance(np.zeros(6), SH_M)))        # back in the outer block: m=5, so False
            res.append(B())
        res.append(B())
        res.append(safe(lambda: (isinstance(np.zeros(3), SH_M), isinstance(np.zeros(4), SH_M))))
        return res

    SH_ABA, SH_AA, SH_BAB = Float[A, "a *b a"], Float[A, "a a"], Float[A, "b a b"]

    def wl_toplevel():
        # checks OUTSIDE every context: each one starts from no bindings and must not see another thread's half-made ones;
        # annotations that use a name twice, so that a single check reads back what it has just bound
        res = []
        res.append(safe(lambda: isinstance(np.zeros((3, 5, 3)), SH_ABA)))
        res.append(safe(lambda: isinstance(np.zeros((3, 5, 4)), SH_ABA)))
        res.append(safe(lambda: isinstance(np.zeros((4, 4)), SH_AA)))
        res.append(safe(lambda: isinstance(np.zeros((4, 5)), SH_AA)))
        res.append(safe(lambda: isinstance(np.zeros((2, 4, 2)), SH_BAB)))
        res.append(safe(lambda: isinstance(np.zeros((2, 4, 3)), SH_BAB)))
        res.append(B())
        return res

    WL = {"pytree": wl_pytree, "array": wl_array, "calls": wl_calls, "question": wl_question, "nested": wl_nested, "toplevel": wl_toplevel}

    class Sched:
        def __init__(self, n, schedule):
            self.sems = [threading.Semaphore(0) for _ in range(n)]
            self.ctl = threading.Semaphore(0)
            self.done = [False] * n
            self.schedule = list(schedule); self.steps = 0

        def tracer(self, tid):
            def local(frame, event, arg):
                if event == "line" and frame.f_code.co_filename in FILES:
                    self.ctl.release(); self.sems[tid].acquire()
                return local

            def glob(frame, event, arg):
                return local if frame.f_code.co_filename in FILES else None
            return glob

        def worker(self, tid, fn, out):
            self.sems[tid].acquire()
            sys.settrace(self.tracer(tid))
            try:
                out[tid] = fn()
            except BaseException as e:  # noqa
                out[tid] = "EXC:" + type(e).__name__
            finally:
                sys.settrace(None); self.done[tid] = True; self.ctl.release()

        def run(self, fns, owner_open=False):
            # owner_open: the threads are created and run while the MAIN thread is inside its own context block holding
            # bindings of the very names the workloads use (sizes no workload uses); the main thread's bindings must be the
            # same afterwards and no worker may see them
            if owner_open:
                with jaxtyped("context"):
                    isinstance(np.zeros(11), SH_A); isinstance(np.zeros(13), SH_M); isinstance(np.zeros((11, 17)), Float[A, "a n"]); isinstance(np.zeros((19,)), Float[A, "k"])
                    isinstance((np.zeros(11), np.zeros(11)), PT_A_T)
                    before = B()
                    out = self.run(fns)
                    self.owner = [before, B()]
                return out
            n = len(fns); out = [None] * n
            # every thread starts from a COPY of the main thread's contextvars context, taken after the main thread has already
            # used jaxtyping (the solo runs below): what asyncio.to_thread / copy_context().run do
            import contextvars
            ths = [threading.Thread(target=contextvars.copy_context().run, args=(self.worker, i, f, out)) for i, f in enumerate(fns)]
            for t in ths:
                t.start()
            cur = 0
            while not all(self.done):
                cand = self.schedule.pop(0) % n if self.schedule else cur
                while self.done[cand]:
                    cand = (cand + 1) % n
                cur = cand; self.steps += 1
                self.sems[cur].release(); self.ctl.acquire()
            for t in ths:
                t.join()
            return out
    solo = {k: f() for k, f in WL.items()}
    res = []
    for si, (names, schedule) in enumerate(req["schedules"]):
        s = Sched(len(names), schedule)
        s.owner = None
        out = s.run([WL[n] for n in names], owner_open=(si % 2 == 1))
        res.append({"out": out, "solo": [solo[n] for n in names], "steps": s.steps, "owner": s.owner})
    sys.stdout = _real
    sys.stdout.write(json.dumps(res) + "\n")


if __name__ == "__main__":
    main()

"""C09 -- PyTree structure names bind, compose, prefix and suffix exactly as documented."""
import json, os, re, sys
sys.path.insert(0, os.path.join(os.path.dirname(os.path.abspath(__file__)), "..", "lib"))
import vf, gen_trees as T

PID = "C09"
IDENT = re.compile(r"[A-Za-z_][A-Za-z0-9_]*\Z")


def leaf(rng):
    return ["i", 0]


def tstep(structure, value, leaf="int"):
    return {"kind": "tree", "leaf": leaf, "structure": structure, "value": value}


def spec_valid(s):
    """the documented rule for structure strings"""
    toks = s.split()
    if toks and toks[0] == "..." and (len(toks) == 1 or toks[-1] != "..."):
        toks = toks[1:]
    elif toks and toks[-1] == "...":
        toks = toks[:-1]
    return len(toks) > 0 and all(IDENT.match(t) for t in toks)


# independent reference of the four forms on JSON trees (not the Coq model, not jaxtyping)
def struct(x):
    k = x[0]
    if k in ("t", "l", "C"):
        return (k, None, tuple(struct(c) for c in x[1]))
    if k == "d":
        ks = tuple(sorted(x[1]))
        return ("d", ks, tuple(struct(x[1][kk]) for kk in ks))
    if k == "n":
        return ("n", None, ())
    if k == "N":
        return ("N" + x[1], None, tuple(struct(c) for c in x[2]))
    return ("*",)


def compose(u, t):
    return t if u == ("*",) else (u[0], u[1], tuple(compose(c, t) for c in u[2]))


def is_prefix(p, x):
    if p == ("*",):
        return True
    if x == ("*",):
        return False
    return p[0] == x[0] and p[1] == x[1] and len(p[2]) == len(x[2]) and all(is_prefix(a, b) for a, b in zip(p[2], x[2]))


def suffix(t, x):
    if x == t:
        return True
    if x == ("*",):
        return False
    return all(suffix(t, c) for c in x[2])


def expected(form, t, s, x):
    if x == ["n"]:
        return "acc"
    if t == ["n"] and "T" in form.split():
        return "raise:AnnotationError" if form != "T" else None      # T never bound (top-level None binds nothing)
    if s == ["n"] and "S" in form.split():
        return "raise:AnnotationError"
    st, ss, sx = struct(t), struct(s), struct(x)
    if "U" in form.split():
        return "raise:AnnotationError"
    r = {"T": lambda: sx == st, "S T": lambda: sx == compose(ss, st), "T S": lambda: sx == compose(st, ss), "T T": lambda: sx == compose(st, st),
         "T S T": lambda: sx == compose(st, compose(ss, st)),
         "T ...": lambda: is_prefix(st, sx), "... T": lambda: suffix(st, sx), "S T ...": lambda: is_prefix(compose(ss, st), sx),
         "... S T": lambda: suffix(compose(ss, st), sx), "T T ...": lambda: is_prefix(compose(st, st), sx), "... T T": lambda: suffix(compose(st, st), sx)}[form]()
    return "acc" if r else "rej"


FORMS = ["T", "S T", "T S", "T T", "T S T", "T ...", "... T", "S T ...", "... S T", "T T ...", "... T T", "U T", "T U ..."]


def gen_case(rng):
    t, s = T.gen_tree(rng, 2, leaf), T.gen_tree(rng, 2, leaf)
    form = rng.choice(FORMS)
    r = rng.random()
    if r < .5:
        f = form.replace("...", "").split()
        def build(names):
            if not names:
                return None
            cur = {"T": t, "S": s}.get(names[-1])
            if cur is None:
                return None
            for nm in reversed(names[:-1]):
                base = {"T": t, "S": s}.get(nm)
                if base is None:
                    return None
                inner = cur
                cur = T.fill(base, lambda: inner)
            return cur
        base = build(f)
        if base is None:
            x = T.gen_tree(rng, 3, leaf)
        elif form.endswith("..."):
            x = T.fill(base, lambda: T.gen_tree(rng, 1, leaf))
        elif form.startswith("..."):
            x = T.fill(T.gen_tree(rng, 2, leaf), lambda: base)
        else:
            x = base
        if rng.random() < .25:      # perturb: near misses
            x = rng.choice([["t", [x]], ["l", [x, ["i", 0]]], T.fill(x, lambda: ["t", [["i", 0]]]), ["t", [x, ["n"]]]])
    else:
        x = T.gen_tree(rng, 3, leaf)
    return t, s, form, x


def main():
    R = vf.Report(PID)
    proved = R.proof_step()
    n = 60000 if R.thorough else 1500
    cases = [(["t", [["i", 0], ["i", 0]]], ["d", {"k": ["i", 0]}], "S T", ["d", {"k": ["t", [["i", 0], ["i", 0]]]}]),
             (["t", [["i", 0], ["i", 0]]], ["d", {"k": ["i", 0]}], "T S", ["d", {"k": ["t", [["i", 0], ["i", 0]]]}]),
             (["t", [["i", 0], ["i", 0]]], ["i", 0], "... T", ["d", {"w": ["t", [["i", 0], ["i", 0]]], "b": ["n"]}]),
             (["t", [["i", 0], ["i", 0]]], ["i", 0], "... T", ["t", [["t", [["i", 0], ["i", 0]]], ["t", []]]]),
             (["i", 0], ["i", 0], "... T", ["t", [["i", 0], ["t", []]]]),
             (["t", []], ["i", 0], "... T", ["t", [["n"], ["t", []]]]), (["n"], ["i", 0], "T ...", ["i", 0]),
             (["t", [["i", 0]]], ["i", 0], "T T", ["t", [["i", 0]]]), (["t", [["i", 0]]], ["i", 0], "T T", ["t", [["t", [["i", 0]]]]]),
             (["t", [["i", 0]]], ["l", [["i", 0]]], "T S T", ["t", [["l", [["t", [["i", 0]]]]]]]),
             (["t", [["i", 0], ["i", 0]]], ["i", 0], "T ...", ["t", [["l", []], ["d", {"a": ["i", 0]}]]]),
             (["t", [["i", 0], ["i", 0]]], ["i", 0], "T ...", ["l", [["i", 0], ["i", 0]]]),
             (["N", "P", [["i", 0], ["i", 0]]], ["i", 0], "T", ["t", [["i", 0], ["i", 0]]]),
             (["d", {"a": ["i", 0], "b": ["i", 0]}], ["i", 0], "T", ["d", {"b": ["i", 0], "a": ["i", 0]}]),
             (["t", []], ["i", 0], "T", ["n"]), (["t", []], ["i", 0], "T", ["l", []])]
    ncorp = len(cases)
    cases += [gen_case(R.rng) for _ in range(n)]
    sessions = [{"nocontext": False, "steps": [tstep("T", t), tstep("S", s), tstep(form, x)]} for (t, s, form, x) in cases]
    # in an eighth of the cases the candidate is checked with the leaf type Tuple[int, int] and every leaf of x is the tuple (1, 2): values
    # that JAX would treat as NODES are leaves here, so the candidate's structure is still that of x (the names were bound with int leaves)
    TL = ["tuple", ["int", "int"]]
    # the candidate value (1, 2) is ONE leaf under Tuple[int, int] (structure *), whatever JAX would make of the raw tuple
    for (t0, form0) in ((["t", [["i", 0], ["i", 0]]], "T ..."), (["t", [["i", 0], ["i", 0]]], "T"), (["i", 0], "T ..."), (["t", [["i", 0], ["i", 0]]], "... T"), (["N", "P", [["i", 0], ["i", 0]]], "T ...")):
        cases.append((t0, ["i", 0], form0, ["i", 0]))
        sessions.append({"nocontext": False, "steps": [tstep("T", t0), tstep("S", ["i", 0]), tstep(form0, ["t", [["i", 1], ["i", 2]]], TL)]})
    for k, (t, s, form, x) in enumerate(cases):
        if k >= ncorp and k % 8 == 0 and x != ["n"]:
            sessions[k]["steps"][2] = tstep(form, T.fill(x, lambda: ["t", [["i", 1], ["i", 2]]]), TL)
    # the same with ARRAY leaves in the binding checks: leaf types whose check binds axes, and unions whose first alternative
    # fails after partial progress (the array check then rolls the context back WHILE the structured check is under way)
    ARRL = [["arr", "Float", "a b"], ["union", [["arr", "Float", "a"], ["arr", "Float", "a b"]]], ["union", [["arr", "Float", "a 7"], ["arr", "Float", "a b"]]],
            ["union", [["arr", "Int", "a b"], "int", ["arr", "Float", "a b"]]], ["tuple", [["arr", "Float", "a b"], ["union", [["arr", "Float", "b"], ["arr", "Float", "q b"]]]]]]
    narr = 15000 if R.thorough else 250
    for k in range(narr):
        t, s, form, x = gen_case(R.rng)
        L = R.rng.choice(ARRL)
        mk = (lambda: ["t", [["a", [2, 3], "float32"], ["a", [5, 3], "float32"]]]) if L[0] == "tuple" else (lambda: ["a", [2, 3], "float32"])
        cases.append((t, s, form, x))
        sessions.append({"nocontext": False, "steps": [tstep("T", T.fill(t, mk), L), tstep("S", T.fill(s, mk), L if R.rng.random() < .5 else ["arr", "Float", "a b"] if L[0] != "tuple" else L), tstep(form, x)]})
    # structure strings, well- and ill-formed
    strs = ["T", "S T", "T ...", "... T", "...", "... ...", "... T ...", "", "  ", "T,S", "1T", "T ... S", "a b c ...", "... a b c", "T  ...", " T ", "T\t...", "T...", "...T", "T .. .", "T . . .",
            "_x y2", "T ... ...", "... ... T", "T-S", "T ...S", "class", "None"]
    for _ in range(3000 if R.thorough else 60):
        toks = [R.rng.choice(["T", "S", "...", "a1", "_", "1x", "T,", "..", "....", "x.y"]) for _ in range(R.rng.choice([1, 1, 2, 2, 3, 4]))]
        strs.append(R.rng.choice([" ", "  ", "\t"]).join(toks))
    vsess = [{"nocontext": True, "steps": [tstep(s_, ["i", 0])]} for s_ in strs]
    allsess = sessions + vsess
    nw = 8
    chunks = [allsess[i::nw] for i in range(nw)]
    from concurrent.futures import ThreadPoolExecutor
    with ThreadPoolExecutor(nw) as ex:
        outs = list(ex.map(lambda kc: vf.impl("impl_pytree.py", {"sessions": kc[1], "prelude": kc[0] % 2 == 1}, bg=(kc[0] % 4 == 2)), list(enumerate(chunks))))   # odd workers: after unrelated failing/raising PyTree checks
    impl = [None] * len(allsess)
    for w, o in enumerate(outs):
        for j, r in enumerate(o):
            impl[w + j * nw] = r
    model = vf.coq_eval_strings(["model.PyTreeCheck"], T.RUN, [T.session_coq(s_) for s_ in sessions], shard=300)
    vmodel = vf.coq_eval_strings(["model.PyTreeCheck"], "fun s => if validate_structure s then \"ok\" else \"ValueError\"", [vf.coqstr(s_.strip()) for s_ in strs], shard=500)
    nontriv, samples, nchecks = set(), [], 0
    for idx, ((t, s, form, x), sess, r, mline) in enumerate(zip(cases, sessions, impl, model)):
        msteps = mline.split(" | ")
        nchecks += 3
        steps = r["steps"]
        if any(st["build"] != "ok" for st in steps):
            R.violation("correspondence", "annotation could not be built: %s" % [st["build"] for st in steps], {"case": [t, s, form, x]}, key={"kind": "build"}, no_input=True); continue
        v = steps[2]["verdict"]
        R.count("form:%s:%s" % (form, v))
        exp = expected(form, t, s, x)
        desc = "T bound to %s, S bound to %s, candidate %s against PyTree[int, %r]" % (json.dumps(t), json.dumps(s), json.dumps(x), form)
        if exp is not None and v != exp:
            R.violation("property", "%s: implementation %s, documented meaning %s" % (desc, v, exp), {"t": t, "s": s, "form": form, "x": x, "impl": v, "expected": exp}, key={"kind": "form", "form": form})
        for j, (st, m) in enumerate(zip(steps, msteps)):
            got = "%s %s" % (st["verdict"], st["memo"])
            if got != m:
                R.violation("correspondence", "%s, step %d: implementation `%s`, model `%s`" % (desc, j, got, m), {"t": t, "s": s, "form": form, "x": x, "step": j, "impl": got, "model": m}, key={"kind": "model"},
                            no_input=(got.split(" ")[0] == m.split(" ")[0]))
                break
            if st["verdict"] != "acc" and not st["unchanged"]:
                R.violation("property", "%s: a check that did not accept changed the bindings (`%s` -> `%s`)" % (desc, st["before"], st["memo"]), {"t": t, "s": s, "form": form, "x": x, "step": j}, key={"kind": "not-restored"})
        if v in ("acc", "rej") and form != "T":
            nontriv.add(json.dumps([t, s, form, x]))
        if len(samples) < 4 and idx >= ncorp and v == "acc" and form not in ("T",) and json.dumps(x).count("[") > 5:
            samples.append({"t": t, "s": s, "form": form, "x": x, "verdict": v})
    for s_, r, vm in zip(strs, impl[len(sessions):], vmodel):
        nchecks += 1
        b = r["steps"][0]["build"]
        got = "ok" if b == "ok" else b
        want = "ok" if spec_valid(s_) else "ValueError"
        R.count("structure-string:" + got)
        if got != want:
            R.violation("property", "PyTree[int, %r] at build time: %s, the documented rule says %s" % (s_, got, want), {"structure": s_, "got": got, "expected": want}, key={"kind": "structure-string", "string": s_})
        if got != vm:
            R.violation("correspondence", "validate_structure model says %s, implementation %s for %r" % (vm, got, s_), {"structure": s_}, key={"kind": "validate-model"}, no_input=True)
    if not proved:
        R.violation("proof", "proof obligations of props/C09.v no longer check: " + str(R.broken_proof)[-800:],
                    {"theorem_file": "coq/props/C09.v", "log": R.broken_proof}, no_input=not any(v["kind"] == "property" for v in R.violations))
    R.coverage.update(evaluations=nchecks, distinct_nontrivial=len(nontriv), samples=samples,
                      rule="%d corpus + %d PRNG triples (t bound to T, s bound to S, candidate x; trees to depth 3 over tuple/list/dict with shuffled keys/None/namedtuples/registered node/empty containers; candidates built to satisfy the form half of the time, 25%% near misses) x %d forms incl. repeated and unbound names; "
                           "%d structure strings (grammar + malformed). Expected verdict from an independent reference of compose/prefix/suffix on the JSON trees; model (Coq) compared on verdict and all bindings. non-trivial = distinct composite/prefix/suffix case answered acc or rej" % (ncorp, n, len(FORMS), len(strs)))
    R.assumptions += ["top-level None takes the documented shortcut (accepted, binds nothing)", "ASCII structure strings"]
    sys.exit(R.finish())


if __name__ == "__main__":
    vf.guarded(PID, main)

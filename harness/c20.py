"""C20 -- annotations survive pickling and copying with their meaning intact."""
import json, os, shutil, sys, tempfile
sys.path.insert(0, os.path.join(os.path.dirname(os.path.abspath(__file__)), "..", "lib"))
import vf

PID = "C20"
CATS = ["Float", "Int", "Shaped", "Num", "Bool", "Float32", "Inexact", "Integer", {"user": ["float32", "int8"]}, {"user": ["float16"]}]
DIMS = ["", "a", "a b", "_ b", "... b", "*v", "a *v b", "#a 3", "a+1", "_", "...", "2 3", "d=a b", "*#v c", "?n"]
ARRS = ["np", "np", "any", "jax", "union", "dup1", "dup2"]
ROUTES = ["pickle", "cloudpickle", "copy", "deepcopy", "pickle-sub", "cloudpickle-sub", "pickle-reload-after-use", "resend3"]   # resend3: Coq `resend 3` (props/C20.v)


def write_support(d):
    open(d + "/usercats.py", "w").write(
        "from jaxtyping import AbstractDtype\nclass U1(AbstractDtype):\n    dtypes = ['float32', 'int8']\nclass U2(AbstractDtype):\n    dtypes = ['float16']\n"
        "_M = {('float32', 'int8'): U1, ('float16',): U2}\ndef get(k):\n    return _M[k]\n")
    for k in (1, 2):
        open(d + "/dupmod%d.py" % k, "w").write("class Tensor:\n    def __init__(self, shape, dtype):\n        self.shape = tuple(shape); self.dtype = dtype\n")


def gen_annot(rng):
    a = {"cat": rng.choice(CATS), "arr": rng.choice(ARRS), "dim": rng.choice(DIMS)}
    r = rng.random()
    if r < .45:
        a["nest"] = [[rng.choice(CATS), rng.choice(["b", "c 2", "_", "", "x"])]]
        if rng.random() < .3:
            a["nest"].append([rng.choice(CATS), rng.choice(["k", ""])])
        if any("*" in a["dim"] or "..." in a["dim"] for _ in [0]):
            pass
    return a


def flat_twin(a):
    """the flat annotation with the same display name as a nested one (outer category, concatenated dims)"""
    if not a.get("nest"):
        return None
    dim = a["dim"]
    for c, d in a["nest"]:
        dim = (d + " " + dim).strip() if d else (" " + dim if False else (d + " " + dim))
    return {"cat": a["nest"][-1][0], "arr": a["arr"], "dim": dim.strip()}


def coq_annot(a, cat_dt):
    o = lambda d: vf.coqopt(d, lambda l: vf.coqlist(l, vf.coqstr))
    def dt(c):
        return c["user"] if isinstance(c, dict) else cat_dt[c]
    arr = "TAny" if a["arr"] == "any" else "(TClass 1)"
    return "(%s, %s, %s, %s)" % (o(dt(a["cat"])), arr, vf.coqstr(a["dim"].strip()), vf.coqlist(a.get("nest", []), lambda cd: "(%s, %s)" % (o(dt(cd[0])), vf.coqstr(cd[1].strip()))))


def main():
    R = vf.Report(PID)
    proved = R.proof_step()
    n = 2500 if R.thorough else 170
    annots = [{"cat": "Float", "arr": "np", "dim": "a b"}, {"cat": "Float", "arr": "np", "dim": "_ b"}, {"cat": "Float", "arr": "np", "dim": "... b"}, {"cat": "Shaped", "arr": "np", "dim": "a"},
              {"cat": "Float", "arr": "np", "dim": "a", "nest": [["Shaped", "b"]]}, {"cat": "Float32", "arr": "np", "dim": "a", "nest": [["Float", "b"]]},
              {"cat": {"user": ["float32", "int8"]}, "arr": "any", "dim": "a"}, {"cat": "Int", "arr": "union", "dim": "a b"}, {"cat": "Float", "arr": "dup1", "dim": "a"}, {"cat": "Float", "arr": "dup2", "dim": "a"},
              {"cat": "Num", "arr": "np", "dim": "a", "nest": [["Shaped", "b"], ["Inexact", ""]]}]
    annots += [gen_annot(R.rng) for _ in range(n)]
    batches = [[{"cat": "Float", "arr": "dup1", "dim": "a b"}, {"cat": "Float", "arr": "dup2", "dim": "a b"}],
               [{"cat": "Int", "arr": "np", "dim": "x", "nest": [["Shaped", "y"]]}, {"cat": "Shaped", "arr": "np", "dim": "y x"}],
               [{"cat": "Shaped", "arr": "np", "dim": "y x"}, {"cat": "Int", "arr": "np", "dim": "x", "nest": [["Shaped", "y"]]}],
               [{"cat": "Float32", "arr": "np", "dim": "c", "nest": [["Float", "b"]]}, {"cat": "Float", "arr": "np", "dim": "b c"}],
               [{"cat": "Float", "arr": "np", "dim": "b c"}, {"cat": "Float32", "arr": "np", "dim": "c", "nest": [["Float", "b"]]}, {"cat": "Float", "arr": "any", "dim": "b c"}]]
    # siblings: nested annotations that differ ONLY in the inner category (same outer category, array type, combined dims)
    batches += [[{"cat": "Float", "arr": "np", "dim": "a", "nest": [["Shaped", "b"]]}, {"cat": "Int", "arr": "np", "dim": "a", "nest": [["Shaped", "b"]]}],
                [{"cat": "Real", "arr": "np", "dim": "... c", "nest": [["Num", "b"]]}, {"cat": "Inexact", "arr": "np", "dim": "... c", "nest": [["Num", "b"]]}, {"cat": "Num", "arr": "np", "dim": "b ... c"}],
                [{"cat": "Int8", "arr": "any", "dim": "a", "nest": [["Integer", ""]]}, {"cat": "UInt8", "arr": "any", "dim": "a", "nest": [["Integer", ""]]}]]
    for _ in range(120 if R.thorough else 14):
        a = gen_annot(R.rng)
        tw = flat_twin(a)
        b = [a] + ([tw] if tw else []) + [gen_annot(R.rng) for _ in range(R.rng.choice([0, 1, 2]))]
        if a.get("nest") and R.rng.random() < .7:
            b.append(dict(a, cat=R.rng.choice([c for c in CATS if c != a["cat"]])))
        R.rng.shuffle(b)
        batches.append(b)
    d = tempfile.mkdtemp(prefix="vfc20")
    try:
        write_support(d)
        nw = 8
        chunks = [annots[i::nw] for i in range(nw)]
        bchunks = [batches[i::nw] for i in range(nw)]
        from concurrent.futures import ThreadPoolExecutor
        with ThreadPoolExecutor(nw) as ex:
            outs = list(ex.map(lambda k: vf.impl("impl_annot.py", {"mode": "serial", "usercat_dir": d, "routes": ROUTES, "annots": chunks[k], "batches": bchunks[k], "churn": k == 0}, timeout=3000, env={"PYTHONPATH": vf.REPO + ":" + d}), range(nw)))
    finally:
        shutil.rmtree(d, ignore_errors=True)
    nev, nontriv, samples = 0, set(), []
    for k, o in enumerate(outs):
        for a, row in zip(chunks[k], o["rows"]):
            if "build" in row:
                R.count("build:ValueError"); continue
            b = row["before"]
            for route in ROUTES:
                nev += 1
                v = row[route]
                R.count("route:%s:%s" % (route, "same" if v["reloaded"] == b else "DIFF"))
                if v["reloaded"] != b:
                    R.violation("property", "annotation %s through %s comes back accepting different values: before %s, reloaded %s" % (json.dumps(a), route, b, v["reloaded"]), {"annotation": a, "route": route, "before": b, "reloaded": v["reloaded"]},
                                key={"kind": "roundtrip", "route": route, "nested": bool(a.get("nest"))})
                if v["after"] != b:
                    R.violation("property", "serialising / loading %s through %s changed what the ORIGINAL accepts: before %s, after %s" % (json.dumps(a), route, b, v["after"]), {"annotation": a, "route": route, "before": b, "after": v["after"]},
                                key={"kind": "original-changed", "route": route})
            if a.get("nest") or "_" in a["dim"] or "..." in a["dim"] or isinstance(a["cat"], dict) or a["arr"] in ("union", "dup1", "dup2"):
                nontriv.add(json.dumps(a, sort_keys=True))
            if len(samples) < 3 and a.get("nest"):
                samples.append({"annotation": a, "before": b, "pickle": row["pickle"]["reloaded"] == b, "cloudpickle-sub": row["cloudpickle-sub"]["reloaded"] == b})
        for ch in o.get("churn", []):
            R.violation("property", "after loading (and freeing) other nested annotations %s, a %s-loaded copy of %s accepts %s; its original accepts %s (round %d)" % (
                ch["loaded_before"], ch["route"], json.dumps(ch["annotation"]), ch["got"], ch["expected"], ch["round"]), {"churn": ch}, key={"kind": "churn", "route": ch["route"]})
        nev += 80 if k == 0 else 0
        for batch, e in zip([b for b in bchunks[k] for _ in (0, 1)], o["batches"]):
            if "build" in e:
                continue
            for i, a in enumerate(batch):
                nev += 1
                for where, got in (("same process", e["reloaded"][i]), ("fresh process", e.get("sub", e["befores"])[i]), ("original afterwards", e["afters"][i])):
                    if got != e["befores"][i]:
                        R.violation("property", "batch %s via %s: annotation #%d %s (%s) accepts %s, the original accepted %s" % (json.dumps(batch), e["route"], i, json.dumps(a), where, got, e["befores"][i]),
                                    {"batch": batch, "route": e["route"], "index": i, "where": where, "got": got, "before": e["befores"][i]}, key={"kind": "batch", "route": e["route"], "where": where})
    # model: the reducer round trip on how annotations are built
    cat_dt = vf.impl("impl_array.py", {"mode": "sessions", "sessions": [{"args": {"k": 1, "m": 1}, "steps": [{"dim": "", "shape": [], "cat": c} for c in CATS if isinstance(c, str)]}]})["cat_dtypes"]
    ma = [a for a in annots if a["arr"] in ("np", "any")]
    defs = ("Fixpoint nest_all (m : mres) (l : list (option (list string) * string)) : mres :=\n  match l with [] => m | (d, s) :: r => match m with MBuilt b => nest_all (make_array d (TNested b) s) r | x => x end end.\n"
            "Definition run_rt (c : option (list string) * arrty * string * list (option (list string) * string)) : string :=\n  let '(d, a, s, l) := c in\n"
            "  match nest_all (make_array d a s) l with\n  | MBuilt b => (match reduce_rebuild b with MBuilt b' => if built_same b b' then \"same\" else \"DIFF\" | _ => \"ERR\" end)%string\n  | _ => \"ValueError\" end.")
    mres = vf.coq_eval_strings(["model.Annot"], "run_rt", [coq_annot(a, cat_dt) for a in ma], shard=600, defs=defs)
    for a, m in zip(ma, mres):
        if m not in ("same", "ValueError"):
            R.violation("correspondence", "model of the reducer does not round-trip %s: %s" % (json.dumps(a), m), {"annotation": a, "model": m}, key={"kind": "model"}, no_input=True)
    if not proved:
        R.violation("proof", "proof obligations of props/C20.v no longer check: " + str(R.broken_proof)[-800:],
                    {"theorem_file": "coq/props/C20.v", "log": R.broken_proof}, no_input=not any(v["kind"] == "property" for v in R.violations))
    R.coverage.update(evaluations=nev, distinct_nontrivial=len(nontriv), samples=samples,
                      rule="%d annotations (10 categories incl. two user categories importable by name x array types ndarray / Any / jax.Array / Union / two classes named `Tensor` from different modules x 15 dim strings, 45%% nested one or two levels) x 7 routes "
                           "(pickle, cloudpickle, copy, deepcopy in-process; pickle and cloudpickle loaded in a fresh interpreter; a second pickle load after the first loaded copy was used as the return annotation of a decorated generator function), each on a freshly built annotation; %d batches (several annotations dumped, then all loaded in one process and in a fresh one: nested annotation + flat twin with the same display name, same-named array classes). "
                           "Oracle independent of the model: verdict vector over %d probe values of original-before == reloaded == original-after." % (len(annots), len(batches), outs[0]["nprobes"]))
    R.assumptions += ["pickle / cloudpickle / copy machinery itself is CPython's / third-party: modelled"]
    sys.exit(R.finish())


if __name__ == "__main__":
    vf.guarded(PID, main)

"""C05 -- bindings live exactly as long as one jaxtyped call or context block."""
import json, os, sys
sys.path.insert(0, os.path.join(os.path.dirname(os.path.abspath(__file__)), "..", "lib"))
import vf

PID = "C05"
DIMS = [("n", 1), ("m", 1), ("n m", 2), ("m n", 2), ("*v", None), ("n *v", None), ("k+1", 1), ("#n", 1)]
SIZES = [1, 2, 3, 4, 5]


def gen_check(rng):
    d, r = rng.choice(DIMS)
    if r is None:
        r = rng.choice([1, 2, 3]) if d != "*v" else rng.choice([0, 1, 2])
    return ["check", d, [rng.choice(SIZES) for _ in range(r)]]


def gen_body(rng, depth, budget):
    out = []
    n = rng.choice([1, 2, 2, 3, 4])
    for _ in range(n):
        if budget[0] <= 0:
            break
        budget[0] -= 1
        r = rng.random()
        if depth >= 4 or r < .38:
            out.append(gen_check(rng))
        elif r < .55:
            out.append(["observe"])
        elif r < .80:
            style = rng.choice(["new", "new", "old", "none"])
            variant = rng.choice(["typeguard", "beartype", "dataclass", "method"]) if style == "new" else rng.choice(["typeguard", "beartype"])
            params = [gen_check(rng)[1:] for _ in range(rng.choice([0, 1, 1, 2]))]
            exit_ = rng.choice(["return", "return", "raise", "raisebase", "generator"])
            if exit_ == "generator" and style in ("new", "none") and rng.random() < .4:
                variant = "coro"           # an async def driven by hand: created, advanced to a real suspension, observed there, finished
            if exit_ == "generator" and style == "old":
                variant = "typeguard"      # old-style + beartype on a generator function is broken in the pinned baseline itself (test_generators_*[False-beartype] always fail)
            node = ["call", style, rng.random() > .08, params, gen_body(rng, depth + 1, budget), exit_, variant]
            out.append(["try", [node]] if (exit_ in ("raise", "raisebase") or rng.random() < .5) else node)
        elif r < .92:
            exit_ = rng.choice(["return", "return", "raise", "raisebase"])
            node = ["context", gen_body(rng, depth + 1, budget), exit_]
            out.append(["try", [node]] if (exit_ != "return" or rng.random() < .3) else node)
        else:
            out.append(["try", gen_body(rng, depth + 1, budget)])
    return out


def catalogue():
    """each style x each exit x depth 1-3, plus block exits and the non-binding call"""
    out = []
    probe = [["check", "n", [3]], ["observe"]]
    after = [["observe"], ["check", "n", [3]], ["check", "n", [4]]]
    for style, variants in (("new", ["typeguard", "beartype", "dataclass", "method"]), ("old", ["typeguard", "beartype"]), ("none", ["typeguard"])):
        for variant in variants:
            for exit_ in ("return", "raise", "raisebase", "generator"):
                if exit_ == "generator" and style == "old" and variant == "beartype":
                    continue
                for depth in (1, 2, 3):
                    body = [["check", "n", [4]], ["observe"]]
                    node = ["call", style, True, [["n m", [4, 2]]], body, exit_, variant]
                    for _ in range(depth - 1):
                        node = ["call", style, True, [["n", [5]]], [["observe"], ["try", [node]], ["observe"]], "return", variant]
                    out.append([["context", probe + [["try", [node]]] + after, "return"], ["observe"]])
            out.append([["context", probe + [["try", [["call", style, False, [["n", [4]]], [["observe"]], "return", variant]]]] + after, "return"], ["observe"]])
            out.append([["context", probe + [["try", [["call", style, True, [["n n", [4, 5]]], [["observe"]], "return", variant]]]] + after, "return"], ["observe"]])
            out.append([["context", probe + [["try", [["call", style, True, [["q+1", [4]]], [["observe"]], "return", variant]]]] + after, "return"], ["observe"]])
    for exit_ in ("return", "raise", "raisebase"):
        out.append([["context", probe + [["try", [["context", [["check", "n", [7]], ["observe"]], exit_]]]] + after, "return"], ["observe"]])
        out.append([["try", [["context", [["check", "n", [7]]], exit_]]], ["observe"], ["check", "n", [8]], ["observe"]])
    for style in ("new", "none"):
        out.append([["context", probe + [["call", style, True, [["n m", [4, 2]]], [["check", "n", [4]], ["observe"]], "generator", "coro"]] + after, "return"], ["observe"]])
        out.append([["call", style, True, [["m", [5]]], [["check", "m", [5]], ["observe"]], "generator", "coro"], ["check", "m", [6]], ["observe"]])
    out.append([["check", "n", [3]], ["check", "n", [4]], ["observe"]])
    return out


def coq_prog(p):
    k = p[0]
    u = lambda d, sh: "(A %s, V %s)" % (vf.coqstr(d), vf.coqlist(sh, vf.coqz))
    if k == "check":
        return "(PCheck %s)" % u(p[1], p[2])
    if k == "observe":
        return "PObserve"
    if k == "try":
        return "(PTry %s)" % vf.coqlist(p[1], coq_prog)
    x = {"return": "XReturn", "raise": "(XRaise false)", "raisebase": "(XRaise true)", "generator": "XGenerator"}
    if k == "context":
        return "(PContext %s %s)" % (vf.coqlist(p[1], coq_prog), x[p[2]])
    _, style, binds, params, body, exit_, variant = p
    return "(PCall %s %s %s %s %s)" % ({"new": "SNew", "old": "SOld", "none": "SNone"}[style], vf.coqbool(binds), vf.coqlist(params, lambda q: u(q[0], q[1])), vf.coqlist(body, coq_prog), x[exit_])


def count_nodes(ps):
    n = 0
    for p in ps:
        n += 1
        if p[0] == "try":
            n += count_nodes(p[1])
        elif p[0] == "context":
            n += count_nodes(p[1])
        elif p[0] == "call":
            n += count_nodes(p[4])
    return n


def main():
    R = vf.Report(PID)
    proved = R.proof_step()
    n = 150000 if R.thorough else 700
    progs = catalogue()
    ncat = len(progs)
    for _ in range(n):
        progs.append(gen_body(R.rng, 0, [14]))
    # programs whose context blocks all use ONE jaxtyped("context") object (re-entered when the blocks nest)
    shared = [("context" in json.dumps(p)) and (i % 3 == 0) for i, p in enumerate(progs)]
    nw = 8
    chunks = [progs[i::nw] for i in range(nw)]
    schunks = [shared[i::nw] for i in range(nw)]
    from concurrent.futures import ThreadPoolExecutor
    with ThreadPoolExecutor(nw) as ex:
        outs = list(ex.map(lambda kc: vf.impl("impl_prog.py", {"programs": kc[1], "shared": schunks[kc[0]]}, bg=(kc[0] % 3 == 1)), list(enumerate(chunks))))   # every third worker: with parked threads
    impl = [None] * len(progs)
    for w, o in enumerate(outs):
        for j, r in enumerate(o):
            impl[w + j * nw] = r
    syms = "[(\"k+1\", EBin OAdd (EVar \"k\") (EInt 1)); (\"q+1\", EBin OAdd (EVar \"q\") (EInt 1))]"
    model = vf.coq_eval_strings(["model.Prog"], "fun ps => run_prog_st %s ps" % syms, [vf.coqlist(p, coq_prog) for p in progs], shard=300,
                                defs="Definition run_prog_st (st : symtab) (ps : list prog) : string :=\n  let '(s, ev, sg) := run_list None st ps [] in\n  (sep_concat \" \" (map show_pevent ev) ++ \" | depth=\" ++ ns (length s) ++ \" sig=\" ++ match sg with None => \"-\" | Some e => show_exn e end)%string.")
    nontriv, samples = set(), []
    for i, (p, r, m) in enumerate(zip(progs, impl, model)):
        R.count("nodes:%d" % min(count_nodes(p), 15))
        for k, snap in enumerate(r.get("recursion_probe", [])):
            if snap[0] != 0 or snap[2].strip() != "":
                R.violation("property", "after a recursion through `with jaxtyped('context')` blocks ran into the recursion limit and the RecursionError was caught at the top (stack alignment %d): context depth %d, print_bindings() shows %r -- a context outlived its block" % (k, snap[0], snap[2]),
                            {"recursion_probe": r["recursion_probe"], "alignment": k}, key={"kind": "recursion-leak"})
        for o in r["oracle"]:
            R.violation("property", "the caller's bindings changed across a %s (%s): before (depth, bindings) %s, after %s" % (o["node"], {k: v for k, v in o.items() if k not in ("before", "after", "node")}, o["before"][:2], o["after"][:2]),
                        {"program": p, "one_context_object": shared[i], "oracle": o}, key={"kind": "caller-changed", "node": o["node"], "exit": o.get("exit")})
        if r["end"][0] != 0 or r["end"][2].strip() != "":
            R.violation("property", "after the program, at top level: context depth %d, print_bindings() shows %r (checks outside every context must be stateless)" % (r["end"][0], r["end"][2]),
                        {"program": p, "one_context_object": shared[i], "end": r["end"]}, key={"kind": "toplevel-not-clean"})
        if r["trace"] != m:
            R.violation("correspondence", "trace differs from the model: implementation `%s`, model `%s`" % (r["trace"], m), {"program": p, "impl": r["trace"], "model": m}, key={"kind": "trace"},
                        no_input=not r["oracle"])
        if count_nodes(p) >= 5 and "call" in json.dumps(p):
            nontriv.add(json.dumps(p))
        if len(samples) < 3 and i >= ncat and count_nodes(p) >= 7:
            samples.append({"program": p, "trace": r["trace"]})
    # ---- the storage accessors and the context manager: interpreter of the REGENERATED source terms (model/SL.v over
    #      gen/StorageSrc.v) against the real functions, on op sequences from a fresh thread's view of the cells
    def sdict():
        return R.rng.choice([{}, {}, {"k": 2}, {"n": 3, "m": 5}])
    def gen_seq():
        seq = []
        for _ in range(R.rng.choice([3, 5, 8, 12])):
            k = R.rng.choice(["has", "get", "set", "push", "push", "pop", "clearpath", "setpath", "setpath", "getpath", "clearflat", "setflat", "getflat", "enter", "enter", "exit"])
            if k == "set":
                seq.append([k, sdict(), sdict(), sdict(), sdict()])
            elif k == "push":
                seq.append([k, sdict()])
            elif k == "setpath":
                seq.append([k, R.rng.choice([None, 0, 1, 7, 12]), R.rng.choice(["T", "S", "tree 1"])])
            elif k in ("enter", "exit"):
                seq.append([k, R.rng.randrange(2)])
            else:
                seq.append([k])
        return seq
    seqs = [[["pop"]], [["get"], ["has"], ["set", {}, {}, {}, {}], ["getflat"], ["getpath"]], [["push", {"k": 2}], ["push", {}], ["set", {"n": 3}, {}, {}, {}], ["get"], ["setpath", 1, "T"], ["setpath", 0, "S"], ["pop"], ["pop"], ["pop"]],
            [["enter", 0], ["enter", 0], ["enter", 1], ["exit", 0], ["exit", 1], ["exit", 0], ["exit", 0]], [["setpath", None, "T"], ["getpath"], ["clearpath"], ["getpath"], ["setflat"], ["getflat"], ["clearflat"], ["getflat"]]]
    seqs += [gen_seq() for _ in range(6000 if R.thorough else 300)]
    try:
        sout = vf.impl("impl_storage.py", {"seqs": seqs})
    except vf.ImplCrash as e:
        sout = None
        R.violation("correspondence", "the storage-accessor worker could not run on this tree: %s" % str(e)[-500:], {"worker": "impl_storage.py"}, key={"kind": "storage-worker"}, no_input=True)
    if sout is not None:
        def cdict(x):
            return "DEmpty" if not x else "(DArgs [%s])" % "; ".join("(%s, %s)" % (vf.coqstr(k), vf.coqz(v)) for k, v in x.items())
        def cop(o):
            k = o[0]
            if k == "set":
                return "(OSet %s)" % " ".join(cdict(x) for x in o[1:5])
            if k == "push":
                return "(OPush %s)" % cdict(o[1])
            if k == "setpath":
                return "(OSetPath %s %s)" % ("None" if o[1] is None else "(Some %s)" % vf.coqz(o[1]), vf.coqstr(o[2]))
            return {"has": "OHas", "get": "OGet", "pop": "OPop", "clearpath": "OClearPath", "getpath": "OGetPath", "clearflat": "OClearFlat", "setflat": "OSetFlat", "getflat": "OGetFlat", "enter": "OEnter", "exit": "OExit"}[k]
        smodel = vf.coq_eval_strings(["model.SL", "gen.StorageSrc"], "fun ops => sep_concat \" ;; \" (run_ops context_src ops (mktls None None None))",
                                     ["[" + "; ".join(cop(o) for o in s) + "]" for s in seqs], shard=100)
        for sq, im, mo in zip(seqs, sout, smodel):
            R.count("storage-seq")
            if " ;; ".join(im) != mo:
                ml = mo.split(" ;; ")
                j = next((i for i, (a, b) in enumerate(zip(im, ml)) if a != b), min(len(im), len(ml)))
                R.violation("correspondence", "storage accessors: after %s the real functions give `%s`, the interpreted source terms (gen/StorageSrc.v) give `%s`" % (
                    json.dumps(sq[:j + 1]), im[j] if j < len(im) else "-", ml[j] if j < len(ml) else "-"), {"ops": sq[:j + 1], "impl": im[:j + 1], "model": ml[:j + 1]}, key={"kind": "storage-accessors"}, no_input=True)
    # the statements the translator cut out of the source, run by CPython with scripted stand-ins, against their translation
    # interpreted inside Coq (lib/storage_corr.py)
    import storage_corr
    R.coverage["source_fragment_cases"] = storage_corr.fragment_correspondence(R, ['wrapped', 'oldwrapped'], 600 if R.thorough else 60)
    if not proved:
        R.violation("proof", "proof obligations of props/C05.v no longer check: " + str(R.broken_proof)[-800:],
                    {"theorem_file": "coq/props/C05.v", "log": R.broken_proof}, no_input=not any(v["kind"] == "property" for v in R.violations))
    R.coverage.update(evaluations=len(progs) + len(seqs), distinct_nontrivial=len(nontriv), samples=samples, storage_accessor_sequences=len(seqs), programs_with_one_context_object=sum(1 for x in shared if x),
                      rule="%d catalogue programs (each style/realisation x each exit x nesting depth 1-3; non-binding call; failing and raising parameter check; context block left by return / Exception / BaseException) + %d PRNG programs (depth <= 4, <= 14 nodes) interpreted with real decorated functions "
                           "(typeguard, beartype, dataclass __post_init__, method, old double-decorator, typechecker=None), generator functions and `with jaxtyped('context')` blocks. Oracles independent of the model: (depth, bindings, print_bindings text) before a block == after it; top level clean at the end. "
                           "Model oracle: whole trace of verdicts / print_bindings / caught exception classes equals run_list (Coq). non-trivial = distinct program with >= 5 nodes and a call. "
                           "A third of the programs use ONE jaxtyped('context') object for all their blocks. Storage accessors: %d op sequences (push/pop/get/set, '?'-label set/clear/get, flatten flag, __enter__/__exit__ of two context objects) "
                           "on the real jaxtyping._storage functions in a fresh thread vs the interpretation (model/SL.v, inside Coq) of the terms regenerated from their source" % (ncat, n, len(seqs)))
    R.assumptions += ["asynchronous exceptions delivered between push and try (one bytecode wide) cannot be exhibited"]
    sys.exit(R.finish())


if __name__ == "__main__":
    vf.guarded(PID, main)

"""C16 -- '?' axes are per-leaf-position axes of exactly one structured PyTree."""
import json, os, sys
sys.path.insert(0, os.path.join(os.path.dirname(os.path.abspath(__file__)), "..", "lib"))
import vf, gen_trees as T

PID = "C16"
A = lambda dim: ["arr", "Float", dim]
SIMPLE = ["?n", "?n m", "*?v", "?n n", "?n ?k", "m ?n"]
LEAFTYPES = [A(d) for d in SIMPLE] + [A("?n 3"), ["union", [A("?n 3"), A("?n 4")]], ["union", [A("?n 3"), A("?k 4")]], ["union", ["int", A("?n")]],
                                     ["tuple", [A("?n"), A("?n m")]], ["union", [A("?n m"), A("?n")]], A("#?n"), A("*#?v")]


def arr(shape):
    return ["a", list(shape), "float32"]


def shape_for(rng, dim, pos_sizes, pos, plain):
    """a shape for dim at leaf position pos; '?x' sizes per position from pos_sizes, plain sizes from plain"""
    out = []
    for tok in dim.split():
        if tok.startswith("*"):
            out += pos_sizes[pos]["v"]
        elif tok.lstrip("#").startswith("?"):
            out.append(pos_sizes[pos][tok.lstrip("#?")])
        elif tok.isdigit():
            out.append(int(tok))
        else:
            out.append(plain[tok])
    return out


def leaf_val(rng, lt, pos_sizes, pos, plain):
    if lt == "int":
        return ["i", 1]
    if lt[0] == "arr":
        return arr(shape_for(rng, lt[2], pos_sizes, pos, plain))
    if lt[0] == "union":
        return leaf_val(rng, rng.choice(lt[1]), pos_sizes, pos, plain)
    if lt[0] == "tuple":
        return ["t", [leaf_val(rng, x, pos_sizes, pos, plain) for x in lt[1]]]
    raise KeyError(lt)


def skeleton(rng, depth):
    counter = [0]

    def leaf(r):
        counter[0] += 1
        return ["L", counter[0] - 1]
    t = T.gen_tree(rng, depth, leaf)
    return t, counter[0]


def inst(sk, f):
    k = sk[0]
    if k == "L":
        return f(sk[1])
    if k in ("t", "l", "C"):
        return [k, [inst(c, f) for c in sk[1]]]
    if k == "d":
        return ["d", {kk: inst(c, f) for kk, c in sk[1].items()}]
    if k == "N":
        return ["N", sk[1], [inst(c, f) for c in sk[2]]]
    return ["n"]


def gen_session(rng):
    lt = rng.choice(LEAFTYPES)
    sk, nleaves = skeleton(rng, rng.choice([1, 2, 2, 3]))
    while nleaves == 0:
        sk, nleaves = skeleton(rng, 2)
    plain = {"n": rng.choice([2, 3, 4]), "m": rng.choice([2, 5]), "k": 6}
    pos_sizes = [{"n": rng.choice([1, 3, 4, 7]), "k": rng.choice([4, 8]), "v": [rng.choice([1, 2, 3]) for _ in range(rng.choice([0, 1, 2]))]} for _ in range(nleaves)]
    steps = []
    if rng.random() < .6:
        steps.append({"kind": "arr", "dim": "n m", "shape": [plain["n"], plain["m"]]})       # plain axes of the same names, bound first
    x1 = inst(sk, lambda i: leaf_val(rng, lt, pos_sizes, i, plain))
    steps.append({"kind": "tree", "leaf": lt, "structure": "T", "value": x1})
    # second tree, same structure name: agree everywhere / differ at one position / swapped positions
    mode = rng.choice(["same", "same", "differ", "swap", "otherT"])
    ps2 = [dict(p) for p in pos_sizes]
    if mode == "differ":
        j = rng.randrange(nleaves); ps2[j] = dict(ps2[j], n=ps2[j]["n"] + 1, v=ps2[j]["v"] + [9])
    if mode == "swap" and nleaves >= 2:
        ps2[0], ps2[1] = ps2[1], ps2[0]
    x2 = inst(sk, lambda i: leaf_val(rng, lt, ps2, i, plain))
    steps.append({"kind": "tree", "leaf": lt, "structure": "U" if mode == "otherT" else "T", "value": x2})
    if rng.random() < .6:
        steps.append({"kind": "arr", "dim": "n", "shape": [rng.choice([plain["n"], plain["n"], 9])]})   # the plain axis afterwards
    # finally a PLAIN axis whose name only ever occurred with '?': it is unbound, so any size must be accepted
    probe = None
    txt = json.dumps(lt)
    if "?v" in txt:
        probe = {"kind": "arr", "dim": "*v", "shape": [7, 7]}
    elif "?k" in txt:
        probe = {"kind": "arr", "dim": "k", "shape": [11]}
    if probe is not None and rng.random() < .7:
        steps.append(probe)
    # in a third of the sessions, equal arrays inside one tree are the SAME object (tied weights): positions stay positions
    return {"nocontext": False, "steps": steps, "share_arrays": rng.random() < .33}, (lt, mode, nleaves, probe is not None and steps[-1] is probe)


def S(*steps, nocontext=False):
    return {"nocontext": nocontext, "steps": list(steps)}


def ts(leaf, value, structure="T"):
    return {"kind": "tree", "leaf": leaf, "structure": structure, "value": value}


CORPUS = [
    # same position must agree, different positions are independent
    (S(ts(A("?n"), ["t", [arr([3]), arr([4])]]), ts(A("?n"), ["t", [arr([3]), arr([4])]])), ["acc", "acc"]),
    (S(ts(A("?n"), ["t", [arr([3]), arr([4])]]), ts(A("?n"), ["t", [arr([4]), arr([3])]])), ["acc", "rej"]),
    # the same array object at two positions of the first tree: both positions are bound, the second tree must agree at both
    (dict(S(ts(A("?n"), ["t", [arr([3]), arr([3])]]), ts(A("?n"), ["t", [arr([3]), arr([4])]])), share_arrays=True), ["acc", "rej"]),
    (dict(S(ts(["union", [A("*?v 2"), "int"]], ["l", [arr([5, 2]), ["i", 1], arr([5, 2])]]), ts(["union", [A("*?v 2"), "int"]], ["l", [arr([5, 2]), ["i", 1], arr([6, 2])]])), share_arrays=True), ["acc", "rej"]),
    # the leaf type is a NESTED array annotation that went through pickle (as it does on its way to a worker process): `?n` is still per position
    (S(ts(["parr", "Float", "?n"], ["t", [arr([2, 3]), arr([2, 4])]]), ts(["parr", "Float", "?n"], ["t", [arr([2, 3]), arr([2, 5])]])), ["acc", "rej"]),
    (S({"kind": "arr", "dim": "n", "shape": [6]}, ts(["parr", "Float", "?n"], ["t", [arr([2, 5])]]), {"kind": "arr", "dim": "n", "shape": [6]}), ["acc", "acc", "acc"]),
    (S({"kind": "arr", "dim": "?n", "shape": [3]}, ts(["parr", "Float", "m ?n"], ["l", [arr([2, 7, 3]), arr([2, 7, 4])]], "U")), ["raise:AnnotationError", "acc"]),
    # never interacts with a plain axis of the same name
    (S({"kind": "arr", "dim": "n", "shape": [9]}, ts(A("?n n"), ["t", [arr([3, 9]), arr([4, 9])]]), {"kind": "arr", "dim": "n", "shape": [9]}), ["acc", "acc", "acc"]),
    (S({"kind": "arr", "dim": "n", "shape": [9]}, ts(A("?n n"), ["t", [arr([3, 8])]])), ["acc", "rej"]),
    # a failing union alternative that had bound ?n must not leak nor disturb plain n
    (S({"kind": "arr", "dim": "n", "shape": [7]}, ts(["union", [A("?n 3"), A("?n 4")]], ["t", [arr([2, 4])]]), {"kind": "arr", "dim": "n", "shape": [9]}), ["acc", "acc", "rej"]),
    (S(ts(["union", [A("?n 3"), A("?k 4")]], ["t", [arr([5, 4])]]), ts(["union", [A("?n 3"), A("?k 4")]], ["t", [arr([6, 3])]])), ["acc", "acc"]),
    # broadcastable per-position variadic: the binding of a position takes the broadcast result
    (S(ts(A("*#?v"), ["t", [arr([1, 3])]]), ts(A("*#?v"), ["t", [arr([2, 3])]]), ts(A("*#?v"), ["t", [arr([5, 3])]]), {"kind": "arr", "dim": "*v", "shape": [4]}), ["acc", "acc", "rej", "acc"]),
    (S(ts(A("*#?v n"), ["t", [arr([1, 3]), arr([4, 3])]]), ts(A("*#?v n"), ["t", [arr([2, 3]), arr([1, 3])]]), ts(A("*?v n"), ["t", [arr([2, 3]), arr([4, 3])]])), ["acc", "acc", "acc"]),
    # two structure names in one context
    (S(ts(A("?n"), ["t", [arr([3])]], "T"), ts(A("?n"), ["t", [arr([4])]], "U"), ts(A("?n"), ["t", [arr([4])]], "T")), ["acc", "acc", "rej"]),
    # misuse: outside a structured PyTree, and beneath two
    (S({"kind": "arr", "dim": "?n", "shape": [3]}), ["raise:AnnotationError"]),
    (S({"kind": "arr", "dim": "?n", "shape": [3]}, nocontext=True), ["raise:AnnotationError"]),
    (S(ts(A("?n"), ["t", [arr([3])]], None)), ["raise:AnnotationError"]),
    (S(ts(A("?n"), ["t", [arr([3])]], None), nocontext=True), ["raise:AnnotationError"]),
    (S(ts(["pytree", A("?n"), "S"], ["t", [["t", [arr([3])]]]], "T")), ["raise:AnnotationError"]),
    (S(ts(["pytree", ["union", ["int", A("?n")]], "S"], ["t", [["i", 1], arr([3])]], "T")), ["raise:AnnotationError"]),
    (S(ts(["pytree", A("#?n"), "S"], ["t", [arr([1]), arr([3])]], "T")), ["raise:AnnotationError"]),
    (S(ts(["pytree", ["union", ["int", A("?n")]], "S"], ["d", {"a": ["i", 0], "b": arr([4])}], "T")), ["raise:AnnotationError"]),
    # exactly one structured PyTree, '?' inside a union / tuple leaf type: usable
    (S(ts(["union", ["int", A("?n")]], ["t", [["i", 1], arr([3])]])), ["acc"]),
    (S(ts(["tuple", [A("?n"), A("?n m")]], ["l", [["t", [arr([3]), arr([3, 5])]], ["t", [arr([4]), arr([4, 5])]]]])), ["acc"]),
    # ... and inside a structure-less PyTree nested in the structured one: usable per the property (known finding F-C16: raises)
    (S(ts(["pytree", A("?n"), None], ["t", [arr([3]), arr([4])]])), ["acc"]),
]


def main():
    R = vf.Report(PID)
    proved = R.proof_step()
    n = 40000 if R.thorough else 1200
    sessions = [c for c, _ in CORPUS]
    meta = [("corpus", e) for _, e in CORPUS]
    for _ in range(n):
        s, m = gen_session(R.rng)
        sessions.append(s); meta.append(("gen", m))
    # '?' beneath TWO nested structured PyTrees, PyTree[PyTree[L, "S"], "T"]: always AnnotationError, whatever the leaves are
    # (also when the first leaves of the inner tree never consult the '?' axis: ints of a union, size-1 broadcast axes)
    for _ in range(max(40, n // 12)):
        s, m = gen_session(R.rng)
        for st in s["steps"]:
            if st["kind"] == "tree":
                st["leaf"] = ["pytree", st["leaf"], "S"]
        sessions.append(s); meta.append(("nested2", m))
    nw = 8
    chunks = [sessions[i::nw] for i in range(nw)]
    from concurrent.futures import ThreadPoolExecutor
    with ThreadPoolExecutor(nw) as ex:
        outs = list(ex.map(lambda kc: vf.impl("impl_pytree.py", {"sessions": kc[1], "prelude": kc[0] % 2 == 1}, bg=(kc[0] % 4 == 2)), list(enumerate(chunks))))   # odd workers: after unrelated failing/raising PyTree checks
    impl = [None] * len(sessions)
    for w, o in enumerate(outs):
        for j, r in enumerate(o):
            impl[w + j * nw] = r
    model = vf.coq_eval_strings(["model.PyTreeCheck"], T.RUN, [T.session_coq(s) for s in sessions], shard=300)
    nontriv, samples, nchecks = set(), [], 0
    for idx, (sess, mt, r, mline) in enumerate(zip(sessions, meta, impl, model)):
        msteps = mline.split(" | ")
        vs = [st.get("verdict", st["build"]) for st in r["steps"]]
        nchecks += len(vs)
        if mt[0] == "corpus":
            if vs != mt[1]:
                nested_plain = any(s["kind"] == "tree" and isinstance(s["leaf"], list) and s["leaf"][0] == "pytree" and s["leaf"][2] is None for s in sess["steps"])
                R.violation("property", "documented behaviour of '?' axes: expected %s, implementation %s for %s" % (mt[1], vs, json.dumps(sess["steps"])), {"session": sess, "expected": mt[1], "impl": vs},
                            key={"kind": "corpus", "case": "structureless-nested" if nested_plain else "other", "impl": str(vs)})
        elif mt[0] == "nested2":
            for st_, v_ in zip(sess["steps"], vs):
                if st_["kind"] == "tree" and v_ != "raise:AnnotationError":
                    R.violation("property", "a '?' axis beneath two nested structured PyTrees (PyTree[PyTree[%s, 'S'], 'T']) did not raise AnnotationError: %s for %s" % (json.dumps(st_["leaf"][1]), v_, json.dumps(st_["value"])),
                                {"session": sess, "impl": vs}, key={"kind": "nested-two-structured"})
                    break
            nontriv.add(json.dumps(sess, sort_keys=True))
        else:
            lt, mode, nleaves, probed = mt[1]
            if probed and vs[-1] != "acc":
                R.violation("property", "a plain axis %r whose name was only ever used with '?' is not free: final check gives %s, expected acc (%s)" % (sess["steps"][-1]["dim"], vs[-1], json.dumps(sess["steps"])),
                            {"session": sess}, key={"kind": "plain-axis-after-question"})
            R.count("mode:%s:%s" % (mode, vs[-2] if len(vs) >= 2 else vs[-1]))
            # model-independent expectations for the single-annotation leaf types
            if lt[0] == "arr" and lt[2] in SIMPLE:
                tree_idx = [i for i, s in enumerate(sess["steps"]) if s["kind"] == "tree"]
                v1, v2 = vs[tree_idx[0]], vs[tree_idx[1]]
                want2 = "rej" if (mode == "differ" or (mode == "swap" and sess["steps"][tree_idx[0]]["value"] != sess["steps"][tree_idx[1]]["value"])) else "acc"
                if v1 != "acc" or v2 != want2:
                    R.violation("property", "leaf type %s, second tree %s: expected acc then %s, implementation %s then %s (%s)" % (lt[2], mode, want2, v1, v2, json.dumps(sess["steps"])),
                                {"session": sess, "mode": mode}, key={"kind": "per-position", "mode": mode})
                # the plain axis n is never disturbed
                if sess["steps"][0]["kind"] == "arr" and sess["steps"][-1]["kind"] == "arr" and not probed:
                    want = "acc" if sess["steps"][-1]["shape"][0] == sess["steps"][0]["shape"][0] else "rej"
                    if vs[-1] != want:
                        R.violation("property", "plain axis n was disturbed by '?n' axes: final check of n=%s gives %s, expected %s (%s)" % (sess["steps"][-1]["shape"], vs[-1], want, json.dumps(sess["steps"])),
                                    {"session": sess}, key={"kind": "plain-axis"})
            nontriv.add(json.dumps(sess, sort_keys=True))
        for j, (st, m) in enumerate(zip(r["steps"], msteps)):
            if st["build"] != "ok":
                R.violation("correspondence", "annotation could not be built: %s" % st["build"], {"session": sess}, key={"kind": "build"}, no_input=True); break
            got = "%s %s" % (st["verdict"], st["memo"])
            if st["verdict"] != "acc" and not st["unchanged"]:
                R.violation("property", "a check that did not accept changed the bindings (`%s` -> `%s`): %s" % (st["before"], st["memo"], json.dumps(sess["steps"][:j + 1])), {"session": sess, "step": j}, key={"kind": "not-restored"})
            if got != m:
                vd = got.split(" ")[0] != m.split(" ")[0]
                R.violation("property" if (vd and proved) else "correspondence", "step %d: implementation `%s`, model `%s` (%s)" % (j, got, m, json.dumps(sess["steps"][:j + 1])),
                            {"session": dict(sess, steps=sess["steps"][:j + 1]), "impl": got, "model": m}, key={"kind": "model"}, no_input=not vd)
                break
        if r["flags"]["path"] is not None or r["flags"]["flat"]:
            R.violation("property", "the '?'-leaf position or the flatten mode outlived the checks: %s" % r["flags"], {"session": sess}, key={"kind": "flags"})
        if len(samples) < 4 and mt[0] == "gen" and idx % 13 == 0:
            samples.append({"session": sess, "verdicts": vs})
    # the statements the translator cut out of the source, run by CPython with scripted stand-ins, against their translation
    # interpreted inside Coq (lib/storage_corr.py)
    import storage_corr
    R.coverage["source_fragment_cases"] = storage_corr.fragment_correspondence(R, ['leafloop'], 600 if R.thorough else 60)
    if not proved:
        R.violation("proof", "proof obligations of props/C16.v no longer check: " + str(R.broken_proof)[-800:],
                    {"theorem_file": "coq/props/C16.v", "log": R.broken_proof}, no_input=not any(v["kind"] == "property" for v in R.violations))
    R.coverage.update(evaluations=nchecks, distinct_nontrivial=len(nontriv), samples=samples,
                      rule="%d corpus sessions (agree / swapped positions / plain axis of the same name / failing union alternative / two structure names / misuse outside and beneath two structured PyTrees / unions, tuples, structure-less nesting) + %d PRNG sessions: "
                           "optional plain `n m` check, a tree annotated PyTree[L, 'T'] with per-position sizes, a second tree (same, one position different, two positions swapped, or another structure name), optional plain `n` check; L among %d leaf types with '?n', '*?v', '#?n', unions and tuples. "
                           "Model-independent expectations for single-annotation leaf types; model compared on verdict and all bindings (incl. the `(Leaf i in structure T) n` keys)." % (len(CORPUS), n, len(LEAFTYPES)))
    sys.exit(R.finish())


if __name__ == "__main__":
    vf.guarded(PID, main)

"""C02 -- a checked call is accepted iff one consistent axis assignment exists; the verdict is
independent of declaration order, positional/keyword passing, typechecker and decorator spelling."""
import itertools, json, os, re, sys
sys.path.insert(0, os.path.join(os.path.dirname(os.path.abspath(__file__)), "..", "lib"))
import vf, gen_arrays as G

PID = "C02"
PN = ["x", "y", "z", "u", "w"]
IDENT = re.compile(r"[A-Za-z_][A-Za-z0-9_]*")


def sym_names(tok):
    """names used by a symbolic token (empty for other kinds)"""
    base = tok.split("=")[-1].lstrip("#*_?")
    if not base or IDENT.fullmatch(base) or re.fullmatch(r"[+-]?\d[\d_]*", base) or base == "...":
        return set()
    return set(IDENT.findall(base)) - {"min", "max"}


def binders(toks):
    """names a parameter certainly binds: plain (non-#) named single axes"""
    out = set()
    for t, k in toks:
        if k == "named":
            b = t.split("=")[-1]
            if not b.startswith("#") and "#" not in b[:2]:
                out.add(b.lstrip("#*_?"))
    return out


def admissible(order, info):
    bound = set()
    for n in order:
        need = set().union(*[sym_names(t) for t, _ in info[n]]) if info[n] else set()
        # a symbolic axis may use names bound earlier in the SAME annotation only if they come first; keep it simple
        if not need <= bound:
            return False
        bound |= binders(info[n])
    return True


def gen_case(rng, corpus=None):
    if corpus is not None:
        params, ret, shapes, ret_shape = corpus
        info = {p["name"]: [(t, "named") for t in p["dim"].split()] for p in params}
        # recompute token kinds roughly for admissibility
        def kinds(dim):
            out = []
            for t in dim.split():
                b = t.lstrip("#*_?")
                k = "var" if "*" in t[:3] else "sym" if sym_names(t) else "fixed" if re.fullmatch(r"\d+", b) else "named"
                out.append((t, k))
            return out
        info = {p["name"]: kinds(p["dim"]) for p in params}
        retinfo = kinds(ret["dim"]) if ret else []
        return dict(params=params, ret=ret, shapes=shapes, ret_shape=ret_shape, dtypes={}, ret_dtype="float32"), info, retinfo
    env = G.Env(rng)
    n = rng.choice([1, 2, 2, 3, 3, 4, 5])
    params, info, shapes, dtypes = [], {}, {}, {}
    for i in range(n):
        while True:
            toks = G.gen_dims(rng, maxaxes=4)
            if not any("{" in t or "-a)" in t or "-b)" in t for t, _ in toks):   # no {arg} fields, no division by zero
                break
        cat, dt = rng.choice([("Float", "float32")] * 6 + [("Shaped", "int32"), ("Int", "int32"), ("Float", "int32"), ("Num", "float64")])
        params.append({"name": PN[i], "dim": G.dimstr(rng, toks, fancy_ws=False), "cat": cat})
        info[PN[i]] = toks
        shapes[PN[i]] = G.shape_for(rng, toks, env, rng.random() < .22)
        dtypes[PN[i]] = dt
        vi = [j for j, (_, k) in enumerate(toks) if k in ("var", "vanon")]
        if vi and 0 < vi[0] < len(toks) - 1 and rng.random() < .4:
            # a variadic axis with ordinary axes on both sides, and an array of too small a rank (>= each side, < their sum)
            shapes[PN[i]] = shapes[PN[i]][:max(vi[0], len(toks) - 1 - vi[0])]
        sh = shapes[PN[i]]
        if len(sh) >= 2 and rng.random() < .25:
            # Union[decoy, real]: the decoy alternative cannot match this value in ANY context (fixed last axis != the value's), but
            # its prefix names an axis other parameters use; a failed alternative must leave nothing behind, so the call is judged
            # exactly as with the real annotation alone (the model gets the real one)
            params[-1]["union"] = ["%s *q_ %d" % (rng.choice(G.NAMES), sh[-1] + 2), params[-1]["dim"]]
            params[-1]["decoy"] = True
    ret, retinfo, ret_shape = None, [], []
    if rng.random() < .8:
        while True:
            toks = G.gen_dims(rng, maxaxes=3)
            if not any("{" in t or "-a)" in t or "-b)" in t for t, _ in toks):   # no {arg} fields, no division by zero
                break
        ret = {"dim": G.dimstr(rng, toks, fancy_ws=False), "cat": "Float"}
        retinfo = toks
        ret_shape = G.shape_for(rng, toks, env, rng.random() < .2)
    return dict(params=params, ret=ret, shapes=shapes, ret_shape=ret_shape, dtypes=dtypes, ret_dtype="float32"), info, retinfo


def P(name, dim, cat="Float"):
    return {"name": name, "dim": dim, "cat": cat}


CORPUS = [
    ([P("x", "#n"), P("y", "n")], None, {"x": [1], "y": [3]}, []),
    ([P("x", "#n"), P("y", "n")], None, {"x": [2], "y": [3]}, []),
    ([P("x", "*#v"), P("y", "*#v"), P("z", "*v")], None, {"x": [1, 3], "y": [2, 1], "z": [2, 3]}, []),
    ([P("x", "*#v"), P("y", "*#v"), P("z", "*v")], None, {"x": [1, 3], "y": [2, 1], "z": [2, 4]}, []),
    ([P("x", "*#v"), P("y", "*v"), P("z", "*#v")], None, {"x": [3], "y": [2, 3], "z": [4, 2, 3]}, []),
    ([P("x", "*v"), P("y", "*#v"), P("z", "*v")], None, {"x": [3], "y": [3], "z": [2, 3]}, []),
    ([P("x", "a b"), P("y", "b c"), P("z", "c a")], {"dim": "a c", "cat": "Float"}, {"x": [2, 3], "y": [3, 4], "z": [4, 2]}, [2, 4]),
    ([P("x", "a b"), P("y", "b c"), P("z", "c a")], {"dim": "a c", "cat": "Float"}, {"x": [2, 3], "y": [3, 4], "z": [4, 5]}, [2, 4]),
    ([P("x", "a b"), P("y", "b c")], {"dim": "a c", "cat": "Float"}, {"x": [2, 3], "y": [3, 4]}, [2, 5]),
    ([P("x", "a"), P("y", "a+1")], {"dim": "2*a", "cat": "Float"}, {"x": [3], "y": [4]}, [6]),
    ([P("x", "a"), P("y", "a+1")], {"dim": "2*a", "cat": "Float"}, {"x": [3], "y": [5]}, [6]),
    ([P("x", "#a #b"), P("y", "a b"), P("z", "#a b")], None, {"x": [1, 1], "y": [2, 3], "z": [1, 3]}, []),
    ([P("x", "#a #b"), P("y", "a b"), P("z", "#a b")], None, {"x": [1, 4], "y": [2, 3], "z": [1, 3]}, []),
    ([P("x", "_ a"), P("y", "a ..."), P("z", "... a")], None, {"x": [7, 2], "y": [2, 9, 9], "z": [2]}, []),
    ([P("x", "a", "Int")], None, {"x": [2]}, []),
    ([P("x", "0 a"), P("y", "a 0")], None, {"x": [0, 5], "y": [5, 0]}, []),
    # empty arrays: a size-0 axis is a binding like any other (0 is not "unbound"), and 1 broadcasts against 0 to 0
    ([P("x", "*#batch"), P("y", "*batch")], None, {"x": [1], "y": [0]}, []),
    ([P("x", "*#batch"), P("y", "*#batch"), P("z", "*batch")], None, {"x": [0], "y": [1], "z": [5]}, []),
    ([P("x", "n"), P("y", "n"), P("z", "n k")], None, {"x": [0], "y": [3], "z": [3, 2]}, []),
    ([P("x", "n"), P("y", "n k")], None, {"x": [0], "y": [0, 2]}, []),
    ([P("x", "#n"), P("y", "n"), P("z", "n")], None, {"x": [1], "y": [0], "z": [2]}, []),
    ([P("x", "*#v a"), P("y", "*v a")], {"dim": "*v", "cat": "Float"}, {"x": [1, 0, 3], "y": [4, 0, 3]}, [4, 0]),
    # ordinary axes on both sides of a variadic one, rank below the number of ordinary axes: no assignment exists
    ([P("x", "batch *mid chan")], None, {"x": [5]}, []),
    ([P("x", "a b *rest c d")], None, {"x": [2, 3, 4]}, []),
    ([P("x", "n ... n"), P("y", "n")], None, {"x": [4], "y": [4]}, []),
    ([P("x", "a b *rest c d")], None, {"x": [2, 3, 4, 5]}, []),
    # a union whose first alternative fails only after its prefix matched: nothing of it may stay behind
    ([dict(P("x", "m n"), union=["n *b 3", "m n"], decoy=True), P("y", "n")], None, {"x": [4, 5], "y": [5]}, []),
    ([dict(P("x", "m n"), union=["n *b 3", "m n"], decoy=True), P("y", "n")], {"dim": "n", "cat": "Float"}, {"x": [4, 5], "y": [4]}, [5]),
]


def variants_for(rng, names, info, full):
    perms = list(itertools.permutations(names))
    if len(perms) > 6 and not full:
        perms = [perms[0]] + rng.sample(perms[1:], 7)
    elif len(perms) > 24:
        perms = [perms[0]] + rng.sample(perms[1:], 23)
    out = []
    for p in perms:
        if not admissible(p, info):
            continue
        for call in ("pos", "kw"):
            for chk in ("typeguard", "beartype"):
                for style in ("new", "old"):
                    out.append({"order": list(p), "call": call, "checker": chk, "style": style})
        for chk in ("typeguard", "beartype"):
            out.append({"order": list(p), "call": "kw", "checker": chk, "style": "dataclass"})
    return out


def use_coq(dim, cat_dtypes, shape, dtype):
    return "(mkstep %s false %s (mkvalue true true %s %s))" % (vf.coqstr(dim), vf.coqopt(cat_dtypes, lambda l: vf.coqlist(l, vf.coqstr)),
                                                             vf.coqstr(dtype), vf.coqlist(shape, vf.coqz))


def main():
    R = vf.Report(PID)
    proved = R.proof_step()
    n = 10000 if R.thorough else 260
    cases, infos = [], []
    for c in CORPUS:
        case, info, retinfo = gen_case(R.rng, corpus=c)
        cases.append(case); infos.append((info, retinfo))
    for _ in range(n):
        case, info, retinfo = gen_case(R.rng)
        cases.append(case); infos.append((info, retinfo))
    for case, (info, retinfo) in zip(cases, infos):
        case["variants"] = variants_for(R.rng, [p["name"] for p in case["params"]], info, R.thorough)
    cases = [c for c in cases if c["variants"]]
    # split over workers
    nw = min(8, max(1, len(cases) // 40))
    chunks = [cases[i::nw] for i in range(nw)]
    from concurrent.futures import ThreadPoolExecutor
    with ThreadPoolExecutor(nw) as ex:
        # every other worker first performs unrelated failing / raising checks (the verdicts must not depend on them: C12)
        outs = list(ex.map(lambda kc: vf.impl("impl_calls.py", {"cases": kc[1], "prelude": kc[0] % 2 == 1}, bg=(kc[0] % 4 == 2)), list(enumerate(chunks))))
    cat_dtypes = {}
    results = {}
    for ch, o in zip(chunks, outs):
        cat_dtypes.update(o["cat_dtypes"])
        for c, r in zip(ch, o["results"]):
            results[id(c)] = r

    # model: one walk per distinct (order, with/without return)
    terms, keys = [], []
    for c in cases:
        by = {p["name"]: p for p in c["params"]}
        seen = set()
        for v in c["variants"]:
            k = (tuple(v["order"]), v["style"] == "dataclass")
            if k in seen:
                continue
            seen.add(k)
            uses = [use_coq(by[nm]["dim"], cat_dtypes[by[nm]["cat"]], c["shapes"][nm], c["dtypes"].get(nm, "float32")) for nm in v["order"]]
            if c["ret"] and not k[1]:
                uses.append(use_coq(c["ret"]["dim"], cat_dtypes[c["ret"]["cat"]], c["ret_shape"], c["ret_dtype"]))
            syms = [t for nm in v["order"] for t in by[nm]["dim"].split()] + (c["ret"]["dim"].split() if c["ret"] else [])
            syms = [t.split("=")[-1].lstrip("#*_?") for t in syms]
            terms.append("(%s, %s)" % (G.symtab_coq(syms), vf.coqlist(uses)))
            keys.append((id(c), k))
    mres = vf.coq_eval_strings(["model.Check"], "fun c => let '(st, steps) := c in run_walk st steps", terms, shard=600)
    model = dict(zip(keys, mres))
    # cases with a union parameter, once more through the model of GREEDY union resolution (model/UnionWalk.v) with all their alternatives
    uterms, ukeys = [], []
    for c in cases:
        if not any("union" in p for p in c["params"]):
            continue
        by = {p["name"]: p for p in c["params"]}
        seen = set()
        for v in c["variants"]:
            k = (tuple(v["order"]), v["style"] == "dataclass")
            if k in seen:
                continue
            seen.add(k)
            groups = [[use_coq(d, cat_dtypes[by[nm]["cat"]], c["shapes"][nm], c["dtypes"].get(nm, "float32")) for d in by[nm].get("union", [by[nm]["dim"]])] for nm in v["order"]]
            if c["ret"] and not k[1]:
                groups.append([use_coq(c["ret"]["dim"], cat_dtypes[c["ret"]["cat"]], c["ret_shape"], c["ret_dtype"])])
            syms = [t.split("=")[-1].lstrip("#*_?") for nm in v["order"] for d in by[nm].get("union", [by[nm]["dim"]]) for t in d.split()] + ([t.split("=")[-1].lstrip("#*_?") for t in c["ret"]["dim"].split()] if c["ret"] else [])
            uterms.append("(%s, %s)" % (G.symtab_coq(syms), vf.coqlist(groups, lambda g: vf.coqlist(g))))
            ukeys.append((id(c), k))
    umodel = dict(zip(ukeys, vf.coq_eval_strings(["model.UnionWalk"], "fun c => let '(st, steps) := c in run_walk_union st steps", uterms, shard=600))) if uterms else {}

    nontriv, samples, ncalls = set(), [], 0
    for c in cases:
        res = results[id(c)]
        groups = {}
        for v, r in zip(c["variants"], res):
            ncalls += 1
            o = r["outcome"]
            R.count("outcome:" + o.split(":")[0])
            isdc = v["style"] == "dataclass"
            groups.setdefault(isdc, []).append((v, o))
            m = model[(id(c), (tuple(v["order"]), isdc))]
            mo = {"acc": "ok", "rej": "reject"}.get(m, m)
            um = umodel.get((id(c), (tuple(v["order"]), isdc)))
            if um is not None and {"acc": "ok", "rej": "reject"}.get(um, um) != o:
                R.violation("correspondence", "decorated call %s with a union parameter: implementation `%s`, model of greedy union resolution (UnionWalk.v) `%s`; params %s shapes %s" % (
                    v, o, um, [(p["name"], p.get("union", p["dim"])) for p in c["params"]], c["shapes"]), {"case": dict(c, variants=[v]), "impl": o, "model": um}, key={"kind": "union-walk-vs-impl"}, no_input=True)
            if o != mo:
                small = dict(c, variants=[v])
                kind = "property" if (proved and o in ("ok", "reject") and mo in ("ok", "reject")) else "correspondence"
                R.violation(kind, "decorated call %s: implementation `%s`, model (proved: accept iff a consistent assignment exists) `%s`; params %s ret %s shapes %s" % (
                    v, o, mo, [(p["name"], p["dim"]) for p in c["params"]], c["ret"], c["shapes"]),
                    {"case": small, "impl": o, "model": mo, "msg": r["msg"][:400]}, key={"kind": "verdict-vs-model"}, no_input=(kind != "property"))
        for isdc, lst in groups.items():
            outs_ = sorted(set(o for _, o in lst))
            if len(outs_) > 1:
                R.violation("property", "variants of one call disagree (order / positional-vs-keyword / typechecker / spelling must not matter): %s; params %s ret %s shapes %s ret_shape %s" % (
                    [(v["order"], v["call"], v["checker"], v["style"], o) for v, o in lst if o != lst[0][1]][:4] + [("first", lst[0][0]["order"], lst[0][1])],
                    [(p["name"], p["dim"], p["cat"]) for p in c["params"]], c["ret"], c["shapes"], c["ret_shape"]),
                    {"case": c, "outcomes": [(v, o) for v, o in lst]}, key={"kind": "variants-disagree"})
        if len(c["params"]) >= 2 and len(c["variants"]) > 10:
            nontriv.add(json.dumps({k: c[k] for k in ("params", "ret", "shapes", "ret_shape")}, sort_keys=True))
        if len(samples) < 4 and len(c["params"]) >= 3:
            samples.append({"params": c["params"], "ret": c["ret"], "shapes": c["shapes"], "ret_shape": c["ret_shape"],
                            "n_variants": len(c["variants"]), "outcomes": sorted(set(r["outcome"] for r in res))})
    # two small programs: (i) a decorated helper WITHOUT array annotations binds an axis name in its body that its caller also uses --
    # the caller's own consistent assignment decides; (ii) an annotation alias shared with a decorated generator function still checks
    scen = vf.impl("impl_wrap.py", {"scenarios": [[nm, c] for nm in ("helper_binds", "alias_generator", "union_greedy", "wraps_metadata", "truediv") for c in ("typeguard", "beartype")]}, timeout=600)
    for sc in scen:
        ncalls += len(sc["wrapped"])
        want = sc.get("expected", sc["plain"])
        if sc["wrapped"] != want:
            R.violation("property", "scenario %r (%s): the decorated program gives %s; a consistent axis assignment exists exactly for the calls with outcome %s" % (sc["scenario"], sc["checker"], sc["wrapped"], want),
                        {"scenario": sc}, key={"kind": "scenario", "scenario": sc["scenario"]})
    if not proved:
        R.violation("proof", "proof obligations of props/C02.v no longer check: " + str(R.broken_proof)[-800:],
                    {"theorem_file": "coq/props/C02.v", "log": R.broken_proof}, no_input=not any(v["kind"] == "property" for v in R.violations))
    R.coverage.update(evaluations=ncalls, distinct_nontrivial=len(nontriv), samples=samples, base_cases=len(cases),
                      rule="%d corpus + %d PRNG signatures of 1-5 array parameters (+ return 80%%), shapes from a hidden consistent assignment, ~22%% perturbed; each run under every admissible permutation "
                           "(all for <=3 params, sampled above; symbolic axes stay after their binders) x positional/keyword x typeguard/beartype x jaxtyped(typechecker=..)/jaxtyped(checker(f)) + jaxtyped dataclass. "
                           "Half of the workers first run a prelude of failing / raising PyTree checks (faults in flatteners and leaf checks). Oracles: (i) all variants of a case give one outcome; (ii) outcome == model walk (Coq, vm_compute). non-trivial = distinct case with >=2 params and >10 variants" % (len(CORPUS), n))
    R.assumptions += ["typecheckers call isinstance on annotated parameters in declaration order and stop at the first failure (observed for typeguard 2.13.3 and beartype 0.22.9); not proved",
                      "arrays are NumPy arrays; symbolic axes without {arg} fields"]
    sys.exit(R.finish())


if __name__ == "__main__":
    vf.guarded(PID, main)

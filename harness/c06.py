"""C06 -- threads never see each other's bindings or transient check state."""
import json, os, sys
sys.path.insert(0, os.path.join(os.path.dirname(os.path.abspath(__file__)), "..", "lib"))
import vf

PID = "C06"
WLS = ["pytree", "array", "calls", "question", "nested", "toplevel", "toplevel"]


def gen_schedule(rng, nthreads, length=900):
    sch = []
    while len(sch) < length:
        sch += [rng.randrange(nthreads)] * rng.choice([1, 1, 2, 3, 5, 8, 20, 60])
    return sch


def main():
    R = vf.Report(PID)
    proved = R.proof_step()
    n = 6000 if R.thorough else 70
    scheds = []
    # systematic: one thread runs k steps, then the other runs to completion, then the first finishes (a preemption at every accessor boundary of the first ~120 lines)
    for a, b in (("pytree", "array"), ("array", "pytree"), ("calls", "question"), ("question", "array"), ("pytree", "question"), ("array", "nested"), ("nested", "calls"), ("toplevel", "toplevel"), ("toplevel", "calls")):
        for k in range(0, 130, 6 if not R.thorough else 1):
            scheds.append([[a, b], [0] * k + [1] * 2000])
    for _ in range(n):
        k = R.rng.choice([2, 2, 3])
        names = [R.rng.choice(WLS) for _ in range(k)]
        scheds.append([names, gen_schedule(R.rng, k)])
    nw = 12
    chunks = [scheds[i::nw] for i in range(nw)]
    from concurrent.futures import ThreadPoolExecutor
    with ThreadPoolExecutor(nw) as ex:
        outs = list(ex.map(lambda ch: vf.impl("impl_threads.py", {"schedules": ch}, timeout=3000), chunks))
    res = [None] * len(scheds)
    for w, o in enumerate(outs):
        for j, r in enumerate(o):
            res[w + j * nw] = r
    nontriv, samples, steps = set(), [], 0
    for (names, sch), r in zip(scheds, res):
        steps += r["steps"]
        R.count("threads:%d" % len(names))
        if r["out"] != r["solo"]:
            diff = [(i, names[i], r["out"][i], r["solo"][i]) for i in range(len(names)) if r["out"][i] != r["solo"][i]]
            R.violation("property", "under the schedule (run-length encoded) %s threads %s obtain results that differ from running alone: %s" % (rle(sch)[:40], names, diff[:2]),
                        {"workloads": names, "schedule_rle": rle(sch), "out": r["out"], "solo": r["solo"], "owner_context_open": bool(r.get("owner"))}, key={"kind": "interference", "workloads": ",".join(names)})
        if r.get("owner") and r["owner"][0] != r["owner"][1]:
            R.violation("property", "worker threads %s (started from a copy of the main thread's contextvars context while the main thread was inside a context block) changed the MAIN thread's bindings: before %r, after %r" % (names, r["owner"][0], r["owner"][1]),
                        {"workloads": names, "schedule_rle": rle(sch), "owner": r["owner"], "owner_context_open": True}, key={"kind": "owner-bindings-changed"})
        nontriv.add(json.dumps([names, rle(sch)[:30]]))
        if len(samples) < 3 and len(names) == 3:
            samples.append({"workloads": names, "schedule_rle": rle(sch)[:20], "yield_points": r["steps"], "per_thread_result_equals_solo": r["out"] == r["solo"]})
    if not proved:
        R.violation("proof", "proof obligations of props/C06.v no longer check (a storage cell is no longer a plain threading.local(), or new module-level state / access path in _storage.py): " + str(R.broken_proof)[-700:],
                    {"theorem_file": "coq/props/C06.v", "log": R.broken_proof}, no_input=not any(v["kind"] == "property" for v in R.violations))
    R.coverage.update(evaluations=len(scheds), distinct_nontrivial=len(nontriv), samples=samples, yield_points_total=steps,
                      rule="controlled schedules on the real code: worker threads run under sys.settrace and park at EVERY line executed inside jaxtyping/_storage.py, _array_types.py, _pytree_type.py, _decorator.py; a scheduler thread picks who runs next. "
                           "%d systematic schedules (thread A runs k yield points, B runs to completion, A finishes; k = 0..129) over 9 workload pairs + %d PRNG schedules of 2-3 threads; workloads: PyTree checks with registered nodes and '?' axes, array checks incl. wrong dtype and rollback after partial progress, decorated calls (accepting and rejecting), top-level stateless checks. "
                           "Oracle: per-thread transcript (verdicts, print_bindings) == the same workload run alone." % (len(scheds) - n, n))
    R.assumptions += ["a context switch inside a single bytecode / inside C code cannot be forced by this scheduler", "threading.local() semantics are CPython's"]
    sys.exit(R.finish())


def rle(s):
    out = []
    for x in s:
        if out and out[-1][0] == x:
            out[-1][1] += 1
        else:
            out.append([x, 1])
    return out


if __name__ == "__main__":
    vf.guarded(PID, main)

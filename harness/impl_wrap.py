"""C07 worker: a decorated callable must be indistinguishable from the original on well-typed calls.
JSON in: {"cases": [case...]}; case = {"params": [[name, kind, has_default, annotated]...], "fname": str, "callable": "def"|"lambda"|"async"|"gen",
  "descriptor": "function"|"method"|"classmethod"|"staticmethod"|"property", "checker": "typeguard"|"beartype", "ret_annot": bool,
  "calls": [{"args": [...], "kwargs": {...}}...]}   argument values: ["arr", shape] | ["int", n] | ["str", s]
kinds: po (positional-only), pk, vp (*args), ko, vk (**kwargs)"""
import json, sys, io, contextlib, warnings, inspect, asyncio


def mkval(v):
    import numpy as np
    if v[0] == "arr":
        return np.zeros(tuple(v[1]), "float32")
    if v[0] == "int":
        return int(v[1])
    if v[0] == "none":
        return None
    return str(v[1])


def build_source(case):
    ps = case["params"]
    pieces, seen_po, seen_star = [], False, False
    po = [p for p in ps if p[1] == "po"]
    for i, p in enumerate(ps):
        name, kind, dflt, ann = p
        a = (": A" if ann == "arr" else ": int" if ann == "int" else ": Tok" if ann == "cls" else "") if case["callable"] != "lambda" else ""
        d = " = DFLT" if dflt else ""
        if kind == "ko" and not seen_star and not any(q[1] == "vp" for q in ps):
            pieces.append("*"); seen_star = True
        if kind == "vp":
            pieces.append("*" + name + (": A" if ann == "arr" and case["callable"] != "lambda" else "")); seen_star = True
        elif kind == "vk":
            pieces.append("**" + name)
        else:
            pieces.append(name + a + d)
        if kind == "po" and (i + 1 == len(ps) or ps[i + 1][1] != "po"):
            pieces.append("/")
    names = [p[0] for p in ps]
    rec = "LOG.append((%s))" % "".join("id(%s) if not isinstance(%s, (tuple, dict)) else (tuple(map(id, %s)) if isinstance(%s, tuple) else tuple(sorted((k, id(v)) for k, v in %s.items()))), " % (n, n, n, n, n) for n in names)
    ret = " -> A" if case.get("ret_annot") and case["callable"] != "lambda" else ""
    first_arr = next((p[0] for p in ps if p[3] == "arr" and p[1] in ("po", "pk", "ko") and not p[2]), None)
    if not first_arr:
        case["ret_annot"] = False
    ret = " -> A" if case.get("ret_annot") and case["callable"] != "lambda" else ""
    retexpr = first_arr if (first_arr and case.get("ret_annot")) else "RESULT"
    if case["callable"] == "lambda":
        return "%s = lambda %s: (%s, %s)[1]" % (case["fname"], ", ".join(pieces), rec, retexpr), retexpr
    if case["callable"] == "wraps":
        # the decorated object is a functools.wraps wrapper taking (*args, **kwargs) that looks at the RAW call
        inner = "def _inner(%s)%s:\n    '''doc of %s'''\n    %s\n    return %s\n" % (", ".join(pieces), ret, case["fname"], rec, retexpr)
        outer = ("@functools.wraps(_inner)\ndef %s(*args, **kwargs):\n    LOG.append(('raw', len(args), tuple(sorted(kwargs))))\n    return _inner(*args, **kwargs)\n" % case["fname"])
        return "import functools\n" + inner + outer, retexpr
    kw = "async def" if case["callable"] == "async" else "def"
    body = "    '''doc of %s'''\n    %s\n" % (case["fname"], rec)
    if case["callable"] == "gen":
        body += "    yield %s\n" % retexpr
    else:
        body += "    return %s\n" % retexpr
    return "%s %s(%s)%s:\n%s" % (kw, case["fname"], ", ".join(pieces), ret, body), retexpr


def outcome(f, args, kwargs, kind, log):
    n0 = len(log)
    try:
        r = f(*args, **kwargs)
        if kind == "async":
            r = asyncio.run(r)
        elif kind == "gen":
            r = list(r)[0]
        return ("ret", id(r) if not isinstance(r, (int, str)) else r, log[n0:])
    except BaseException as e:  # noqa
        return ("exc", type(e).__name__, log[n0:])


def run_case(case):
    import numpy as np, typeguard, beartype
    from jaxtyping import Float, jaxtyped
    A = Float[np.ndarray, "n"]
    tc = typeguard.typechecked if case["checker"] == "typeguard" else beartype.beartype
    src, _ = build_source(case)
    out = {"src": src}
    logs = {"plain": [], "wrapped": []}
    result_obj = object()
    dflt_obj = np.zeros((4,), "float32")
    fns = {}
    Tok = type("Tok", (), {})              # a class created per function (same name and text every time)
    TokOther = type("Tok", (), {})
    for which in ("plain", "wrapped"):
        g = {"A": A, "DFLT": dflt_obj, "RESULT": result_obj, "LOG": logs[which], "__name__": "genmod", "Tok": Tok}
        try:
            exec(src, g)
        except SyntaxError as e:
            return {"src": src, "error": "generated source invalid: %s" % e}
        fns[which] = g[case["fname"]]
    plain = fns["plain"]
    if case.get("twin"):
        # an unrelated function decorated EARLIER in the process: same name, module and annotations, but every default is None
        g2 = {"A": A, "DFLT": None, "RESULT": result_obj, "LOG": [], "__name__": "genmod", "Tok": type("Tok", (), {})}
        try:
            exec(src, g2)
            jaxtyped(typechecker=tc)(g2[case["fname"]])
        except BaseException:  # noqa
            pass
    # observe the source text of the synthesised checking functions
    import re
    from jaxtyping import _decorator
    headers = []
    def spy_exec(code, scope):
        if isinstance(code, str) and code.startswith("def "):
            headers.append(code)
        return exec(code, scope)
    _decorator.exec = spy_exec
    try:
        wrapped_fn = jaxtyped(typechecker=tc)(fns["wrapped"])
    except BaseException as e:  # noqa
        return {"src": src, "decorate": "%s: %s" % (type(e).__name__, str(e)[:200])}
    finally:
        del _decorator.exec
    def canon_header(h):
        m = re.match(r"def [^(]*\((.*)\)(?:-> \w+)?:\n", h)
        if not m:
            return "?" + h[:60]
        out = []
        for piece in (m.group(1).split(", ") if m.group(1) else []):
            if piece in ("/", "*"):
                out.append(piece)
            elif piece.startswith("**"):
                out.append("**" + piece[2:].split(":")[0])
            elif piece.startswith("*"):
                out.append("*" + piece[1:].split(":")[0])
            else:
                out.append("P:%s:%d" % (piece.split(":")[0], 1 if "=" in piece else 0))
        return ",".join(out)
    def names_of(h):
        m = re.match(r"def ([^(]*)\((.*)\)(?:-> \w+)?:\n", h)
        res = []
        for piece in (m.group(2).split(", ") if m and m.group(2) else []):
            mm = re.match(r"\*{0,2}(\w+): (\w+)(?: = (\w+))?$", piece)
            if mm:
                res.append([mm.group(1), mm.group(2), mm.group(3)])
        return [m.group(1) if m else "?", res]
    out["header_names"] = [names_of(h) for h in headers]
    out["headers"] = [canon_header(h) for h in headers]
    out["gennames"] = [sorted(set(re.findall(r"\b(?:T|default|ret|fn)\d+\b", h))) for h in headers]
    out["decorate"] = "ok"
    desc = case["descriptor"]
    # descriptor kinds: put both into classes
    def in_class(fn, decorated):
        ns = {}
        if desc == "function":
            return fn, None
        if desc == "method":
            ns["m"] = fn
        elif desc == "classmethod":
            ns["m"] = jaxtyped(typechecker=tc)(classmethod(fn.__wrapped__)) if decorated else classmethod(fn)
        elif desc == "staticmethod":
            ns["m"] = jaxtyped(typechecker=tc)(staticmethod(fn.__wrapped__)) if decorated else staticmethod(fn)
        elif desc == "property":
            ns["m"] = jaxtyped(typechecker=tc)(property(fn.__wrapped__)) if decorated else property(fn)
        C = type("C", (), ns)
        return C, C()
    meta = {}
    for k in ("__name__", "__qualname__", "__doc__", "__module__"):
        meta[k] = (getattr(plain, k, None), getattr(wrapped_fn, k, None))
    try:
        meta["signature"] = (str(inspect.signature(plain)), str(inspect.signature(wrapped_fn)))
    except Exception as e:  # noqa
        meta["signature"] = ("?", "error:" + type(e).__name__)
    out["info"] = {"iscoroutinefunction": (inspect.iscoroutinefunction(plain), inspect.iscoroutinefunction(wrapped_fn)),
                   "isgeneratorfunction": (inspect.isgeneratorfunction(plain), inspect.isgeneratorfunction(wrapped_fn))}
    out["meta"] = meta
    if desc != "function":
        try:
            Cp, ip = in_class(plain, False); Cw, iw = in_class(wrapped_fn, True)
            out["descriptor_types"] = (type(Cp.__dict__["m"]).__name__, type(Cw.__dict__["m"]).__name__)
        except BaseException as e:  # noqa
            out["descriptor_types"] = ("?", "error:%s" % type(e).__name__)
    if case.get("swap_defaults"):
        # the original's defaults are replaced AFTER decoration: a call that omits them must see the new ones, as plain code does
        newd = np.zeros((4,), "float32")
        for fn in (plain, fns["wrapped"]):
            tgt = getattr(fn, "__wrapped__", fn) if case["callable"] == "wraps" else fn
            if getattr(tgt, "__defaults__", None):
                tgt.__defaults__ = tuple(newd for _ in tgt.__defaults__)
            if getattr(tgt, "__kwdefaults__", None):
                tgt.__kwdefaults__ = {k: newd for k in tgt.__kwdefaults__}
    def mk(v):
        return Tok() if v[0] == "tok" else TokOther() if v[0] == "tok_other" else mkval(v)
    calls = []
    for call in case["calls"]:
        args = [mk(v) for v in call["args"]]
        kwargs = {k: mk(v) for k, v in call["kwargs"].items()}
        a = outcome(plain, args, kwargs, case["callable"], logs["plain"])
        b = outcome(wrapped_fn, args, kwargs, case["callable"], logs["wrapped"])
        same_ret = (a[0] == b[0]) and (a[1] == b[1] or (a[0] == "ret" and a[1] == id(result_obj) == b[1]))
        calls.append({"plain": [a[0], a[1] if a[0] == "exc" else "obj"], "wrapped": [b[0], b[1] if b[0] == "exc" else "obj"], "same_result": bool(same_ret),
                      "body_runs": [len(a[2]), len(b[2])], "same_args": a[2] == b[2], "welltyped": call.get("welltyped", True), "binds": call.get("binds", True)})
    out["calls"] = calls
    return out


def run_scenario(name, checker):
    """small programs, all calls well-typed, run once with plain functions and once with the decorated ones: same transcript"""
    import numpy as np
    import typeguard, beartype
    from jaxtyping import Float, jaxtyped
    A = np.ndarray
    tc = typeguard.typechecked if checker == "typeguard" else beartype.beartype

    def program(dec):
        log = []
        if name == "loader":
            # an ordinary function advances a generator made by a decorated generator function and KEEPS it (suspended) past its own return
            @dec
            def rows(data: Float[A, "n d"]):
                for i in range(data.shape[0]):
                    yield data[i]

            class Loader:
                @dec
                def start(self, data: Float[A, "m d"]) -> Float[A, "n"]:      # n: a name of its own here (the row length), also used by rows()
                    self.it = rows(data)
                    return next(self.it)

                @dec
                def more(self, scale: Float[A, "d"]) -> Float[A, "n"]:
                    return next(self.it)
            ld = Loader()
            for step in (lambda: ld.start(np.zeros((3, 2), "float32")).shape, lambda: ld.more(np.zeros((5,), "float32")).shape,
                         lambda: Loader().start(np.zeros((4, 7), "float32")).shape, lambda: ld.more(np.zeros((1,), "float32")).shape):
                try:
                    log.append(["ret", list(step())])
                except BaseException as e:  # noqa
                    log.append(["exc", type(e).__name__])
        elif name == "helper_binds":
            # a decorated function WITHOUT array annotations does a manual check in its body; the name it uses is also an axis of its caller
            @dec
            def workspace(k: int):
                return isinstance(np.zeros((k,), "float32"), Float[A, "n"])

            @dec
            def f(x: Float[A, "b"], scratch: int) -> Float[A, "n"]:
                workspace(scratch)
                return np.zeros((5,), "float32")
            for step in (lambda: f(np.zeros((3,), "float32"), 7).shape, lambda: f(np.zeros((3,), "float32"), 5).shape):
                try:
                    log.append(["ret", list(step())])
                except BaseException as e:  # noqa
                    log.append(["exc", type(e).__name__])
        elif name == "alias_generator":
            # one annotation object (a module-level alias) used by a decorated GENERATOR function and by ordinary functions: decorating
            # the generator must not change what the alias means elsewhere
            import typing
            Vec = Float[A, "n"]

            @dec
            def repeat(x: Vec, k: int) -> typing.Iterator[Vec]:
                for _ in range(k):
                    yield x

            @dec
            def dot(x: Vec, y: Vec):
                return 0

            @dec
            def double(x: Vec) -> Vec:
                return np.concatenate([x, x])
            for step in (lambda: dot(np.zeros((3,), "float32"), np.zeros((4,), "float32")), lambda: double(np.zeros((3,), "float32")).shape,
                         lambda: dot(np.zeros((3,), "float32"), np.zeros((3,), "float32")), lambda: len(list(repeat(np.zeros((2,), "float32"), 2)))):
                try:
                    r = step()
                    log.append(["ret", list(r) if isinstance(r, tuple) else r])
                except BaseException as e:  # noqa
                    log.append(["exc", type(e).__name__])
        elif name == "wraps_metadata":
            # a second implementation copies the metadata of an already decorated function with functools.wraps (it does not call it) and
            # is then decorated itself: it is a decorated function in its own right
            import functools

            @dec
            def add(x: Float[A, "n"], y: Float[A, "n"]):
                return 0

            @functools.wraps(add)
            def add_fast(x: Float[A, "n"], y: Float[A, "n"]):
                return 1
            add_fast = dec(add_fast)
            for step in (lambda: add_fast(np.zeros((3,), "float32"), np.zeros((1,), "float32")), lambda: add_fast(np.zeros((3,), "float32"), np.zeros((3,), "float32")),
                         lambda: add(np.zeros((3,), "float32"), np.zeros((4,), "float32"))):
                try:
                    log.append(["ret", step()])
                except BaseException as e:  # noqa
                    log.append(["exc", type(e).__name__])
        elif name == "truediv":
            # symbolic axes are Python expressions: n/2 is a float, equal to an integer size only when the division is exact
            def mk(ret_dim):
                @dec
                def halve(x: Float[A, "n"], k: int) -> Float[A, ret_dim]:
                    return np.zeros((k,), "float32")
                return halve
            h1, h2 = mk("n/2"), mk("n*0.5")
            for step in (lambda: h1(np.zeros((6,), "float32"), 3).shape, lambda: h1(np.zeros((7,), "float32"), 4).shape, lambda: h1(np.zeros((5,), "float32"), 2).shape,
                         lambda: h2(np.zeros((9,), "float32"), 4).shape, lambda: h2(np.zeros((8,), "float32"), 4).shape):
                try:
                    log.append(["ret", list(step())])
                except BaseException as e:  # noqa
                    log.append(["exc", type(e).__name__])
        elif name == "forward_ref":
            # quoted references to a module-level class nested inside generics (Optional["Node"], list["Node"]): resolved in the function's own
            # module, like the plain function's annotations are
            g = {"dec": dec, "typing": __import__("typing"), "LOG": log}
            exec("class Node:\n    pass\n\n@dec\ndef link(x: typing.Optional['Node'], n: int) -> int:\n    return n\n\n"
                 "@dec\ndef many(xs: typing.List['Node'], d: typing.Dict[str, 'Node']) -> int:\n    return len(xs) + len(d)\n", g)
            for step in (lambda: g["link"](g["Node"](), 1), lambda: g["link"](None, 2), lambda: g["many"]([g["Node"]()], {"a": g["Node"]()})):
                try:
                    log.append(["ret", step()])
                except BaseException as e:  # noqa
                    log.append(["exc", type(e).__name__])
        elif name == "union_greedy":
            # two parameters annotated Union[Float "n", Float "n+1"]: x=(4,), y=(3,) has the consistent assignment n=3 (y: "n", x: "n+1")
            import typing
            U = typing.Union[Float[A, "n"], Float[A, "n+1"]]

            @dec
            def g(x: U, y: U):
                return 0
            for step in (lambda: g(np.zeros((4,), "float32"), np.zeros((3,), "float32")), lambda: g(np.zeros((3,), "float32"), np.zeros((4,), "float32")),
                         lambda: g(np.zeros((3,), "float32"), np.zeros((5,), "float32"))):
                try:
                    log.append(["ret", step()])
                except BaseException as e:  # noqa
                    log.append(["exc", type(e).__name__])
        return log
    out = {"scenario": name, "checker": checker, "plain": program(lambda f: f), "wrapped": program(jaxtyped(typechecker=tc))}
    if name == "wraps_metadata":
        out["expected"] = [["exc", "TypeCheckError"], ["ret", 1], ["exc", "TypeCheckError"]]
    if name == "truediv":
        out["expected"] = [["ret", [3]], ["exc", "TypeCheckError"], ["exc", "TypeCheckError"], ["exc", "TypeCheckError"], ["ret", [4]]]
    if name == "union_greedy":
        out["expected"] = [["ret", 0], ["ret", 0], ["exc", "TypeCheckError"]]
    if name == "alias_generator":
        out["expected"] = [["exc", "TypeCheckError"], ["exc", "TypeCheckError"], ["ret", 0], ["ret", 2]]
    return out


def main():
    req = json.load(sys.stdin)
    buf = io.StringIO()
    with contextlib.redirect_stdout(buf), contextlib.redirect_stderr(io.StringIO()), warnings.catch_warnings():
        warnings.simplefilter("ignore")
        if "scenarios" in req:
            print_later = [run_scenario(n, c) for n, c in req["scenarios"]]
            sys.stdout = sys.__stdout__
            print(json.dumps(print_later))
            return
        res = []
        for c in req["cases"]:
            try:
                res.append(run_case(c))
            except BaseException as e:  # noqa
                import traceback
                res.append({"error": "harness: %s" % traceback.format_exc()[-500:]})
    print(json.dumps(res))


if __name__ == "__main__":
    main()

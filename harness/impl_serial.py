"""C20 worker: annotations through pickle / cloudpickle / copy / deepcopy, same process and a fresh one.
run(req): req = {"annots": [A...], "routes": [...], "loader": bool}
 A = {"cat": str | {"user": [strs]}, "arr": "np"|"any"|"jax"|"union"|"dup1"|"dup2", "dim": str, "nest": [ [cat, dim] ... ]}  (nest: further wrappers, innermost first)
Returns per annotation and route: verdict vectors of original-before, reloaded, original-after (as compact strings), or the exception class."""
import base64, io, json, os, pickle, subprocess, sys, copy, typing


def user_cat(strs):
    import usercats
    return usercats.get(tuple(strs))


def build(a):
    import numpy as np, jaxtyping as jt, jax
    from typing import Any, Union
    import dupmod1, dupmod2
    arr = {"np": np.ndarray, "any": Any, "jax": jax.Array, "union": Union[np.ndarray, jax.Array], "dup1": dupmod1.Tensor, "dup2": dupmod2.Tensor}[a["arr"]]
    def cat(c):
        return user_cat(c["user"]) if isinstance(c, dict) else getattr(jt, c)
    ann = cat(a["cat"])[arr, a["dim"]]
    for c, d in a.get("nest", []):
        ann = cat(c)[ann, d]
    return ann


def probe_values():
    import numpy as np, jax.numpy as jnp
    out = []
    for s in [(), (2,), (3,), (2, 3), (3, 2), (1,), (2, 2, 3), (4,)]:
        for d in ("float32", "float16", "float64", "int8", "int32", "bool", "complex64", "uint8"):
            out.append(np.zeros(s, dtype=d))
    out += [jnp.zeros((2,), "float32"), jnp.zeros((2, 3), "int8"), 1.0, "s"]
    class Duck:
        shape = (2,); dtype = "float32"
    out.append(Duck())
    import dupmod1, dupmod2
    out += [dupmod1.Tensor((2,), "float32"), dupmod2.Tensor((2,), "float32"), dupmod1.Tensor((2, 3), "int8"), dupmod2.Tensor((3,), "float16")]
    return out


def vec(ann, pv):
    import jaxtyping as jt, typing
    alts = typing.get_args(ann) if typing.get_origin(ann) is typing.Union else (ann,)
    out = ""
    for p in pv:
        with jt.jaxtyped("context"):
            try:
                out += "1" if any(isinstance(p, a) for a in alts) else "0"
            except jt.AnnotationError:
                out += "A"
            except Exception:
                out += "E"
    return out


def run(req):
    import cloudpickle
    sys.path.insert(0, req["usercat_dir"])
    pv = probe_values()
    res = []
    for a in req["annots"]:
        row = {}
        try:
            ann = build(a)
        except ValueError:
            res.append({"build": "ValueError"}); continue
        before = vec(ann, pv)
        row["before"] = before
        for route in req["routes"]:
            try:
                if route == "pickle":
                    y = pickle.loads(pickle.dumps(ann))
                elif route == "cloudpickle":
                    y = cloudpickle.loads(cloudpickle.dumps(ann))
                elif route == "pickle-reload-after-use":
                    # load once, let the loaded copy be used as the return annotation of a decorated generator function
                    # (jaxtyped makes THAT object transparent), then load the same bytes again: the second copy -- and the
                    # original -- must be unaffected by what happened to the first
                    import jaxtyping as jt, warnings as _w
                    blob = pickle.dumps(ann)
                    y1 = pickle.loads(blob)
                    def _gen(x) -> y1:
                        yield x
                    with _w.catch_warnings():
                        _w.simplefilter("ignore")
                        jt.jaxtyped(typechecker=None)(_gen)
                    y = pickle.loads(blob)
                elif route == "resend3":
                    # sent on three times (pickle, cloudpickle, pickle): what arrives is pickled again, never the original
                    y = pickle.loads(pickle.dumps(ann))
                    y = cloudpickle.loads(cloudpickle.dumps(y))
                    y = pickle.loads(pickle.dumps(copy.deepcopy(y)))
                elif route == "copy":
                    y = copy.copy(ann)
                elif route == "deepcopy":
                    y = copy.deepcopy(ann)
                elif route in ("pickle-sub", "cloudpickle-sub"):
                    blob = (pickle if route == "pickle-sub" else cloudpickle).dumps(ann)
                    p = subprocess.run([sys.executable, os.path.abspath(__file__), "--load", req["usercat_dir"]], input=base64.b64encode(blob), capture_output=True, timeout=300, env=dict(os.environ))
                    line = [l for l in p.stdout.decode().splitlines() if l.startswith("VEC ")]
                    row[route] = {"reloaded": line[-1][4:] if line else "X:" + (p.stderr.decode()[-200:].strip().splitlines() or ["?"])[-1][:120]}
                    row[route]["after"] = vec(ann, pv)
                    continue
                row[route] = {"reloaded": vec(y, pv)}
            except BaseException as e:  # noqa
                row[route] = {"reloaded": "X:" + type(e).__name__}
            try:
                row[route]["after"] = vec(ann, pv)
            except BaseException as e:  # noqa
                row[route]["after"] = "X:" + type(e).__name__
        res.append(row)
    # batches: several annotations dumped first, then all loaded -- in this process and in a fresh one
    bres = []
    for batch in req.get("batches", []):
        for route in ("pickle", "cloudpickle"):
            mod = pickle if route == "pickle" else cloudpickle
            try:
                anns = [build(a) for a in batch]
            except ValueError:
                bres.append({"build": "ValueError"}); continue
            befores = [vec(x, pv) for x in anns]
            entry = {"route": route, "befores": befores}
            try:
                blobs = [mod.dumps(x) for x in anns]
                loaded = [mod.loads(b) for b in blobs]
                entry["reloaded"] = [vec(y, pv) for y in loaded]
            except BaseException as e:  # noqa
                entry["reloaded"] = ["X:" + type(e).__name__] * len(anns); blobs = None
            entry["afters"] = []
            for x in anns:
                try:
                    entry["afters"].append(vec(x, pv))
                except BaseException as e:  # noqa
                    entry["afters"].append("X:" + type(e).__name__)
            if blobs is not None:
                payload = base64.b64encode(pickle.dumps(blobs))
                p = subprocess.run([sys.executable, os.path.abspath(__file__), "--loadmany", req["usercat_dir"]], input=payload, capture_output=True, timeout=600, env=dict(os.environ))
                lines = [l[4:] for l in p.stdout.decode().splitlines() if l.startswith("VEC ")]
                entry["sub"] = lines if len(lines) == len(anns) else ["X:" + (p.stderr.decode()[-200:].strip().splitlines() or ["?"])[-1][:100]] * len(anns)
            bres.append(entry)
    # churn: nested annotations with the same outer category, array type and dims but DIFFERENT inner categories are loaded, probed,
    # dropped and garbage-collected in turn, several times: every loaded copy answers like its own original, whatever was loaded
    # (and freed) before it
    churn = []
    if req.get("churn"):
        import gc
        specs = [{"cat": c, "arr": "np", "dim": "a", "nest": [["Shaped", "b"]]} for c in ("Int", "Float", "Bool", "UInt", "Complex", "Int8", "Float32")]
        specs += [{"cat": c, "arr": "np", "dim": "a", "nest": [["Num", "b"]]} for c in ("Int", "Float", "UInt8")]
        origs = [build(a) for a in specs]
        wants = [vec(x, pv) for x in origs]
        for mod, route in ((pickle, "pickle"), (cloudpickle, "cloudpickle")):
            blobs = [mod.dumps(x) for x in origs]
            for rnd in range(4):
                order = list(range(len(specs)))
                if rnd % 2:
                    order.reverse()
                for i in order:
                    y = mod.loads(blobs[i])
                    got = vec(y, pv)
                    if got != wants[i]:
                        churn.append({"route": route, "round": rnd, "annotation": specs[i], "got": got, "expected": wants[i], "loaded_before": [specs[j]["cat"] for j in order[:order.index(i)]]})
                    del y
                    gc.collect()
    return {"rows": res, "nprobes": len(pv), "batches": bres, "churn": churn}


if __name__ == "__main__" and len(sys.argv) > 1 and sys.argv[1] == "--load":
    sys.path.insert(0, sys.argv[2])
    import warnings
    warnings.simplefilter("ignore")
    blob = base64.b64decode(sys.stdin.buffer.read())
    try:
        y = pickle.loads(blob)
        print("VEC " + vec(y, probe_values()))
    except BaseException as e:  # noqa
        print("VEC X:" + type(e).__name__)

if __name__ == "__main__" and len(sys.argv) > 1 and sys.argv[1] == "--loadmany":
    sys.path.insert(0, sys.argv[2])
    import warnings
    warnings.simplefilter("ignore")
    blobs = pickle.loads(base64.b64decode(sys.stdin.buffer.read()))
    pv = probe_values()
    for b in blobs:
        try:
            print("VEC " + vec(pickle.loads(b), pv))
        except BaseException as e:  # noqa
            print("VEC X:" + type(e).__name__)

"""C19 -- disabling checks makes decorated code behave exactly like plain code."""
import itertools, json, os, sys
sys.path.insert(0, os.path.join(os.path.dirname(os.path.abspath(__file__)), "..", "lib"))
import vf

PID = "C19"


def case_variants(w):
    return sorted({"".join(p) for p in itertools.product(*[(c.lower(), c.upper()) for c in w])})


def spec_parse(v):
    """the property's statement: 0/1/true/false in any case and booleans; anything else ValueError"""
    if isinstance(v, dict):
        return {"True": "True", "False": "False"}.get(v["py"], "ValueError")
    return {"0": "False", "false": "False", "1": "True", "true": "True"}.get(v.lower(), "ValueError")


def coq_val(v):
    if isinstance(v, dict):
        return {"True": "(VBool true)", "False": "(VBool false)"}.get(v["py"], "VOther")
    return "(VStr %s)" % vf.coqstr(v)


def main():
    R = vf.Report(PID)
    proved = R.proof_step()
    values = case_variants("true") + case_variants("false") + ["0", "1", " 1", "1 ", "yes", "no", "", "2", "on", "off", "t", "f", "tru", "truee", "00", "01", "True1", "none",
                                                                 "ı", "TRUE\n", "ＴＲＵＥ"]
    values = [v for v in values if all(ord(c) < 128 for c in v)]
    pyvals = [{"py": k} for k in ("True", "False", "None", "int0", "int1", "int2", "float1", "bytes1", "list")]
    allv = values + pyvals
    # schedules: deterministic catalogue + PRNG toggles
    scheds = [
        {"ops": [["call", "bad"], ["set", "1"], ["call", "bad"], ["call", "good"], ["set", "0"], ["call", "bad"], ["call", "good"]]},
        {"decorate_disabled": True, "ops": [["call", "bad"], ["set", {"py": "True"}], ["call", "bad"], ["set", {"py": "False"}], ["call", "bad"]]},
        {"ops": [["set", "TRUE"], ["call", "bad"], ["set", "fAlSe"], ["call", "bad"], ["set", "True"], ["call", "good"]]},
        # the switch is toggled on the main thread, the call is made from a thread started afterwards
        {"ops": [["call", "bad", "thread"], ["set", "1"], ["call", "bad", "thread"], ["call", "bad"], ["set", "0"], ["call", "bad", "thread"], ["call", "good", "thread"]]},
        {"decorate_disabled": True, "ops": [["set", "true"], ["call", "bad", "thread"], ["set", "false"], ["call", "bad", "thread"]]},
        # the switch is flipped by the decorated function's own body (a decorated `set_checking` helper), in both directions
        {"ops": [["set", "1"], ["call", "good", "flip"], ["call", "bad", "flip"], ["call", "bad"], ["set", "0"], ["call", "good", "flip"], ["call", "bad"], ["call", "good"]]},
    ]
    for _ in range(1500 if R.thorough else 6):
        ops = []
        for _ in range(R.rng.choice([4, 6, 8])):
            if R.rng.random() < .45:
                ops.append(["set", R.rng.choice(["0", "1", "true", "FALSE", {"py": "True"}, {"py": "False"}])])
            else:
                ops.append(["call", R.rng.choice(["good", "bad", "bad"])] + (["thread"] if R.rng.random() < .3 else ["flip"] if R.rng.random() < .3 else []))
        scheds.append({"decorate_disabled": R.rng.random() < .4, "ops": ops})
    env_values = ["0", "1", "true", "TRUE", "False", "yes", "", "2", "tRuE"]
    out = vf.impl("impl_config.py", {"values": allv, "schedules": scheds, "env_values": env_values}, timeout=900)

    # model of the switch parser
    mres = vf.coq_eval_strings(["model.Config"], "fun v => show_parse (maybestr2bool v)", [coq_val(v) for v in allv], shard=200)
    n = 0
    items = ("jaxtyping_disable", "JAXTYPING_DISABLE", "jaxtyping_remove_typechecker_stack")
    for k, item in enumerate(items):
        for v, m, got in zip(allv, mres, out["table"][k * len(allv):(k + 1) * len(allv)]):
            n += 1
            R.count("switch:" + got)
            unspecified = isinstance(v, dict) and v["py"] in ("int0", "int1")     # `0/1` as Python ints: the statement names spellings; not judged
            want = spec_parse(v)
            if got != want and not unspecified:
                R.violation("property", "config.update(%r, %r) -> %s, the documented rule says %s" % (item, v, got, want), {"item": item, "value": v, "got": got, "expected": want},
                            key={"kind": "switch", "value": str(v)})
            if got != m and not unspecified:
                R.violation("correspondence", "switch model (generated spellings) says %s, implementation %s for %r" % (m, got, v), {"value": v}, key={"kind": "switch-model"}, no_input=True)
    if out["unknown_item"] != "ValueError":
        R.violation("property", "config.update('no_such_item', True) -> %s (must be ValueError)" % out["unknown_item"], {}, key={"kind": "unknown-item"})
    for v, got in zip(env_values, out["env"]):
        n += 1
        want = spec_parse(v)
        if got != want:
            R.violation("property", "JAXTYPING_DISABLE=%r in the environment: import gives %s, documented rule %s" % (v, got, want), {"env": v, "got": got}, key={"kind": "env", "value": v})
    for e in out.get("env_then_update", []):
        n += 1
        d0 = spec_parse(e["env"]) == "True" if e["env"] else False
        def pv(x):
            return {"True": True, "False": False}.get(x, spec_parse(x.strip("'")) == "True")
        d1, d2 = pv(e["updates"][0]), pv(e["updates"][1])
        want = str([d0, "returns" if d0 else "TypeCheckError", d1, "returns" if d1 else "TypeCheckError", d2, "returns" if d2 else "TypeCheckError"])
        if e["got"] != want:
            R.violation("property", "JAXTYPING_DISABLE=%r in the environment, then config.update('jaxtyping_disable', %s), then (.., %s): [flag, ill-typed call] after each step is %s, expected %s (the last writer wins; an already decorated function follows the flag)" % (
                e["env"], e["updates"][0], e["updates"][1], e["got"], want), {"env_then_update": e, "expected": want}, key={"kind": "env-then-update", "env": e["env"]})
    # behaviour
    nontriv = set()
    samples = []
    for sched in scheds:
        pass
    idx = 0
    for sched in scheds:
        for _ in range(15):      # 15 callable kinds per schedule, in worker order
            r = out["behaviour"][idx]; idx += 1
            kname = r["kind"]
            ntc = kname.startswith("ntc_")
            for op, st in zip(sched["ops"], r["steps"]):
                if st is None:
                    continue
                n += 1
                if (kname.startswith("none") or kname.startswith("old-")) and not st["flag"]:
                    if kname.startswith("old-") and ((op[1] == "bad" and st["wrapped"][0] != "exc") or (op[1] == "good" and st["wrapped"][0] != "ret")) and not (len(op) > 2 and op[2] == "flip"):
                        R.violation("property", "checking is on (legacy spelling) but the verdict is wrong: %s %s" % (st["wrapped"], desc), {"kind": kname, "schedule": sched, "step": st}, key={"kind": "old-style-on", "callable": kname})
                    continue          # typechecker=None never checks; with checking ON it still opens its own context -- only the switched-off state is judged for it
                off = st["flag"] or ntc
                R.count("call:%s:%s" % ("off" if off else "on", op[1]))
                desc = "%s, decorated while disabled=%s, ops %s, at call(%s) with flag=%s" % (kname, sched.get("decorate_disabled", False), sched["ops"], op[1], st["flag"])
                flip = len(op) > 2 and op[2] == "flip"
                if flip and kname.startswith("dataclass"):
                    continue          # no body to flip the switch from
                if flip:
                    desc += " -- the BODY flips the switch during this call"
                    if st["depth"][0] != st["depth"][1] or st["enclosing"] != [["a", 9]]:
                        R.violation("property", "a call during which the switch is flipped leaves the caller's context changed: stack depth %s, enclosing bindings %s (expected a=9): %s" % (st["depth"], st["enclosing"], desc),
                                    {"kind": kname, "schedule": sched, "step": st}, key={"kind": "flip-context", "callable": kname})
                    if not off and op[1] == "bad":
                        continue      # checking was on at entry and is switched off mid-call: whether the ill-typed call still raises is not stated
                if off:
                    nontriv.add((kname, json.dumps(sched["ops"]), op[1]))
                    if not st["same"]:
                        R.violation("property", "with checking switched off the decorated callable does not behave like the plain one: wrapped %s, plain %s (%s)" % (st["wrapped"], st["plain"], desc),
                                    {"kind": kname, "schedule": sched, "step": st}, key={"kind": "disabled-differs", "callable": kname})
                    if not kname.startswith("dataclass") and (st["inner_wrapped"] != st["inner_plain"] or st["body_runs_wrapped"] != st["body_runs_plain"]):
                        R.violation("property", "with checking switched off the body does not see what plain code sees (manual isinstance inside the body / number of body runs): wrapped %s x%d, plain %s x%d (%s)" % (
                            st["inner_wrapped"], st["body_runs_wrapped"], st["inner_plain"], st["body_runs_plain"], desc), {"kind": kname, "schedule": sched, "step": st}, key={"kind": "disabled-context", "callable": kname})
                else:
                    if op[1] == "bad" and st["wrapped"][0] != "exc":
                        R.violation("property", "checking is on but an ill-typed call was accepted (switching back on must restore checking without re-decoration): %s" % desc,
                                    {"kind": kname, "schedule": sched, "step": st}, key={"kind": "not-restored", "callable": kname})
                    if op[1] == "good" and st["wrapped"][0] != "ret":
                        R.violation("property", "checking is on and a well-typed call failed: %s %s" % (st["wrapped"], desc), {"kind": kname, "schedule": sched, "step": st}, key={"kind": "good-fails", "callable": kname})
            if len(samples) < 4 and idx % 7 == 1:
                samples.append({"kind": kname, "ops": sched["ops"], "steps": [None if s is None else [s["flag"], s["wrapped"], s["plain"]] for s in r["steps"]]})
    for h in out.get("hooked", []):
        for st in h["steps"]:
            n += 1
            R.count("hooked:%s:%s" % ("off" if st["flag"] else "on", st["args"]))
            desc = "module imported through install_import_hook(.., %r) while jaxtyping_disable=%s; now flag=%s, %s-typed call" % (h["checker"], h["disabled_at_import"], st["flag"], st["args"])
            if st["flag"] and not st["same"]:
                R.violation("property", "with checking switched off a hooked module does not behave like the plain module: hooked %s, plain %s (%s)" % (st["wrapped"], st["plain"], desc),
                            {"hooked": h, "step": st}, key={"kind": "hooked-disabled-differs"})
            if not st["flag"] and st["args"] == "bad" and st["wrapped"][0] != "exc":
                R.violation("property", "checking is on but the hooked module accepts an ill-typed call (switching back on must restore checking, whenever the module was imported): %s" % desc,
                            {"hooked": h, "step": st}, key={"kind": "hooked-not-restored", "disabled_at_import": h["disabled_at_import"]})
            if not st["flag"] and st["args"] == "good" and st["wrapped"][0] != "ret":
                R.violation("property", "checking is on and a well-typed call of the hooked module failed: %s (%s)" % (st["wrapped"], desc), {"hooked": h, "step": st}, key={"kind": "hooked-good-fails"})
    # the statements the translator cut out of the source, run by CPython with scripted stand-ins, against their translation
    # interpreted inside Coq (lib/storage_corr.py)
    import storage_corr
    R.coverage["source_fragment_cases"] = storage_corr.fragment_correspondence(R, ['wrapped'], 600 if R.thorough else 60)
    if not proved:
        R.violation("proof", "proof obligations of props/C19.v no longer check (generated switch table / early-return test): " + str(R.broken_proof)[-900:],
                    {"theorem_file": "coq/props/C19.v", "log": R.broken_proof}, no_input=not any(v["kind"] == "property" for v in R.violations))
    R.coverage.update(evaluations=n, distinct_nontrivial=len(nontriv), samples=samples, exhaustive=True,
                      exhaustive_part="switch table: all 48 case variants of true/false, 0/1, %d other strings, 9 non-string values x 3 item spellings; 9 environment values in fresh interpreters" % (len(values) - 50),
                      rule="exhaustive switch table + %d toggle schedules x 10 callable kinds (new-style function, no_type_check above / below, method, dataclass; typeguard and beartype), each call compared with the undecorated callable inside an enclosing context binding a=9; calls also from threads started after the toggle; modules loaded through the import hook while the switch is on / off, then toggled; "
                           "(so that a transparent call is distinguishable from one that pushes its own context). non-trivial = distinct (callable kind, schedule, call) executed with checking off" % len(scheds))
    R.assumptions += ["Python ints 0/1 passed to config.update are not judged (the statement lists spellings and booleans)", "ASCII spellings"]
    sys.exit(R.finish())


if __name__ == "__main__":
    vf.guarded(PID, main)

"""Implementation-side worker for PyTree annotations (C08, C09, C16, C04, C12).
JSON in: {"sessions": [{"nocontext": bool, "steps": [step...]}...]}
 step = {"kind": "tree", "leaf": L | null, "structure": str | null, "value": T}
      | {"kind": "arr", "cat": "Float", "dim": "a b", "shape": [..], "dtype": "float32"}
 L = "int" | "str" | "any" | ["tuple", [L..]] | ["union", [L..]] | ["arr", cat, dim] | "pytree" | ["pytree", L, structure|null]
 T = ["t",[T..]] | ["l",[T..]] | ["d",{k:T}] | ["n"] | ["N", name, [T..]] | ["C",[T..]] | ["i",z] | ["b",bool] | ["s",str] | ["a",shape,dtype] | ["o"]
-> per step {"build", "verdict", "memo", "unchanged", "idem", "flags"}"""
import json, sys, io, contextlib, warnings, collections, copy, typing

NT = {"P": collections.namedtuple("P", "x y"), "Q": collections.namedtuple("Q", "z")}


class FaultyFlat:
    pass


class Custom:
    def __init__(self, *cs):
        self.cs = list(cs)


class Obj:
    pass


class Packed:
    """array-like (has shape and dtype) and at the same time a registered pytree node whose child has another shape"""
    def __init__(self, shape, dtype, child=None):
        import numpy as np
        self.shape = tuple(shape)
        self.dtype = np.dtype(dtype)
        self.child = np.zeros(tuple(shape) + (2,), dtype="int8") if child is None else child


_TPAIR = []


def typed_pair():
    """one typing.NamedTuple class whose fields are array annotations"""
    if not _TPAIR:
        import numpy as np, jaxtyping
        _TPAIR.append(typing.NamedTuple("TPair", [("x", jaxtyping.Float[np.ndarray, "a"]), ("y", jaxtyping.Float[np.ndarray, "a b"])]))
    return _TPAIR[0]


SHARE = [None]          # when a dict: equal (shape, dtype) arrays of one value are one object


def build_value(t):
    import numpy as np
    k = t[0]
    if k == "t":
        return tuple(build_value(c) for c in t[1])
    if k == "l":
        return [build_value(c) for c in t[1]]
    if k == "d":
        return {kk: build_value(c) for kk, c in t[1].items()}
    if k == "n":
        return None
    if k == "N":
        cls = typed_pair() if t[1] == "TPair" else NT[t[1]]
        return cls(*[build_value(c) for c in t[2]])
    if k == "C":
        return Custom(*[build_value(c) for c in t[1]])
    if k == "i":
        return int(t[1])
    if k == "b":
        return bool(t[1])
    if k == "s":
        return str(t[1])
    if k == "a":
        if SHARE[0] is not None:
            # the SAME array object wherever the tree has an array of that shape and dtype (a tree built with [w, w], tied weights)
            key = (tuple(t[1]), t[2])
            if key not in SHARE[0]:
                SHARE[0][key] = np.zeros(tuple(t[1]), dtype=t[2])
            return SHARE[0][key]
        return np.zeros(tuple(t[1]), dtype=t[2])
    if k == "o":
        return Obj()
    if k == "K":
        return Packed(t[1], t[2])
    if k == "M":        # a dict whose keys cannot be ordered against each other: JAX cannot flatten it
        return {1: build_value(t[1][0]), "two": build_value(t[1][1])}
    if k == "F":        # an instance of a registered node class whose flatten function raises
        return FaultyFlat()
    raise KeyError(k)


def build_leaf(l):
    import numpy as np, jaxtyping
    from jaxtyping import PyTree
    if l == "int":
        return int
    if l == "str":
        return str
    if l == "any":
        return typing.Any
    if l == "pytree":
        return PyTree
    if l == "tpair":
        return typed_pair()
    k = l[0]
    if k == "tuple":
        return tuple[tuple(build_leaf(x) for x in l[1])] if l[1] else tuple[()]
    if k == "union":
        return typing.Union[tuple(build_leaf(x) for x in l[1])]
    if k == "arr":
        return getattr(jaxtyping, l[1])[typing.Any if (len(l) > 3 and l[3] == "any") else np.ndarray, l[2]]
    if k == "parr":
        # Shaped[<cat>[ndarray, dims], "2"], i.e. (cat)[ndarray, "2 " + dims], after a pickle round trip (what a worker process receives)
        import pickle
        return pickle.loads(pickle.dumps(jaxtyping.Shaped[getattr(jaxtyping, l[1])[np.ndarray, l[2]], "2"]))
    if k == "pytree":
        inner = build_leaf(l[1])
        return PyTree[inner] if l[2] is None else PyTree[inner, l[2]]
    raise KeyError(k)


def show_tdef(td):
    import jax.tree_util as jtu
    dummy = jtu.tree_unflatten(td, [0] * td.num_leaves)

    def go(x):
        if x is None:
            return "n()"
        if isinstance(x, tuple) and hasattr(x, "_fields"):
            return "N%s(%s)" % (type(x).__name__, ",".join(go(c) for c in x))
        if isinstance(x, tuple):
            return "t(%s)" % ",".join(go(c) for c in x)
        if isinstance(x, list):
            return "l(%s)" % ",".join(go(c) for c in x)
        if isinstance(x, dict):
            ks = sorted(x)
            return "d{%s}(%s)" % (",".join(ks), ",".join(go(x[k]) for k in ks))
        if isinstance(x, Custom):
            return "CC(%s)" % ",".join(go(c) for c in x.cs)
        return "*"
    return go(dummy)


def _vb(x):
    """a variadic binding as (broadcastable, shape), whatever record the tree keeps it in"""
    if isinstance(x, tuple):
        return x
    return (getattr(x, "broadcastable"), tuple(getattr(x, "shape")))


def show_state():
    from jaxtyping import _storage as _stg
    from jaxtyping._storage import get_shape_memo, _treepath_storage
    get_treeflatten_memo = getattr(_stg, "get_treeflatten_memo", lambda: False)      # (the flag may live elsewhere after a refactor)
    single, variadic, pytree, _ = get_shape_memo()
    s = ",".join("%s=%d" % (k, v) for k, v in single.items())
    v = ",".join("%s=%s%s" % (k, "T" if b else "F", "(" + ",".join(str(int(x)) for x in sh) + ")") for k, (b, sh) in ((k_, _vb(x_)) for k_, x_ in variadic.items()))
    t = ",".join("%s=%s" % (k, show_tdef(td)) for k, td in pytree.items())
    path = getattr(_treepath_storage, "value", None)
    return "S{%s} V{%s} T{%s} path=%s flat=%s" % (s, v, t, "-" if path is None else path, "T" if get_treeflatten_memo() else "F")


def snap():
    from jaxtyping._storage import get_shape_memo
    m = get_shape_memo()
    return [list(m[0].items()), [(k, (b, tuple(sh))) for k, (b, sh) in ((k_, _vb(x_)) for k_, x_ in m[1].items())], [(k, str(v)) for k, v in m[2].items()]]


def do_check(ann, val):
    from jaxtyping import AnnotationError
    try:
        return "acc" if isinstance(val, ann) else "rej"
    except AnnotationError:
        return "raise:AnnotationError"
    except Exception:
        return "raise:Exception"
    except BaseException:
        return "raise:BaseException"


def main():
    req = json.load(sys.stdin)
    buf = io.StringIO()
    with contextlib.redirect_stdout(buf), contextlib.redirect_stderr(io.StringIO()), warnings.catch_warnings():
        warnings.simplefilter("ignore")
        import numpy as np
        import jax.tree_util as jtu
        import jaxtyping
        from jaxtyping import jaxtyped, PyTree
        jtu.register_pytree_node(Custom, lambda c: (c.cs, None), lambda aux, cs: Custom(*cs))
        def _ff(n):
            raise RuntimeError("this node cannot be flattened")
        jtu.register_pytree_node(FaultyFlat, _ff, lambda aux, cs: FaultyFlat())
        jtu.register_pytree_node(Packed, lambda p: ((p.child,), (p.shape, p.dtype)), lambda aux, cs: Packed(aux[0], aux[1], cs[0]))
        out = []
        if req.get("prelude"):
            # unrelated earlier activity in this process: PyTree checks that fail, or whose user code raises (also during flatten)
            sys.path.insert(0, __import__("os").path.dirname(__import__("os").path.abspath(__file__)))
            import impl_calls
            impl_calls.prelude()
        for sess in req["sessions"]:
            res = []

            def body():
                for st in sess["steps"]:
                    try:
                        if st["kind"] == "arr":
                            ann = getattr(jaxtyping, st.get("cat", "Float"))[np.ndarray, st["dim"]]
                            val = np.zeros(tuple(st["shape"]), dtype=st.get("dtype", "float32"))
                        else:
                            if st["leaf"] is None:
                                ann = PyTree
                            else:
                                lt = build_leaf(st["leaf"])
                                ann = PyTree[lt] if st.get("structure") is None else PyTree[lt, st["structure"]]
                            SHARE[0] = {} if sess.get("share_arrays") else None
                            try:
                                val = build_value(st["value"])
                            finally:
                                SHARE[0] = None
                    except ValueError:
                        res.append({"build": "ValueError"}); continue
                    except BaseException as e:  # noqa
                        res.append({"build": "Other:" + type(e).__name__ + ":" + str(e)[:100]}); continue
                    before = snap(); btxt = show_state()
                    v = do_check(ann, val)
                    after = snap()
                    r = {"build": "ok", "verdict": v, "memo": show_state(), "before": btxt, "unchanged": before == after}
                    if v == "acc":
                        v2 = do_check(ann, val)
                        r["idem"] = (v2 == "acc" and snap() == after)
                    res.append(r)
            if sess.get("nocontext"):
                body()
            else:
                with jaxtyped("context"):
                    body()
            # transient state must not outlive the session
            from jaxtyping._storage import _treepath_storage
            from jaxtyping import _storage as _stg2
            get_treeflatten_memo = getattr(_stg2, "get_treeflatten_memo", lambda: False)
            flags = {"path": getattr(_treepath_storage, "value", None), "flat": bool(get_treeflatten_memo())}
            _treepath_storage.value = None
            try:
                from jaxtyping import _storage as _st
                _st._treeflatten_storage.value = False
            except Exception:
                pass
            out.append({"steps": res, "flags": flags})
    print(json.dumps(out))


if __name__ == "__main__":
    main()

"""Implementation-side interpreter of C05 programs: real decorated functions, real context blocks.
JSON in {"programs": [prog...]}; prog node = ["check", dim, shape] | ["observe"] |
 ["call", style, binds, [[dim, shape]...], body, exit, variant] | ["context", body, exit] | ["try", body]
 exit in "return" | "raise" | "raisebase" | "generator"; style in "new" | "old" | "none"
 variant in "typeguard" | "beartype" | "dataclass" | "method" (how the SNew/SOld call is realised)"""
import json, sys, io, contextlib, warnings, dataclasses


class Boom(BaseException):
    pass


class Once:
    """an awaitable that really suspends, once"""
    def __await__(self):
        yield 0


def main():
    req = json.load(sys.stdin)
    buf = io.StringIO()
    with contextlib.redirect_stdout(buf), warnings.catch_warnings():
        warnings.simplefilter("ignore")
        import numpy as np
        import typeguard, beartype
        import jaxtyping
        from jaxtyping import Float, jaxtyped, AnnotationError, print_bindings
        from jaxtyping._storage import get_shape_memo, _shape_storage
        A = np.ndarray

        def show_memo():
            single, variadic, _, _ = get_shape_memo()
            s = ",".join("%s=%d" % (k, v) for k, v in single.items())
            v = ",".join("%s=%s%s" % (k, "T" if b else "F", "(" + ",".join(str(int(x)) for x in sh) + ")") for k, (b, sh) in ((k_, x_ if isinstance(x_, tuple) else (x_.broadcastable, tuple(x_.shape))) for k_, x_ in variadic.items()))
            return "S{%s} V{%s}" % (s, v)

        def depth():
            return len(getattr(_shape_storage, "memo_stack", []))

        def cls_of(e):
            if isinstance(e, AnnotationError):
                return "AnnotationError"
            if isinstance(e, Exception):
                return "Exception"
            return "BaseException"

        def snapshot():
            bio = io.StringIO()
            with contextlib.redirect_stdout(bio):
                print_bindings()
            return (depth(), show_memo(), bio.getvalue())

        def run_list(ps, ev, orac):
            for p in ps:
                run(p, ev, orac)

        def run(p, ev, orac):
            k = p[0]
            if k == "check":
                ann = Float[A, p[1]]
                val = np.zeros(tuple(p[2]), "float32")
                try:
                    r = isinstance(val, ann)
                except BaseException as e:  # noqa
                    ev.append("v:raise:" + cls_of(e)); raise
                ev.append("v:acc" if r else "v:rej")
            elif k == "observe":
                ev.append("b:%d:%s" % (depth(), show_memo()))
            elif k == "try":
                try:
                    run_list(p[1], ev, orac)
                except BaseException as e:  # noqa
                    ev.append("x:" + cls_of(e))
            elif k == "context":
                before = snapshot()
                try:
                    # either a fresh context-manager object per block, or ONE object for every block of the program (entered
                    # re-entrantly when blocks nest): the object is documented as a plain context manager, nothing says single-use
                    with (SHARED[0] if SHARED[0] is not None else jaxtyped("context")):
                        run_list(p[1], ev, orac)
                        if p[2] == "raise":
                            raise RuntimeError("exit")
                        if p[2] == "raisebase":
                            raise Boom("exit")
                finally:
                    after = snapshot()
                    if before != after:
                        orac.append({"node": "context", "exit": p[2], "before": before, "after": after})
            elif k == "call":
                _, style, binds, params, body, exit_, variant = p
                names = ["p%d" % i for i in range(len(params))]
                ann = {n: Float[A, d] for n, (d, _) in zip(names, params)}
                vals = [np.zeros(tuple(sh), "float32") for (_, sh) in params]
                tc = {"typeguard": typeguard.typechecked, "beartype": beartype.beartype}.get(variant, typeguard.typechecked)

                def inner():
                    run_list(body, ev, orac)
                    if exit_ == "raise":
                        raise RuntimeError("exit")
                    if exit_ == "raisebase":
                        raise Boom("exit")
                g = {"inner": inner, "ONCE": Once}
                if exit_ == "generator" and variant == "coro":
                    # a coroutine function: the body runs when the coroutine object is driven, and it SUSPENDS once (a real await)
                    src = "async def f(%s):\n    inner()\n    await ONCE()\n" % ", ".join(names)
                elif exit_ == "generator":
                    src = "def f(%s):\n    inner()\n    yield 0\n" % ", ".join(names)
                else:
                    src = "def f(%s):\n    inner()\n" % ", ".join(names)
                exec(src, g)
                f = g["f"]
                f.__annotations__ = dict(ann)
                if variant == "dataclass" and style == "new" and exit_ != "generator":
                    ns = {"__annotations__": dict(ann), "__post_init__": lambda self: inner()}
                    fn = jaxtyped(typechecker=typeguard.typechecked)(dataclasses.dataclass(type("D", (), ns)))
                elif variant == "method" and style == "new":
                    src2 = "def m(self, %s):\n    return f(%s)\n" % (", ".join(names), ", ".join(names))
                    g2 = {"f": f}
                    exec(src2, g2)
                    m = g2["m"]; m.__annotations__ = dict(ann)
                    C = type("C", (), {"m": jaxtyped(typechecker=tc)(m)})
                    fn = C().m
                elif style == "new":
                    fn = jaxtyped(typechecker=tc)(f)
                elif style == "old":
                    fn = jaxtyped(tc(f))
                else:
                    fn = jaxtyped(typechecker=None)(f)
                before = snapshot()
                try:
                    r = fn(*vals) if binds else fn(*(vals + [0, 0]))
                    mid = snapshot()
                    if exit_ == "generator" and variant == "coro":
                        if before != mid:
                            orac.append({"node": "call", "style": style, "variant": variant, "exit": "coroutine-created", "before": before, "after": mid})
                        try:
                            r.send(None)                      # runs the body up to the await
                            susp = snapshot()
                            if before[0] != susp[0]:            # (the body's own checks may have bound axes in the CALLER's context: only the depth is fixed)
                                orac.append({"node": "call", "style": style, "variant": variant, "exit": "coroutine-suspended", "before": before, "after": susp})
                            r.send(None)
                        except StopIteration:
                            pass
                        finally:
                            r.close()
                    elif exit_ == "generator":
                        if before != mid:
                            orac.append({"node": "call", "style": style, "variant": variant, "exit": "generator-created", "before": before, "after": mid})
                        for _ in r:
                            pass
                finally:
                    after = snapshot()
                    if exit_ != "generator" and before != after:
                        orac.append({"node": "call", "style": style, "variant": variant, "exit": exit_, "binds": binds, "before": before, "after": after})
            else:
                raise KeyError(k)

        out = []
        SHARED = [None]
        shared = req.get("shared") or []
        for pi, prog in enumerate(req["programs"]):
            SHARED[0] = jaxtyped("context") if (pi < len(shared) and shared[pi]) else None
            ev, orac = [], []
            sig = "-"
            start = snapshot()
            try:
                run_list(prog, ev, orac)
            except BaseException as e:  # noqa
                sig = cls_of(e)
            end = snapshot()
            # clean up after a leak so that the next program starts fresh (and report it)
            leaked = depth()
            while depth() > 0:
                _shape_storage.memo_stack.pop()
            out.append({"trace": " ".join(ev) + " | depth=%d sig=%s" % (leaked, sig), "oracle": orac, "end": end, "start": start})
        # recursion that opens a context block at every level until the interpreter's recursion limit is hit, the RecursionError caught at
        # the top (several alignments of the stack): afterwards no context may be left open
        import sys as _sys
        rec_probe = []

        def rec(d):
            with jaxtyped("context"):
                isinstance(np.zeros((1,), "float32"), Float[A, "size"])
                rec(d + 1)

        def padded(k):
            return rec(0) if k == 0 else padded(k - 1)
        old_limit = _sys.getrecursionlimit()
        _sys.setrecursionlimit(400)
        try:
            for pad in range(6):
                try:
                    padded(pad)
                except RecursionError:
                    pass
                rec_probe.append(list(snapshot()))
                while depth() > 0:
                    _shape_storage.memo_stack.pop()
        finally:
            _sys.setrecursionlimit(old_limit)
        if out:
            out[0]["recursion_probe"] = rec_probe
    print(json.dumps(out))


if __name__ == "__main__":
    main()

"""C01 -- an array check decides shape exactly as the dim-string language says."""
import json, os, sys
sys.path.insert(0, os.path.join(os.path.dirname(os.path.abspath(__file__)), "..", "lib"))
import vf, gen_arrays as G

PID = "C01"

# deterministic corpus: one minimal case per branch of the modelled code (DESIGN.md section 10)
def S(*steps, args=None, nocontext=False):
    return {"args": args or {"k": 2, "m": 5}, "nocontext": nocontext,
            "steps": [dict(dim=d, shape=list(sh), dtype=kw.get("dtype", "float32"), cat=kw.get("cat", "Float"), arr=kw.get("arr", "np"))
                      for (d, sh, *rest) in steps for kw in [rest[0] if rest else {}]]}

CORPUS = [
    S(("*v", (2, 3)), ("*#v", (4, 2, 3))), S(("*v", (2, 3)), ("*#v", (1, 3))), S(("*v", (3,)), ("*#v", (1,)), ("*v", (2, 3))),
    S(("*#v", (1, 3)), ("*#v", (2, 1)), ("*v", (2, 3))), S(("*#v", (1, 3)), ("*v", (2, 3)), ("*#v", (2, 1))),
    S(("*#v", (1,)), ("*v", (0,))), S(("*#v", (0,)), ("*#v", (1,)), ("*v", (5,))), S(("*#v", (2, 3)), ("*v", (3,))),
    S(("*#v", (3, 4)), ("*#v", (5,))), S(("*v", (3, 4)), ("*#v", (5,))), S(("*v", ()), ("*v", (1,))), S(("*v", (2,)), ("*v", (2,))),
    S(("a *b c d", (1, 2, 3))), S(("a *b c d", (1, 2, 3, 4))), S(("a *b c d", (1, 2, 3, 4, 5))), S(("a *b c d", (1, 2))),
    S(("*b c d", (3, 4))), S(("a b *c", (3, 4))), S(("a b *c", (3, 4, 5, 6))), S(("a ... b", (2, 3))), S(("a ... a", (2, 5, 3))),
    S(("#a+1", (1,))), S(("a #a+1", (3, 1))), S(("a #a+1", (3, 4))), S(("a #a+1", (3, 5))), S(("a+1", (3,))), S(("a a+1", (3, 4))),
    S(("n", (0,)), ("n", (5,))), S(("n n", (0, 4))), S(("n", (0,)), ("n", (0,))), S(("#n", (1,)), ("n", (3,))), S(("n", (3,)), ("#n", (1,))),
    S(("#n", (1,)), ("#n", (1,)), ("n", (4,))), S(("#3", (1,))), S(("#3", (3,))), S(("#3", (2,))), S(("3", (1,))), S(("0", (0,))),
    S(("_ a", (9, 2)), ("a _", (2, 9))), S(("", ())), S(("", (1,))), S(("...", ())), S(("...", (1, 2, 3))),
    S(("a b", (2, 3), {"arr": "notarray"})), S(("a b", (2, 3), {"arr": "duck"})), S(("a b", (2, 3), {"arr": "noattrs"})), S(("a b", (2, 3), {"arr": "any"})),
    S(("a b", (2, 3), {"arr": "ducktorch"}), ("a b", (2, 3), {"arr": "any"}), ("a b", (2, 3), {"arr": "ducktorch"})), S(("a b", (2, 3), {"arr": "any"}), ("a b", (2, 3), {"arr": "ducktorch"}), ("a b", (2, 3), {"arr": "duck"})),
    S(("a", (2,), {"cat": "Int"})), S(("a", (2,), {"cat": "Int", "dtype": "int32"})), S(("a", (2,), {"cat": "Shaped", "dtype": "bool"})),
    S(("a", (2,), {"cat": "Int"}), ("a", (3,))), S(("a b", (2, 3)), ("b a", (3, 2)), ("a", (3,))),
    S(("{k} a", (2, 3))), S(("{k}+a a", (5, 3))), S(("{q}", (2,))), S(("a {q}", (2, 2))), S(("a//(a-a)", (2,))), S(("a a//(a-a)", (2, 2))),
    S(("a b", (2, 3)), nocontext=True), S(("a", (2,)), ("a", (3,)), nocontext=True),
    S(("a b c", (2, 3, 4)), ("a b c", (2, 3, 5)), ("c", (9,))), S(("a *v b", (2, 7, 7, 3)), ("b *v a", (3, 7, 7, 2)), ("*v", (7, 8))),
    # annotations made of symbolic / fixed / anonymous axes only: their verdict still depends on the context
    S(("n", (5,)), ("2*n", (10,))), S(("n", (3,)), ("2*n", (10,))), S(("n", (3,)), ("2*n", (6,))), S(("2*n", (10,))),
    S(("{k} 2", (2, 2))), S(("{k} 2", (2, 2)), args={"k": 3, "m": 5}), S(("n", (4,)), ("... #n+1 3", (5, 3))), S(("n", (2,)), ("... #n+1 3", (5, 3))),
    # call arguments named like axes: `{a}` is the argument, bare `a` the axis
    S(("a", (3,)), ("{a}", (2,)), args={"a": 2, "k": 2, "m": 5}), S(("a", (3,)), ("{a}", (3,)), args={"a": 2, "k": 2, "m": 5}), S(("2*n", (4,)), args={"n": 2, "k": 2, "m": 5}),
    S(("n", (3,)), ("2*n", (6,)), args={"n": 2, "k": 2, "m": 5}), S(("n", (3,)), ("2*n {n}", (6, 2)), args={"n": 2, "k": 2, "m": 5}), S(("{a} a", (2, 3)), ("a", (2,)), args={"a": 2, "k": 2, "m": 5}),
    S(("min(a,b) a b", (2, 2, 3))), S(("a b a%b", (7, 3, 1))), S(("a b a//b", (7, 3, 2))), S(("a -a+10", (4, 6))), S(("d=4 rows=a", (4, 2))),
]


def main():
    R = vf.Report(PID)
    proved = R.proof_step()
    n = 150000 if R.thorough else 3000
    sessions = list(CORPUS) + [G.gen_session(R.rng, raising=(i % 5 == 0)) for i in range(n)]
    for i, sess in enumerate(sessions[len(CORPUS):]):
        if i % 6 == 0 and sess["steps"]:
            sess["steps"][R.rng.randrange(len(sess["steps"]))]["pt_reject"] = True       # (invisible to the model: it must change nothing)
    sessions.append(S(("a", (3,)), ("{k} a", (2, 3))))
    sessions[-1]["steps"][1]["pt_reject"] = True
    out = vf.impl("impl_array.py", {"mode": "sessions", "sessions": sessions})
    impl, cats = out["results"], out["cat_dtypes"]
    # the same sessions again in a fresh interpreter in which every (category, array type, dims) is ONE annotation object,
    # re-used across checks, sessions and contexts: which object carries the annotation must not matter
    nre = len(CORPUS) + (20000 if R.thorough else 1500)
    out_re = vf.impl("impl_array.py", {"mode": "sessions", "sessions": sessions[:nre], "reuse": True}, bg=True)
    for sess, a, b in zip(sessions[:nre], impl, out_re["results"]):
        for j, (st, ra, rb) in enumerate(zip(sess["steps"], a, b)):
            ga = ra["build"] if ra["build"] != "ok" else "%s %s" % (ra["verdict"], ra["memo"])
            gb = rb["build"] if rb["build"] != "ok" else "%s %s" % (rb["verdict"], rb["memo"])
            if ga != gb:
                R.violation("property", "step %d of the session %s: with a fresh annotation object the check gives `%s`, with an annotation object that was used before (same category, array type and dims) it gives `%s`" % (
                    j, [(x["dim"], tuple(x["shape"])) for x in sess["steps"][:j + 1]], ga, gb), {"session": dict(sess, steps=sess["steps"][:j + 1]), "fresh": ga, "reused": gb},
                    key={"kind": "annotation-object-history", "dim": st["dim"]})
                break

    terms = []
    for sess, res in zip(sessions, impl):
        syms = [s for r in res for s in r.get("syms", [])]
        terms.append(G.session_coq(sess, cats, syms))
    model = vf.coq_eval_strings(["model.Check"], "fun c => let '(st, args, noctx, steps) := c in run_session st args noctx steps", terms, shard=500)

    nontriv, samples = set(), []
    nchecks = 0
    for idx, (sess, res, mline) in enumerate(zip(sessions, impl, model)):
        msteps = mline.split(" | ") if sess["steps"] else []
        first_bad = None
        for j, (st, r, m) in enumerate(zip(sess["steps"], res, msteps)):
            nchecks += 1
            got = r["build"] if r["build"] != "ok" else "%s %s" % (r["verdict"], r["memo"])
            R.count("verdict:" + (r.get("verdict") or r["build"]))
            R.count("rank:%d" % len(st["shape"]))
            if got != m and first_bad is None:
                first_bad = (j, got, m)
        key = json.dumps(sess, sort_keys=True)
        if any(("*" in s["dim"] or "#" in s["dim"] or any(ch in s["dim"] for ch in "+-/%{(")) for s in sess["steps"]) and (len(sess["steps"]) > 1):
            nontriv.add(key)
        if len(samples) < 5 and idx >= len(CORPUS) and len(sess["steps"]) >= 3:
            samples.append({"session": sess, "impl": [r.get("verdict", r["build"]) + " " + r.get("memo", "") for r in res], "model": msteps})
        if first_bad is not None:
            j, got, m = first_bad
            small = dict(sess, steps=sess["steps"][:j + 1])
            verdict_differs = got.split(" ")[0] != m.split(" ")[0]
            what = "step %d of the session: isinstance(array%s %s, %s[.., %r]) -> implementation `%s`, proved model `%s`" % (
                j, tuple(sess["steps"][j]["shape"]), sess["steps"][j]["dtype"], sess["steps"][j]["cat"], sess["steps"][j]["dim"], got, m)
            if verdict_differs and proved:
                R.violation("property", "verdict differs from the dim-string semantics (model proved equal to the declarative spec): " + what,
                            {"session": small, "step": j, "impl": got, "model": m}, key={"kind": "verdict", "dim": sess["steps"][j]["dim"]})
            else:
                R.violation("correspondence", "model and implementation disagree: " + what,
                            {"session": small, "step": j, "impl": got, "model": m}, key={"kind": "memo", "dim": sess["steps"][j]["dim"]},
                            no_input=not verdict_differs)
    # ---- nested annotations Shaped[Dtype[Array, dims], outer] whose OUTER part names no axis ("...", "3", "_", ""): by the nesting law they
    #      are the flat annotation Dtype[Array, outer + " " + dims], bind and compare its named axes like any other
    OUTER = [("...", [[], [4], [4, 2]]), ("3", [[3]]), ("_", [[5]]), ("", [[]]), ("_ 2", [[6, 2]]), ("#3", [[1], [3]])]
    nsess = []
    for _ in range(4000 if R.thorough else 250):
        sess = G.gen_session(R.rng, nsteps=R.rng.choice([2, 3, 4]), p_perturb=.35)
        for st in sess["steps"]:
            if R.rng.random() < .55 and "*" not in st["dim"] and "..." not in st["dim"] and st.get("arr", "np") in ("np", "any"):
                o, pres = R.rng.choice(OUTER)
                st["outer"] = o
                st["shape"] = list(R.rng.choice(pres)) + list(st["shape"])
        nsess.append(sess)
    nsess += [S(("h w", (4, 5))), S(("h w", (4, 5)))]
    nsess[-2]["steps"].append(dict(nsess[-2]["steps"][0], outer="...", shape=[2, 4, 6])); nsess[-1]["steps"].insert(0, dict(nsess[-1]["steps"][0], outer="...", shape=[2, 4, 5]))
    nout = vf.impl("impl_array.py", {"mode": "sessions", "sessions": nsess})
    flat = [dict(x, steps=[dict(st, dim=(st["outer"] + " " + st["dim"]).strip()) if st.get("outer") is not None else st for st in x["steps"]]) for x in nsess]
    nmodel = vf.coq_eval_strings(["model.Check"], "fun c => let '(st, args, noctx, steps) := c in run_session st args noctx steps",
                                 [G.session_coq(f, nout["cat_dtypes"], [y for r in res for y in r.get("syms", [])]) for f, res in zip(flat, nout["results"])], shard=500)
    for sess, res, mline in zip(nsess, nout["results"], nmodel):
        msteps = mline.split(" | ") if sess["steps"] else []
        for j, (st, r, m) in enumerate(zip(sess["steps"], res, msteps)):
            nchecks += 1
            got = r["build"] if r["build"] != "ok" else "%s %s" % (r["verdict"], r["memo"])
            if got != m:
                vd = got.split(" ")[0] != m.split(" ")[0]
                ann = "%s[.., %r]" % (st["cat"], st["dim"]) if st.get("outer") is None else "Shaped[%s[.., %r], %r]" % (st["cat"], st["dim"], st["outer"])
                R.violation("property" if vd else "correspondence", "nested annotation, step %d: isinstance(array%s %s, %s) -> implementation `%s`, the flat annotation it equals gives (model) `%s`; earlier steps %s" % (
                    j, tuple(st["shape"]), st["dtype"], ann, got, m, [(x.get("outer"), x["dim"], tuple(x["shape"])) for x in sess["steps"][:j]]),
                    {"session": dict(sess, steps=sess["steps"][:j + 1]), "step": j, "impl": got, "model": m}, key={"kind": "nested-" + ("verdict" if vd else "memo")}, no_input=not vd)
                if vd:
                    break
    # ---- search: a disagreement on the bindings only is turned into a concrete wrong VERDICT by trying follow-up checks
    memo_only = [v for v in R.violations if v["kind"] == "correspondence" and v["no_input"] and "session" in v["case"]][:12]
    if memo_only and not any(v["kind"] == "property" for v in R.violations):
        import re as _re
        ext, origin = [], []
        for v in memo_only:
            base = v["case"]["session"]
            names = set(_re.findall(r"([A-Za-z_]\w*)=", v["case"]["impl"] + " " + v["case"]["model"]))
            shapes = [tuple(int(x) for x in m.split(",") if x) for m in _re.findall(r"\(([\d,]*)\)", v["case"]["impl"] + " " + v["case"]["model"])]
            sizes = sorted({int(x) for x in _re.findall(r"=(\d+)", v["case"]["impl"] + " " + v["case"]["model"])} | {1, 2, 3})
            cands = []
            for nm in names:
                for sh in set(shapes):
                    for extra in ((), (2,), (1,)):
                        cands.append(("*" + nm, extra + sh)); cands.append(("*#" + nm, extra + sh))
                for z in sizes:
                    cands.append((nm, (z,))); cands.append(("#" + nm, (z,)))
            for d, sh in cands[:60]:
                ext.append(dict(base, steps=base["steps"] + [dict(dim=d, shape=list(sh), dtype="float32", cat="Float", arr="np")])); origin.append(v)
        if ext:
            out2 = vf.impl("impl_array.py", {"mode": "sessions", "sessions": ext})
            terms2 = [G.session_coq(se, out2["cat_dtypes"], [x for r in rs for x in r.get("syms", [])]) for se, rs in zip(ext, out2["results"])]
            model2 = vf.coq_eval_strings(["model.Check"], "fun c => let '(st, args, noctx, steps) := c in run_session st args noctx steps", terms2, shard=500)
            found = set()
            for se, rs, ml, v in zip(ext, out2["results"], model2, origin):
                if id(v) in found or rs[-1]["build"] != "ok":
                    continue
                iv, mv = rs[-1]["verdict"], ml.split(" | ")[-1].split(" ")[0]
                if iv != mv:
                    found.add(id(v))
                    st = se["steps"][-1]
                    R.violation("property", "after the history %s the check isinstance(array%s, Float[.., %r]) answers `%s`; by the dim-string semantics (proved model) it must answer `%s`" % (
                        [(x["dim"], tuple(x["shape"])) for x in se["steps"][:-1]], tuple(st["shape"]), st["dim"], iv, mv), {"session": se, "impl": iv, "model": mv}, key={"kind": "verdict-after-history", "dim": st["dim"]})
    # ---- the term generated from the SOURCE of _check_dims (gen/CheckDimsSrc.v), interpreted inside Coq (model/PyL.v), against
    # the function itself called on the same explicit inputs: validates the interpreter's reading of Python on this term
    ncd = 6000 if R.thorough else 500
    cdcases = []
    for sess in sessions[:ncd * 3]:
        for st in sess["steps"]:
            if "*" in st["dim"] or "..." in st["dim"] or len(cdcases) >= ncd:
                continue
            toks = [t.split("=")[-1].lstrip("#_?") for t in st["dim"].split()]
            single = {t: R.rng.choice([1, 2, 3, st["shape"][i] if i < len(st["shape"]) else 4]) for i, t in enumerate(toks) if t.isidentifier() and R.rng.random() < .4}
            label = R.rng.choice([None, None, "(Leaf 0 in structure T) "])
            if label and R.rng.random() < .5:
                single = {label + k: v for k, v in single.items()}
            shape = list(st["shape"]) if R.rng.random() < .9 else list(st["shape"]) + [2]
            cdcases.append({"dim": st["dim"], "shape": shape, "single": single, "args": sess["args"], "label": label})
    if cdcases:
        cdo = vf.impl("impl_array.py", {"mode": "check_dims", "cases": cdcases})["rows"]
        keep = [(c, r) for c, r in zip(cdcases, cdo) if r.get("out", "").startswith(("ret", "raise")) and not r.get("variadic")]
        cterms = ["(%s, %s, %s, %s, %s, %s)" % (vf.coqopt(c["label"], vf.coqstr), G.symtab_coq(r.get("syms", [])), vf.coqstr(c["dim"]), vf.coqlist(c["shape"], vf.coqz),
                                               vf.coqlist(list(c["single"].items()), lambda kv: "(%s, %s)" % (vf.coqstr(kv[0]), vf.coqz(kv[1]))),
                                               vf.coqlist(sorted(c["args"].items()), lambda kv: "(%s, %s)" % (vf.coqstr(kv[0]), vf.coqz(kv[1])))) for c, r in keep]
        cm = vf.coq_eval_strings(["model.PyL", "gen.CheckDimsSrc"], "fun c => let '(lbl, st, d, sh, sm, args) := c in run_src check_dims_src lbl st d sh sm args", cterms, shard=500)
        for (c, r), m in zip(keep, cm):
            R.count("check_dims_src:" + r["out"].split(" ")[0])
            if r["out"] != m:
                R.violation("correspondence", "_check_dims(%r dims, shape %s, bindings %s, label %r): the function gives `%s`, the interpretation of the term generated from its source gives `%s`" % (
                    c["dim"], c["shape"], c["single"], c["label"], r["out"], m), {"case": c, "impl": r["out"], "interpreted_source": m}, key={"kind": "pyl-interpreter"}, no_input=True)
        R.coverage["check_dims_source_term_cases"] = len(keep)
    # ---- the same for _MetaAbstractArray._check_shape (prefix / suffix / variadic axis, calling _check_dims)
    ncs = 8000 if R.thorough else 700
    cscases = []
    for sess in sessions[len(CORPUS) // 2: len(CORPUS) // 2 + ncs * 2]:
        for st in sess["steps"]:
            if len(cscases) >= ncs:
                break
            toks = [t.split("=")[-1] for t in st["dim"].split()]
            label = R.rng.choice([None, None, "(Leaf 0 in structure T) "])
            single, variadic = {}, {}
            for i, t in enumerate(toks):
                nm = t.lstrip("#*_?")
                if not nm.isidentifier() or R.rng.random() > .45:
                    continue
                key = (label + nm) if (label and "?" in t and R.rng.random() < .8) else nm
                if "*" in t:
                    variadic[key] = [R.rng.random() < .5, R.rng.choice([[], [1], [3], [2, 3], [1, 3], [2, 1], list(st["shape"][:2]), list(st["shape"][1:3])])]
                else:
                    single[key] = R.rng.choice([1, 2, 3, st["shape"][i] if i < len(st["shape"]) else 4])
            shape = list(st["shape"]) if R.rng.random() < .85 else (list(st["shape"])[:-1] if st["shape"] and R.rng.random() < .5 else list(st["shape"]) + [2])
            cscases.append({"dim": st["dim"], "shape": shape, "single": single, "variadic": variadic, "args": sess["args"], "label": label})
    if cscases:
        cso = vf.impl("impl_array.py", {"mode": "check_shape", "cases": cscases})["rows"]
        keep = [(c, r) for c, r in zip(cscases, cso) if r.get("out", "").startswith(("ret", "raise"))]
        zl = lambda l: vf.coqlist(l, vf.coqz)
        sterms = ["(%s, %s, %s, %s, (mkmemo %s %s %s))" % (vf.coqopt(c["label"], vf.coqstr), G.symtab_coq(r.get("syms", [])), vf.coqstr(c["dim"]), zl(c["shape"]),
                                                          vf.coqlist(list(c["single"].items()), lambda kv: "(%s, %s)" % (vf.coqstr(kv[0]), vf.coqz(kv[1]))),
                                                          vf.coqlist(list(c["variadic"].items()), lambda kv: "(%s, (%s, %s))" % (vf.coqstr(kv[0]), vf.coqbool(kv[1][0]), zl(kv[1][1]))),
                                                          vf.coqlist(sorted(c["args"].items()), lambda kv: "(%s, %s)" % (vf.coqstr(kv[0]), vf.coqz(kv[1])))) for c, r in keep]
        sm_ = vf.coq_eval_strings(["model.PyLRun"], "fun c => let '(lbl, st, d, sh, m) := c in run_shape_src lbl st d sh m", sterms, shard=400)
        for (c, r), mo in zip(keep, sm_):
            R.count("check_shape_src:" + r["out"].split(" ")[0])
            if r["out"] != mo:
                R.violation("correspondence", "_check_shape(%r, shape %s, bindings %s %s, label %r): the method gives `%s`, the interpretation of the term generated from its source gives `%s`" % (
                    c["dim"], c["shape"], c["single"], c["variadic"], c["label"], r["out"], mo), {"case": c, "impl": r["out"], "interpreted_source": mo}, key={"kind": "pyl-interpreter-shape"}, no_input=True)
        R.coverage["check_shape_source_term_cases"] = len(keep)
    if not proved:
        R.violation("proof", "proof obligations of props/C01.v no longer check: " + str(R.broken_proof)[-800:],
                    {"theorem_file": "coq/props/C01.v", "log": R.broken_proof}, no_input=not any(v["kind"] == "property" for v in R.violations))
    R.coverage.update(evaluations=nchecks, distinct_nontrivial=len(nontriv), samples=samples, sessions=len(sessions),
                      rule="%d corpus sessions (one per branch of the modelled code) + %d PRNG sessions of 1-5 checks in one context "
                           "(hidden consistent assignment, 30%% perturbed shapes, every modifier combination, variadic at every position, symbolic axes over bound/unbound names and {arg}, "
                           "NumPy/Any/duck/wrong-type values, 5 dtype/category pairs); compared: verdict or exception class and the exact memo (names, sizes, broadcast flags, insertion order) after every check. "
                           "The corpus and the first sessions run a second time in a fresh interpreter where every distinct annotation is one re-used object (module-level alias): results must be identical. "
                           "non-trivial = distinct session with >1 check and a variadic, broadcast or symbolic axis" % (len(CORPUS), n))
    R.assumptions += ["symbolic expressions restricted to the grammar of DESIGN.md section 3 (parsed by Python's ast in the harness)",
                      "shapes are tuples of Python ints", "ASCII dim strings"]
    sys.exit(R.finish())


if __name__ == "__main__":
    vf.guarded(PID, main)

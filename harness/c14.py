"""C14 -- the dim-string language.  regenerate -> prove -> correspond -> search -> report."""
import itertools, json, os, sys
sys.path.insert(0, os.path.join(os.path.dirname(os.path.abspath(__file__)), "..", "lib"))
import vf

PID = "C14"
MODS = "#*_?"
BASES = ["foo", "x1", "4", "0", "foo+1", "2*a", "", "...", "-1"]


def all_mod_strings(maxlen=4):
    out = [""]
    for n in range(1, maxlen + 1):
        out += ["".join(p) for p in itertools.product(MODS, repeat=n)]
    return out


def gen_token(rng):
    r = rng.random()
    if r < .06:
        return rng.choice(["##a", "a#", "a,b", "*3", "_3", "#_", "_a+1", "*a+1", "__a", "#...", "?3", "a=b=c", "=", "a=", "=a", "4_0", "+4", "4_", "min(a,b)", "a.b", "....", "*...", "1e3", "0x10", "a b".replace(" ", "\x1f")])
    mods = "".join(rng.choice(MODS) for _ in range(rng.choice([0, 0, 0, 1, 1, 2, 3])))
    base = rng.choice(["a", "b", "n", "foo", "x1", "3", "0", "12", "a+1", "2*b", "a-b", "", "...", "-1", "a//2", "(a+b)", "{n}", "{n}+a"])
    if rng.random() < .15:
        k = rng.randrange(len(mods) + 1)
        return mods[:k] + rng.choice(["doc=", "rows=", "d1="]) + mods[k:] + base
    return mods + base


def gen_seq(rng):
    n = rng.choice([0, 1, 2, 2, 3, 3, 4])
    toks = [gen_token(rng) for _ in range(n)]
    ws = [" ", " ", "  ", "\t", "\n", " \t ", "\x0b", "\x1c"]
    s = rng.choice(["", "", " ", "\t"])
    for t in toks:
        s += t + rng.choice(ws)
    if rng.random() < .5:
        s = s.rstrip(" \t\n\x0b\x1c") if rng.random() < .5 else s
    return s, toks


def main():
    R = vf.Report(PID)
    proved = R.proof_step()

    # ------------------------------------------------------------ cases
    specs, meta = [], []
    # committed corpus first
    corpus = os.path.join(vf.VERIF, "corpus", "C14", "specs.json")
    if os.path.exists(corpus):
        for s in json.load(open(corpus)):
            specs.append(s); meta.append(("corpus", None))
    # exhaustive single tokens
    for m in all_mod_strings(4):
        for base in BASES:
            for place in ("none", "lead", "mid"):
                if place == "none":
                    tok = m + base
                elif place == "lead":
                    tok = "doc=" + m + base
                else:
                    if len(m) == 0:
                        continue
                    tok = m[0] + "doc=" + m[1:] + base
                specs.append(tok); meta.append(("token", ("".join(sorted(m)), base, place, m)))
    n_exh = len(specs)
    # sampled sequences with arbitrary whitespace
    nseq = 250000 if R.thorough else 4000
    seqs = []
    for _ in range(nseq):
        s, toks = gen_seq(R.rng)
        specs.append(s); meta.append(("seq", tuple(toks)))
        # the same tokens, single-space separated: whitespace must not matter
        specs.append(" ".join(toks)); meta.append(("seqnorm", tuple(toks)))
    nonstr = [{"nonstr": k} for k in ("int", "none", "tuple", "bytes", "float", "list")]

    # ------------------------------------------------------------ implementation
    impl = vf.impl("impl_array.py", {"mode": "parse", "specs": specs + nonstr})
    impl_str, impl_non = impl[:len(specs)], impl[len(specs):]

    # ------------------------------------------------------------ model (inside Coq)
    # distinct strings only
    uniq = sorted(set(specs))
    model = dict(zip(uniq, vf.coq_eval_strings(["model.DimLang"], "fun s => show_parse (parse_dims s)", [vf.coqstr(s) for s in uniq], shard=1000)))

    # ------------------------------------------------------------ compare
    R.coverage["evaluations"] = len(specs) + len(nonstr)
    nontriv = set()
    samples = []
    for s, mt, im in zip(specs, meta, impl_str):
        got = im["dims"] if im["build"] == "ok" else im["build"]
        exp = model[s]
        R.count("impl:" + ("ok" if im["build"] == "ok" else im["build"]))
        if ("#" in s or "*" in s or "_" in s or "?" in s or "=" in s or "." in s) and s.strip():
            nontriv.add(s)
        if len(samples) < 6 and mt[0] == "seq" and im["build"] == "ok" and len(mt[1]) >= 3:
            samples.append({"spec": s, "impl": got, "model": exp})
        if im["build"].startswith("Other:"):
            R.violation("property", "building Float[ndarray, %r] fails with %s, neither accepted nor ValueError" % (s, im["build"]),
                        {"spec": s, "impl": im, "model": exp}, key={"spec": s, "kind": "other-exception", "exc": im["build"]})
        elif got != exp:
            R.violation("correspondence", "parser model and implementation disagree on %r: impl %s, model %s" % (s, got, exp),
                        {"spec": s, "impl": got, "model": exp}, key={"spec": s, "kind": "parse-diff"})
    # model-independent oracle 1: modifier order is free (exhaustive tokens)
    groups = {}
    for s, mt, im in zip(specs, meta, impl_str):
        if mt[0] == "token":
            sm, base, place, m = mt[1]
            if s.endswith("#"):
                continue      # trailing '#' is itself a documented illegal form
            groups.setdefault((sm, base, place), []).append((s, im["dims"] if im["build"] == "ok" else "ValueError" if im["build"] == "ValueError" else im["build"]))
    for k, lst in groups.items():
        outs = set(o for _, o in lst)
        if len(outs) > 1:
            R.violation("property", "modifier order changes the meaning: %s" % (lst[:6],), {"tokens": lst},
                        key={"kind": "modifier-order", "mods": k[0], "base": k[1]})
    # model-independent oracle 2: whitespace insignificant
    for i in range(n_exh, len(specs), 2):
        a, b = impl_str[i], impl_str[i + 1]
        oa = a["dims"] if a["build"] == "ok" else a["build"]
        ob = b["dims"] if b["build"] == "ok" else b["build"]
        if oa != ob:
            R.violation("property", "whitespace changes the meaning: %r -> %s but %r -> %s" % (specs[i], oa, specs[i + 1], ob),
                        {"a": specs[i], "b": specs[i + 1], "impl_a": oa, "impl_b": ob}, key={"kind": "whitespace", "spec": specs[i]})
    # non-string specifications must be ValueError
    for s, im in zip(nonstr, impl_non):
        R.count("nonstr:" + im["build"])
        if im["build"] != "ValueError":
            R.violation("property", "non-string shape specification (%s) is not rejected with ValueError but %s" % (s["nonstr"], im["build"]),
                        {"spec": s, "impl": im}, key={"kind": "non-string", "spec": s["nonstr"], "exc": im["build"]})
    if not proved:
        R.violation("proof", "proof obligations of props/C14.v no longer check: " + str(R.broken_proof)[-800:],
                    {"theorem_file": "coq/props/C14.v", "log": R.broken_proof}, no_input=not any(v["kind"] == "property" for v in R.violations))

    R.coverage["distinct_nontrivial"] = len(nontriv)
    R.coverage["rule"] = ("exhaustive single tokens: every string of <=4 modifier characters (341) x 9 bases x doc= absent/leading/after first modifier (%d tokens); "
                          "plus %d PRNG sequences of <=4 tokens with arbitrary ASCII whitespace, each also in single-space form; plus 6 non-string specs. "
                          "non-trivial = distinct spec containing a modifier, '=', or '.'" % (n_exh, nseq))
    R.coverage["samples"] = samples
    R.coverage["exhaustive"] = True
    R.coverage["exhaustive_part"] = "single tokens with <=4 modifier characters over the 9 listed bases"
    R.assumptions += ["strings restricted to ASCII; Python's Unicode behaviour of str.split/isidentifier/int is outside the model",
                      "parsed dims are read from the annotation's .dims/.index_variadic attributes"]
    sys.exit(R.finish())


if __name__ == "__main__":
    vf.guarded(PID, main)

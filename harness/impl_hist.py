"""C12 worker: histories of public-API operations with injected faults, followed by probe checks.
JSON in: {"histories": [[op...]...]}; op = {"op": name, "fault": null | "exc" | "base", "checker": "typeguard"|"beartype", "ctx": bool}
JSON out: per history: {"ops": [outcome class per op], "probes": {...}, "leaks": {...}}"""
import json, sys, io, contextlib, warnings, pickle


class Boom(BaseException):
    pass


def raiser(fault):
    if fault == "exc":
        raise RuntimeError("injected fault")
    if fault == "base":
        raise Boom("injected fault")


def main():
    req = json.load(sys.stdin)
    buf = io.StringIO()
    with contextlib.redirect_stdout(buf), contextlib.redirect_stderr(io.StringIO()), warnings.catch_warnings():
        warnings.simplefilter("ignore")
        import numpy as np, typing
        import jax.tree_util as jtu
        import typeguard, beartype
        import jaxtyping
        from jaxtyping import Float, Float32, Shaped, PyTree, jaxtyped, AnnotationError, print_bindings, install_import_hook
        from jaxtyping import _storage
        A = np.ndarray
        state = {"fault": None}

        class FaultyDuck:
            def __init__(self, point):
                self.point = point
            @property
            def shape(self):
                if self.point == "shape":
                    raiser(state["fault"])
                return (3,)
            @property
            def dtype(self):
                if self.point == "dtype":
                    raiser(state["fault"])
                return "float32"

        class FaultyNode:
            def __init__(self, *cs):
                self.cs = list(cs)
        def _flat(n):
            raiser(state["fault"])
            return (n.cs, None)
        jtu.register_pytree_node(FaultyNode, _flat, lambda aux, cs: FaultyNode(*cs))

        class RaisingMeta(type):
            def __instancecheck__(cls, obj):
                raiser(state["fault"])
                return isinstance(obj, int) if False else type.__instancecheck__(cls, obj)
        class Leafy(metaclass=RaisingMeta):
            pass

        def boom():
            raiser(state["fault"])
            return 3

        def checker_of(name):
            return typeguard.typechecked if name == "typeguard" else beartype.beartype

        UA, UB = Float[A, "up_"], Float[A, "uq_"]          # two annotation objects used in unions, in both orders
        ST_PACKED = np.dtype([("a", "u1"), ("b", "u1")])
        ST_ALIGNED = np.dtype([("a", "u1"), ("b", "u1")], align=True)      # == ST_PACKED, same hash, different str()
        STCAT = jaxtyping.make_numpy_struct_dtype(ST_PACKED, "PackedRec")

        def run_op(o, alias):
            """alias: a fresh annotation object shared between this op and the probe P4"""
            state["fault"] = o.get("fault")
            tc = checker_of(o.get("checker", "typeguard"))
            op = o["op"]
            if op == "arr_acc":
                return isinstance(np.zeros((3,), "float32"), alias)
            if op == "arr_rej":
                return isinstance(np.zeros((3, 3), "float32"), alias)
            if op == "arr_unbound_symbolic":
                return isinstance(np.zeros((3,), "float32"), Float[A, "zz+1"])
            if op == "duck_shape":
                return isinstance(FaultyDuck("shape"), Float[typing.Any, "a"])
            if op == "duck_dtype":
                return isinstance(FaultyDuck("dtype"), Float[typing.Any, "a"])
            if op == "pytree_flatten":
                return isinstance((1, FaultyNode(2, 3)), PyTree[int])
            if op == "pytree_flatten_structured":
                return isinstance((np.zeros((3,), "float32"), FaultyNode(np.zeros((3,), "float32"))), PyTree[alias, "T"])
            if op == "pytree_leaf":
                return isinstance((Leafy(), Leafy()), PyTree[Leafy])
            if op == "pytree_leaf_structured":
                return isinstance((Leafy(), Leafy()), PyTree[Leafy, "T"])
            if op == "pytree_annotation_error":
                return isinstance((np.zeros((3,), "float32"),), PyTree[Float[A, "dim+1"], "S"])
            if op == "pytree_reject_structured":
                return isinstance((np.zeros((3,), "float32"), np.zeros((4,), "float32")), PyTree[Float[A, "q"], "T"])
            if op == "pytree_question_leaf":
                return isinstance((np.zeros((3,), "float32"), np.zeros((4,), "float32")), PyTree[Float[A, "?q"], "T"])
            if op == "pytree_symbolic_fault":
                @jaxtyped(typechecker=None)
                def g(boom, t):
                    return isinstance(t, PyTree[Float[A, "a {boom()}"], "T"])
                return g(boom, (np.zeros((2, 3), "float32"),))
            if op == "symbolic_fault":
                @jaxtyped(typechecker=None)
                def g(boom, x):
                    return isinstance(x, Float[A, "a {boom()}"])
                return g(boom, np.zeros((2, 3), "float32"))
            if op in ("call_body", "call_body_old"):
                def f(x: alias) -> alias:
                    raiser(state["fault"])
                    return x
                f = jaxtyped(typechecker=tc)(f) if op == "call_body" else jaxtyped(tc(f))
                return f(np.zeros((3,), "float32")) is not None
            if op == "call_illtyped":
                @jaxtyped(typechecker=tc)
                def f(x: alias, y: alias):
                    return x
                return f(np.zeros((3,), "float32"), np.zeros((4,), "float32")) is not None
            if op == "call_pytree_arg_fault":
                @jaxtyped(typechecker=tc)
                def f(t: PyTree[alias], y: alias):
                    return y
                return f((np.zeros((3,), "float32"), FaultyNode(np.zeros((3,), "float32"))), np.zeros((3,), "float32")) is not None
            if op == "call_checker_fault":
                def bad_checker(fn):
                    def w(*a, **k):
                        raiser(state["fault"])
                        return fn(*a, **k)
                    return w
                @jaxtyped(typechecker=bad_checker)
                def f(x: alias):
                    return x
                return f(np.zeros((3,), "float32")) is not None
            if op == "context_block_fault":
                with jaxtyped("context"):
                    isinstance(np.zeros((3,), "float32"), alias)
                    raiser(state["fault"])
                return True
            if op == "old_style_generator":
                def gen(x: alias) -> alias:
                    yield x
                g = jaxtyped(tc(gen))
                return list(g(np.zeros((3,), "float32"))) is not None
            if op == "old_style_generator_twin":
                # an old-style decorated generator function whose return annotation is WRITTEN like the annotation of the probe
                # function pf (textually identical generic, separately constructed objects): it shares nothing with pf
                ann = typing.Iterator[typing.Tuple[Float[A, "n q"], int]]
                def gen(x) -> ann:
                    yield x
                g = jaxtyped(tc(gen))
                return list(g((np.zeros((3, 3), "float32"), 1))) is not None
            if op == "reentered_context_object":
                # one jaxtyped("context") object kept in a variable and entered again while it is entered (a recursive walker)
                scope = jaxtyped("context")
                def walk(d):
                    with scope:
                        isinstance(np.zeros((3,), "float32"), alias)
                        if d:
                            walk(d - 1)
                        raiser(state["fault"])
                walk(2)
                return True
            if op == "pytree_union_other_order":
                # an unrelated passing check of a PyTree whose leaf type is the union of the SAME two annotations in the other order
                return isinstance((np.zeros((3,), "float32"),), PyTree[typing.Union[UB, UA], "Sother"])
            if op == "struct_dtype_other_spelling":
                # an unrelated passing check of an array whose structured dtype is EQUAL to the probe's packed dtype but spelled differently
                return isinstance(np.zeros((2,), ST_ALIGNED), Shaped[A, "..."])
            if op == "decorate_inside_call":
                # functions are decorated WHILE a jaxtyped call is active (what the import hook does to every nested def, each time the
                # outer function runs); their annotations mention a structure name the outer call has not bound: decoration is not a check
                @jaxtyped(typechecker=tc)
                def outer(x: alias):
                    PT = PyTree[int, "Tq"]
                    for deco in (beartype.beartype, typeguard.typechecked):
                        @jaxtyped(typechecker=deco)
                        def innerf(t: PT, u: Float[A, "n q"]):
                            return 0
                    raiser(state["fault"])
                    return isinstance((1, 2), PyTree[int, "Tq"]) and isinstance(np.zeros((3, 9), "float32"), Float[A, "n q"])
                return outer(np.zeros((3,), "float32"))
            if op == "generator_suspended":
                # a generator made by a decorated generator function, advanced once and kept alive (suspended) ever after
                @jaxtyped(typechecker=tc)
                def gen(x: alias):
                    raiser(state["fault"])
                    yield x
                    yield x
                g = gen(np.zeros((3,), "float32"))
                KEEP.append(g)
                return next(g) is not None
            if op == "generator_handed_over":
                @jaxtyped(typechecker=tc)
                def gen2(x: alias):
                    yield x
                    yield x
                @jaxtyped(typechecker=tc)
                def add_next(g, y: alias) -> alias:
                    return next(g) + y
                g = gen2(np.zeros((3,), "float32"))
                KEEP.append(g)
                return add_next(g, np.zeros((3,), "float32")) is not None
            if op == "concurrent_flatten":
                # ANOTHER thread is in the middle of flattening a tree against PyTree[alias] (the same annotation object) and
                # stays there until the probes are done
                import threading
                inside, release = threading.Event(), threading.Event()
                RELEASE.append(release)

                class ParkNode:
                    pass
                def _pflat(n):
                    inside.set(); release.wait(600)
                    return ((), None)
                jtu.register_pytree_node(ParkNode, _pflat, lambda aux, cs: ParkNode())
                def other():
                    try:
                        with jaxtyped("context"):
                            isinstance((np.zeros((3,), "float32"), ParkNode()), PyTree[alias])
                    except BaseException:  # noqa
                        pass
                th = threading.Thread(target=other, daemon=True); th.start()
                THREADS.append(th)
                import time as _tm
                t_end = _tm.time() + 60
                while th.is_alive() and not inside.is_set() and _tm.time() < t_end:     # (the thread may finish without flattening the node)
                    _tm.sleep(0.005)
                return True
            if op == "decorate_other":
                @jaxtyped(typechecker=tc)
                def h(x: alias) -> alias:
                    return x
                return h(np.zeros((5,), "float32")) is not None
            if op == "pickle":
                return pickle.loads(pickle.dumps(alias)) is not None
            if op == "hook":
                h = install_import_hook("no_such_package_c12", "typeguard.typechecked")
                h.uninstall()
                return True
            raise KeyError(op)

        KEEP = []
        RELEASE, THREADS = [], []

        def probes(alias, pf):
            out = {}
            out["path"] = getattr(_storage._treepath_storage, "value", None)
            out["flat"] = bool(getattr(_storage, "get_treeflatten_memo", lambda: False)())
            out["depth"] = len(getattr(_storage._shape_storage, "memo_stack", []))
            b = io.StringIO()
            with contextlib.redirect_stdout(b):
                print_bindings()
            out["bindings"] = b.getvalue().strip()
            def safe(f):
                try:
                    return f()
                except AnnotationError:
                    return "AnnotationError"
                except BaseException as e:  # noqa
                    return "X:" + type(e).__name__
            out["P1_wrong_dtype_rejected"] = safe(lambda: isinstance(np.zeros((2, 3), "int32"), Float32[A, "4"]))
            out["P2_question_outside_raises"] = safe(lambda: isinstance(np.zeros((3,), "float32"), Float[A, "?foo"]))
            out["P3_structured_pytree"] = safe(lambda: isinstance((np.zeros((3,), "float32"),), PyTree[Float[A, "a"], "T"]))
            out["P4_alias_rejects_wrong_dtype"] = safe(lambda: isinstance(np.zeros((3,), "int32"), alias))
            out["P5_alias_rejects_wrong_rank"] = safe(lambda: isinstance(np.zeros((3, 3), "float32"), alias))
            def p8():
                with jaxtyped("context"):
                    r1 = isinstance((np.zeros((3,), "float32"),), PyTree[typing.Union[UA, UB], "Sprobe"])     # first member (axis up_) binds
                    return [bool(r1), bool(isinstance(np.zeros((4,), "float32"), UA)), bool(isinstance(np.zeros((4,), "float32"), UB))]
            out["P8_union_members_in_written_order"] = safe(p8)
            out["P9_struct_dtype_exact_spelling"] = safe(lambda: [bool(isinstance(np.zeros((3,), ST_PACKED), STCAT[A, "n"])), bool(isinstance(np.zeros((3,), ST_ALIGNED), STCAT[A, "n"]))])
            out["P7_early_function_rejects_wrong_dtype"] = safe(lambda: pf((np.zeros((3, 3), "int32"), 1)))
            out["P6_stateless_toplevel"] = safe(lambda: (isinstance(np.zeros((3,), "float32"), Float[A, "n"]), isinstance(np.zeros((4,), "float32"), Float[A, "n"])))
            return out

        def reset():
            _storage._treepath_storage.value = None
            try:
                _storage._treeflatten_storage.value = False
            except Exception:
                pass
            st = getattr(_storage._shape_storage, "memo_stack", None)
            if st:
                del st[:]

        res = []
        for hist in req["histories"]:
            alias = Float[A, "n"]            # a fresh annotation object per history
            outcomes = []
            # a function decorated BEFORE anything else happens, annotated with a typing generic over an array annotation
            @jaxtyped(typechecker=typeguard.typechecked)
            def pf(x: typing.Tuple[Float[A, "n q"], int]):
                return 0

            for o in hist:
                def go():
                    if o.get("ctx"):
                        with jaxtyped("context"):
                            return run_op(o, alias)
                    return run_op(o, alias)
                try:
                    r = go()
                    outcomes.append("ok:%s" % bool(r))
                except AnnotationError:
                    outcomes.append("AnnotationError")
                except Exception as e:  # noqa
                    outcomes.append("Exception:" + type(e).__name__)
                except BaseException as e:  # noqa
                    outcomes.append("BaseException:" + type(e).__name__)
            state["fault"] = None
            p = probes(alias, pf)
            for ev in RELEASE:
                ev.set()
            for th in THREADS:
                th.join(60)
            del RELEASE[:], THREADS[:]
            reset()
            res.append({"ops": outcomes, "probes": p})
    print(json.dumps(res))


if __name__ == "__main__":
    main()

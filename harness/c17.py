"""C17 -- verdicts depend on type, shape and dtype only, so tracing equals eager."""
import json, os, sys
sys.path.insert(0, os.path.join(os.path.dirname(os.path.abspath(__file__)), "..", "lib"))
import vf, gen_arrays as G

PID = "C17"
ALLOWED = {"get:shape", "get:dtype"}
DIMS = ["n", "n m", "m", "*v n", "#n 3", "n+1", "2*n", "_ m", "... m", "n*factor", "k", "n {k}"]


def gen_case(rng):
    sizes = {"n": rng.choice([2, 3, 4]), "m": rng.choice([2, 5]), "k": 3}
    names = rng.sample(["x", "y", "z", "n", "m", "factor", "k"], rng.choice([1, 2, 2, 3]))
    params, shapes = [], {}
    for nm in names:
        if nm in ("n", "m", "factor", "k") and rng.random() < .7:
            # a 0-d integer array argument NAMED LIKE AN AXIS, whose value usually differs from the axis size
            params.append([nm, "int0d", rng.choice([sizes.get(nm, 3), 5, 0, 9])])
        else:
            d = rng.choice(DIMS[:9] + (["n*factor"] if "factor" in names else []))
            if shapes.get("x") and nm != "x" and rng.random() < .3:
                # an axis given by a STATIC property of an earlier array argument through the f-string syntax
                d = rng.choice(["{x.shape[0]}", "{x.ndim}", "{x.size}", "{len(x)} n", "{x.shape[-1]}+1"])
                shapes[nm] = [{"{x.shape[0]}": shapes["x"][0], "{x.ndim}": len(shapes["x"]), "{x.size}": eval("*".join(map(str, shapes["x"]))), "{len(x)}": shapes["x"][0], "n": sizes["n"],
                               "{x.shape[-1]}+1": shapes["x"][-1] + 1}[t] + (1 if rng.random() < .2 else 0) for t in d.split()]
                params.append([nm, d, "float32", "Float"])
                continue
            sh = []
            for tok in d.split():
                if tok == "*v":
                    sh += [6]
                elif tok == "...":
                    sh += [7]
                elif tok == "#n":
                    sh.append(rng.choice([1, sizes["n"]]))
                elif tok == "3":
                    sh.append(3)
                elif tok == "n+1":
                    sh.append(sizes["n"] + 1)
                elif tok == "2*n":
                    sh.append(2 * sizes["n"])
                elif tok == "_":
                    sh.append(9)
                elif tok == "n*factor":
                    sh.append(sizes["n"] * 2)
                else:
                    sh.append(sizes[tok])
            if rng.random() < .25 and sh:
                sh[rng.randrange(len(sh))] += 1
            params.append([nm, d, rng.choice(["float32", "float32", "int32"]), rng.choice(["Float", "Float", "Shaped"])])
            shapes[nm] = sh
    arrs = [p for p in params if p[1] != "int0d" and p[2].startswith("float")]
    ret_from = arrs[0][0] if arrs and rng.random() < .6 else None
    ret = arrs[0][1] if ret_from and rng.random() < .7 else ("q" if ret_from else None)
    return {"params": params, "shapes": shapes, "ret_from": ret_from, "ret": ret, "checker": rng.choice(["typeguard", "beartype"])}


CATALOGUE = [
    {"params": [["n", "int0d", 5], ["x", "n", "float32", "Float"]], "shapes": {"x": [3]}, "ret_from": "x", "ret": "n", "checker": "typeguard"},
    {"params": [["n", "int0d", 3], ["x", "n", "float32", "Float"]], "shapes": {"x": [3]}, "ret_from": "x", "ret": "n", "checker": "beartype"},
    {"params": [["x", "n", "float32", "Float"], ["factor", "int0d", 2]], "shapes": {"x": [3]}, "ret_from": None, "ret": None, "checker": "typeguard"},
    {"params": [["x", "n", "float32", "Float"], ["factor", "int0d", 2], ["y", "n*factor", "float32", "Float"]], "shapes": {"x": [3], "y": [6]}, "ret_from": None, "ret": None, "checker": "typeguard"},
    {"params": [["x", "n", "float32", "Float"], ["factor", "int0d", 3], ["y", "n*factor", "float32", "Float"]], "shapes": {"x": [3], "y": [6]}, "ret_from": None, "ret": None, "checker": "beartype"},
    {"params": [["x", "n m", "float32", "Float"], ["y", "m", "float32", "Float"]], "shapes": {"x": [2, 3], "y": [3]}, "ret_from": "y", "ret": "m", "checker": "typeguard"},
    # axes that name a static property of an array ARGUMENT ({x.size}, {len(x)}, {x.ndim}, {x.shape[i]}): tracers carry all of these
    {"params": [["x", "n", "float32", "Float"], ["y", "{x.size}", "float32", "Float"]], "shapes": {"x": [3], "y": [3]}, "ret_from": "x", "ret": "{len(x)}", "checker": "typeguard"},
    {"params": [["x", "n m", "float32", "Float"], ["y", "{x.ndim} {x.shape[1]}", "float32", "Float"]], "shapes": {"x": [2, 3], "y": [2, 3]}, "ret_from": None, "ret": None, "checker": "beartype"},
    {"params": [["x", "n m", "float32", "Float"], ["y", "{x.size}", "float32", "Float"]], "shapes": {"x": [2, 3], "y": [5]}, "ret_from": "x", "ret": "n {x.shape[-1]}", "checker": "typeguard"},
    {"params": [["x", "*b", "float32", "Float"]], "shapes": {"x": [2, 3]}, "ret_from": "x", "ret": "{x.shape[0]} {x.size}//2", "checker": "typeguard"},
    {"params": [["x", "n m", "float32", "Float"], ["y", "m", "float32", "Float"]], "shapes": {"x": [2, 3], "y": [4]}, "ret_from": "y", "ret": "m", "checker": "typeguard"},
]


def main():
    R = vf.Report(PID)
    proved = R.proof_step()
    n = 6000 if R.thorough else 60
    cases = list(CATALOGUE) + [gen_case(R.rng) for _ in range(n)]
    # **kwargs / dict arguments sharing one annotation, three or more values, caller's key order different from sorted order
    def gen_kw(rng):
        dim = rng.choice(["*#batch", "*#batch", "*#b c", "#n", "n", "*b"])
        keys = rng.sample(["w", "bias", "extra", "a", "zeta", "m"], rng.choice([3, 3, 4]))
        base = [rng.choice([2, 3, 4]) for _ in range(2)]
        kw = []
        for k in keys:
            if dim in ("*#batch", "*b"):
                sh = rng.choice([[base[0]], [1], [base[1], base[0]], [1, base[0]], [base[0] + 1]])
            elif dim == "*#b c":
                sh = rng.choice([[base[0], 5], [1, 5], [5], [base[0] + 1, 5]])
            else:
                sh = [rng.choice([1, base[0], base[0], base[0] + 1])]
            kw.append([k, sh])
        return {"kind": rng.choice(["kwargs", "dictarg"]), "dim": dim, "kw": kw, "checker": "typeguard"}      # (beartype samples containers and skips **kwargs: not a deterministic oracle here)
    cases += [{"kind": "kwargs", "dim": "*#batch", "kw": [["w", [3]], ["bias", [1]], ["extra", [4]]], "checker": "typeguard"},
              {"kind": "dictarg", "dim": "*#batch", "kw": [["w", [3]], ["bias", [1]], ["extra", [4]]], "checker": "typeguard"},
              {"kind": "kwargs", "dim": "*#batch", "kw": [["w", [1]], ["bias", [3]], ["a", [1, 3]]], "checker": "typeguard"}]
    # a Union of annotations one of which is SYMBOLIC in an axis the other binds: which alternative a value takes depends on what was
    # checked before it, and jit re-orders keyword arguments (known finding F-C17-union-kwargs-order)
    cases.append({"kind": "kwargs", "dim": "n | n+1", "dims": ["n", "n+1"], "kw": [["b", [3]], ["a", [4]]], "checker": "typeguard"})
    cases += [gen_kw(R.rng) for _ in range(600 if R.thorough else 16)]
    for chk in ("typeguard", "beartype"):
        for extra in (4, 3):
            cases.append({"kind": "mutated_node", "extra": extra, "checker": chk})
    for first in ("jit", "eval_shape", "grad", "vmap_all"):
        for chk in ("typeguard", "beartype"):
            cases.append({"kind": "pytree_first_traced", "dim": "n", "leaf": [3], "x": [3], "first": first, "checker": chk})
            cases.append({"kind": "pytree_first_traced", "dim": "n", "leaf": [3], "x": [4], "first": first, "checker": chk})
    nw = 8
    chunks = [cases[i::nw] for i in range(nw)]
    from concurrent.futures import ThreadPoolExecutor
    with ThreadPoolExecutor(nw) as ex:
        outs = list(ex.map(lambda kc: vf.impl("impl_trace.py", {"cases": kc[1], "duck": kc[0] == 0}, timeout=3000, bg=(kc[0] % 3 == 1)), list(enumerate(chunks))))
    res = [None] * len(cases)
    for w, o in enumerate(outs):
        for j, r in enumerate(o["results"]):
            res[w + j * nw] = r
    duck = outs[0]["duck_log"]
    nev, nontriv, samples = 0, set(), []
    for c, r in zip(cases, res):
        if c.get("kind") == "mutated_node":
            c.setdefault("params", []); c.setdefault("ret", None); c.setdefault("shapes", {"layers": [[3], [3], [c["extra"]]], "x": [3]}); c.setdefault("kw", []); c.setdefault("dim", "n"); c.setdefault("first", "-"); c.setdefault("leaf", [3]); c.setdefault("x", [3])
        if c.get("kind") == "pytree_first_traced":
            c.setdefault("params", []); c.setdefault("ret", None); c.setdefault("shapes", {"leaves": c["leaf"], "x": c["x"]}); c.setdefault("kw", []); c.setdefault("dim", c["dim"])
        if c.get("kind") in ("kwargs", "dictarg"):
            c.setdefault("params", []); c.setdefault("ret", None); c.setdefault("shapes", dict((k, sh) for k, sh in c["kw"]))
        desc = ("f(model: PyTree[Float[Array,'n']], x: Float[Array,'n']) with a registered mutable node checked once, then extended IN PLACE by a leaf of length %d and passed again; " % c["extra"] if c.get("kind") == "mutated_node" else "") + ("" if not c.get("kind") or c.get("kind") == "mutated_node" else ("f(t: PyTree[Float[Array,%r]], x: Float[Array,%r]) -> same, first ever call under " + c["first"] + " inside jax.checking_leaks(); ") % (c["dim"], c["dim"]) if c["kind"] == "pytree_first_traced" else ("f(**terms: Float[Array,%r])" if c["kind"] == "kwargs" else "f(terms: dict[str, Float[Array,%r]])") % c["dim"] + " called with keys in the order %s; " % [k for k, _ in c["kw"]]) + "f(%s)%s shapes %s" % (", ".join("%s: %s" % (p[0], "Int[Array,''] = %s" % p[2] if p[1] == "int0d" else "%s[Array,%r] %s" % (p[3], p[1], p[2])) for p in c["params"]), " -> Float[Array,%r]" % c["ret"] if c["ret"] else "", c["shapes"])
        if "decorate" in r:
            R.violation("correspondence", "could not decorate: %s (%s)" % (r["decorate"], desc), {"case": c}, key={"kind": "decorate"}, no_input=True); continue
        e = r["eager"]
        if len(set(e.values())) > 1:
            R.violation("property", "the verdict depends on array element VALUES: eager calls with zeros / other values / NaNs give %s (%s)" % (e, desc), {"case": c, "eager": e}, key={"kind": "value-dependent"})
        base = e["zeros"]
        R.count("eager:" + base.split(":")[0])
        for how, d in r["traced"].items():
            for fill, v in d.items():
                nev += 1
                if v.startswith("TRACER-FORCED"):
                    R.violation("property", "checking forced a tracer to a concrete value under %s: %s (%s)" % (how, v, desc), {"case": c, "how": how, "got": v}, key={"kind": "tracer-forced", "how": how})
                elif v != e[fill] and not (how.startswith("vmap") or how == "jit_vmap"):
                    R.violation("property", "under %s the call is `%s` but the same call executed eagerly is `%s` (%s)" % (how, v, e[fill], desc), {"case": c, "how": how, "traced": v, "eager": e[fill]}, key={"kind": "traced-differs", "how": how, "annotation": "union-of-symbolic" if c.get("dims") else "plain"})
                elif (how.startswith("vmap") or how == "jit_vmap") and how != "vmap_first" and v != e[fill] and not v.startswith("other"):
                    # vmap over every argument: the function sees the per-example shapes, i.e. exactly the eager call
                    R.violation("property", "under %s (per-example shapes = the eager shapes) the call is `%s`, eagerly `%s` (%s)" % (how, v, e[fill], desc), {"case": c, "how": how, "traced": v, "eager": e[fill]}, key={"kind": "traced-differs", "how": how, "annotation": "union-of-symbolic" if c.get("dims") else "plain"})
        nontriv.add(json.dumps(c, sort_keys=True))
        if len(samples) < 3 and len(c["params"]) >= 2:
            samples.append({"case": c, "eager": e, "traced": {h: d["zeros"] for h, d in r["traced"].items()}})
    extra = sorted(set(duck) - ALLOWED - {x for x in duck if x.startswith("exc:")})
    if extra:
        R.violation("property", "a check touched more than type, shape and dtype of the value: %s" % extra, {"accesses": duck}, key={"kind": "access-log"})
    if not proved:
        R.violation("proof", "proof obligations of props/C17.v no longer check: " + str(R.broken_proof)[-800:],
                    {"theorem_file": "coq/props/C17.v", "log": R.broken_proof}, no_input=not any(v["kind"] == "property" for v in R.violations))
    R.coverage.update(evaluations=nev, distinct_nontrivial=len(nontriv), samples=samples, duck_access_log=duck,
                      rule="%d catalogue + %d PRNG decorated functions over jax.Array (1-3 parameters, 0-d integer array arguments NAMED like axes with values differing from the axis size, symbolic axes that mention argument names unbraced, 25%% perturbed shapes), each called eagerly with three different element fillings (zeros, sevens, NaNs) "
                           "and under jit, eval_shape, jit(jit), grad, vmap over all arguments, vmap with in_axes=(0, None, ...), jit(vmap): raise / no-raise must equal the eager call on the shapes the tracers carry, and no Tracer*ConversionError / ConcretizationTypeError may appear (also inside __cause__ chains). "
                           "Plus an array-like whose class logs every attribute access and raises on every value-forcing dunder, pushed through all check paths: the log must be within {shape, dtype}." % (len(CATALOGUE), n))
    R.assumptions += ["what JAX transformations hand to the function is JAX's: observed, not proved"]
    sys.exit(R.finish())


if __name__ == "__main__":
    vf.guarded(PID, main)

"""C13 -- type-check errors are raised iff violated and describe the failure truthfully."""
import json, os, re, sys
sys.path.insert(0, os.path.join(os.path.dirname(os.path.abspath(__file__)), "..", "lib"))
import vf, gen_arrays as G
import c02

PID = "C13"
P = c02.P

CORPUS = [
    # the defect repaired by /repo 095bda1: bindings of the failed check must not be shown
    dict(params=[P("x", "foo"), P("y", "bar foo")], ret=None, shapes={"x": [3], "y": [4, 5]}, ret_shape=[]),
    # failure at params 1, 2, 3 and at the return value
    dict(params=[P("x", "a b"), P("y", "b c"), P("z", "c a")], ret={"dim": "a c", "cat": "Float"}, shapes={"x": [2, 3], "y": [3, 4], "z": [4, 2]}, ret_shape=[2, 5]),
    dict(params=[P("x", "a b"), P("y", "b c"), P("z", "c a")], ret=None, shapes={"x": [2, 3], "y": [3, 4], "z": [4, 5]}, ret_shape=[]),
    dict(params=[P("x", "a b"), P("y", "b c"), P("z", "c a")], ret=None, shapes={"x": [2, 3], "y": [9, 4], "z": [4, 2]}, ret_shape=[]),
    dict(params=[P("x", "a 7"), P("y", "b c")], ret=None, shapes={"x": [2, 3], "y": [9, 4]}, ret_shape=[]),
    # the same identifier as a single and as a variadic axis: both bindings must be listed
    dict(params=[P("x", "a"), P("y", "*a"), P("z", "b b")], ret=None, shapes={"x": [3], "y": [4, 5], "z": [2, 3]}, ret_shape=[]),
    dict(params=[P("x", "a"), P("y", "*a")], ret={"dim": "a a", "cat": "Float"}, shapes={"x": [3], "y": [4, 5]}, ret_shape=[3, 4]),
    # unions whose first alternative fails after binding something
    dict(params=[{"name": "x", "cat": "Float", "union": ["a b", "c"]}, P("y", "c")], ret={"dim": "c c", "cat": "Float"}, shapes={"x": [3], "y": [3]}, ret_shape=[3, 4]),
    dict(params=[{"name": "x", "cat": "Float", "union": ["a 3", "a 4"]}, P("y", "a")], ret=None, shapes={"x": [2, 4], "y": [5]}, ret_shape=[]),
    # variadics
    dict(params=[P("x", "*v a"), P("y", "*v b"), P("z", "*#v")], ret=None, shapes={"x": [2, 3, 4], "y": [2, 3, 5], "z": [7]}, ret_shape=[]),
    # misuse of the annotation language: unbound symbolic in a parameter / in the return value
    dict(params=[P("x", "a"), P("y", "q+1")], ret=None, shapes={"x": [3], "y": [4]}, ret_shape=[]),
    dict(params=[P("x", "a")], ret={"dim": "q+1", "cat": "Float"}, shapes={"x": [3]}, ret_shape=[4]),
    dict(params=[P("x", "a b"), P("y", "a"), P("z", "q*2")], ret=None, shapes={"x": [3, 4], "y": [4], "z": [2]}, ret_shape=[]),
    # {arg} axes: the re-check that localises the failure must see the call's arguments
    dict(params=[P("x", "{k}"), P("y", "a"), P("z", "a")], ret=None, shapes={"x": [2], "y": [3], "z": [4]}, ret_shape=[], ints={"k": 2}),
    dict(params=[P("x", "a {k}+a"), P("y", "a")], ret={"dim": "{k}", "cat": "Float"}, shapes={"x": [3, 5], "y": [4]}, ret_shape=[2], ints={"k": 2}),
    dict(params=[P("x", "a"), P("y", "a {k}")], ret=None, shapes={"x": [3], "y": [3, 3]}, ret_shape=[], ints={"k": 2}),
    # the failing parameter is *rest (one element): the element binds a fresh name (c) before the axis that disagrees -- nothing of it may be listed
    dict(params=[P("x", "a"), dict(P("rest", "c a"), vararg=True, shapes=[[5, 3]])], ret=None, shapes={"x": [2]}, ret_shape=[]),
    dict(params=[P("x", "a b"), P("y", "b"), dict(P("rest", "*s q a"), vararg=True, shapes=[[7, 7, 4, 9]])], ret=None, shapes={"x": [2, 3], "y": [3]}, ret_shape=[]),
    dict(params=[P("x", "a"), dict(P("rest", "c a"), vararg=True, shapes=[[5, 2]])], ret={"dim": "c c", "cat": "Float"}, shapes={"x": [2]}, ret_shape=[5, 6]),
    # wrong dtype only
    dict(params=[P("x", "a"), P("y", "a", "Int")], ret=None, shapes={"x": [3], "y": [3]}, ret_shape=[]),
    # well-typed
    dict(params=[P("x", "a"), P("y", "a+1")], ret={"dim": "2*a", "cat": "Float"}, shapes={"x": [3], "y": [4]}, ret_shape=[6]),
]


def AR(*shape):
    return ["a", list(shape), "float32"]


def PT(name, leaf, structure, value):
    return {"name": name, "cat": "Float", "dim": "", "pytree": {"leaf": leaf, "structure": structure}, "value": value}


FL = lambda d: ["arr", "Float", d]
PYTREE_CORPUS = [
    # the structure name is bound by a tree whose UNION leaf type has a first alternative that fails on shape (its roll-back replaces the
    # live dictionaries while the tree is being checked); a later parameter with another structure under the same name must be refused
    dict(params=[PT("x", ["union", [FL("a b"), FL("a")]], "T", ["t", [AR(3), AR(3)]]), PT("y", "int", "T", ["t", [["i", 1], ["i", 2], ["i", 3]]])], ret=None),
    dict(params=[PT("x", ["union", [FL("a 7"), FL("a b")]], "T", ["d", {"p": AR(3, 5), "q": AR(3, 5)}]), PT("y", "int", "T", ["d", {"p": ["i", 1]}]), P("z", "a")], ret=None, shapes={"z": [3]}),
    dict(params=[PT("x", ["union", [FL("a b"), FL("a")]], "T", ["t", [AR(3), AR(3)]]), PT("y", "int", "T", ["t", [["i", 1], ["i", 2]]]), P("z", "a")], ret=None, shapes={"z": [4]}),
    # a leaf WIDENS a broadcastable variadic binding made by an earlier parameter, a later leaf fails: the message must show (1, 3)
    dict(params=[P("w", "*#b c"), PT("x", FL("*#b c"), None, ["t", [AR(2, 3, 4), AR(5, 3, 4)]])], ret=None, shapes={"w": [1, 3, 4]}),
    dict(params=[P("w", "*#b c"), PT("x", FL("*#b c"), "T", ["l", [AR(2, 3, 4), AR(2, 3, 9)]]), P("z", "c")], ret=None, shapes={"w": [1, 3, 4], "z": [4]}),
    # a later leaf conflicts with an axis bound by an earlier leaf of the SAME tree: nothing of that tree may be listed
    dict(params=[PT("x", FL("n"), "T", ["t", [AR(3), AR(4)]])], ret=None),
    dict(params=[P("w", "m"), PT("x", FL("n m"), None, ["l", [AR(3, 5), AR(3, 6)]])], ret=None, shapes={"w": [5]}),
    dict(params=[P("w", "m"), PT("x", FL("?k m"), "T", ["t", [AR(2, 5), AR(3, 4)]]), P("z", "m")], ret=None, shapes={"w": [5], "z": [5]}),
    dict(params=[PT("x", FL("n"), "T", ["t", [AR(3), AR(3)]]), PT("y", FL("n"), "T", ["t", [AR(3), AR(3), AR(3)]])], ret=None),
    dict(params=[PT("x", FL("n"), "T", ["t", [AR(3), AR(3)]]), PT("y", FL("k n"), "T", ["t", [AR(2, 3), AR(2, 4)]])], ret=None),
    dict(params=[PT("x", FL("n"), "T", ["d", {"a": AR(3), "b": AR(3)}])], ret={"name": "return", "cat": "Float", "dim": "", "pytree": {"leaf": FL("k n"), "structure": "T"}, "value": ["d", {"a": AR(2, 3), "b": AR(2, 9)}]}),
    dict(params=[PT("x", ["union", [FL("n 7"), FL("n m")]], "S", ["l", [AR(3, 5), AR(3, 5), AR(4, 5)]]), P("z", "n")], ret=None, shapes={"z": [3]}),
    dict(params=[P("w", "*b m"), PT("x", FL("*b q"), None, ["t", [AR(2, 2, 7), AR(2, 3, 7)]])], ret=None, shapes={"w": [2, 2, 5]}),
    dict(params=[PT("x", FL("n"), "T", ["t", [AR(3), AR(3)]]), P("z", "n n")], ret=None, shapes={"z": [3, 4]}),
]


def gen_pytree_case(rng):
    """a call whose PyTree argument has several array leaves; usually one leaf (not the first) breaks an axis bound earlier"""
    dims = rng.choice(["n", "n m", "?k m", "*b n", "k n", "*#b n"])
    rank = {"n": 1, "n m": 2, "?k m": 2, "*b n": 2, "k n": 2, "*#b n": 2}[dims]
    nleaf = rng.choice([2, 3, 4])
    base = [rng.choice([2, 3]) for _ in range(rank)]
    leaves = [list(base) for _ in range(nleaf)]
    if rng.random() < .8:
        j = rng.randrange(1, nleaf); leaves[j][-1] += rng.choice([1, 2])
    cont = rng.choice(["t", "l", "d"])
    val = [cont, {("k%d" % i): AR(*l) for i, l in enumerate(leaves)}] if cont == "d" else [cont, [AR(*l) for l in leaves]]
    params = []
    shapes = {}
    if dims == "*#b n":
        # an earlier parameter binds the broadcastable variadic axis to (1,); the first leaf widens it, a later leaf fails
        params.append(P("w", "*#b n")); shapes["w"] = [1, base[-1]]
        if rng.random() < .7:
            leaves[-1][0] = base[0] + 2
    elif rng.random() < .6:
        params.append(P("w", rng.choice(["m", "n", "q r"]))); shapes["w"] = [base[-1]] if params[-1]["dim"] != "q r" else [4, 5]
    params.append(PT("x", FL(dims), rng.choice([None, "T"]), val))
    if rng.random() < .5:
        params.append(P("z", rng.choice(["n", "m", "q"]))); shapes["z"] = [rng.choice([base[-1], 9])]
    return dict(params=params, ret=None, shapes=shapes)


def canon_model_bind(txt):
    """model `S{a=2,b=3} V{v=F(2,3)}` -> list of message-style lines"""
    m = re.fullmatch(r"S\{(.*)\} V\{(.*)\}", txt)
    single = [x for x in m.group(1).split(",") if x]
    var = re.findall(r"([^,=]+)=[TF](\([^)]*\))", m.group(2))
    return single + ["%s=%s" % (k, v) for k, v in var]


def main():
    R = vf.Report(PID)
    proved = R.proof_step()
    n = 15000 if R.thorough else 300
    cases = []
    for c in CORPUS:
        c = dict(c); c.setdefault("dtypes", {}); c.setdefault("ret_dtype", "float32")
        cases.append(c)
    for _ in range(n):
        case, info, retinfo = c02.gen_case(R.rng)
        # mostly ill-typed: perturb one more shape
        if case["params"] and R.rng.random() < .6:
            nm = R.rng.choice(case["params"])["name"]
            sh = case["shapes"][nm]
            if sh:
                i = R.rng.randrange(len(sh)); sh[i] = sh[i] + R.rng.choice([1, 2, 3])
                for p in case["params"]:
                    if p["name"] == nm and p.get("decoy"):
                        p["union"][0] = "%s *q_ %d" % (p["union"][0].split()[0], sh[-1] + 2)      # keep the decoy alternative unmatchable
        if case["params"] and R.rng.random() < .35:
            case["ints"] = {"k": R.rng.choice([0, 1, 2, 3])}
            p = R.rng.choice(case["params"])
            if "*" not in p["dim"] and "..." not in p["dim"]:
                p["dim"] = (p["dim"] + " {k}").strip()
                p.pop("union", None); p.pop("decoy", None)      # (the decoy union was built for the old dims and shape)
                case["shapes"][p["name"]] = case["shapes"][p["name"]] + [case["ints"]["k"] if R.rng.random() < .8 else 5]
        cases.append(case)
    npt = 4000 if R.thorough else 40
    for c in PYTREE_CORPUS + [gen_pytree_case(R.rng) for _ in range(npt)]:
        c = dict(c); c.setdefault("shapes", {}); c.setdefault("dtypes", {}); c.setdefault("ret_shape", []); c.setdefault("ret_dtype", "float32")
        cases.append(c)
    for c in cases[len(CORPUS):]:
        if R.rng.random() < .5:
            c["local_class"] = R.rng.choice(["first", "last"])     # an extra, always well-typed parameter `cfg: Config` (class created per function)
    for c in cases[len(CORPUS):]:
        if c["params"] and R.rng.random() < .3:
            c["defaults"] = R.rng.randrange(len(c["params"]))     # parameters from here on have defaults; the call passes those very objects
    cases.append(dict(CORPUS[2], defaults=1, dtypes={}, ret_dtype="float32")); cases.append(dict(CORPUS[3], defaults=0, dtypes={}, ret_dtype="float32"))
    for c in cases:
        c["variants"] = [{"checker": chk, "remove_stack": rs} for chk in ("typeguard", "beartype") for rs in (False, True)]
    nw = 8
    chunks = [cases[i::nw] for i in range(nw)]
    from concurrent.futures import ThreadPoolExecutor
    with ThreadPoolExecutor(nw) as ex:
        outs = list(ex.map(lambda kc: vf.impl("impl_calls.py", {"mode": "errors", "cases": kc[1]}, bg=(kc[0] % 3 == 1)), list(enumerate(chunks))))
    cat_dtypes, results = {}, {}
    for ch, o in zip(chunks, outs):
        cat_dtypes.update(o["cat_dtypes"])
        for c, r in zip(ch, o["results"]):
            results[id(c)] = r
    # model (cases without unions)
    terms, mcases = [], []
    for c in cases:
        if any(("union" in p and not p.get("decoy")) or "pytree" in p or p.get("vararg") for p in c["params"]) or (c["ret"] and "pytree" in c["ret"]):
            continue
        ps = [c02.use_coq(p["dim"], cat_dtypes[p["cat"]], c["shapes"][p["name"]], c["dtypes"].get(p["name"], "float32")) for p in c["params"]]
        ret = "(@None step)" if not c["ret"] else "(Some %s)" % c02.use_coq(c["ret"]["dim"], cat_dtypes[c["ret"]["cat"]], c["ret_shape"], c["ret_dtype"])
        syms = [t.split("=")[-1].lstrip("#*_?") for p in c["params"] for t in p["dim"].split()] + ([t.split("=")[-1].lstrip("#*_?") for t in c["ret"]["dim"].split()] if c["ret"] else [])
        args = vf.coqlist(sorted(c.get("ints", {}).items()), lambda kv: "(%s, %s)" % (vf.coqstr(kv[0]), vf.coqz(kv[1])))
        terms.append("(%s, %s, %s, %s)" % (G.symtab_coq(syms), args, vf.coqlist(ps), ret)); mcases.append(id(c))
    mres = dict(zip(mcases, vf.coq_eval_strings(["model.Wrapper"], "fun c => let '(st, args, ps, r) := c in run_call st args ps r", terms, shard=600)))

    # model of calls with PyTree parameters (model/PWrapper.v)
    import gen_trees as T
    def pstep_of(p, shape, dtype):
        if "pytree" in p:
            return {"kind": "tree", "leaf": p["pytree"]["leaf"], "structure": p["pytree"].get("structure"), "value": p["value"]}
        return {"kind": "arr", "cat": p["cat"], "dim": p["dim"], "shape": shape, "dtype": dtype}
    pterms, pcases = [], []
    for c in cases:
        if not (any("pytree" in p for p in c["params"]) or (c["ret"] and "pytree" in c["ret"])) or any("union" in p for p in c["params"]):
            continue
        steps = [pstep_of(p, c["shapes"].get(p["name"]), c["dtypes"].get(p["name"], "float32")) for p in c["params"]]
        rstep = pstep_of(c["ret"], c["ret_shape"], c["ret_dtype"]) if c["ret"] else None
        dims = []
        for stp in steps + ([rstep] if rstep else []):
            dims += [stp["dim"]] if stp["kind"] == "arr" else T.leaf_dims(stp["leaf"])
        syms = [t.split("=")[-1].lstrip("#*_?") for d in dims for t in d.split()]
        cd = dict(T.CAT_DTYPES); cd.update({k: v for k, v in cat_dtypes.items()})
        pterms.append("(%s, %s, %s)" % (G.symtab_coq(syms), vf.coqlist(steps, lambda x: T.step_coq(x, cd)), ("(@None pstep)" if rstep is None else "(Some %s)" % T.step_coq(rstep, cd))))
        pcases.append(id(c))
    pres = dict(zip(pcases, vf.coq_eval_strings(["model.PWrapper"], "fun c => let '(st, ps, r) := c in run_pcall st [] ps r", pterms, shard=400))) if pterms else {}

    ncalls, nontriv, samples = 0, set(), []
    for c in cases:
        names = [p["name"] for p in c["params"]]
        desc = ("" if c.get("defaults") is None else "[parameters from #%d on have defaults and are passed those very objects] " % c["defaults"]) + "params %s ret %s shapes %s ret_shape %s" % ([(p["name"], ("PyTree", p["pytree"], p["value"]) if "pytree" in p else p.get("dim", p.get("union")), p["cat"]) for p in c["params"]], c["ret"], c["shapes"], c["ret_shape"])
        for var, r in zip(c["variants"], results[id(c)]):
            ncalls += 1
            o = r["outcome"]
            R.count("outcome:" + o)
            key_base = {"checker": var["checker"]}
            if o.startswith("other:"):
                R.violation("property", "a jaxtyped call ended with %s (neither success, TypeCheckError nor AnnotationError): %s" % (o, desc), {"case": c, "variant": var, "result": r}, key=dict(key_base, kind="other-exception"))
                continue
            if o == "TypeCheckError":
                R.count("stage:" + r["stage"])
                nontriv.add(json.dumps([c["params"], c["ret"], c["shapes"], c["ret_shape"]], sort_keys=True))
                if not r["is_typeerror"]:
                    R.violation("property", "TypeCheckError is not a TypeError: " + desc, {"case": c}, key=dict(key_base, kind="not-typeerror"))
                if r["fn"] is None or not r["fn"].endswith("fname"):
                    R.violation("property", "the error does not name the function (got %r): %s" % (r["fn"], desc), {"case": c, "result": r}, key=dict(key_base, kind="fn-name"))
                if r["stage"] == "params":
                    if r["blamed"] is None and r.get("first_failing"):
                        R.violation("property", "the error names no parameter although parameter %r violates its annotation given the ones before it: %s" % (r["first_failing"], desc),
                                    {"case": c, "variant": var, "result": r}, key=dict(key_base, kind="no-parameter-named"))
                    if r["blamed"] is not None:
                        if r["blamed"] not in names or not r.get("blame_fails") or not r.get("blame_pre_pass"):
                            R.violation("property", "the blamed parameter %r does not violate its annotation given the parameters before it (predecessors pass: %s, blamed fails: %s): %s" % (
                                r["blamed"], r.get("blame_pre_pass"), r.get("blame_fails"), desc), {"case": c, "variant": var, "result": r}, key=dict(key_base, kind="blame"))
                if sorted(r["axes"]) != sorted(r["live"]) or r["structs"] != r["live_structs"]:
                    R.violation("property", "the error lists bindings %s but the bindings in force when it was raised were %s: %s" % (r["axes"] + r["structs"], r["live"] + r["live_structs"], desc),
                                {"case": c, "variant": var, "result": r}, key=dict(key_base, kind="bindings-vs-live"))
                if r.get("expected_valid") and (sorted(r["axes"]) != sorted(r["expected_axes"]) or sorted(r["structs"]) != sorted(r["expected_structs"])):
                    R.violation("property", "the error lists bindings %s, but the checks that passed before the failure establish exactly %s (re-run in a fresh context): %s" % (
                        r["axes"] + r["structs"], r["expected_axes"] + r["expected_structs"], desc), {"case": c, "variant": var, "result": r}, key=dict(key_base, kind="bindings-vs-passed-checks"))
                if any("pytree" in p for p in c["params"]):
                    R.count("pytree-call:" + r["stage"])
                want_cause = not var["remove_stack"]
                if bool(r["has_cause"]) != want_cause:
                    R.violation("property", "__cause__ %s although jaxtyping_remove_typechecker_stack=%s: %s" % ("present" if r["has_cause"] else "absent", var["remove_stack"], desc),
                                {"case": c, "variant": var, "result": r}, key=dict(key_base, kind="cause"))
            if id(c) in pres:
                m = pres[id(c)]
                if m.startswith("TypeCheckError"):
                    mm = re.fullmatch(r"TypeCheckError (\w+) blamed=(\S+) (S\{.*\} V\{.*\}) T\{(.*)\}", m)
                    mstage, mbl, mbind = mm.group(1), mm.group(2), canon_model_bind(mm.group(3))
                    mstructs = sorted(x.split("=")[0] for x in re.findall(r"(?:^|,)(\w+=)", mm.group(4))) if mm.group(4) else []
                    mblname = None if mbl == "-" else names[int(mbl)]
                    got = (o, r.get("stage"), r.get("blamed"), sorted(r.get("axes") or []), sorted(x.split("=")[0] for x in (r.get("structs") or [])))
                    exp = ("TypeCheckError", mstage, mblname, sorted(x.replace(" ", "") for x in mbind), mstructs)     # (the message parser drops spaces, also those inside '?'-leaf keys)
                    if got != exp:
                        kind = "property" if (o != "TypeCheckError" or got[3:] != exp[3:]) else "correspondence"
                        R.violation(kind, "error report of a call with PyTree parameters differs from the model: implementation %s, model %s: %s" % (got, exp, desc),
                                    {"case": c, "variant": var, "impl": got, "model": exp}, key=dict(key_base, kind="pytree-report-vs-model"), no_input=(kind != "property"))
                else:
                    exp = {"ok": "ok", "raise:AnnotationError": "raise:AnnotationError"}.get(m, m)
                    if o != exp:
                        R.violation("property" if proved else "correspondence", "outcome of a call with PyTree parameters differs from the model: implementation %s, model %s: %s" % (o, exp, desc),
                                    {"case": c, "variant": var, "impl": o, "model": exp}, key=dict(key_base, kind="pytree-outcome-vs-model"))
            if id(c) in mres:
                m = mres[id(c)]
                if m.startswith("TypeCheckError"):
                    mm = re.fullmatch(r"TypeCheckError (\w+) blamed=(\S+) (.*)", m)
                    mstage, mbl, mbind = mm.group(1), mm.group(2), canon_model_bind(mm.group(3))
                    mblname = None if mbl == "-" else names[int(mbl)]
                    got = (o, r.get("stage"), r.get("blamed"), r.get("axes"))
                    exp = ("TypeCheckError", mstage, mblname, mbind)
                    if got != exp:
                        kind = "property" if (o != "TypeCheckError" or r.get("axes") != mbind) else "correspondence"
                        R.violation(kind, "error report differs from the model: implementation %s, model %s: %s" % (got, exp, desc),
                                    {"case": c, "variant": var, "impl": got, "model": exp}, key=dict(key_base, kind="report-vs-model"), no_input=(kind != "property"))
                else:
                    exp = {"ok": "ok", "raise:AnnotationError": "raise:AnnotationError"}.get(m, m)
                    if o != exp:
                        R.violation("property" if proved else "correspondence", "outcome differs from the model: implementation %s, model %s: %s" % (o, exp, desc),
                                    {"case": c, "variant": var, "impl": o, "model": exp}, key=dict(key_base, kind="outcome-vs-model"))
        if len(samples) < 4 and any(r["outcome"] == "TypeCheckError" for r in results[id(c)]) and len(c["params"]) >= 2:
            r0 = [r for r in results[id(c)] if r["outcome"] == "TypeCheckError"][0]
            samples.append({"params": c["params"], "ret": c["ret"], "shapes": c["shapes"], "ret_shape": c["ret_shape"], "stage": r0["stage"], "blamed": r0["blamed"], "bindings": r0["axes"], "model": mres.get(id(c))})
    if not proved:
        R.violation("proof", "proof obligations of props/C13.v no longer check: " + str(R.broken_proof)[-800:],
                    {"theorem_file": "coq/props/C13.v", "log": R.broken_proof}, no_input=not any(v["kind"] == "property" for v in R.violations))
    R.coverage.update(evaluations=ncalls, distinct_nontrivial=len(nontriv), samples=samples,
                      rule="%d corpus + %d PRNG signatures (as C02, ~70%% ill-typed: failure at any parameter position or at the return value; unions with failing first alternative; same name as single and variadic axis; unbound symbolic names) x typeguard/beartype x remove-typechecker-stack on/off. "
                           "Oracles independent of the model: blamed parameter re-checked in a fresh context after its predecessors; listed bindings == live memo at the moment the message is built (spy on shape_str); __cause__ iff switch off; TypeCheckError is a TypeError and names the function. "
                           "listed bindings == what a fresh context holds after exactly the checks that passed before the failure (covers PyTree parameters with several array leaves, '?' axes and structure names: %d corpus + %d PRNG calls). "
                           "Model oracle: stage, blamed parameter and bindings equal call_new (Coq), for calls with PyTree parameters pcall_new (axes and structure names). non-trivial = distinct ill-typed case" % (len(CORPUS), n, len(PYTREE_CORPUS), npt))
    R.assumptions += ["error text parsed by regex: stage sentence, `parameter '...'`, name=value lines"]
    sys.exit(R.finish())


if __name__ == "__main__":
    vf.guarded(PID, main)

"""C15 -- nested, union, TypeVar and scalar annotations obey the documented laws."""
import itertools, json, os, sys
sys.path.insert(0, os.path.join(os.path.dirname(os.path.abspath(__file__)), "..", "lib"))
import vf

PID = "C15"
CATS = ["Bool", "UInt", "Int", "Integer", "Float", "Complex", "Inexact", "Real", "Num", "Shaped", "Key", "Float32", "Int8", "UInt4", "BFloat16", "Complex64"]
ALLCATS = ["Bool", "UInt", "Int", "Integer", "Float", "Complex", "Inexact", "Real", "Num", "Shaped", "Key", "UInt2", "UInt4", "UInt8", "UInt16", "UInt32", "UInt64", "Int2", "Int4", "Int8", "Int16", "Int32", "Int64",
           "Float8e4m3b11fnuz", "Float8e4m3fn", "Float8e4m3fnuz", "Float8e5m2", "Float8e5m2fnuz", "BFloat16", "Float16", "Float32", "Float64", "Complex64", "Complex128"]
DIMSTRS = ["", "a", "a b", "*v", "... a", "#a 3", "a *v b", "_", "2", "a+1", "*#v c", "b ..."]
SCALAR_DIMSTRS = ["", "...", "*v", "*#v", "4", "a b", "... 3", "*b c", "a ...", "_", "*_", "#*v", "2*n", "h*w", "n**2", "k=2*n", "*v 2*n"]


def main():
    R = vf.Report(PID)
    proved = R.proof_step()
    allpairs = list(itertools.product(range(len(CATS)), range(len(CATS)), range(len(DIMSTRS)), range(len(DIMSTRS))))
    if R.thorough:
        pairs = allpairs
    else:
        pairs = R.rng.sample(allpairs, 2500) + [(CATS.index("Float"), CATS.index("Shaped"), 6, 1), (CATS.index("Float"), CATS.index("Bool"), 1, 1), (CATS.index("Float"), CATS.index("Int"), 1, 1),
                                                (CATS.index("Shaped"), CATS.index("Float"), 3, 4)]
    triples = list(itertools.product(range(len(CATS)), repeat=3))
    if not R.thorough:
        triples = R.rng.sample(triples, 500) + [(CATS.index("Num"), CATS.index("Shaped"), CATS.index("Shaped")), (CATS.index("Inexact"), CATS.index("Shaped"), CATS.index("Int8"))]
    nw = 8
    chunks = [pairs[i::nw] for i in range(nw)]
    tchunks = [triples[i::nw] for i in range(nw)]
    from concurrent.futures import ThreadPoolExecutor
    with ThreadPoolExecutor(nw) as ex:
        outs = list(ex.map(lambda k: vf.impl("impl_annot.py", {"mode": "laws", "cats": CATS if k else CATS, "dimstrs": DIMSTRS if k == 0 else DIMSTRS, "pairs": chunks[k], "triples": tchunks[k],
                                                               "allcats": ALLCATS if k == 0 else [], "scalar_dimstrs": SCALAR_DIMSTRS}, timeout=3000), range(nw)))
    # union/typevar part is repeated by every worker on the same small set; count once
    stats = {}
    builds = []
    seen = set()
    for k, o in enumerate(outs):
        for v in o["violations"]:
            key = json.dumps(v, sort_keys=True)
            if key in seen:
                continue
            seen.add(key)
            R.violation("property", v["what"], v, key={"kind": v["kind"], "what": v["what"]})
        for kk, n in o["stats"].items():
            if k == 0 or kk.startswith("nest"):
                stats[kk] = stats.get(kk, 0) + n
        builds += o["builds"]
    R.distribution.update(stats)
    # model: how the nested annotation is built (dims, index_variadic, dtype set)
    cat_dt = {}
    dt_out = vf.impl("impl_array.py", {"mode": "sessions", "sessions": [{"args": {"k": 1, "m": 1}, "steps": [{"dim": "", "shape": [], "cat": c} for c in CATS]}]})
    cat_dt = dt_out["cat_dtypes"]
    uniq = {}
    for b in builds:
        uniq[(b["D1"], b["D2"], b["s1"], b["s2"])] = b["impl"]
    keys = sorted(uniq)
    o = lambda d: vf.coqopt(d, lambda l: vf.coqlist(l, vf.coqstr))
    terms = ["(%s, %s, %s, %s)" % (o(cat_dt[k[0]]), o(cat_dt[k[1]]), vf.coqstr(k[2]), vf.coqstr(k[3])) for k in keys]
    defs = ("Definition run_nest (c : option (list string) * option (list string) * string * string) : string :=\n"
            "  let '(d1, d2, s1, s2) := c in\n"
            "  match make_array d1 (TClass 1) s1 with\n  | MBuilt b1 => match make_array d2 (TNested b1) s2 with\n"
            "     | MBuilt b => (\"built any=\" ++ bs (b_any b) ++ \" dtypes=\" ++ (match b_dtypes b with None => \"*\" | Some l => sep_concat \",\" l end) ++ \" \" ++ show_parse (Ok (b_dims b)))%string\n"
            "     | _ => \"ValueError\" end\n  | _ => \"ValueError\" end.")
    mres = vf.coq_eval_strings(["model.Annot"], "run_nest", terms, shard=700, defs=defs)
    for k, m in zip(keys, mres):
        if uniq[k] != m:
            R.violation("correspondence", "%s[%s[ndarray, %r], %r]: implementation builds `%s`, model `%s`" % (k[1], k[0], k[2], k[3], uniq[k], m), {"case": k, "impl": uniq[k], "model": m}, key={"kind": "model-build"}, no_input=True)
    if not proved:
        R.violation("proof", "proof obligations of props/C15.v no longer check: " + str(R.broken_proof)[-800:],
                    {"theorem_file": "coq/props/C15.v", "log": R.broken_proof}, no_input=not any(v["kind"] == "property" for v in R.violations))
    ntot = len(pairs) + len(triples) + len(CATS) * len(DIMSTRS) * 5 + len(ALLCATS) * len(SCALAR_DIMSTRS) * 8
    # Scalar / ScalarLike / PRNGKeyArray equal their documented definitions WHATEVER was imported first: two fresh interpreters,
    # one touching the lazy aliases before anything has imported jax, one after
    import subprocess
    PROBE = ("import sys, typing\n%s\nimport jaxtyping\nSL, SC, PK = jaxtyping.ScalarLike, jaxtyping.Scalar, jaxtyping.PRNGKeyArray\n"
             "import jax, jax.numpy as jnp, numpy as np\n"
             "def inst(x, ann):\n    alts = typing.get_args(ann) if typing.get_origin(ann) is typing.Union else (ann,)\n    return any(isinstance(x, a) for a in alts)\n"
             "vals = [jnp.array(1.0), jnp.array(1), jnp.array(True), jax.random.key(0), np.float32(1), np.zeros(()), 1.5, 2, True, 1j, jnp.zeros((2,)), np.zeros((1,)), 's']\n"
             "print('ROW', ''.join('1' if inst(v, SL) else '0' for v in vals), ''.join('1' if inst(v, SC) else '0' for v in vals), ''.join('1' if inst(v, PK) else '0' for v in [jax.random.key(0), jax.random.PRNGKey(0), jnp.zeros((2,), 'uint32'), jnp.zeros((3,), 'uint32'), jnp.zeros((2,), 'int32'), np.zeros((2,), 'uint32')]))\n")
    rows = {}
    for order, pre in (("aliases-first", ""), ("jax-first", "import jax")):
        pr = subprocess.run([vf.PY, "-c", PROBE % pre], capture_output=True, text=True, env=vf.impl_env(), timeout=600)
        line = [l for l in pr.stdout.splitlines() if l.startswith("ROW ")]
        rows[order] = line[-1][4:] if line else "X:" + pr.stderr[-200:]
        ntot += 1
    want = "1111111111000 1111000000000 111000"      # documented: Shaped[ArrayLike, ""], Shaped[Array, ""], Key[Array, ""] | UInt32[Array, "2"]
    for order, got in rows.items():
        if got != want:
            R.violation("property", "Scalar / ScalarLike / PRNGKeyArray do not equal their documented definitions in a fresh interpreter (%s): verdict rows %s, expected %s" % (order, got, want),
                        {"order": order, "got": got, "expected": want, "probe": PROBE % ("import jax" if order == "jax-first" else "")}, key={"kind": "lazy-alias", "order": order})
    R.coverage.update(evaluations=ntot, distinct_nontrivial=stats.get("nest-law-ok", 0) + stats.get("nest3-ok", 0), exhaustive=bool(R.thorough),
                      samples=[{"law": "nest", "lhs": "Float[Shaped[ndarray, 'a *v b'], 'a']", "rhs": "(Shaped n Float)[ndarray, 'a a *v b']"}, {"builds_compared_with_model": len(keys)}],
                      rule="both sides of each law are built with the real library and compared on %d probe arrays (10 shapes x 7 dtypes), with and without prior bindings: nesting law on %d (category pair, dim-string pair) combinations out of %d; three-level nesting on %d category triples; "
                           "union / X|Y / TypeVar (bound, constraints, free) laws on %d categories x %d dim strings with extra probes (duck array, Python and NumPy scalars, JAX arrays); scalar ladder on all 34 categories x %d dim strings x 4 scalar types (alone and in a union with ndarray); Scalar, ScalarLike, PRNGKeyArray. "
                           "Model (Coq make_array) compared on how every nested annotation is built. non-trivial = nest laws verified on both sides" % (70, len(pairs), len(allpairs), len(triples), len(CATS), len(DIMSTRS), len(SCALAR_DIMSTRS)))
    R.assumptions += ["user categories with regexes are outside the intersection law (see DESIGN.md: F-C15 note)"]
    sys.exit(R.finish())


if __name__ == "__main__":
    vf.guarded(PID, main)

"""C04 -- a failed or raising check binds nothing; a passing check is idempotent (array half;
the PyTree half is exercised by harness/c08.py and harness/c09.py, which apply the same oracle)."""
import json, os, sys
sys.path.insert(0, os.path.join(os.path.dirname(os.path.abspath(__file__)), "..", "lib"))
import vf, gen_arrays as G

PID = "C04"


def S(*steps, args=None):
    return {"args": args or {"k": 2, "m": 5}, "nocontext": False,
            "steps": [dict(dim=d, shape=list(sh), dtype="float32", cat="Float", arr="np") for (d, sh) in steps]}


# engineered for partial progress: mismatch / raise at axis k of n, prefix / suffix / variadic position
def engineered():
    out = []
    names = ["a", "b", "c", "d", "e"]
    for n in range(1, 6):
        for k in range(n):
            # axis k repeats name 0 with a different size -> mismatch at axis k after k new bindings
            if k > 0:
                dims = names[:n]; dims[k] = names[0]
                out.append(S(("x y", (9, 8)), (" ".join(dims), tuple(range(2, 2 + n)))))
            # unbound symbolic at axis k
            dims = names[:n]; dims[k] = "zz+1"
            out.append(S(("x", (9,)), (" ".join(dims), tuple(range(2, 2 + n)))))
            # user code raising Exception / BaseException at axis k
            for b in (0, 1):
                dims = names[:n]; dims[k] = "{boom(%d)}" % b
                out.append(S(("x", (9,)), (" ".join(dims), tuple(range(2, 2 + n)))))
            # fixed mismatch at axis k
            dims = names[:n]; dims[k] = "77"
            out.append(S((" ".join(dims), tuple(range(2, 2 + n)))))
    # variadic: prefix and suffix axes bind, then the variadic disagrees with an earlier binding
    out.append(S(("*v", (2, 3)), ("a *v b", (5, 2, 4, 6))))
    out.append(S(("*v", (2, 3)), ("a b *v", (5, 6, 2, 4))))
    out.append(S(("*v", (2, 3)), ("*v a b", (2, 4, 5, 6))))
    out.append(S(("*#v", (2, 3)), ("a *#v b", (5, 4, 3, 6))))
    out.append(S(("*v", (2, 3)), ("a *#v b", (5, 7, 2, 3, 6))))
    # suffix mismatch after prefix bound
    out.append(S(("q", (4,)), ("a b *v q", (1, 2, 3, 3, 5))))
    out.append(S(("q", (4,)), ("a b ... q q", (1, 2, 3, 4, 5))))
    # rank / dtype / type rejections (nothing started)
    out.append(S(("a b", (1, 2, 3))))
    return out


def pytree_sessions(rng, n):
    """PyTree half: mismatch at leaf k of n (after k leaves bound new names and the structure name), unbound structure name, raising leaf"""
    import c08
    out = []
    arrv = lambda sh: ["a", list(sh), "float32"]
    for nl in range(1, 6):
        for k in range(nl):
            leaves = [arrv([2 + i, 9]) for i in range(nl)]
            leaves[k] = arrv([2 + k, 8])            # second axis disagrees with the others (or, for k = 0, with nothing: then leaf 1 fails)
            for cont in ("t", "l"):
                out.append({"nocontext": False, "steps": [{"kind": "arr", "dim": "x", "shape": [5]},
                            {"kind": "tree", "leaf": ["arr", "Float", "?a b"], "structure": "T", "value": [cont, leaves]},
                            {"kind": "tree", "leaf": ["arr", "Float", "a b"], "structure": None, "value": [cont, leaves]},
                            {"kind": "arr", "dim": "b", "shape": [7]}]})
    AR_ = lambda *sh: ["a", list(sh), "float32"]
    # a broadcastable variadic axis bound BEFORE the tree; an earlier leaf widens it, a later leaf fails or raises: the binding must be back
    # to what it was (value and `#` flag)
    out.append({"nocontext": False, "steps": [{"kind": "arr", "dim": "*#b", "shape": [1, 3]}, {"kind": "tree", "leaf": ["arr", "Float", "*#b"], "structure": None, "value": ["t", [AR_(2, 3), AR_(5, 3)]]},
                                              {"kind": "arr", "dim": "*b", "shape": [1, 3]}]})
    out.append({"nocontext": False, "steps": [{"kind": "arr", "dim": "*#b c", "shape": [1, 3, 4]}, {"kind": "tree", "leaf": ["union", [["arr", "Float", "*#b c"], ["arr", "Float", "q+1"]]], "structure": None, "value": ["l", [AR_(2, 3, 4), AR_(9,)]]},
                                              {"kind": "arr", "dim": "*#b c", "shape": [7, 3, 4]}]})
    out.append({"nocontext": False, "steps": [{"kind": "arr", "dim": "*#b", "shape": [1, 3]}, {"kind": "tree", "leaf": ["arr", "Float", "*b"], "structure": "T", "value": ["t", [AR_(1, 3), AR_(2, 3)]]},
                                              {"kind": "arr", "dim": "*#b", "shape": [4, 3]}]})
    # a STRUCTURED PyTree inside the leaf type of an unstructured one: an earlier leaf binds S, a later leaf fails / raises -- S must be gone
    out.append({"nocontext": False, "steps": [{"kind": "tree", "leaf": ["tuple", [["pytree", "int", "S"], "str"]], "structure": None, "value": ["l", [["t", [["l", [["i", 1], ["i", 2]]], ["s", "x"]]], ["t", [["l", [["i", 1]]], ["i", 3]]]]]},
                                              {"kind": "tree", "leaf": "int", "structure": "S", "value": ["l", [["i", 1], ["i", 2], ["i", 3]]]}]})
    out.append({"nocontext": False, "steps": [{"kind": "tree", "leaf": ["tuple", [["pytree", "int", "S"], ["pytree", "int", "S Q"]]], "structure": None, "value": ["l", [["t", [["l", [["i", 1], ["i", 2]]], ["i", 5]]]]]},
                                              {"kind": "tree", "leaf": "int", "structure": "S", "value": ["t", [["i", 1]]]}]})
    out.append({"nocontext": False, "steps": [{"kind": "tree", "leaf": "int", "structure": "S T", "value": ["t", [["i", 1]]]}]})
    out.append({"nocontext": False, "steps": [{"kind": "tree", "leaf": "int", "structure": "T", "value": ["t", [["i", 1]]]}, {"kind": "tree", "leaf": "int", "structure": "T U ...", "value": ["t", [["i", 1]]]}]})
    out.append({"nocontext": False, "steps": [{"kind": "tree", "leaf": ["arr", "Float", "a q+1"], "structure": "T", "value": ["t", [["a", [2, 3], "float32"]]]}]})
    out.append({"nocontext": False, "steps": [{"kind": "tree", "leaf": ["arr", "Float", "a"], "structure": "T", "value": ["t", [["a", [2], "float32"], ["s", "x"]]]}]})
    # a broadcastable variadic already bound in the context is WIDENED by an earlier leaf (an overwrite, not a new name)
    # before a later leaf fails or raises: the widening must be undone too
    A3 = lambda *sh: ["a", list(sh), "float32"]
    for leaves, lt in (([A3(4, 3), A3(2)], ["arr", "Float", "*#v"]), ([A3(4, 3), A3(4, 3), A3(5, 5)], ["arr", "Float", "*#v"]),
                       ([A3(4, 3), A3(7)], ["union", [["arr", "Float", "*#v"], ["arr", "Float", "q+1"]]]), ([A3(1, 3), A3(6, 3), A3(2, 2)], ["arr", "Float", "*#v"])):
        for cont in ("t", "l"):
            for structure in (None, "T"):
                out.append({"nocontext": False, "steps": [{"kind": "arr", "dim": "*#v", "shape": [1, 3]},
                                                          {"kind": "tree", "leaf": lt, "structure": structure, "value": [cont, leaves]},
                                                          {"kind": "arr", "dim": "*#v", "shape": [5, 3]}]})
    out += [c08.gen_session(rng) for _ in range(n)]
    return out


def pytree_part(R):
    import gen_trees as T
    sessions = pytree_sessions(R.rng, 20000 if R.thorough else 500)
    nw = 4
    chunks = [sessions[i::nw] for i in range(nw)]
    from concurrent.futures import ThreadPoolExecutor
    with ThreadPoolExecutor(nw) as ex:
        outs = list(ex.map(lambda kc: vf.impl("impl_pytree.py", {"sessions": kc[1], "prelude": kc[0] % 2 == 1}, bg=(kc[0] % 4 == 2)), list(enumerate(chunks))))   # odd workers: after unrelated failing/raising PyTree checks
    impl = [None] * len(sessions)
    for w, o in enumerate(outs):
        for j, r in enumerate(o):
            impl[w + j * nw] = r
    model = vf.coq_eval_strings(["model.PyTreeCheck"], T.RUN, [T.session_coq(s) for s in sessions], shard=300)
    n, nontriv = 0, set()
    for sess, r, mline in zip(sessions, impl, model):
        msteps = mline.split(" | ")
        for j, (st, ir, m) in enumerate(zip(sess["steps"], r["steps"], msteps)):
            n += 1
            if ir["build"] != "ok":
                continue
            v = ir["verdict"]
            R.count("pytree-verdict:" + v)
            small = dict(sess, steps=sess["steps"][:j + 1])
            if v != "acc":
                if st["kind"] == "tree":
                    nontriv.add(json.dumps(small, sort_keys=True))
                if not ir["unchanged"]:
                    R.violation("property", "a %s check that %s changed the context's bindings: before `%s`, after `%s` (%s)" % ("PyTree" if st["kind"] == "tree" else "array", "returned False" if v == "rej" else "raised", ir["before"], ir["memo"], json.dumps(st)),
                                {"session": small, "step": j, "before": ir["before"], "after": ir["memo"]}, key={"kind": "not-restored", "verdict": v, "what": st["kind"]})
            elif ir.get("idem") is False:
                R.violation("property", "repeating a passed %s check did not pass again with equal bindings (%s from `%s`)" % (st["kind"], json.dumps(st), ir["before"]), {"session": small, "step": j}, key={"kind": "not-idempotent", "what": st["kind"]})
            got = "%s %s" % (v, ir["memo"])
            if got != m:
                R.violation("correspondence", "PyTree model and implementation disagree at step %d: impl `%s`, model `%s`" % (j, got, m), {"session": small, "impl": got, "model": m}, key={"kind": "corr-pytree"}, no_input=True)
                break
    return n, nontriv


def main():
    R = vf.Report(PID)
    proved = R.proof_step()
    n = 90000 if R.thorough else 2500
    sessions = engineered() + [G.gen_session(R.rng, raising=(i % 2 == 0), p_perturb=.5) for i in range(n)]
    # nested annotations Shaped[Dtype[Array, dims], outer] with an outer part that names no axis: the model sees the flat
    # annotation Dtype[Array, outer + " " + dims] that the nesting law (C15) makes it equal to
    OUTER = [("...", [[], [4], [4, 2]]), ("3", [[3]]), ("_", [[5]]), ("", [[]]), ("_ 2", [[6, 2]])]
    for sess in sessions[len(engineered()):]:
        if R.rng.random() < .3:
            for st in sess["steps"]:
                if R.rng.random() < .6 and "*" not in st["dim"] and "..." not in st["dim"] and st.get("arr", "np") in ("np", "any"):
                    o, pres = R.rng.choice(OUTER)
                    st["outer"] = o
                    st["shape"] = list(R.rng.choice(pres)) + list(st["shape"])
    out = vf.impl("impl_array.py", {"mode": "sessions", "sessions": sessions})
    impl, cats = out["results"], out["cat_dtypes"]
    terms = []
    for sess, res in zip(sessions, impl):
        syms = [s for r in res for s in r.get("syms", [])]
        flat = dict(sess, steps=[dict(st, dim=(st["outer"] + " " + st["dim"]).strip()) if st.get("outer") is not None else st for st in sess["steps"]])
        terms.append(G.session_coq(flat, cats, syms))
    model = vf.coq_eval_strings(["model.Check"], "fun c => let '(st, args, noctx, steps) := c in run_session st args noctx steps", terms, shard=500)

    nontriv, samples, nchecks = set(), [], 0
    for idx, (sess, res, mline) in enumerate(zip(sessions, impl, model)):
        msteps = mline.split(" | ") if sess["steps"] else []
        for j, (st, r, m) in enumerate(zip(sess["steps"], res, msteps)):
            nchecks += 1
            if r["build"] != "ok":
                continue
            v = r["verdict"]
            R.count("verdict:" + v)
            small = dict(sess, steps=sess["steps"][:j + 1])
            progressed = (r["before"] != r["memo"])
            if v != "acc":
                # non-trivial: the failed check had something to undo in the model (model memo of check_shape differs) --
                # approximated by: an earlier axis of this very annotation introduces a name not yet bound
                if len(st["shape"]) >= 2:
                    nontriv.add(json.dumps(small, sort_keys=True))
                if not r["unchanged"]:
                    R.violation("property", "a check that %s changed the context's bindings: before `%s`, after `%s` (isinstance(array%s, %s[..., %r]))" % (
                        "returned False" if v == "rej" else "raised " + v.split(":")[1], r["before"], r["memo"], tuple(st["shape"]), st["cat"], st["dim"]),
                        {"session": small, "step": j, "before": r["before"], "after": r["memo"], "verdict": v},
                        key={"kind": "not-restored", "verdict": v, "dim": st["dim"]})
            else:
                if r.get("idem") is False:
                    R.violation("property", "repeating a passed check did not pass again with equal bindings (isinstance(array%s, %s[..., %r]) from `%s`)" % (
                        tuple(st["shape"]), st["cat"], st["dim"], r["before"]),
                        {"session": small, "step": j, "before": r["before"], "after": r["memo"]}, key={"kind": "not-idempotent", "dim": st["dim"]})
            got = "%s %s" % (v, r["memo"])
            if got != m:
                R.violation("correspondence", "model and implementation disagree at step %d: impl `%s`, model `%s`" % (j, got, m),
                            {"session": small, "step": j, "impl": got, "model": m}, key={"kind": "corr", "dim": st["dim"]}, no_input=True)
                break
        if len(samples) < 5 and idx % 7 == 3 and any(r.get("verdict", "acc") != "acc" for r in res):
            samples.append({"session": sess, "impl": [r.get("verdict", r["build"]) + " " + r.get("memo", "") for r in res]})
    n_pt, nontriv_pt = pytree_part(R)
    nchecks += n_pt
    nontriv |= nontriv_pt
    # the statements the translator cut out of the source, run by CPython with scripted stand-ins, against their translation
    # interpreted inside Coq (lib/storage_corr.py)
    import storage_corr
    R.coverage["source_fragment_cases"] = storage_corr.fragment_correspondence(R, ['arraytail'], 600 if R.thorough else 60)
    if not proved:
        R.violation("proof", "proof obligations of props/C04.v no longer check: " + str(R.broken_proof)[-800:],
                    {"theorem_file": "coq/props/C04.v", "log": R.broken_proof}, no_input=not any(v["kind"] == "property" for v in R.violations))
    R.coverage.update(evaluations=nchecks, distinct_nontrivial=len(nontriv), samples=samples, sessions=len(sessions),
                      rule="%d engineered sessions (mismatch, unbound symbolic name, user exception of class Exception and BaseException at axis k of n for every k<n<=5; variadic/suffix disagreements after prefix bindings) + %d PRNG sessions "
                           "(half with raising axes, 50%% perturbed shapes). Oracle independent of the model: deep copy of the live memo before == after for every non-True outcome (contents and insertion order), second identical check after a True outcome passes and leaves the memo equal. "
                           "Also model == implementation on verdict and memo. PyTree half: bad leaf k of n for every k<n<=5 (tuple and list containers, '?a b' with a new structure name, and 'a b'), unbound structure names, unbound symbolic axis in a leaf, non-array leaf, + the C08 session generator; same two oracles. non-trivial = distinct (history, failing check) with rank >= 2" % (len(engineered()), n))
    R.assumptions += ["symbolic expressions restricted to the modelled grammar", "user exceptions injected through {boom(k)} replacement fields"]
    sys.exit(R.finish())


if __name__ == "__main__":
    vf.guarded(PID, main)

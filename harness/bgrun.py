"""Launcher: run a worker (harness/impl_*.py) while OTHER threads of the same process sit parked inside jaxtyping:
 T1 inside a jaxtyped context that has bound axes and a structure name, in the leaf loop of a structured PyTree check
    (so a '?'-leaf position is set in that thread);
 T2 inside the flatten phase of a PyTree check (so the "array type only" mode is on in that thread);
 T3 keeps entering and leaving contexts and decorated calls that bind the common axis names to other sizes.
All of that state is per thread; the worker's own results must be exactly what they are without the parked threads.
usage: bgrun.py <worker.py>   (stdin/stdout as the worker's)"""
import os, runpy, sys, threading


def start():
    import numpy as np
    import jax.tree_util as jtu
    from jaxtyping import Float, PyTree, jaxtyped
    release = threading.Event()
    ready = [threading.Event(), threading.Event()]

    class ParkMeta(type):
        def __instancecheck__(cls, obj):
            ok = type.__instancecheck__(cls, obj)
            if ok and threading.current_thread().name.startswith("vf-parked"):
                obj.calls += 1
                if obj.calls >= obj.park_at:
                    ready[obj.idx].set()
                    release.wait(3000)
            return ok

    class ParkLeaf(metaclass=ParkMeta):
        def __init__(self, idx, park_at):
            self.idx, self.park_at, self.calls = idx, park_at, 0

    class ParkObj(ParkLeaf):      # a SUBCLASS instance: isinstance() short-cuts exact type matches without calling the metaclass
        pass

    def t1():
        # parks at the SECOND isinstance on the leaf: the first is the flatten phase's is_leaf, the second the leaf loop
        with jaxtyped("context"):
            isinstance(np.zeros((3, 4), "float32"), Float[np.ndarray, "n m"])
            isinstance(np.zeros((2, 5), "float32"), Float[np.ndarray, "*v"])
            # every axis name the workers' generators use, bound to a size they never use
            for nm in ("a", "b", "c", "d", "k", "q", "r", "x", "y", "i", "j", "h", "w", "foo", "bar", "dim", "batch", "rows", "cols", "n0", "n1", "n2"):
                isinstance(np.zeros((97,), "float32"), Float[np.ndarray, nm])
            for nm in ("s", "t", "u", "vs", "shape", "lead"):
                isinstance(np.zeros((97, 89), "float32"), Float[np.ndarray, "*" + nm])
            isinstance((ParkObj(0, 2),), PyTree[ParkLeaf, "T"])

    def t2():
        # parks at the FIRST isinstance: inside tree_flatten, flatten mode on
        with jaxtyped("context"):
            isinstance(np.zeros((7,), "float32"), Float[np.ndarray, "a"])
            isinstance([ParkObj(1, 1)], PyTree[ParkLeaf])
    def t3():
        # a third thread keeps entering and leaving contexts and decorated calls that bind the common axis names to other sizes
        from jaxtyping import jaxtyped as _jt
        import typeguard

        @_jt(typechecker=typeguard.typechecked)
        def churn(x: Float[np.ndarray, "n m"], y: Float[np.ndarray, "a b"]) -> Float[np.ndarray, "n b"]:
            return np.zeros((x.shape[0], y.shape[1]), "float32")
        xs, ys = np.zeros((91, 83), "float32"), np.zeros((79, 73), "float32")
        import sys as _sys
        old = _sys.getswitchinterval()
        while not release.is_set():
            try:
                churn(xs, ys)
                with _jt("context"):
                    for nm in ("n", "m", "a", "b", "c", "d", "k", "i", "j"):
                        isinstance(xs[0], Float[np.ndarray, nm])
            except BaseException:  # noqa
                pass
            release.wait(0.001)        # leave the interpreter to the worker most of the time
    ths = [threading.Thread(target=f, name="vf-parked-%d" % i, daemon=True) for i, f in enumerate((t1, t2))]
    churner = threading.Thread(target=t3, name="vf-churn", daemon=True)
    for t in ths:
        t.start()
    for r, t in zip(ready, ths):
        # (a thread that runs to completion without reaching its parking point -- the code under test may check a leaf only
        # once -- is simply not parked)
        import time as _tm
        t_end = _tm.time() + 60
        while not r.is_set() and t.is_alive() and _tm.time() < t_end:
            _tm.sleep(0.005)
    sys.setswitchinterval(0.0002)      # let the threads interleave at a fine grain
    churner.start()

    def stop():
        release.set()
        for t in ths + [churner]:
            t.join(30)
    return stop, all(r.is_set() for r in ready)


if __name__ == "__main__":
    worker = sys.argv[1]
    sys.argv = [worker] + sys.argv[2:]
    sys.path.insert(0, os.path.dirname(os.path.abspath(worker)))
    stop, ok = start()
    try:
        runpy.run_path(worker, run_name="__main__")
    finally:
        stop()

"""Launcher: run a worker (harness/impl_*.py) while OTHER threads of the same process sit parked inside jaxtyping:
 T1 inside a jaxtyped context that has bound axes and a structure name, in the leaf loop of a structured PyTree check
    (so a '?'-leaf position is set in that thread);
 T2 inside the flatten phase of a PyTree check (so the "array type only" mode is on in that thread).
All of that state is per thread; the worker's own results must be exactly what they are without the parked threads.
usage: bgrun.py <worker.py>   (stdin/stdout as the worker's)"""
import os, runpy, sys, threading


def start():
    import numpy as np
    import jax.tree_util as jtu
    from jaxtyping import Float, PyTree, jaxtyped
    release = threading.Event()
    ready = [threading.Event(), threading.Event()]

    class ParkMeta(type):
        def __instancecheck__(cls, obj):
            ok = type.__instancecheck__(cls, obj)
            if ok and threading.current_thread().name.startswith("vf-parked"):
                obj.calls += 1
                if obj.calls >= obj.park_at:
                    ready[obj.idx].set()
                    release.wait(3000)
            return ok

    class ParkLeaf(metaclass=ParkMeta):
        def __init__(self, idx, park_at):
            self.idx, self.park_at, self.calls = idx, park_at, 0

    class ParkObj(ParkLeaf):      # a SUBCLASS instance: isinstance() short-cuts exact type matches without calling the metaclass
        pass

    def t1():
        # parks at the SECOND isinstance on the leaf: the first is the flatten phase's is_leaf, the second the leaf loop
        with jaxtyped("context"):
            isinstance(np.zeros((3, 4), "float32"), Float[np.ndarray, "n m"])
            isinstance(np.zeros((2, 5), "float32"), Float[np.ndarray, "*v"])
            isinstance((ParkObj(0, 2),), PyTree[ParkLeaf, "T"])

    def t2():
        # parks at the FIRST isinstance: inside tree_flatten, flatten mode on
        with jaxtyped("context"):
            isinstance(np.zeros((7,), "float32"), Float[np.ndarray, "a"])
            isinstance([ParkObj(1, 1)], PyTree[ParkLeaf])
    ths = [threading.Thread(target=f, name="vf-parked-%d" % i, daemon=True) for i, f in enumerate((t1, t2))]
    for t in ths:
        t.start()
    for r in ready:
        r.wait(60)

    def stop():
        release.set()
        for t in ths:
            t.join(30)
    return stop, all(r.is_set() for r in ready)


if __name__ == "__main__":
    worker = sys.argv[1]
    sys.argv = [worker] + sys.argv[2:]
    sys.path.insert(0, os.path.dirname(os.path.abspath(worker)))
    stop, ok = start()
    if not ok:
        sys.stderr.write("bgrun: the parked threads did not reach their parking points\n")
        sys.exit(3)
    try:
        runpy.run_path(worker, run_name="__main__")
    finally:
        stop()

"""C03 -- dtype categories accept exactly the documented dtypes, on every backend."""
import json, os, re, sys
sys.path.insert(0, os.path.join(os.path.dirname(os.path.abspath(__file__)), "..", "lib"))
import vf

PID = "C03"
KIND_CATS = {"bool": {"Bool"}, "int": {"Int", "Integer", "Real", "Num"}, "uint": {"UInt", "Integer", "Real", "Num"},
             "float": {"Float", "Inexact", "Real", "Num"}, "complex": {"Complex", "Inexact", "Num"}, "key": {"Key"}, "other": set()}
PRECISION = {"UInt2": "uint2", "UInt4": "uint4", "UInt8": "uint8", "UInt16": "uint16", "UInt32": "uint32", "UInt64": "uint64",
             "Int2": "int2", "Int4": "int4", "Int8": "int8", "Int16": "int16", "Int32": "int32", "Int64": "int64",
             "Float8e4m3b11fnuz": "float8_e4m3b11fnuz", "Float8e4m3fn": "float8_e4m3fn", "Float8e4m3fnuz": "float8_e4m3fnuz",
             "Float8e5m2": "float8_e5m2", "Float8e5m2fnuz": "float8_e5m2fnuz", "BFloat16": "bfloat16", "Float16": "float16",
             "Float32": "float32", "Float64": "float64", "Complex64": "complex64", "Complex128": "complex128"}
GENERAL = {"Bool", "Int", "UInt", "Integer", "Float", "Complex", "Inexact", "Real", "Num", "Key", "Shaped"}
NAME_KIND = {}
for k, names in {"bool": ["bool", "bool_"], "key": ["prng_key"], "uint": ["uint2", "uint4", "uint8", "uint16", "uint32", "uint64"],
                 "int": ["int2", "int4", "int8", "int16", "int32", "int64"],
                 "float": ["float8_e4m3b11fnuz", "float8_e4m3fn", "float8_e4m3fnuz", "float8_e5m2", "float8_e5m2fnuz", "bfloat16", "float16", "float32", "float64"],
                 "complex": ["complex64", "complex128"]}.items():
    for n in names:
        NAME_KIND[n] = k
LOOKALIKES = ["float320", "xfloat32", "int", "uint", "float", "float8_e4m3fnu", "float8_e5m2f", "prng_key2", "bool__", "", "Float32", "int8 ", "uint81", "complex", "int64x", "bfloat", "object", "str"]


def expected(kind, canon):
    acc = {"Shaped"} | KIND_CATS.get(kind, set())
    for c, n in PRECISION.items():
        if canon == n and kind not in ("other",):
            acc.add(c)
    return acc


def facets_coq(f):
    o = lambda x: vf.coqopt(x, vf.coqstr)
    asn = "None" if f["as_numpy"] == "absent" else "(Some %s)" % o(f["as_numpy"])
    return "(mkfacets %s %s %s %s %s)" % (o(f["type_name"]), o(f["struct_str"]), asn, o(f["str"]), vf.coqstr(f["repr"] if all(32 <= ord(c) < 127 for c in f["repr"]) else "?"))


# ---- user categories: regex ASTs rendered to Python and to Coq
def gen_re(rng, depth=0):
    r = rng.random()
    if depth > 2 or r < .35:
        lit = rng.choice(["float", "int", "uint", "f", "32", "8", "bool", "x", "_", "1", "6", "complex", "e"])
        return ("lit", lit)
    if r < .45:
        return ("any",)
    if r < .6:
        return ("cat", gen_re(rng, depth + 1), gen_re(rng, depth + 1))
    if r < .75:
        return ("alt", gen_re(rng, depth + 1), gen_re(rng, depth + 1))
    if r < .9:
        return ("star", gen_re(rng, depth + 1))
    return ("cat", gen_re(rng, depth + 1), ("end",))


def re_py(t):
    k = t[0]
    if k == "lit":
        return re.escape(t[1])
    if k == "any":
        return "."
    if k == "end":
        return "$"
    if k == "cat":
        return re_py(t[1]) + re_py(t[2])
    if k == "alt":
        return "(?:" + re_py(t[1]) + "|" + re_py(t[2]) + ")"
    return "(?:" + re_py(t[1]) + ")*"


def re_coq(t):
    k = t[0]
    if k == "lit":
        out = "REps"
        for ch in reversed(t[1]):
            out = "(RCat (RChr %s%%char) %s)" % (vf.coqstr(ch), out)
        return out
    if k == "any":
        return "RAny"
    if k == "end":
        return "REnd"
    if k == "cat":
        return "(RCat %s %s)" % (re_coq(t[1]), re_coq(t[2]))
    if k == "alt":
        return "(RAlt %s %s)" % (re_coq(t[1]), re_coq(t[2]))
    return "(RStar %s)" % re_coq(t[1])


def main():
    R = vf.Report(PID)
    proved = R.proof_step()
    names = sorted(NAME_KIND) + LOOKALIKES
    users = []
    nuser = 1500 if R.thorough else 40
    for i in range(nuser):
        pats = []
        for _ in range(R.rng.choice([1, 1, 2, 3])):
            if R.rng.random() < .4:
                pats.append({"str": R.rng.choice(names)})
            else:
                t = gen_re(R.rng)
                pats.append({"re": re_py(t), "ast": t})
        users.append({"name": "U%d" % i, "pats": pats, "form": R.rng.choice(["list", "tuple", "single"]) if len(pats) == 1 else R.rng.choice(["list", "tuple"])})
    # user categories outside the modelled regex fragment (flags, groups and back-references, several patterns): judged by Python's re alone
    XPATS = [{"re": r"u? int (8|16)", "flags": re.VERBOSE}, {"re": "float(16|32|64)", "flags": re.IGNORECASE}, {"re": "BFLOAT16", "flags": re.IGNORECASE},
             {"re": r"(u?)int(8|16)"}, {"re": r"q(u?)int(\d+)_\2"}, {"re": r"(float|complex)(\d+)"}, {"re": r"(?P<k>int|uint)(?P<w>\d+)"}, {"re": r"(f)loat\d\d$"}, {"str": "bool"}, {"re": "^int"}]
    xusers = []
    for i in range(120 if R.thorough else 14):
        xusers.append({"name": "X%d" % i, "pats": R.rng.sample(XPATS, R.rng.choice([1, 2, 2, 3])), "form": R.rng.choice(["list", "tuple"])})
    xusers.append({"name": "Xempty", "pats": [], "form": "list"})
    req = {"backends": ["numpy", "jax", "tf", "duck"], "names": names,
           "user": [{"name": u["name"], "form": u["form"], "pats": [{k: v for k, v in p.items() if k != "ast"} for p in u["pats"]]} for u in users] + xusers}
    from concurrent.futures import ThreadPoolExecutor
    with ThreadPoolExecutor(2) as ex:
        # two fresh interpreters enumerate the same triples in opposite orders: the verdict is a function of (dtype, category, backend), not of history
        out, out_rev = list(ex.map(lambda rv: vf.impl("impl_dtypes.py", dict(req, reverse=rv), timeout=900), [False, True]))
    for r in out_rev["rows"]:
        r["label"] = r["label"]; r["pass"] = "reversed"
    rows, cats = out["rows"] + out_rev["rows"], out["categories"]
    R.coverage["library_notes"] = out["notes"]

    # model on the real facets
    terms = [facets_coq(r["facets"]) for r in rows]
    mres = vf.coq_eval_strings(["model.Dtype", "gen.DtypeTables", "proofs.DtypeFacts"], "run_builtin", terms, shard=400)
    # user categories in the model
    uterms = ["(%s, %s)" % (vf.coqlist(u["pats"], lambda p: "(PStr %s)" % vf.coqstr(p["str"]) if "str" in p else "(PRe %s)" % re_coq(p["ast"])), vf.coqlist(names, vf.coqstr)) for u in users]
    ures = vf.coq_eval_strings(["model.Dtype", "gen.DtypeTables", "proofs.DtypeFacts"], "fun c => run_user (fst c) (snd c)", uterms, shard=100)

    ntrip, nontriv, samples = 0, set(), []
    for r, m in zip(rows, mres):
        mname, mv = m.rsplit(" ", 1) if " " in m else (m, "")
        mver = dict(x.split("=") for x in mv.split(",")) if mv else {}
        if r["kind"] == "byname":
            kind = NAME_KIND.get(r["canon"], "other")
            exp = expected(kind, r["canon"]) if r["canon"] in NAME_KIND else {"Shaped"}
        else:
            kind = r["kind"]
            exp = expected(kind, r["canon"])
        R.count("backend:" + r["backend"])
        for c in cats:
            ntrip += 1
            got = r["verdicts"][c]
            want = c in exp
            mg = {"1": True, "0": False, "E": "raise"}.get(mver.get(c))
            key = {"kind": "hierarchy", "backend": r["backend"], "dtype": r["label"], "category": c}
            if isinstance(got, str):
                R.violation("property", "isinstance(<%s array of dtype %s>, %s[...]) raises %s instead of answering" % (r["backend"], r["label"], c, got.split(":")[1]),
                            {"backend": r["backend"], "dtype": r["label"], "category": c, "got": got, "facets": r["facets"]}, key=dict(key, kind="raises"))
                if mg != "raise":
                    R.violation("correspondence", "model does not predict the exception for %s/%s/%s" % (r["backend"], r["label"], c), {"row": r, "model": m}, key=dict(key, kind="corr"), no_input=True)
                continue
            if got != want:
                R.violation("property", "%s array of dtype %s (documented kind: %s, canonical name %s): %s[...] %s it, the documented hierarchy says it should %s" % (
                    r["backend"], r["label"], kind, r["canon"], c, "accepts" if got else "rejects", "accept" if want else "reject"),
                    {"backend": r["backend"], "dtype": r["label"], "category": c, "expected": want, "got": got, "facets": r["facets"], "enumeration_order": r.get("pass", "forward")}, key=dict(key, direction="accepts" if got else "rejects"))
            if mg != got:
                R.violation("correspondence", "model (extract_name + generated table) says %s, implementation %s for %s/%s/%s (model name %s)" % (mg, got, r["backend"], r["label"], c, mname),
                            {"row": r, "model": m}, key=dict(key, kind="corr"), no_input=True)
            if got:
                nontriv.add((r["backend"], r["label"], c))
        if len(samples) < 6 and r["backend"] in ("tf", "jax-tracer", "duck-torch"):
            samples.append({"backend": r["backend"], "dtype": r["label"], "facets": r["facets"], "accepted_by": sorted(c for c in cats if r["verdicts"][c] is True)})
    # user categories on duck arrays
    duck = [r for r in rows if r["backend"].startswith("duck")]
    for u, um in zip(users, ures):
        comp = [re.compile(p["re"]) if "re" in p else p["str"] for p in u["pats"]]
        for i, nm in enumerate(names):
            want = any((nm == p) if isinstance(p, str) else bool(p.match(nm)) for p in comp)     # the property's statement, with Python's own re
            mg = um[i] == "1"
            for r in duck:
                if r["label"] != nm:
                    continue
                ntrip += 1
                got = r["user_verdicts"].get(u["name"])
                if got != want:
                    R.violation("property", "user category %s (dtypes=%s, given as %s) %s the dtype name %r on a %s array; by the documented rule it should %s" % (
                        u["name"], [p.get("re", p.get("str")) for p in u["pats"]], u["form"], "accepts" if got is True else "rejects" if got is False else got, nm, r["backend"], "accept" if want else "reject"),
                        {"user": {k: v for k, v in u.items()}, "name": nm, "got": got, "expected": want}, key={"kind": "user-category", "category": u["name"], "dtype": nm})
            if mg != want:
                R.violation("correspondence", "regex model disagrees with Python's re: pattern set %s on %r: model %s, re %s" % ([p.get("re", p.get("str")) for p in u["pats"]], nm, mg, want),
                            {"user": u, "name": nm}, key={"kind": "regex-model"}, no_input=True)
    for label, (got, want) in sorted(out.get("family", {}).items()):
        ntrip += 1
        if got != want:
            R.violation("property", "user categories defined from one list that grows between the class statements (Half: ['float16']; then 'float32' appended; then Wider): %s is %s, by the documented rule (the names the category was defined with) it is %s" % (label, got, want),
                        {"family_check": label, "got": got, "expected": want}, key={"kind": "user-category-family", "check": label})
    for u in xusers:
        comp = [re.compile(p["re"], p.get("flags", 0)) if "re" in p else p["str"] for p in u["pats"]]
        for r in duck:
            nm = r["label"]
            want = any((nm == p) if isinstance(p, str) else bool(p.match(nm)) for p in comp)
            got = r["user_verdicts"].get(u["name"])
            ntrip += 1
            if got != want:
                R.violation("property", "user category %s (dtypes=%s, given as %s) %s the dtype name %r on a %s array; by the documented rule (equal to a string, or matched by a pattern AS COMPILED by the user) it should %s" % (
                    u["name"], [(p.get("re", p.get("str")), int(p.get("flags", 0))) for p in u["pats"]], u["form"], "accepts" if got is True else "rejects" if got is False else got, nm, r["backend"], "accept" if want else "reject"),
                    {"user": {"name": u["name"], "form": u["form"], "pats": [dict(p, flags=int(p.get("flags", 0))) for p in u["pats"]]}, "name": nm, "got": got, "expected": want}, key={"kind": "user-category-flags", "category": u["name"], "dtype": nm})
    if not proved:
        R.violation("proof", "proof obligations of props/C03.v no longer check (generated table vs documented hierarchy): " + str(R.broken_proof)[-900:],
                    {"theorem_file": "coq/props/C03.v", "log": R.broken_proof}, no_input=not any(v["kind"] == "property" for v in R.violations))
    R.coverage.update(evaluations=ntrip, distinct_nontrivial=len(nontriv), samples=samples, exhaustive=True,
                      exhaustive_part="every NumPy scalar type in np.sctypeDict + platform aliases + every ml_dtypes type + 2 structured dtypes; every JAX dtype creatable with x64 enabled, eager and as tracer, 3 key implementations; every tf.dtypes.DType a tensor can be created for; duck arrays with str and torch-style dtypes over %d names; x all %d exported category classes" % (len(names), len(cats)),
                      rule="complete enumeration of (dtype, category, backend) on the installed libraries (%d rows x %d categories) + %d generated user categories (strings / regexes, given as list, tuple or single value) x %d names x 2 duck styles. "
                           "Expected verdict independent of jaxtyping: np.dtype.kind, ml_dtypes.finfo/iinfo, jax.dtypes.issubdtype(prng_key), canonical dtype.name for the precision classes; user categories: Python's re. non-trivial = accepted (dtype, category, backend) triple" % (len(rows), len(cats), nuser, len(names)))
    R.assumptions += ["torch and mlx are not usable in this sandbox and are not claimed", "tf resource/variant tensors cannot be created here",
                      "regex fragment: literal, '.', concatenation, alternation, star, '$'"]
    sys.exit(R.finish())


if __name__ == "__main__":
    vf.guarded(PID, main)

"""Implementation-side worker for annotation construction laws (C15) and serialisation (C20).
JSON in {"mode": "laws", ...} / {"mode": "serial", ...}; one JSON line out."""
import json, sys, io, contextlib, warnings, itertools, typing, collections
from typing import Any, Union, TypeVar


def probes():
    import numpy as np
    out = []
    for s in [(), (2,), (3,), (2, 3), (2, 3, 3), (1, 3), (2, 2, 2, 2), (2, 4), (0,), (1,)]:
        for d in [np.float32, np.int8, np.bool_, np.complex64, np.uint8, np.float16, np.int64]:
            out.append(np.zeros(s, dtype=d))
    return out


class Duck:
    def __init__(self, shape, dtype):
        self.shape = shape; self.dtype = dtype


def vec(ann, pv, pre=False):
    import numpy as np, jaxtyping as jt
    out = []
    alts = typing.get_args(ann) if typing.get_origin(ann) in (Union, __import__("types").UnionType) else (ann,)
    for p in pv:
        with jt.jaxtyped("context"):
            if pre:
                isinstance(np.zeros((2, 3), dtype=np.float32), jt.Shaped[np.ndarray, "a b"])
            try:
                r = False
                for a in alts:
                    if isinstance(p, a):
                        r = True; break
                out.append(r)
            except jt.AnnotationError:
                out.append("AE")
            except Exception as e:  # noqa
                out.append(type(e).__name__)
    return out


def canon(ann):
    """dims / index_variadic / dtypes / array type of a built annotation"""
    from jaxtyping import _array_types as at
    ds = []
    for d in ann.dims:
        if d is at._anonymous_dim:
            ds.append("anon")
        elif d is at._anonymous_variadic_dim:
            ds.append("vanon")
        elif type(d) is at._NamedDim:
            ds.append("named:%s:%s%s" % (d.name, "T" if d.broadcastable else "F", "T" if d.treepath else "F"))
        elif type(d) is at._NamedVariadicDim:
            ds.append("vnamed:%s:%s%s" % (d.name, "T" if d.broadcastable else "F", "T" if d.treepath else "F"))
        elif type(d) is at._FixedDim:
            ds.append("fixed:%d:%s" % (d.size, "T" if d.broadcastable else "F"))
        else:
            ds.append("sym:%s:%s" % (d.elem, "T" if d.broadcastable else "F"))
    dt = "*" if ann.dtypes is at._any_dtype else ",".join(ann.dtypes)
    return "built any=%s dtypes=%s ok iv=%s [%s]" % ("T" if ann.array_type is Any else "F", dt, ann.index_variadic, " ".join(ds))


def laws(req):
    import numpy as np, jaxtyping as jt
    from jaxtyping import _array_types as at
    A = np.ndarray
    cats = [getattr(jt, n) for n in req["cats"]]
    dimstrs = req["dimstrs"]
    pv = probes()
    viol, stats, builds = [], collections.Counter(), []

    def inter(D1, D2):
        a, b = D1.dtypes, D2.dtypes
        if a is at._any_dtype:
            return D2
        if b is at._any_dtype:
            return D1
        s = [x for x in b if x in a]
        if not s:
            return None
        return type("X", (jt.AbstractDtype,), {"dtypes": s})
    pairs = req["pairs"]            # list of [i1, i2, j1, j2]: categories i1 (inner), i2 (outer); dim strings j1 (inner), j2 (outer)
    def use_elsewhere(X):
        """the inner annotation OBJECT is also the yield type of a generator function decorated in the old double-decorator style
        (which marks that object transparent): annotations that merely extend it are separate annotations"""
        import typing, warnings, typeguard
        def gen(x) -> typing.Iterator[X]:
            yield x
        with warnings.catch_warnings():
            warnings.simplefilter("ignore")
            jt.jaxtyped(typeguard.typechecked(gen))

    for pk, (i1, i2, j1, j2) in enumerate(pairs):
        D1, D2, s1, s2 = cats[i1], cats[i2], dimstrs[j1], dimstrs[j2]
        both_var = any(t in s1 for t in ("*", "...")) and any(t in s2 for t in ("*", "..."))
        I = inter(D1, D2)
        try:
            X = D1[A, s1]
            if pk % 4 == 1:
                use_elsewhere(X); stats["nest-inner-used-elsewhere-before"] += 1
            lhs = D2[X, s2]; lerr = None
            if pk % 4 == 3:
                use_elsewhere(X); stats["nest-inner-used-elsewhere-after"] += 1
        except ValueError:
            lhs = None; lerr = "ValueError"
        except Exception as e:  # noqa
            lhs = None; lerr = type(e).__name__
        want_err = (I is None) or both_var
        desc = "%s[%s[ndarray, %r], %r]" % (D2.__name__, D1.__name__, s1, s2)
        if pk % 4 in (1, 3):
            desc += " (X = the inner annotation object is also the yield type of an old-style decorated generator function, decorated %s the nesting)" % ("before" if pk % 4 == 1 else "after")
        builds.append({"D1": D1.__name__, "D2": D2.__name__, "s1": s1, "s2": s2, "impl": canon(lhs) if lhs is not None else "ValueError" if lerr == "ValueError" else "Other:%s" % lerr})
        if lerr not in (None, "ValueError"):
            viol.append({"kind": "nest-other-exception", "what": "%s raises %s" % (desc, lerr)}); continue
        if want_err != (lerr is not None):
            viol.append({"kind": "nest-error", "what": "%s: %s, but the law says %s (intersection %s, both multi-axis %s)" % (desc, "error" if lerr else "built", "error" if want_err else "built", "empty" if I is None else "non-empty", both_var)}); continue
        if lerr:
            stats["nest-both-error"] += 1; continue
        rhs = I[A, s2 + " " + s1]
        ok = True
        for pre in (False, True):
            if vec(lhs, pv, pre) != vec(rhs, pv, pre):
                ok = False
        stats["nest-law-ok" if ok else "nest-law-FAIL"] += 1
        if not ok:
            viol.append({"kind": "nest-law", "what": "%s does not accept exactly what (%s n %s)[ndarray, %r] accepts" % (desc, D1.__name__, D2.__name__, s2 + " " + s1)})
    # three-level nesting
    for (i1, i2, i3) in req.get("triples", []):
        D1, D2, D3 = cats[i1], cats[i2], cats[i3]
        I12 = inter(D1, D2)
        I = inter(I12, D3) if I12 is not None else None
        try:
            lhs = D3[D2[D1[A, "4"], "3"], "2"]; lerr = None
        except ValueError:
            lhs = None; lerr = "ValueError"
        desc = "%s[%s[%s[ndarray,'4'],'3'],'2']" % (D3.__name__, D2.__name__, D1.__name__)
        if (I is None) != (lerr is not None):
            viol.append({"kind": "nest3-error", "what": "%s: %s, the law says %s" % (desc, "error" if lerr else "built", "error" if I is None else "built")}); continue
        if lerr:
            continue
        rhs = I[A, "2 3 4"]
        pv3 = [np.zeros((2, 3, 4), dtype=d) for d in (np.float32, np.int8, np.bool_, np.complex64, np.uint8, np.float16, np.int32, np.float64)]
        ok = vec(lhs, pv3) == vec(rhs, pv3)
        stats["nest3-ok" if ok else "nest3-FAIL"] += 1
        if not ok:
            viol.append({"kind": "nest3-law", "what": "%s does not accept exactly what the triple intersection [ndarray, '2 3 4'] accepts" % desc})
    # unions and TypeVars
    import jax
    T1 = TypeVar("T1", bound=A); T2 = TypeVar("T2", A, jax.Array); T3 = TypeVar("T3")
    pv2 = pv + [Duck((2,), "float32"), 1.0, 3, True, "s", 1j, np.float32(1), np.bool_(True)]
    import jax.numpy as jnp
    pv2 += [jnp.zeros((2,), dtype="float32"), jnp.zeros((3,), dtype="int8")]
    for D in cats:
        for s in dimstrs:
            def b(f):
                try:
                    return f()
                except ValueError:
                    return "ValueError"
            if (cats.index(D) + dimstrs.index(s)) % 3 == 0:
                # the same union-typed annotation, written once before, is the yield type of an old-style decorated generator
                # function (which marks THOSE annotation objects transparent); writing it again gives annotations of their own
                u0 = b(lambda: D[Union[A, jax.Array], s])
                if u0 != "ValueError":
                    use_elsewhere(u0); stats["union-written-before-in-a-generator"] += 1
            u1 = b(lambda: D[Union[A, jax.Array], s]); u2 = b(lambda: Union[D[A, s], D[jax.Array, s]])
            u3 = b(lambda: D[A | jax.Array, s])
            t1 = b(lambda: D[T1, s]); t1r = b(lambda: D[A, s])
            t2 = b(lambda: D[T2, s])
            t3 = b(lambda: D[T3, s]); t3r = b(lambda: D[Any, s])
            for name, x, y in (("union", u1, u2), ("X|Y", u3, u2), ("TypeVar bound", t1, t1r), ("TypeVar constraints", t2, u2), ("free TypeVar", t3, t3r)):
                if "ValueError" in (x, y):
                    if x != y:
                        viol.append({"kind": "union-law", "what": "%s law for %s[.., %r]: one side is a ValueError, the other is not" % (name, D.__name__, s)})
                    continue
                ok = vec(x, pv2) == vec(y, pv2)
                stats["%s-ok" % name if ok else "%s-FAIL" % name] += 1
                if not ok:
                    viol.append({"kind": "union-law", "what": "%s law fails for %s[.., %r]" % (name, D.__name__, s)})
    # D2[Union[X, Y], s] with X, Y themselves array annotations: exactly Union[D2[X, s], D2[Y, s]] -- an error whenever one member nests illegally
    k3 = 0
    for D2 in cats:
        for Da in cats:
            for Db in cats:
                k3 += 1
                if k3 % 7:
                    continue
                for inner, outer in (("a", "b"), ("*v a", "b"), ("*v a", "*w")):
                    lhs = b(lambda: D2[Union[Da[A, inner], Db[A, inner]], outer])
                    rhs = b(lambda: Union[D2[Da[A, inner], outer], D2[Db[A, inner], outer]])
                    if "ValueError" in (lhs, rhs):
                        if lhs != rhs:
                            viol.append({"kind": "union-of-nested", "what": "%s[Union[%s[nd,%r], %s[nd,%r]], %r]: %s, but Union[%s[%s[..]], %s[%s[..]]] %s" % (
                                D2.__name__, Da.__name__, inner, Db.__name__, inner, outer, "error" if lhs == "ValueError" else "built", D2.__name__, Da.__name__, D2.__name__, Db.__name__, "is an error" if rhs == "ValueError" else "builds")})
                        stats["union-of-nested-error"] += 1
                        continue
                    pvn = [np.zeros(sh, dtype=d) for sh in ((3, 2), (2,), (4, 3, 2)) for d in (np.float32, np.int8, np.bool_, np.complex64, np.uint8)]
                    ok = vec(lhs, pvn) == vec(rhs, pvn)
                    stats["union-of-nested-ok" if ok else "union-of-nested-FAIL"] += 1
                    if not ok:
                        viol.append({"kind": "union-of-nested", "what": "%s[Union[%s[nd,%r], %s[nd,%r]], %r] does not accept exactly what the union of the two nestings accepts" % (D2.__name__, Da.__name__, inner, Db.__name__, inner, outer)})
    # scalar ladder: survive only for shapes admitting rank 0 and categories containing them
    scal = {"bool": (bool, True), "int": (int, 3), "float": (float, 1.5), "complex": (complex, 1j)}
    expect_cat = {"bool": {"Bool", "Shaped"}, "int": {"Int", "Integer", "Real", "Num", "Shaped", "Int2", "Int4", "Int8", "Int16", "Int32", "Int64"},
                  "float": {"Float", "Inexact", "Real", "Num", "Shaped", "Float16", "Float32", "Float64", "Float8e4m3b11fnuz", "Float8e4m3fn", "Float8e4m3fnuz", "Float8e5m2", "Float8e5m2fnuz"},
                  "complex": {"Complex", "Inexact", "Num", "Shaped", "Complex64", "Complex128"}}
    allcats = [getattr(jt, n) for n in req["allcats"]]
    for D in allcats:
        for s in req["scalar_dimstrs"]:
            toks = s.split()
            rank0 = all(t.lstrip("#_?").startswith("*") or t == "..." or t.lstrip("#?_*") == "" and "*" in t for t in toks)
            for kn, (ty, val) in scal.items():
                want = rank0 and D.__name__ in expect_cat[kn]
                try:
                    r = D[ty, s]; got = (r is ty)
                    if not got:
                        viol.append({"kind": "scalar", "what": "%s[%s, %r] is neither the scalar type nor an error: %r" % (D.__name__, kn, s, r)}); continue
                except ValueError:
                    got = False
                stats["scalar-%s" % ("survives" if got else "rejected")] += 1
                if got != want:
                    viol.append({"kind": "scalar", "what": "%s[%s, %r] %s; documented: %s (shape admits rank 0: %s, category contains %s: %s)" % (
                        D.__name__, kn, s, "survives" if got else "is rejected", "survives" if want else "rejected", rank0, kn, D.__name__ in expect_cat[kn])})
                # union with an array type: the scalar must be accepted by the union iff it survives
                try:
                    u = D[Union[A, ty], s]
                    alts = typing.get_args(u) if typing.get_origin(u) is Union else (u,)
                    acc = any(isinstance(val, a) for a in alts)
                    if acc != want:
                        viol.append({"kind": "scalar", "what": "%s[Union[ndarray, %s], %r] %s the Python scalar %r; documented: %s" % (D.__name__, kn, s, "accepts" if acc else "rejects", val, "accepts" if want else "rejects")})
                except ValueError:
                    pass
    # aliases
    import jaxtyping
    al = []
    al.append(("Scalar", vec(jaxtyping.Scalar, pv2) == vec(jt.Shaped[jax.Array, ""], pv2)))
    al.append(("ScalarLike", vec(jaxtyping.ScalarLike, pv2) == vec(jt.Shaped[jaxtyping.ArrayLike, ""], pv2)))
    keys = [jax.random.key(0), jax.random.PRNGKey(0), jnp.zeros((2,), "uint32"), jnp.zeros((3,), "uint32"), jnp.zeros((2,), "int32")]
    al.append(("PRNGKeyArray", vec(jaxtyping.PRNGKeyArray, keys) == vec(Union[jt.Key[jax.Array, ""], jt.UInt32[jax.Array, "2"]], keys) == True or vec(jaxtyping.PRNGKeyArray, keys) == [True, True, True, False, False]))
    for n, ok in al:
        if not ok:
            viol.append({"kind": "alias", "what": "%s does not equal its documented definition" % n})
    return {"violations": viol, "stats": dict(stats), "builds": builds}


def main():
    req = json.load(sys.stdin)
    buf = io.StringIO()
    with contextlib.redirect_stdout(buf), contextlib.redirect_stderr(io.StringIO()), warnings.catch_warnings():
        warnings.simplefilter("ignore")
        if req["mode"] == "laws":
            out = laws(req)
        else:
            import impl_serial
            out = impl_serial.run(req)
    print(json.dumps(out))


if __name__ == "__main__":
    main()

"""C18 -- cached bytecode never makes a module run with the wrong instrumentation."""
import json, os, shutil, subprocess, sys, tempfile
sys.path.insert(0, os.path.join(os.path.dirname(os.path.abspath(__file__)), "..", "lib"))
import vf

PID = "C18"
MODS = ["a", "b", "c", "pkg", "pkg.sub", "other", "imp", "tool"]
# imp tries `import frag` (a module that does not compile; the SyntaxError is swallowed) and then imports other.  A failing
# load executes nothing and caches nothing, so frag does not appear in the model's dependency table.
# tool is a helper module the spy typecheckers import: it is first imported when a typechecker module is, i.e. while the first
# function of a module hooked with a (non-None) checker is being decorated -- per run, an extra dependency of those modules.
DEPS = {"a": ["b"], "b": [], "c": ["a"], "pkg": ["pkg.sub"], "pkg.sub": [], "other": [], "imp": ["other"], "tool": []}


def deps_of_run(hm, disable=False):
    return {m: DEPS[m] + (["tool"] if m != "tool" and hm.get(m) not in (None, "None") else []) for m in DEPS}
BASE_MTIME = 1_000_000_000          # sources look old (as after `cp -p` / tar extraction): older than the installed jaxtyping


def path_of(root, m):
    return {"a": "a.py", "b": "b.py", "c": "c.py", "pkg": "pkg/__init__.py", "pkg.sub": "pkg/sub.py", "other": "other.py", "imp": "imp.py", "tool": "tool.py"}[m]


def module_text(m, version):
    imports = "".join("import %s\n" % d for d in DEPS[m])
    if m == "imp":
        imports = "try:\n    import frag\nexcept SyntaxError:\n    pass\n" + imports
    return "%sVERSION = %d\n\ndef f(x: int) -> int:\n    return x\n" % (imports, version)     # one digit: an edit keeps the size


def write_module(root, m, version, stamp):
    p = os.path.join(root, path_of(root, m))
    os.makedirs(os.path.dirname(p), exist_ok=True)
    open(p, "w").write(module_text(m, version))
    os.utime(p, (stamp, stamp))


def make_forest(root):
    for i, m in enumerate(MODS):
        write_module(root, m, 1, BASE_MTIME + i)
    open(root + "/frag.py", "w").write("def f(:\n    return 1\n")
    os.utime(root + "/frag.py", (BASE_MTIME, BASE_MTIME))
    open(root + "/spyreg.py", "w").write("LOG = []\n")
    for k in ("A", "B"):
        open(root + "/spy%s.py" % k, "w").write("import spyreg\n\ndef check(fn, *a, **k):\n    spyreg.LOG.append((getattr(fn, '__module__', None), getattr(fn, '__qualname__', None), %r))\n    return fn\n\nimport tool\n" % k)


def gen_history(rng):
    runs = []
    for _ in range(rng.choice([2, 2, 3, 4, 5])):
        hooked = {}
        chk = rng.choice(["A", "A", "B", None])
        names = [m for m in ["a", "b", "c", "pkg", "other", "imp", "frag", "tool"] if rng.random() < .4]
        groups = [[names, chk]] if names else []
        if rng.random() < .2:
            extra = [m for m in ["a", "b", "other"] if m not in names and rng.random() < .5]
            if extra:
                groups.append([extra, rng.choice(["A", "B"])])
        order = rng.sample(["a", "b", "c", "pkg", "other", "imp", "tool"], rng.choice([1, 2, 3, 4]))
        edits = [m for m in MODS if rng.random() < .12]
        runs.append({"groups": groups, "order": order, "edits": edits, "disable": rng.random() < .12})
        if rng.random() < .3:
            # the same interpreter goes on: hooks uninstalled, some sources edited, the modules imported again without a hook
            runs.append({"inproc": True, "groups": [], "order": rng.sample(["a", "b", "c", "pkg", "other", "imp", "tool"], rng.choice([1, 2, 3])),
                         "edits": [m for m in MODS if rng.random() < .15], "disable": runs[-1]["disable"]})
    return runs


CATALOGUE = [
    # the typechecker's own module (and what it imports: tool) is first imported by a hooked module; later runs hook tool
    [{"groups": [[["a"], "A"]], "order": ["a"], "edits": []}, {"groups": [[["a", "tool"], "A"]], "order": ["a", "tool"], "edits": []}, {"groups": [], "order": ["tool", "a"], "edits": []}],
    [{"groups": [[["tool", "b"], "B"]], "order": ["b"], "edits": []}, {"groups": [[["b"], "B"]], "order": ["b"], "edits": []}],
    # nested import of an un-hooked module inside a hooked one, then hooking it (and the converse)
    [{"groups": [[["a"], "A"]], "order": ["a"], "edits": []}, {"groups": [[["a", "b"], "A"]], "order": ["a"], "edits": []}],
    [{"groups": [[["a", "b"], "A"]], "order": ["a"], "edits": []}, {"groups": [[["a"], "A"]], "order": ["a"], "edits": []}],
    # checker change, hook on/off
    [{"groups": [[["a", "b"], "A"]], "order": ["a"], "edits": []}, {"groups": [[["a", "b"], "B"]], "order": ["a"], "edits": []}, {"groups": [], "order": ["a"], "edits": []}, {"groups": [[["a", "b"], None]], "order": ["a"], "edits": []}],
    # nested hooked import (package __init__ importing a hooked submodule), then a top-level import of an un-hooked module; later hook it
    [{"groups": [[["pkg"], "A"]], "order": ["pkg", "other"], "edits": []}, {"groups": [[["pkg", "other"], "A"]], "order": ["other", "pkg"], "edits": []}],
    # same-size source edit between two hooked runs
    [{"groups": [[["a", "b"], "A"]], "order": ["a"], "edits": []}, {"groups": [[["a", "b"], "A"]], "order": ["a"], "edits": ["a", "b"]}],
    [{"groups": [], "order": ["c"], "edits": []}, {"groups": [[["c", "a"], "B"]], "order": ["c"], "edits": ["a"]}, {"groups": [[["b"], "B"]], "order": ["c"], "edits": []}],
    # a hooked module that fails to compile (its importer swallows the error), followed by the first import of an un-hooked module; later hook that one
    [{"groups": [[["frag"], "A"]], "order": ["imp"], "edits": []}, {"groups": [[["other", "imp"], "A"]], "order": ["imp"], "edits": []}],
    [{"groups": [[["frag", "imp"], "B"]], "order": ["imp", "a"], "edits": []}, {"groups": [[["a", "b", "other"], "B"]], "order": ["a", "other"], "edits": []}],
    # one interpreter: hooked import, hook uninstalled, the same modules imported again by the ordinary machinery (as they are / after an
    # edit); then a fresh interpreter hooks them again
    [{"groups": [[["a", "b"], "A"]], "order": ["a"], "edits": []}, {"inproc": True, "groups": [], "order": ["a"], "edits": []}, {"groups": [[["a", "b"], "A"]], "order": ["a"], "edits": []}],
    [{"groups": [[["a", "b"], "A"]], "order": ["a"], "edits": []}, {"inproc": True, "groups": [], "order": ["a"], "edits": ["a", "b"]}, {"groups": [[["a", "b"], "A"]], "order": ["a"], "edits": []}],
    [{"groups": [[["pkg", "other"], "B"]], "order": ["pkg"], "edits": []}, {"inproc": True, "groups": [], "order": ["pkg", "other"], "edits": ["pkg.sub"]}, {"groups": [[["pkg"], "B"]], "order": ["pkg", "other"], "edits": []}, {"groups": [], "order": ["pkg"], "edits": []}],
    # a run with JAXTYPING_DISABLE=1 in the environment, then the identical configuration with checking on (and the converse)
    [{"groups": [[["a", "b"], "A"]], "order": ["a"], "edits": [], "disable": True}, {"groups": [[["a", "b"], "A"]], "order": ["a"], "edits": []}],
    [{"groups": [[["pkg"], "B"]], "order": ["pkg"], "edits": []}, {"groups": [[["pkg"], "B"]], "order": ["pkg"], "edits": [], "disable": True}, {"groups": [[["pkg"], "B"]], "order": ["pkg"], "edits": ["pkg.sub"]}],
]


def hooked_map(groups):
    """module -> checker of the FIRST matching live hook (the most recently installed)"""
    out = {}
    for m in MODS:
        for names, chk in reversed(groups):
            if any(m == n or m.startswith(n + ".") for n in names):
                out[m] = "None" if chk is None else chk
                break
    return out


def run_coq(runs_with_versions):
    rs = []
    for hm, versions, order in runs_with_versions:
        deps = deps_of_run(hm)
        rs.append("(mkrun %s %s %s %s)" % (vf.coqlist(sorted(hm.items()), lambda kv: "(%s, %s)" % (vf.coqstr(kv[0]), vf.coqstr(kv[1]))),
                                        vf.coqlist(sorted(versions.items()), lambda kv: "(%s, %d)" % (vf.coqstr(kv[0]), kv[1])),
                                        vf.coqlist(sorted(deps.items()), lambda kv: "(%s, %s)" % (vf.coqstr(kv[0]), vf.coqlist(kv[1], vf.coqstr))),
                                        vf.coqlist(order, vf.coqstr)))
    return "[" + "; ".join(rs) + "]"


def main():
    R = vf.Report(PID)
    proved = R.proof_step()
    n = 1500 if R.thorough else 34
    hists = list(CATALOGUE) + [gen_history(R.rng) for _ in range(n)]
    env = vf.impl_env({"PYTHONDONTWRITEBYTECODE": ""})
    env.pop("PYTHONDONTWRITEBYTECODE", None)

    def play(hist):
        root = tempfile.mkdtemp(prefix="vfc18")
        try:
            make_forest(root)
            versions = {m: 1 for m in MODS}
            stamps = {m: BASE_MTIME + i for i, m in enumerate(MODS)}
            out = []
            i = 0
            while i < len(hist):
                run = hist[i]
                for m in run["edits"]:
                    versions[m] = versions[m] % 9 + 1
                    stamps[m] += 100
                    write_module(root, m, versions[m], stamps[m])
                versions1 = dict(versions)
                cfg = {"groups": run["groups"], "order": run["order"], "modules": MODS}
                follower = hist[i + 1] if i + 1 < len(hist) and hist[i + 1].get("inproc") else None
                if follower is not None:
                    writes = []
                    for m in follower["edits"]:
                        versions[m] = versions[m] % 9 + 1
                        stamps[m] += 100
                        writes.append([path_of(root, m), module_text(m, versions[m]), stamps[m]])
                    cfg["then"] = {"order": follower["order"], "writes": writes}
                renv = dict(env)
                if run.get("disable"):
                    renv["JAXTYPING_DISABLE"] = "1"
                p = subprocess.run([vf.PY, os.path.join(vf.VERIF, "harness", "impl_hookcache.py"), root, json.dumps(cfg)], capture_output=True, text=True, env=renv, timeout=300, cwd=root)
                lines = [l for l in p.stdout.splitlines() if l.startswith("{")]
                if p.returncode != 0 or not lines:
                    return {"error": (p.stderr or p.stdout)[-600:]}
                r = json.loads(lines[-1])
                if "error" in r:
                    return r
                out.append({"executed": r["executed"], "pycs": r["pycs"], "versions": versions1, "hooked": hooked_map(run["groups"]), "disable": bool(run.get("disable"))})
                i += 1
                if follower is not None:
                    out.append({"executed": r["executed2"], "pycs": r["pycs"], "versions": dict(versions), "hooked": {}, "disable": bool(run.get("disable")), "inproc": True})
                    i += 1
            return {"runs": out}
        finally:
            shutil.rmtree(root, ignore_errors=True)
    from concurrent.futures import ThreadPoolExecutor
    with ThreadPoolExecutor(12) as ex:
        results = list(ex.map(play, hists))
    good = [(h, r) for h, r in zip(hists, results) if "runs" in r]
    for h, r in zip(hists, results):
        if "error" in r:
            R.violation("correspondence", "history could not be run: %s" % r["error"], {"history": h}, key={"kind": "run-error"}, no_input=True)
    terms = [run_coq([(x["hooked"], x["versions"], run["order"]) for x, run in zip(r["runs"], h)]) for h, r in good]
    scope = vf.coq_eval_strings(["model.HookCache", "gen.HookConsts"], "fun _ : nat => cache_patch_method", ["0%nat"])[0]
    model = vf.coq_eval_strings(["model.HookCache", "gen.HookConsts"], "fun rs => sep_concat \" ; \" (map show_done (run_history (String.eqb cache_patch_method \"exec_module\") rs []))", terms, shard=200)
    nontriv, samples, nruns = set(), [], 0
    for (h, r), m in zip(good, model):
        mruns = m.split(" ; ")
        for k, (run, x) in enumerate(zip(h, r["runs"])):
            nruns += 1
            got = x["executed"]
            for mod, e in sorted(got.items()):
                want_kind = ("hooked:%s" % x["hooked"][mod]) if mod in x["hooked"] else "plain"
                R.count("executed:" + e["kind"].split(":")[0])
                if x["disable"] and e["version"] == x["versions"][mod]:
                    continue        # checking switched off for this run: instrumented or not, it behaves like plain code (C19); only staleness is judged
                if e["kind"] != want_kind or e["version"] != x["versions"][mod]:
                    R.violation("property", "run %d of the history%s executes module %s as %s from source version %d; the current hook configuration and source call for %s from version %d. History: %s" % (
                        k + 1, " (same interpreter as the run before, hooks uninstalled, modules imported again)" if x.get("inproc") else "", mod, e["kind"], e["version"], want_kind, x["versions"][mod], json.dumps(h)), {"history": h, "run": k, "module": mod, "got": e, "expected": {"kind": want_kind, "version": x["versions"][mod]}},
                        key={"kind": "wrong-code", "direction": "%s-instead-of-%s" % (e["kind"].split(":")[0], want_kind.split(":")[0]), "stale": e["version"] != x["versions"][mod]})
            mexec = dict((y.split("=")[0], y.split("=")[1]) for y in mruns[k].split(",")) if k < len(mruns) and mruns[k] else {}
            gexec = {mod: "%s@%d" % (e["kind"], e["version"]) for mod, e in got.items()}
            if mexec != gexec and not x["disable"]:
                R.violation("correspondence", "run %d: model (patch around %s) predicts %s, implementation %s. History: %s" % (k + 1, scope, mexec, gexec, json.dumps(h)), {"history": h, "run": k, "model": mexec, "impl": gexec},
                            key={"kind": "model"}, no_input=True)
        if len(h) >= 2 and any(run["groups"] for run in h):
            nontriv.add(json.dumps(h))
        if len(samples) < 3 and len(h) >= 3:
            samples.append({"history": h, "executed": [x["executed"] for x in r["runs"]], "pycs_last": r["runs"][-1]["pycs"]})
    if not proved:
        R.violation("proof", "proof obligations of props/C18.v no longer check (e.g. the cache patch is no longer confined to get_code): " + str(R.broken_proof)[-800:],
                    {"theorem_file": "coq/props/C18.v", "log": R.broken_proof}, no_input=not any(v["kind"] == "property" for v in R.violations))
    R.coverage.update(evaluations=nruns, distinct_nontrivial=len(nontriv), samples=samples, histories=len(hists),
                      rule="%d catalogue + %d PRNG histories of 2-5 runs over one scratch directory with a shared __pycache__; every run is a fresh interpreter (bytecode writing enabled) choosing hooked subsets (one or two install calls), a spy typechecker or None, an import order with nested imports (a->b, c->a, pkg->pkg.sub), "
                           "after optional same-size source edits with old mtimes; a module that does not compile (hooked or not, its importer swallows the SyntaxError); in-process continuations (hooks uninstalled, optional edits, the modules dropped from sys.modules and imported again un-hooked by the same interpreter); runs with JAXTYPING_DISABLE=1 (their own instrumentation is not judged, what they leave in the cache is). Oracle = the property itself: per run and module, instrumented? by which checker? from the current source version? Model (Coq run_history with the patched method read from the source) compared per run. non-trivial = history with >= 2 runs and a hook" % (len(CATALOGUE), n))
    R.assumptions += ["CPython validates a .pyc by source mtime and size (modelled as version equality)", "md5 of the typechecker string treated as injective"]
    sys.exit(R.finish())


if __name__ == "__main__":
    vf.guarded(PID, main)

"""C07 -- on well-typed calls a decorated function is indistinguishable from the original."""
import json, os, sys
sys.path.insert(0, os.path.join(os.path.dirname(os.path.abspath(__file__)), "..", "lib"))
import vf

PID = "C07"
NAMEPOOL = ["x", "y", "z", "T0", "T1", "default0", "default1", "ret0", "ret1", "T2", "self_", "fn", "return_", "args0"]


def internal_names():
    """every parameter and local-variable name used inside jaxtyping/_decorator.py: a user's parameter (or **kwargs key) of
    the same name must not collide with the wrapper's own plumbing"""
    import ast, keyword
    tree = ast.parse(open(os.path.join(vf.REPO, "jaxtyping", "_decorator.py")).read())
    out = set()
    for n in ast.walk(tree):
        if isinstance(n, ast.arg):
            out.add(n.arg)
        elif isinstance(n, ast.Name) and isinstance(n.ctx, ast.Store):
            out.add(n.id)
    # names the wrapper synthesises at run time: f-string prefixes followed by a counter (ret0, T0, default0, ...), and
    # identifier-like string constants
    for n in ast.walk(tree):
        if isinstance(n, ast.JoinedStr) and n.values and isinstance(n.values[0], ast.Constant) and isinstance(n.values[0].value, str):
            pre = n.values[0].value
            if pre.isidentifier() and len(pre) <= 12:
                out.update({pre + "0", pre + "1"})
        elif isinstance(n, ast.Constant) and isinstance(n.value, str) and n.value.isidentifier() and len(n.value) <= 16:
            out.add(n.value)
    out.update({"ret0", "ret1", "T0", "T1", "default0", "default1"})
    return sorted(x for x in out if x.isidentifier() and not keyword.iskeyword(x) and not x.startswith("__") and x not in ("self", "cls", "_"))


INTERNAL = internal_names()
GENERATED = [x for x in INTERNAL if x[-1].isdigit()]


def gen_sig(rng):
    names = rng.sample(NAMEPOOL, rng.choice([1, 2, 2, 3, 3, 4, 5]))
    if INTERNAL and rng.random() < .45:
        for nm in rng.sample(INTERNAL, min(len(INTERNAL), rng.choice([1, 1, 2]))):
            if nm not in names:
                names[rng.randrange(len(names))] = nm
        names = list(dict.fromkeys(names))
    ps = []
    n_po = rng.choice([0, 0, 1, 2]) if len(names) > 1 else 0
    kinds = []
    for i, nm in enumerate(names):
        if i < n_po:
            kinds.append("po")
        else:
            kinds.append(rng.choice(["pk", "pk", "ko"]))
    kinds.sort(key=lambda k: {"po": 0, "pk": 1, "ko": 3}[k])
    has_vp = rng.random() < .25
    has_vk = rng.random() < .25
    seen_default = False
    for nm, k in zip(names, kinds):
        dflt = (rng.random() < .35) or (seen_default and k in ("po", "pk"))
        if k in ("po", "pk") and dflt:
            seen_default = True
        ps.append([nm, k, bool(dflt), rng.choice(["arr", "arr", "int", "none", "cls"])])
    out = [p for p in ps if p[1] in ("po", "pk")]
    if has_vp:
        out.append(["va", "vp", False, rng.choice(["arr", "none"])])
    out += [p for p in ps if p[1] == "ko"]
    if has_vk:
        out.append(["kw", "vk", False, "none"])
    return out


def make_calls(rng, ps):
    """one well-typed binding call (positional where possible, keywords otherwise), one keyword-style call, one ill-typed, one non-binding"""
    def val(p, good=True):
        if p[3] == "arr":
            return ["arr", [4]] if good else ["arr", [4, 4]]
        if p[3] == "int":
            return ["int", 3] if good else ["str", "s"]
        if p[3] == "cls":
            return ["tok"] if good else ["tok_other"]
        return ["str", "free"]
    calls = []
    for style in ("pos", "kw"):
        args, kwargs = [], {}
        for p in ps:
            if p[1] == "po":
                args.append(val(p))
            elif p[1] == "pk":
                if style == "pos":
                    args.append(val(p))
                else:
                    kwargs[p[0]] = val(p)
            elif p[1] == "vp":
                if style == "pos" and all(q[1] != "pk" or True for q in ps):
                    args += [val(p), val(p)] if not kwargs else []
            elif p[1] == "ko":
                kwargs[p[0]] = val(p)
            elif p[1] == "vk":
                extra = [n for n in rng.sample(INTERNAL, min(4, len(INTERNAL))) if n not in [q[0] for q in ps]] if rng.random() < .6 else []
                kwargs[extra[0] if extra else "extra_kw"] = ["int", 1]
                if rng.random() < .7:
                    for nm in rng.sample(GENERATED, rng.choice([1, 2, 3])):
                        if nm not in [q[0] for q in ps]:
                            kwargs[nm] = ["int", 2]
        calls.append({"args": args, "kwargs": kwargs, "welltyped": True, "binds": True})
    # omit defaults
    args, kwargs = [], {}
    for p in ps:
        if p[2]:
            continue
        if p[1] in ("po", "pk"):
            args.append(val(p))
        elif p[1] == "ko":
            kwargs[p[0]] = val(p)
    if all((not q[2]) or q[1] in ("ko",) or all(r[2] or r[1] not in ("po", "pk") for r in ps[ps.index(q):]) for q in ps):
        calls.append({"args": args, "kwargs": kwargs, "welltyped": True, "binds": True})
    # ill-typed: first annotated parameter gets a bad value
    bad = next((p for p in ps if p[3] in ("arr", "int", "cls") and p[1] in ("po", "pk", "ko")), None)
    if bad is not None:
        c = json.loads(json.dumps(calls[0]))
        idx = [p for p in ps if p[1] in ("po", "pk")].index(bad) if bad[1] in ("po", "pk") else None
        if idx is not None and idx < len(c["args"]):
            c["args"][idx] = val(bad, good=False)
        else:
            c["kwargs"][bad[0]] = val(bad, good=False)
        c["welltyped"] = False
        calls.append(c)
    # ill-typed: None for an annotated parameter that has a (non-None) default
    opt = next((p for p in ps if p[3] in ("arr", "int") and p[1] in ("pk", "ko") and p[2]), None)
    if opt is not None:
        c = json.loads(json.dumps(calls[1]))
        c["kwargs"][opt[0]] = ["none"]
        c["welltyped"] = False
        calls.append(c)
    # non-binding: a keyword-only parameter given positionally (one positional argument too many)
    if any(p[1] == "ko" for p in ps) and not any(p[1] == "vp" for p in ps):
        calls.append({"args": [val(p) for p in ps if p[1] in ("po", "pk", "ko")], "kwargs": {}, "welltyped": True, "binds": False})
    # non-binding
    calls.append({"args": [], "kwargs": {"no_such_parameter_": ["int", 1]}, "welltyped": True, "binds": any(p[1] == "vk" for p in ps) and not any(not p[2] and p[1] in ("po", "pk", "ko") for p in ps)})
    return calls


def main():
    R = vf.Report(PID)
    proved = R.proof_step()
    n = 60000 if R.thorough else 400
    cases = []
    fixed = [
        ([["x", "pk", False, "arr"], ["T0", "pk", False, "arr"], ["T1", "pk", False, "arr"]], "anneal", "def"),
        ([["T0", "pk", False, "int"]], "kelvin", "def"),
        ([["x", "pk", False, "arr"], ["default0", "pk", True, "arr"]], "T1", "def"),
        ([["ret0", "pk", False, "arr"], ["ret1", "ko", False, "arr"]], "ret2", "def"),
        ([["x", "po", False, "arr"], ["y", "po", True, "arr"]], "f", "def"),
        ([["x", "ko", False, "arr"]], "f", "def"),
        ([["x", "pk", False, "arr"], ["va", "vp", False, "arr"], ["y", "ko", True, "arr"], ["kw", "vk", False, "none"]], "f", "def"),
        ([["x", "pk", False, "none"]], "lam", "lambda"),
        ([["x", "pk", False, "arr"]], "co", "async"),
        ([["x", "pk", False, "arr"]], "g", "gen"),
    ]
    for ps, fname, kind in fixed:
        for chk in ("typeguard", "beartype"):
            cases.append({"params": ps, "fname": fname, "callable": kind, "descriptor": "function", "checker": chk, "ret_annot": kind in ("def",), "calls": make_calls(R.rng, ps)})
    for chk in ("typeguard", "beartype"):
        # **kwargs keys spelled like the names the wrapper generates for its own plumbing
        ps = [["x", "pk", False, "arr"], ["kw", "vk", False, "none"]]
        cases.append({"params": ps, "fname": "collect", "callable": "def", "descriptor": "function", "checker": chk, "ret_annot": True,
                      "calls": [{"args": [["arr", [4]]], "kwargs": {k: ["int", i]}, "welltyped": True, "binds": True} for i, k in enumerate(GENERATED + ["fn", "bound", "memos", "out"])]})
    cases.append({"params": [["x", "pk", False, "arr"]], "fname": "co2", "callable": "async", "descriptor": "function", "checker": "typeguard", "ret_annot": True, "calls": make_calls(R.rng, [["x", "pk", False, "arr"]])})
    for _ in range(n):
        ps = gen_sig(R.rng)
        kind = R.rng.choice(["def"] * 7 + ["lambda", "async", "gen", "wraps", "wraps"])
        if kind == "lambda":
            ps = [[p[0], p[1], p[2], "none"] for p in ps]        # a lambda's parameters cannot be annotated
        fname = R.rng.choice(["f", "f", "g", "T0", "default0", "ret0", ps[0][0] + "_", "x9"])
        desc = "function" if kind != "def" else R.rng.choice(["function"] * 4 + ["method", "classmethod", "staticmethod", "property"])
        if desc != "function":
            ps = [["self", "pk", False, "none"]] + [[p[0], "pk" if p[1] == "po" else p[1], p[2], p[3]] for p in ps if p[0] != "self"]
            # keep "no non-default after default" among positional parameters
            seen = False
            for p in ps:
                if p[1] == "pk":
                    if seen:
                        p[2] = True
                    seen = seen or p[2]
            if desc == "property":
                ps = ps[:1]
        cases.append({"params": ps, "fname": fname, "callable": kind, "descriptor": desc, "checker": R.rng.choice(["typeguard", "beartype"]), "ret_annot": kind == "def" and R.rng.random() < .5 and desc == "function", "calls": make_calls(R.rng, ps),
                      "twin": R.rng.random() < .4, "swap_defaults": kind in ("def", "wraps") and desc == "function" and R.rng.random() < .3})
    nw = 8
    chunks = [cases[i::nw] for i in range(nw)]
    from concurrent.futures import ThreadPoolExecutor
    with ThreadPoolExecutor(nw) as ex:
        outs = list(ex.map(lambda ch: vf.impl("impl_wrap.py", {"cases": ch}, timeout=3000), chunks))
    res = [None] * len(cases)
    for w, o in enumerate(outs):
        for j, r in enumerate(o):
            res[w + j * nw] = r
    # model: the parameter list of the synthesised def (param_fn: output=False; full_fn: an extra keyword-only ret<k>)
    KIND = {"po": "PO", "pk": "PK", "vp": "VP", "ko": "KO", "vk": "VK"}
    def sig_coq(ps):
        return vf.coqlist(ps, lambda p: "(mkparam %s %s %s)" % (vf.coqstr(p[0]), KIND[p[1]], vf.coqbool(bool(p[2]))))
    mheaders = vf.coq_eval_strings(["model.Sig"], "fun ps => show_pieces (pieces_of_sig ps)", [sig_coq(c["params"]) for c in cases], shard=800)
    ncalls, nontriv, samples = 0, set(), []
    ident_ok = lambda n: n.isidentifier() and n not in ("lambda",)
    gterms = ["(%s, %s, %d)" % (vf.coqstr("<lambda>" if c["callable"] == "lambda" else "_inner" if c["callable"] == "wraps" else c["fname"]), vf.coqlist([p[0] for p in c["params"]], vf.coqstr), len(c["params"])) for c in cases]
    gdefs = ("Definition run_gen (c : string * list string * nat) : string :=\n  let '(f, ps, n) := c in\n"
             "  let nm := def_name (negb (String.eqb f \"<lambda>\")) f ps in\n"
             "  (nm ++ \"|\" ++ sep_concat \",\" (map (fun p => fst p ++ \"/\" ++ snd p) (gen_names [nm] ps n)))%string.")
    mgen = vf.coq_eval_strings(["model.Synth"], "run_gen", gterms, shard=800, defs=gdefs)
    for (c, r), mg in zip(zip(cases, res), mgen):
        if not r.get("header_names"):
            continue
        mname, mpairs = mg.split("|")
        mpairs = [x.split("/") for x in mpairs.split(",")] if mpairs else []
        # param_fn is the header whose parameters are exactly the callable's
        cand = [hn for hn in r["header_names"] if [x[0] for x in hn[1]] == [p[0] for p in c["params"]]]
        if not cand:
            continue
        dn, triples = cand[-1]
        got = [[t[1], t[2]] for t in triples]
        want = [[a, d if p[2] else None] for (a, d), p in zip(mpairs, c["params"])]
        if got != want or dn != mname:
            R.violation("correspondence", "generated names differ from the model: implementation def %s %s, model def %s %s (%s)" % (dn, got, mname, want, c["params"]), {"case": c, "impl": [dn, got], "model": [mname, want]}, key={"kind": "gensym"}, no_input=True)
    for (c, r), mh in zip(zip(cases, res), mheaders):
        if r.get("headers") and not any(h == mh for h in r["headers"]):
            R.violation("correspondence", "synthesised parameter list differs from the model: implementation %s, model %s" % (r["headers"], mh), {"case": c, "impl": r["headers"], "model": mh}, key={"kind": "pieces"}, no_input=True)
    for c, r in zip(cases, res):
        desc = "%s %s(%s) [%s, %s, %s]" % (c["callable"], c["fname"], ", ".join("%s:%s%s%s" % (p[0], p[1], "=d" if p[2] else "", ":" + p[3] if p[3] != "none" else "") for p in c["params"]), c["descriptor"], c["checker"], "-> A" if c["ret_annot"] else "no return annotation")
        keyb = {"callable": c["callable"], "descriptor": c["descriptor"]}
        if "error" in r:
            R.violation("correspondence", "harness problem: %s (%s)" % (r["error"], desc), {"case": c}, key=dict(keyb, kind="harness"), no_input=True); continue
        R.count("callable:" + c["callable"])
        if r["decorate"] != "ok":
            R.violation("property", "decorating %s fails: %s" % (desc, r["decorate"]), {"case": c, "source": r["src"], "error": r["decorate"]}, key=dict(keyb, kind="decorate", error=r["decorate"].split(":")[0]))
            continue
        for k, (a, b) in r["meta"].items():
            if a != b:
                R.violation("property", "%s of the decorated callable differs: %r vs %r (%s)" % (k, b, a, desc), {"case": c, "attr": k, "plain": a, "wrapped": b}, key=dict(keyb, kind="meta", attr=k))
        if "descriptor_types" in r and r["descriptor_types"][0] != r["descriptor_types"][1]:
            R.violation("property", "descriptor kind changed: %s -> %s (%s)" % (r["descriptor_types"][0], r["descriptor_types"][1], desc), {"case": c}, key=dict(keyb, kind="descriptor"))
        for call, o in zip(c["calls"], r["calls"]):
            ncalls += 1
            R.count("call:%s:%s" % ("welltyped" if o["welltyped"] else "illtyped", o["plain"][0]))
            if o["welltyped"]:
                if o["plain"][0] == "ret":
                    nontriv.add(json.dumps([c["params"], c["fname"], c["callable"], call]))
                # a functools.wraps wrapper (*args, **kwargs) records the raw call before its inner function refuses a call that
                # does not bind; the decorated one raises the ordinary TypeError without entering it: only the outcome is compared
                lenient = c["callable"] == "wraps" and o["plain"] == ["exc", "TypeError"]
                if not o["same_result"] or ((o["body_runs"][0] != o["body_runs"][1] or not o["same_args"]) and not lenient):
                    R.violation("property", "well-typed call %s: plain %s (body runs %d), decorated %s (body runs %d), same argument objects: %s (%s)" % (
                        json.dumps(call), o["plain"], o["body_runs"][0], o["wrapped"], o["body_runs"][1], o["same_args"], desc), {"case": c, "call": call, "observed": o, "source": r["src"]},
                        key=dict(keyb, kind="welltyped-differs", wrapped=str(o["wrapped"][1])))
            else:
                if o["wrapped"][0] != "exc" or o["body_runs"][1] != 0:
                    R.violation("property", "ill-typed call %s: the decorated callable %s and ran its body %d time(s) (%s)" % (json.dumps(call), "returned" if o["wrapped"][0] == "ret" else "raised " + str(o["wrapped"][1]), o["body_runs"][1], desc),
                                {"case": c, "call": call, "observed": o, "source": r["src"]}, key=dict(keyb, kind="illtyped-runs"))
        if len(samples) < 3 and len(c["params"]) >= 4:
            samples.append({"source": r["src"], "calls": [[x["plain"], x["wrapped"], x["body_runs"]] for x in r["calls"]]})
    # small programs of well-typed calls, decorated vs plain
    scen = vf.impl("impl_wrap.py", {"scenarios": [[n, c] for n in ("loader", "helper_binds") for c in ("typeguard", "beartype")] + [["forward_ref", "typeguard"]]}, timeout=600)      # (beartype resolves quoted names through sys.modules[fn.__module__]: not available for a function made by exec)
    for sc in scen:
        ncalls += len(sc["plain"])
        R.count("scenario:" + sc["scenario"])
        if sc["plain"] != sc["wrapped"]:
            R.violation("property", "scenario %r (%s), every call well-typed: the plain program gives %s, the decorated one %s" % (sc["scenario"], sc["checker"], sc["plain"], sc["wrapped"]),
                        {"scenario": sc}, key={"kind": "scenario", "scenario": sc["scenario"]})
    if not proved:
        R.violation("proof", "proof obligations of props/C07.v no longer check: " + str(R.broken_proof)[-800:],
                    {"theorem_file": "coq/props/C07.v", "log": R.broken_proof}, no_input=not any(v["kind"] == "property" for v in R.violations))
    R.coverage.update(evaluations=ncalls, distinct_nontrivial=len(nontriv), samples=samples, signatures=len(cases),
                      rule="%d generated signatures (positional-only / positional-or-keyword / *args / keyword-only / **kwargs, defaults, names colliding with the wrapper's generated names T<k>, default<k>, ret<k>, with the function's own name, and with every parameter/local name used inside _decorator.py (%d names read from the source, also as **kwargs keys); 40%% of the functions are decorated after a same-named twin whose defaults are None) x callable kind (def, lambda, async def, generator, functools.wraps wrapper that records the raw call); parameters annotated with a class created per function; defaults replaced after decoration in 30%% x descriptor kind x typeguard/beartype; "
                           "per signature: positional and keyword binding calls, a call omitting defaults, an ill-typed call, a non-binding call. Oracle = the undecorated twin compiled from the same source: result object / exception class, number of body runs, ids of the received argument objects, __name__/__qualname__/__doc__/__module__/signature/iscoroutinefunction, descriptor type. "
                           "non-trivial = distinct well-typed binding call" % (len(cases), len(INTERNAL)))
    R.assumptions += ["object identity and functools.wraps are CPython's: observed, not proved"]
    sys.exit(R.finish())


if __name__ == "__main__":
    vf.guarded(PID, main)

"""C17 worker: verdicts depend on type, shape and dtype only; tracing equals eager.
JSON in {"cases": [...], "duck": bool}; case = {"params": [[name, dim, dtype] | [name, "int0d", value] ...], "ret": dim | null, "shapes": {name: shape}, "ret_from": name | null, "checker": ...}"""
import json, sys, io, contextlib, warnings


def classify(e):
    from jaxtyping import AnnotationError, TypeCheckError
    n = type(e).__name__
    if isinstance(e, AnnotationError):
        return "AnnotationError"
    if "Tracer" in n or "Concretization" in n:
        return "TRACER-FORCED:" + n
    if isinstance(e, TypeCheckError):
        c = e.__cause__
        seen = 0
        msg = str(e)
        while c is not None and seen < 10:
            if "Tracer" in type(c).__name__ or "Concretization" in type(c).__name__:
                return "TRACER-FORCED:" + type(c).__name__
            c = c.__cause__ or c.__context__; seen += 1
        if "Tracer" in msg and "Conversion" in msg:
            return "TRACER-FORCED:in-message"
        return "reject"
    return "other:" + n


def main():
    req = json.load(sys.stdin)
    buf = io.StringIO()
    with contextlib.redirect_stdout(buf), contextlib.redirect_stderr(io.StringIO()), warnings.catch_warnings():
        warnings.simplefilter("ignore")
        import numpy as np
        import jax, jax.numpy as jnp
        import typeguard, beartype
        import jaxtyping
        from jaxtyping import Array, Float, Int, Shaped, jaxtyped, PyTree
        res = []
        for case in req.get("cases", []):
            tc = typeguard.typechecked if case["checker"] == "typeguard" else beartype.beartype
            if case.get("kind") in ("kwargs", "dictarg"):
                # one annotation for every value of **kwargs / of a dict argument; the caller's key order is NOT sorted order, and jit /
                # vmap / eval_shape rebuild keyword arguments and dicts in sorted-key order: the verdict must not depend on that
                import typing as _ty
                annv = Float[Array, case["dim"]] if "dims" not in case else _ty.Union[tuple(Float[Array, d] for d in case["dims"])]
                if case["kind"] == "kwargs":
                    def f(**terms):
                        return 0.0
                    f.__annotations__ = {"terms": annv}
                else:
                    def f(terms):
                        return 0.0
                    f.__annotations__ = {"terms": dict[str, annv]}
                try:
                    fn = jaxtyped(typechecker=tc)(f)
                except BaseException as e:  # noqa
                    res.append({"decorate": type(e).__name__}); continue

                def mk(fill):
                    return {k: (jnp.zeros(tuple(sh), "float32") if fill == "zeros" else jnp.full(tuple(sh), 7.0 if fill == "alt" else jnp.nan, "float32")) for k, sh in case["kw"]}

                def call(g, d):
                    return g(**d) if case["kind"] == "kwargs" else g(d)

                def runk(how, d):
                    try:
                        if how == "eager":
                            call(fn, d)
                        elif how == "jit":
                            call(jax.jit(fn), d)
                        elif how == "eval_shape":
                            jax.eval_shape(fn, **d) if case["kind"] == "kwargs" else jax.eval_shape(fn, d)
                        elif how == "jit_of_jit":
                            call(jax.jit(jax.jit(fn)), d)
                        elif how == "vmap_all":
                            call(jax.vmap(fn), {k: jnp.stack([v, v]) for k, v in d.items()})
                        elif how == "jit_vmap":
                            call(jax.jit(jax.vmap(fn)), {k: jnp.stack([v, v]) for k, v in d.items()})
                        return "ok"
                    except BaseException as e:  # noqa
                        return classify(e)
                r = {"eager": {fill: runk("eager", mk(fill)) for fill in ("zeros", "alt", "nan")}}
                r["traced"] = {h: {fill: runk(h, mk(fill)) for fill in ("zeros", "alt")} for h in ("jit", "eval_shape", "jit_of_jit", "vmap_all", "jit_vmap")}
                res.append(r)
                continue
            if case.get("kind") == "mutated_node":
                # a registered, mutable pytree node (a dataclass with a list field) is checked eagerly, then EXTENDED IN PLACE and passed
                # again: the eager verdict is the one of the object as it is now, which is also what every transformation sees
                import dataclasses as _dc

                @_dc.dataclass
                class Model:
                    layers: list
                jax.tree_util.register_pytree_node(Model, lambda m: ((m.layers,), None), lambda aux, cs: Model(list(cs[0])))

                def f(model, x):
                    return x
                f.__annotations__ = {"model": PyTree[Float[Array, "n"]], "x": Float[Array, "n"]}
                fn = jaxtyped(typechecker=tc)(f)
                model = Model([jnp.ones(3), jnp.ones(3)])
                x = jnp.ones(3)

                def runm(how):
                    try:
                        if how == "eager":
                            fn(model, x)
                        elif how == "jit":
                            jax.jit(fn)(model, x)
                        elif how == "eval_shape":
                            jax.eval_shape(fn, model, x)
                        elif how == "eager_fresh_equal_object":
                            fn(Model(list(model.layers)), x)
                        return "ok"
                    except BaseException as e:  # noqa
                        return classify(e)
                first = runm("eager")
                model.layers.append(jnp.ones(case["extra"]))        # in place: the old leaves stay alive
                second = runm("eager")
                r = {"eager": {"zeros": second, "alt": second, "nan": second}, "first_eager": first,
                     "traced": {h: {"zeros": runm(h)} for h in ("jit", "eval_shape", "eager_fresh_equal_object")}}
                res.append(r)
                continue
            if case.get("kind") == "pytree_first_traced":
                # a function with a PyTree-of-arrays parameter whose FIRST EVER call is a traced one, under jax.checking_leaks():
                # checking must not keep tracers alive beyond the trace (nor behave differently from the eager call that follows)
                def f(t, x):
                    return x
                f.__annotations__ = {"t": PyTree[Float[Array, case["dim"]]], "x": Float[Array, case["dim"]], "return": Float[Array, case["dim"]]}
                fn = jaxtyped(typechecker=tc)(f)
                tree = lambda: {"a": jnp.zeros(tuple(case["leaf"]), "float32"), "b": (jnp.zeros(tuple(case["leaf"]), "float32"),)}
                xs = lambda: jnp.zeros(tuple(case["x"]), "float32")

                def runl(how):
                    try:
                        with jax.checking_leaks():
                            if how == "jit":
                                jax.jit(fn)(tree(), xs())
                            elif how == "eval_shape":
                                jax.eval_shape(fn, tree(), xs())
                            elif how == "grad":
                                jax.grad(lambda t, x: jnp.sum(fn(t, x)), argnums=1)(tree(), xs())
                            elif how == "vmap_all":
                                jax.vmap(fn)(jax.tree_util.tree_map(lambda a: jnp.stack([a, a]), tree()), jnp.stack([xs(), xs()]))
                            else:
                                fn(tree(), xs())
                        return "ok"
                    except BaseException as e:  # noqa
                        return classify(e) if "Leaked" not in str(e) else "LEAKED-TRACER"
                first = {h: {"zeros": runl(h)} for h in [case["first"]]}
                r = {"traced": first}
                r["eager"] = {fill: runl("eager") for fill in ("zeros", "alt", "nan")}
                r["traced"].update({h: {"zeros": runl(h)} for h in ("jit", "eval_shape", "grad", "vmap_all") if h != case["first"]})
                res.append(r)
                continue
            names = [p[0] for p in case["params"]]
            ann, vals_variants = {}, []
            for p in case["params"]:
                if p[1] == "int0d":
                    ann[p[0]] = Int[Array, ""]
                else:
                    ann[p[0]] = getattr(jaxtyping, p[3] if len(p) > 3 else "Float")[Array, p[1]]
            ret_from = case.get("ret_from")
            src = "def f(%s):\n    return %s\n" % (", ".join(names), ("%s * 1" % ret_from) if ret_from else "0.0")
            g = {}
            exec(src, g)
            f = g["f"]
            f.__annotations__ = dict(ann)
            if case.get("ret") is not None and ret_from:
                f.__annotations__["return"] = Float[Array, case["ret"]]
            try:
                fn = jaxtyped(typechecker=tc)(f)
            except BaseException as e:  # noqa
                res.append({"decorate": type(e).__name__}); continue

            def mkargs(fill):
                out = []
                for p in case["params"]:
                    if p[1] == "int0d":
                        out.append(jnp.asarray(p[2] if fill != "alt" else p[2] + 2, dtype="int32"))
                    else:
                        sh = tuple(case["shapes"][p[0]])
                        dt = p[2]
                        if fill == "zeros":
                            out.append(jnp.zeros(sh, dt))
                        elif fill == "alt":
                            out.append(jnp.full(sh, 7, dt))
                        else:
                            out.append(jnp.full(sh, jnp.nan, dt) if dt.startswith("float") else jnp.ones(sh, dt))
                return out

            def run(how, args):
                try:
                    if how == "eager":
                        fn(*args)
                    elif how == "jit":
                        jax.jit(fn)(*args)
                    elif how == "eval_shape":
                        jax.eval_shape(fn, *args)
                    elif how == "jit_of_jit":
                        jax.jit(jax.jit(fn))(*args)
                    elif how == "grad":
                        # differentiate w.r.t. the first float array argument of a scalarised wrapper
                        idx = next(i for i, p in enumerate(case["params"]) if p[1] != "int0d" and p[2].startswith("float"))
                        jax.grad(lambda *a: jnp.sum(jnp.asarray(fn(*a), "float32")) * 1.0, argnums=idx)(*args)
                    elif how == "vmap_all":
                        jax.vmap(fn)(*[jnp.stack([a, a]) for a in args])
                    elif how == "vmap_first":
                        in_axes = tuple(0 if i == 0 else None for i in range(len(args)))
                        jax.vmap(fn, in_axes=in_axes)(*[jnp.stack([a, a, a]) if i == 0 else a for i, a in enumerate(args)])
                    elif how == "jit_vmap":
                        jax.jit(jax.vmap(fn))(*[jnp.stack([a, a]) for a in args])
                    return "ok"
                except BaseException as e:  # noqa
                    return classify(e)
            r = {"eager": {fill: run("eager", mkargs(fill)) for fill in ("zeros", "alt", "nan")}}
            hows = ["jit", "eval_shape", "jit_of_jit", "vmap_all", "vmap_first", "jit_vmap"]
            if any(p[1] != "int0d" and p[2].startswith("float") for p in case["params"]):
                hows.append("grad")
            r["traced"] = {h: {fill: run(h, mkargs(fill)) for fill in ("zeros", "alt")} for h in hows}
            res.append(r)
        duck = None
        if req.get("duck"):
            # every access to a logging array-like during all check paths
            log = []

            class LoggingMeta(type):
                pass

            class Logged:
                def __init__(self, shape, dtype):
                    object.__setattr__(self, "_s", tuple(shape)); object.__setattr__(self, "_d", dtype)

                def __getattribute__(self, name):
                    if name not in ("_s", "_d", "__class__", "__dict__"):
                        log.append("get:" + name)
                    if name == "shape":
                        return object.__getattribute__(self, "_s")
                    if name == "dtype":
                        return object.__getattribute__(self, "_d")
                    return object.__getattribute__(self, name)
                for _dn in ("__bool__", "__int__", "__index__", "__float__", "__len__", "__iter__", "__array__", "__eq__", "__hash__", "__getitem__", "__lt__", "__add__", "__jax_array__"):
                    exec("def %s(self, *a, **k):\n    log.append('call:%s')\n    raise TypeError('forced')" % (_dn, _dn))
            from typing import Any
            anns = [Float[Any, "a b"], Float[Any, "*v a"], Float[Any, "#a 3"], Float[Any, "a+1 a"], Shaped[Any, "..."], Float[Logged, "a b"], Int[Any, "a"], Float[Any, "_ b"], Float[Any, "*#v"], PyTree[Float[Any, "a b"]], PyTree[Float[Any, "?a b"], "T"]]
            for a in anns:
                for sh in [(2, 3), (3,), (2, 2, 3)]:
                    with jaxtyped("context"):
                        try:
                            isinstance(Logged(sh, "float32"), a)
                            isinstance((Logged(sh, "float32"), Logged(sh, "float32")), a)
                        except BaseException as e:  # noqa
                            log.append("exc:" + type(e).__name__)
            @jaxtyped(typechecker=typeguard.typechecked)
            def h(x: Float[Any, "a b"], y: Float[Any, "b"]) -> Float[Any, "a"]:
                return Logged((x.shape[0],), "float32")
            try:
                h(Logged((2, 3), "float32"), Logged((3,), "float32"))
                h(Logged((2, 3), "float32"), Logged((4,), "float32"))
            except BaseException as e:  # noqa
                log.append("exc:" + type(e).__name__)
            duck = sorted(set(log))
    print(json.dumps({"results": res, "duck_log": duck}))


if __name__ == "__main__":
    main()

"""C08 -- PyTree[L] accepts exactly the trees all of whose leaves match L."""
import json, os, sys
sys.path.insert(0, os.path.join(os.path.dirname(os.path.abspath(__file__)), "..", "lib"))
import vf, gen_trees as T

PID = "C08"
SIZES = {"a": 2, "b": 3, "c": 4}


def arr_leaf(rng, good=.8):
    kind = rng.choice(["a", "a b", "*v a", "b", "*#w a"])
    shape = []
    for tok in kind.split():
        if tok == "*#w":
            shape += rng.choice([[5, 6], [1, 6], [5, 1], [1, 1], [6], [1]]) if rng.random() < good else [4, 6]
        elif tok == "*v":
            shape += [5, 6] if rng.random() < good else [5]
        else:
            shape.append(SIZES[tok] if rng.random() < good else 7)
    return kind, shape


LEAFTYPES = ["int", "str", "any", ["tuple", ["int", "int"]], ["union", ["int", "str"]], ["union", [["tuple", ["int", "int"]], "str"]],
             ["arr", "Float", "a"], ["arr", "Float", "a b"], ["arr", "Float", "*v a"], ["arr", "Int", "a"],
             ["union", [["arr", "Float", "a b"], ["arr", "Float", "b"]]], ["union", ["int", ["arr", "Float", "a"]]],
             ["tuple", [["arr", "Float", "a"], ["arr", "Float", "a b"]]], ["tuple", ["int", "str"]],
             ["arr", "Float", "a", "any"], ["arr", "Shaped", "a b", "any"], "tpair", "tpair",
             ["arr", "Float", "*#w a"], ["arr", "Float", "*#w a"], ["union", [["arr", "Float", "*#w a"], "int"]]]


def leaf_value(rng, lt):
    """mostly a value matching the leaf type lt, sometimes something else"""
    r = rng.random()
    if lt == "tpair":
        # a NamedTuple class with array-annotated fields (x: Float "a", y: Float "a b"): leaves are instances of that class
        if r < .1:
            return rng.choice([["i", 3], ["s", "x"], ["o"]])
        a = SIZES["a"] if rng.random() < .85 else 7
        return ["N", "TPair", [["a", [a], "float32"], ["a", [SIZES["a"] if rng.random() < .85 else 7, SIZES["b"] if rng.random() < .85 else 7], "float32" if rng.random() < .9 else "int32"]]]
    if r < .12:
        return rng.choice([["i", 3], ["s", "x"], ["o"], ["b", True], ["a", [2], "float32"], ["a", [2, 3], "int32"]])
    if lt == "int":
        return rng.choice([["i", rng.randrange(5)], ["b", False]])
    if lt == "str":
        return ["s", rng.choice(["x", "yy"])]
    if lt == "any":
        return rng.choice([["i", 1], ["s", "q"], ["o"]])
    if lt == "pytree":
        return ["i", 0]
    if lt[0] == "tuple":
        return rng.choice([["t", [leaf_value(rng, x) for x in lt[1]]]] * 4 + [["N", "P", [leaf_value(rng, x) for x in lt[1]]]] if len(lt[1]) == 2 else [["t", [leaf_value(rng, x) for x in lt[1]]]])
    if lt[0] == "union":
        return leaf_value(rng, rng.choice(lt[1]))
    if lt[0] == "arr":
        shape = []
        for tok in lt[2].split():
            if tok == "*#w":
                # broadcastable variadic: a later leaf may WIDEN the binding an earlier one made (1 -> 5); sometimes incompatible
                shape += rng.choice([[5, 6], [1, 6], [5, 1], [1, 1], [6], [1], [5, 6]]) if rng.random() < .85 else [4, 6]
            elif tok == "*v":
                shape += [5, 6] if rng.random() < .85 else [5]
            else:
                shape.append(SIZES[tok] if rng.random() < .85 else 7)
        dt = "float32" if lt[1] in ("Float", "Shaped") or rng.random() < .1 else "int32"
        if len(lt) > 3 and rng.random() < .6:
            return ["K", shape, dt]
        return ["a", shape, dt]
    if lt[0] == "pytree":
        return leaf_value(rng, lt[1])
    return ["o"]


def gen_session(rng):
    steps = []
    # 0-2 prior array checks populate the context
    for _ in range(rng.choice([0, 0, 1, 2])):
        d, sh = arr_leaf(rng, good=.9)
        steps.append({"kind": "arr", "cat": "Float", "dim": d, "shape": sh, "dtype": "float32"})
    lt = rng.choice(LEAFTYPES)
    x = T.gen_tree(rng, rng.choice([0, 1, 2, 3, 4]), lambda r: leaf_value(r, lt))
    wrap = rng.choice([0, 0, 1, 2])
    l = lt
    for _ in range(wrap):
        l = ["pytree", l, None]
    steps.append({"kind": "tree", "leaf": l, "structure": None, "value": x})
    # the same value against the un-nested / nested form: PyTree[L] == PyTree[PyTree[L]]
    other = lt if wrap else ["pytree", lt, None]
    steps.append({"kind": "tree", "leaf": other, "structure": None, "value": x})
    if rng.random() < .3:
        d, sh = arr_leaf(rng, good=.7)
        steps.append({"kind": "arr", "cat": "Float", "dim": d, "shape": sh, "dtype": "float32"})
    return {"nocontext": rng.random() < .05, "steps": steps}


def S(*steps):
    return {"nocontext": False, "steps": list(steps)}


def tree_step(leaf, value, structure=None):
    return {"kind": "tree", "leaf": leaf, "structure": structure, "value": value}


CORPUS = [
    # a union leaf type whose first alternative fails at the shape stage (its roll-back replaces the live dictionaries) and whose
    # second alternative then binds a NEW name: the accepted tree's bindings are part of the context afterwards
    S(tree_step(["union", [["arr", "Float", "a"], ["arr", "Float", "a b"]]], ["t", [["a", [3, 4], "float32"]]]), {"kind": "arr", "dim": "b", "shape": [5]}),
    S(tree_step(["union", [["arr", "Float", "a b"], ["arr", "Float", "b"]]], ["l", [["a", [3], "float32"], ["a", [2, 3], "float32"]]]), {"kind": "arr", "dim": "a", "shape": [9]}),
    S({"kind": "arr", "dim": "c", "shape": [4]}, tree_step(["pytree", ["union", [["arr", "Float", "a"], ["arr", "Float", "a b"]]], None], ["d", {"x": ["a", [2, 3], "float32"], "y": ["a", [2], "float32"]}]), {"kind": "arr", "dim": "b", "shape": [3]}, {"kind": "arr", "dim": "b", "shape": [7]}),
    # a broadcastable variadic axis bound before the tree; one leaf widens it, a later leaf fails: the rejected tree must leave (1,4)
    S({"kind": "arr", "dim": "*#w", "shape": [1, 4]}, tree_step(["arr", "Float", "*#w"], ["t", [["a", [3, 4], "float32"], ["a", [2, 4], "float32"]]]), {"kind": "arr", "dim": "*#w", "shape": [2, 4]}),
    S({"kind": "arr", "dim": "*#w a", "shape": [1, 6, 2]}, tree_step(["pytree", ["arr", "Float", "*#w a"], None], ["l", [["a", [5, 6, 2], "float32"], ["i", 3]]]), {"kind": "arr", "dim": "*#w a", "shape": [4, 6, 2]}),
    S(tree_step("int", ["t", [["n"], ["i", 1], ["t", []], ["d", {}]]])),
    S(tree_step(["tuple", ["int", "int"]], ["t", [["i", 1], ["i", 2]]])),
    S(tree_step(["tuple", ["int", "int"]], ["l", [["t", [["i", 1], ["i", 2]]], ["N", "P", [["i", 1], ["i", 2]]], ["t", [["i", 1]]]]])),
    S(tree_step(["arr", "Float", "a"], ["t", [["a", [2], "float32"], ["a", [3], "float32"]]])),
    S(tree_step(["arr", "Float", "a"], ["t", [["a", [2], "float32"], ["a", [2], "float32"]]]), {"kind": "arr", "dim": "a", "shape": [3]}),
    S({"kind": "arr", "dim": "a", "shape": [3]}, tree_step(["arr", "Float", "a b"], ["d", {"w": ["a", [3, 4], "float32"], "b": ["a", [3, 5], "float32"]}]), {"kind": "arr", "dim": "b", "shape": [9]}),
    # the bare PyTree accepts EVERYTHING, also what JAX cannot flatten
    S(tree_step(None, ["M", [["i", 1], ["i", 2]]])), S(tree_step(None, ["t", [["i", 1], ["M", [["s", "x"], ["o"]]]]])), S(tree_step(None, ["F"])), S(tree_step(None, ["l", [["F"], ["i", 3]]])),
    S(tree_step(None, ["o"])), S(tree_step("any", ["t", [["o"], ["n"]]])), S(tree_step("int", ["n"])), S(tree_step("str", ["n"])),
    S(tree_step("int", ["C", [["i", 1], ["l", [["i", 2]]]]])), S(tree_step("int", ["C", [["s", "x"]]])),
    S(tree_step(["pytree", "int", None], ["t", [["i", 1], ["l", [["i", 2], ["s", "x"]]]]])),
    S(tree_step(["pytree", ["arr", "Float", "a b"], None], ["t", [["a", [2, 3], "float32"], ["l", [["a", [2, 4], "float32"]]]]])),
    S(tree_step(["pytree", ["pytree", ["arr", "Float", "a"], None], None], ["t", [["a", [2], "float32"], ["a", [2], "float32"]]]), {"kind": "arr", "dim": "a", "shape": [2]}),
    S(tree_step(["union", [["arr", "Float", "a b"], ["arr", "Float", "b"]]], ["t", [["a", [3], "float32"], ["a", [2, 3], "float32"], ["a", [2, 4], "float32"]]])),
    S(tree_step(["arr", "Float", "a"], ["t", [["a", [2], "float32"], ["a", [2], "int32"]]])),
    S(tree_step(["arr", "Float", "a", "any"], ["t", [["K", [2], "float32"], ["a", [2], "float32"]]]), {"kind": "arr", "dim": "a", "shape": [2]}),
    S({"kind": "arr", "dim": "a", "shape": [2]}, tree_step(["arr", "Shaped", "a", "any"], ["t", [["K", [4], "float32"]]])),
    S(tree_step(["pytree", ["arr", "Float", "a", "any"], None], ["K", [3], "float32"])),
    S(tree_step(["arr", "Float", "a"], ["i", 3])), S(tree_step(["arr", "Float", "a"], ["a", [4], "float32"])),
    # leaf type = NamedTuple class with array-annotated fields: the fields bind and compare axes like any other array leaf
    S(tree_step("tpair", ["l", [["N", "TPair", [["a", [2], "float32"], ["a", [2, 3], "float32"]]], ["N", "TPair", [["a", [2], "float32"], ["a", [2, 3], "float32"]]]]]), {"kind": "arr", "dim": "b", "shape": [3]}),
    S(tree_step("tpair", ["l", [["N", "TPair", [["a", [2], "float32"], ["a", [2, 3], "float32"]]], ["N", "TPair", [["a", [4], "float32"], ["a", [4, 3], "float32"]]]]])),
    S(tree_step("tpair", ["t", [["N", "TPair", [["a", [2], "float32"], ["a", [5, 3], "float32"]]]]])),
    S({"kind": "arr", "dim": "a", "shape": [9]}, tree_step(["pytree", "tpair", None], ["N", "TPair", [["a", [2], "float32"], ["a", [2, 3], "float32"]]])),
]


def main():
    R = vf.Report(PID)
    proved = R.proof_step()
    n = 80000 if R.thorough else 1500
    sessions = list(CORPUS) + [gen_session(R.rng) for _ in range(n)]
    nw = 8
    chunks = [sessions[i::nw] for i in range(nw)]
    from concurrent.futures import ThreadPoolExecutor
    with ThreadPoolExecutor(nw) as ex:
        outs = list(ex.map(lambda kc: vf.impl("impl_pytree.py", {"sessions": kc[1], "prelude": kc[0] % 2 == 1}, bg=(kc[0] % 4 == 2)), list(enumerate(chunks))))   # odd workers: after unrelated failing/raising PyTree checks
    impl = [None] * len(sessions)
    for w, o in enumerate(outs):
        for j, r in enumerate(o):
            impl[w + j * nw] = r
    model = vf.coq_eval_strings(["model.PyTreeCheck"], T.RUN, [T.session_coq(s) for s in sessions], shard=300)
    nontriv, samples, nchecks = set(), [], 0
    for idx, (sess, r, mline) in enumerate(zip(sessions, impl, model)):
        msteps = mline.split(" | ")
        tree_verdicts = []
        memo_diverged = False
        for j, (st, ir, m) in enumerate(zip(sess["steps"], r["steps"], msteps)):
            nchecks += 1
            small = dict(sess, steps=sess["steps"][:j + 1])
            if ir["build"] != "ok":
                R.violation("correspondence", "annotation could not be built: %s" % ir["build"], {"session": small}, key={"kind": "build"}, no_input=True); break
            v = ir["verdict"]
            R.count("verdict:" + v)
            if st["kind"] == "tree":
                tree_verdicts.append((v, ir["memo"]))
                if st["leaf"] is None and v != "acc":
                    R.violation("property", "bare PyTree rejected a value", {"session": small}, key={"kind": "bare"})
                if st["value"] == ["n"] and v != "acc":
                    R.violation("property", "a top-level None was not accepted by PyTree[%s]" % (st["leaf"],), {"session": small}, key={"kind": "none"})
            if v != "acc" and not ir["unchanged"]:
                R.violation("property", "a rejected/raising check changed the bindings: before `%s` after `%s`" % (ir["before"], ir["memo"]), {"session": small, "step": j}, key={"kind": "not-restored"})
            if v == "acc" and ir.get("idem") is False:
                R.violation("property", "repeating an accepted check did not pass again with equal bindings (from `%s`)" % ir["before"], {"session": small, "step": j}, key={"kind": "not-idempotent"})
            got = "%s %s" % (v, ir["memo"])
            if got != m:
                vd = v != m.split(" ")[0]
                if not vd and memo_diverged:
                    continue          # (bindings already reported as different; keep going to see whether a VERDICT goes wrong because of it)
                R.violation("property" if (vd and (proved or memo_diverged)) else "correspondence",
                            "step %d: isinstance(%s, PyTree[%s]) -> implementation `%s`, model `%s`%s" % (j, json.dumps(st.get("value", st.get("shape"))), json.dumps(st.get("leaf", st.get("dim"))), got, m,
                                                                                                    " (the bindings had already come out different at an earlier step of this session)" if memo_diverged else ""),
                            {"session": small, "step": j, "impl": got, "model": m}, key={"kind": "verdict" if vd else "memo"}, no_input=not vd)
                if vd:
                    break
                memo_diverged = True          # bindings differ but the verdict does not (yet): the following steps of the session decide
        # PyTree[L] and PyTree[PyTree[L]] accept the same values with the same bindings (model-independent)
        if len(tree_verdicts) >= 2 and idx >= len(CORPUS):
            a, b = tree_verdicts[0], tree_verdicts[1]
            if a[0] != b[0] or (a[0] == "acc" and a[1] != b[1]):
                R.violation("property", "PyTree[L] and PyTree[PyTree[L]] disagree on the same value in the same context: %s vs %s" % (a, b), {"session": sess}, key={"kind": "nested-differs"})
        if r["flags"]["path"] is not None or r["flags"]["flat"]:
            R.violation("property", "transient check state outlived the checks: %s" % r["flags"], {"session": sess}, key={"kind": "flags"})
        if any(s["kind"] == "tree" and json.dumps(s["value"]).count("[") > 4 for s in sess["steps"]):
            nontriv.add(json.dumps(sess, sort_keys=True))
        if len(samples) < 4 and idx >= len(CORPUS) and idx % 11 == 0:
            samples.append({"session": sess, "impl": [x.get("verdict") for x in r["steps"]]})
    # the statements the translator cut out of the source, run by CPython with scripted stand-ins, against their translation
    # interpreted inside Coq (lib/storage_corr.py)
    import storage_corr
    R.coverage["source_fragment_cases"] = storage_corr.fragment_correspondence(R, ['pytreetail'], 600 if R.thorough else 60)
    if not proved:
        R.violation("proof", "proof obligations of props/C08.v no longer check: " + str(R.broken_proof)[-800:],
                    {"theorem_file": "coq/props/C08.v", "log": R.broken_proof}, no_input=not any(v["kind"] == "property" for v in R.violations))
    R.coverage.update(evaluations=nchecks, distinct_nontrivial=len(nontriv), samples=samples, sessions=len(sessions),
                      rule="%d corpus + %d PRNG sessions: 0-2 prior array checks, then a random tree (depth <= 4 over tuple/list/dict with shuffled keys/None/namedtuples/registered node/empty containers) checked against PyTree[L] and against the nested/un-nested twin, L among %d leaf types "
                           "(int, str, Any, tuple[...], unions, array annotations with named/variadic axes, tuples/unions of arrays), leaves mostly matching. Compared with the model: verdict and full bindings after every check. "
                           "Model-independent: twin agreement, rollback on rejection, idempotence, flags cleared. non-trivial = session whose tree has > 4 nodes" % (len(CORPUS), n, len(LEAFTYPES)))
    R.assumptions += ["typeguard forms outside the leaf grammar and JAX node kinds beyond tuple/list/dict/None/namedtuple/registered class are not modelled"]
    sys.exit(R.finish())


if __name__ == "__main__":
    vf.guarded(PID, main)

"""One run of the interpreter over a forest with a shared __pycache__ (C18).
argv: forest_dir config_json.  config = {"hooked": {module: "A"|"B"|null-checker...}, "groups": [[names, checker]...], "order": [modules]}
Prints one JSON line: {"executed": {module: {"kind": "plain"|"hooked:<K>"|"hooked:None", "version": n}}, "pycs": [...]}"""
import importlib, json, sys, os, glob


def observe(cfg, spyreg):
    out = {}
    for name in cfg["modules"]:
        mod = sys.modules.get(name)
        if mod is None:
            continue
        f = mod.f
        wrapped = hasattr(f, "__wrapped__")
        who = sorted({k for (mm, q, k) in spyreg.LOG if mm == name})
        kind = ("hooked:%s" % (who[0] if len(who) == 1 else "None" if not who else who)) if wrapped else ("plain" if not who else "plain-but-spied")
        out[name] = {"kind": kind, "version": mod.VERSION}
    return out


def main():
    forest, cfg = sys.argv[1], json.loads(sys.argv[2])
    sys.dont_write_bytecode = False             # the sandbox exports PYTHONDONTWRITEBYTECODE=1
    sys.path.insert(0, forest)
    import spyreg
    from jaxtyping import install_import_hook
    managers = []
    for names, chk in cfg["groups"]:
        managers.append(install_import_hook(names, None if chk is None else "spy%s.check" % chk))
    for m in cfg["order"]:
        try:
            importlib.import_module(m)
        except Exception as e:  # noqa
            print(json.dumps({"error": "import %s failed: %s: %s" % (m, type(e).__name__, e)})); return
    res = {"executed": observe(cfg, spyreg)}
    then = cfg.get("then")
    if then is not None:
        # same interpreter, hooks removed, (optionally) sources edited, the forest's modules dropped from sys.modules and imported
        # again by the ordinary machinery: nothing may be instrumented now, and what this leaves in the cache is judged by later runs
        for mg in managers:
            mg.uninstall()
        for rel, text, stamp in then["writes"]:
            p = os.path.join(forest, rel)
            open(p, "w").write(text)
            os.utime(p, (stamp, stamp))
        for name in list(sys.modules):
            if name in cfg["modules"] or name == "frag":
                del sys.modules[name]
        importlib.invalidate_caches()
        del spyreg.LOG[:]
        for m in then["order"]:
            try:
                importlib.import_module(m)
            except Exception as e:  # noqa
                print(json.dumps({"error": "un-hooked re-import of %s failed: %s: %s" % (m, type(e).__name__, e)})); return
        res["executed2"] = observe(cfg, spyreg)
    res["pycs"] = sorted(os.path.relpath(p, forest) for p in glob.glob(forest + "/**/*.pyc", recursive=True))
    print(json.dumps(res))


if __name__ == "__main__":
    main()

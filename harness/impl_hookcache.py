"""One run of the interpreter over a forest with a shared __pycache__ (C18).
argv: forest_dir config_json.  config = {"hooked": {module: "A"|"B"|null-checker...}, "groups": [[names, checker]...], "order": [modules]}
Prints one JSON line: {"executed": {module: {"kind": "plain"|"hooked:<K>"|"hooked:None", "version": n}}, "pycs": [...]}"""
import importlib, json, sys, os, glob


def main():
    forest, cfg = sys.argv[1], json.loads(sys.argv[2])
    sys.dont_write_bytecode = False             # the sandbox exports PYTHONDONTWRITEBYTECODE=1
    sys.path.insert(0, forest)
    import spyreg
    from jaxtyping import install_import_hook
    for names, chk in cfg["groups"]:
        install_import_hook(names, None if chk is None else "spy%s.check" % chk)
    for m in cfg["order"]:
        try:
            importlib.import_module(m)
        except Exception as e:  # noqa
            print(json.dumps({"error": "import %s failed: %s: %s" % (m, type(e).__name__, e)})); return
    out = {}
    for name in cfg["modules"]:
        mod = sys.modules.get(name)
        if mod is None:
            continue
        f = mod.f
        wrapped = hasattr(f, "__wrapped__")
        who = sorted({k for (mm, q, k) in spyreg.LOG if mm == name})
        kind = ("hooked:%s" % (who[0] if len(who) == 1 else "None" if not who else who)) if wrapped else ("plain" if not who else "plain-but-spied")
        out[name] = {"kind": kind, "version": mod.VERSION}
    pycs = sorted(os.path.relpath(p, forest) for p in glob.glob(forest + "/**/*.pyc", recursive=True))
    print(json.dumps({"executed": out, "pycs": pycs}))


if __name__ == "__main__":
    main()

"""Implementation-side worker for decorated calls (C02, C13, C17).
JSON on stdin: {"cases": [case...]}; case = {"params": [{"name","dim","cat"}...], "ret": {"dim","cat"} | null,
  "shapes": {name: [..]}, "dtypes": {name: str}, "ret_shape": [...], "ret_dtype": str,
  "variants": [{"order": [names...], "call": "pos"|"kw", "checker": "typeguard"|"beartype", "style": "new"|"old"|"dataclass"}...]}
-> per case, per variant: {"outcome": "ok"|"reject"|"raise:AnnotationError"|"other:<cls>", "msg": str}
"""
import json, sys, io, contextlib, dataclasses, warnings


def classify(e):
    from jaxtyping import AnnotationError, TypeCheckError
    if isinstance(e, AnnotationError):
        return "raise:AnnotationError"
    if isinstance(e, TypeCheckError):
        return "reject"
    n = type(e).__name__
    if isinstance(e, TypeError) or "Violation" in n:
        # old-style double decoration: the typechecker's own error type.  An AnnotationError raised inside
        # isinstance is wrapped by neither checker, so it is reported above.
        return "reject"
    return "other:" + n


def get_checker(name):
    if name == "typeguard":
        import typeguard
        return typeguard.typechecked
    import beartype
    return beartype.beartype


def build_fn(case, var):
    import numpy as np
    import jaxtyping
    from jaxtyping import jaxtyped
    order = var["order"]
    by = {p["name"]: p for p in case["params"]}
    ann = {n: make_annotation(by[n]) for n in order}          # (also unions of array annotations)
    ret = case.get("ret")
    retv = np.zeros(tuple(case["ret_shape"]), dtype=case.get("ret_dtype", "float32")) if ret else None
    tc = get_checker(var["checker"])
    if var["style"] == "dataclass":
        ns = {"__annotations__": dict(ann)}
        cls = type("D", (), ns)
        cls = jaxtyped(typechecker=tc)(dataclasses.dataclass(cls))
        return cls
    src = "def f(%s):\n    return RET\n" % ", ".join(order)
    g = {"RET": retv}
    exec(src, g)
    f = g["f"]
    f.__annotations__ = dict(ann)
    if ret:
        f.__annotations__["return"] = getattr(jaxtyping, ret["cat"])[np.ndarray, ret["dim"]]
    if var["style"] == "new":
        return jaxtyped(typechecker=tc)(f)
    with warnings.catch_warnings():
        warnings.simplefilter("ignore")
        return jaxtyped(tc(f))


def run_case(case):
    import numpy as np
    out = []
    vals = {n: np.zeros(tuple(case["shapes"][n]), dtype=case.get("dtypes", {}).get(n, "float32")) for n in case["shapes"]}
    for var in case["variants"]:
        try:
            fn = build_fn(case, var)
        except BaseException as e:  # noqa
            out.append({"outcome": "build:" + type(e).__name__, "msg": str(e)[:300]}); continue
        try:
            if var["call"] == "pos":
                fn(*[vals[n] for n in var["order"]])
            else:
                fn(**{n: vals[n] for n in reversed(var["order"])})
            out.append({"outcome": "ok", "msg": ""})
        except BaseException as e:  # noqa
            out.append({"outcome": classify(e), "msg": str(e)[:1500]})
    return out


# ---------------------------------------------------------------- C13: error reports
import re as _re


def parse_message(msg):
    stage = "params" if "whilst checking the parameters of" in msg else "return" if "whilst checking the return value" in msg else "?"
    m = _re.search(r"typechecking parameter '([^']*)'", msg)
    blamed = m.group(1) if m else None
    m = _re.search(r"(?:parameters|return value) of ([\w.<>]+?)\.?\n", msg)
    fn = m.group(1) if m else None
    axes, structs = parse_bindings(msg)
    return {"stage": stage, "blamed": blamed, "fn": fn, "axes": axes, "structs": structs}


def parse_bindings(text):
    axes, structs, mode = [], [], None
    for ln in text.split("\n"):
        if ln.startswith("The current values for each jaxtyping axis annotation"):
            mode = "axis"; continue
        if ln.startswith("The current values for each jaxtyping PyTree structure annotation"):
            mode = "tree"; continue
        if mode == "axis" and "=" in ln:
            axes.append(ln.replace(" ", "").replace(",)", ")"))
        elif mode == "tree" and "=" in ln:
            structs.append(ln)
    return axes, structs


def make_annotation(p):
    import numpy as np, jaxtyping, typing
    if "pytree" in p:
        import impl_pytree
        lt = impl_pytree.build_leaf(p["pytree"]["leaf"])
        return jaxtyping.PyTree[lt] if p["pytree"].get("structure") is None else jaxtyping.PyTree[lt, p["pytree"]["structure"]]
    if "union" in p:
        return typing.Union[tuple(getattr(jaxtyping, p["cat"])[np.ndarray, d] for d in p["union"])]
    return getattr(jaxtyping, p["cat"])[np.ndarray, p["dim"]]


def check_value(val, p):
    import numpy as np, jaxtyping
    if p.get("vararg"):
        q = {k: v for k, v in p.items() if k != "vararg"}
        return all(check_value(v, q) for v in val)
    if "pytree" in p:
        return isinstance(val, make_annotation(p))
    dims = p["union"] if "union" in p else [p["dim"]]
    return any(isinstance(val, getattr(jaxtyping, p["cat"])[np.ndarray, d]) for d in dims)


def run_error_case(case):
    import numpy as np
    import jaxtyping
    from jaxtyping import jaxtyped, config, AnnotationError, TypeCheckError
    from jaxtyping import _decorator, _storage
    out = []
    vals = {n: np.zeros(tuple(case["shapes"][n]), dtype=case.get("dtypes", {}).get(n, "float32")) for n in case["shapes"]}
    order = [p["name"] for p in case["params"]]
    by = {p["name"]: p for p in case["params"]}
    ints = case.get("ints", {})
    vals.update(ints)
    for p in case["params"]:
        if "pytree" in p:
            import impl_pytree
            vals[p["name"]] = impl_pytree.build_value(p["value"])
        if p.get("vararg"):
            vals[p["name"]] = tuple(np.zeros(tuple(sh), dtype="float32") for sh in p["shapes"])      # def f(.., *rest: Float[.., dim])
    for var in case["variants"]:
        live = []
        orig = _storage.shape_str

        def spy(memos):
            live.append(orig(_storage.get_shape_memo()))
            return orig(memos)

        _decorator.shape_str = spy
        config.update("jaxtyping_remove_typechecker_stack", bool(var.get("remove_stack")))
        try:
            ann = {n: make_annotation(by[n]) for n in order}
            ret = case.get("ret")
            retv = np.zeros(tuple(case["ret_shape"]), dtype=case.get("ret_dtype", "float32")) if ret else None
            if ret and "pytree" in ret:
                import impl_pytree
                retv = impl_pytree.build_value(ret["value"])
            # optionally a parameter annotated with a class that is created afresh for every function but always has the same
            # name and repr-able signature text (as a class defined inside a factory, or a re-run notebook cell, has)
            lc = case.get("local_class")
            allnames = list(ints) + (["cfg"] if lc == "first" else []) + order + (["cfg"] if lc == "last" else [])
            Config = type("Config", (), {})
            if lc:
                vals["cfg"] = Config()
            # optionally the parameters from some position on have defaults, and the caller passes those very objects explicitly
            # (f(x, y=Y0) called as f(x, Y0)): an explicitly passed value is checked like any other
            g = {"RET": retv}
            sig = list(allnames)
            if case.get("defaults") is not None and order:
                k0 = allnames.index(order[min(case["defaults"], len(order) - 1)])
                for i in range(k0, len(allnames)):
                    g["DEF_" + allnames[i]] = vals[allnames[i]]
                    sig[i] = "%s=DEF_%s" % (allnames[i], allnames[i])
            sig = [("*" + x) if by.get(x, {}).get("vararg") else x for x in sig]
            src = "def fname(%s):\n    return RET\n" % ", ".join(sig)
            exec(src, g)
            f = g["fname"]
            f.__annotations__ = dict(ann)
            f.__annotations__.update({k: int for k in ints})
            if lc:
                f.__annotations__["cfg"] = Config
            if ret:
                f.__annotations__["return"] = make_annotation(ret)
            fn = jaxtyped(typechecker=get_checker(var["checker"]))(f)
            r = {"outcome": "ok"}
            try:
                fn(*[v for n in allnames for v in (vals[n] if by.get(n, {}).get("vararg") else (vals[n],))])
            except AnnotationError as e:
                r = {"outcome": "raise:AnnotationError", "is_typeerror": isinstance(e, TypeError)}
            except TypeCheckError as e:
                r = {"outcome": "TypeCheckError", "is_typeerror": isinstance(e, TypeError), "has_cause": e.__cause__ is not None,
                     "suppress": bool(e.__suppress_context__)}
                r.update(parse_message(str(e)))
                la, ls = parse_bindings(live[-1] if live else "")
                r["live"], r["live_structs"] = la, ls
                # oracle for "exactly the bindings in force when the failure was detected, none taken from the check that
                # failed": what a fresh context holds after the checks that PASSED before the failure (all parameters for a
                # return failure, the predecessors of the blamed parameter otherwise)
                try:
                    with jaxtyped("context"):
                        _storage.get_shape_memo()[3].update(vals)
                        okall = True
                        for n in order:
                            if r["stage"] == "params" and n == r["blamed"]:
                                break
                            okall = okall and check_value(vals[n], by[n])
                        ea, es = parse_bindings(orig(_storage.get_shape_memo()))
                    r["expected_axes"], r["expected_structs"], r["expected_valid"] = ea, es, bool(okall) and (r["stage"] == "return" or r["blamed"] in by)
                except Exception as e2:  # noqa
                    r["expected_valid"] = False
                # oracle for "names a parameter": when no parameter is named at the parameter stage, is there one that fails
                # after its predecessors pass (fresh context)?
                if r["stage"] == "params" and r["blamed"] is None:
                    ff = None
                    try:
                        with jaxtyped("context"):
                            _storage.get_shape_memo()[3].update(vals)
                            for n in order:
                                if not check_value(vals[n], by[n]):
                                    ff = n; break
                    except Exception:  # noqa
                        ff = None
                    r["first_failing"] = ff
                if r["blamed"] is not None and r["blamed"] in by:
                    with jaxtyped("context"):
                        _storage.get_shape_memo()[3].update(vals)
                        okpre = True
                        for n in order:
                            if n == r["blamed"]:
                                break
                            try:
                                okpre = okpre and check_value(vals[n], by[n])
                            except Exception:
                                okpre = False
                        try:
                            bad = not check_value(vals[r["blamed"]], by[r["blamed"]])
                        except Exception:
                            bad = True
                    r["blame_pre_pass"], r["blame_fails"] = bool(okpre), bool(bad)
            except BaseException as e:  # noqa
                r = {"outcome": "other:" + type(e).__name__, "msg": str(e)[:300]}
            out.append(r)
        finally:
            _decorator.shape_str = orig
            config.update("jaxtyping_remove_typechecker_stack", False)
    return out


def prelude():
    """unrelated earlier activity in the process: checks that fail or whose user code raises (C12); afterwards calls must behave as in a fresh process"""
    import numpy as np
    import jax.tree_util as jtu
    from jaxtyping import Float, PyTree, jaxtyped

    class Boom(BaseException):
        pass

    class FaultyNode:
        def __init__(self, exc):
            self.exc = exc
    def _flat(n):
        raise n.exc
    jtu.register_pytree_node(FaultyNode, _flat, lambda aux, cs: None)

    class RaisingMeta(type):
        def __instancecheck__(cls, obj):
            raise RuntimeError("leaf check")
    class Leafy(metaclass=RaisingMeta):
        pass
    ops = [lambda: isinstance((np.zeros((3,), "float32"), np.zeros((4,), "float32")), PyTree[Float[np.ndarray, "q"], "T"]),
           lambda: isinstance((Leafy(),), PyTree[Leafy, "T"]),
           lambda: isinstance((1, FaultyNode(Boom("flatten"))), PyTree[Float[np.ndarray, "a"], "T"]),
           lambda: isinstance((1, FaultyNode(RuntimeError("flatten"))), PyTree[int]),
           lambda: isinstance((np.zeros((3,), "float32"),), PyTree[Float[np.ndarray, "dim+1"], "S"]),
           lambda: isinstance((1, FaultyNode(RuntimeError("flatten"))), PyTree[int]),
           # flatten itself fails inside JAX: unsortable dictionary keys
           lambda: isinstance({1: np.zeros((3,), "float32"), "one": np.zeros((3,), "float32")}, PyTree[Float[np.ndarray, "a"]]),
           lambda: isinstance((np.zeros((2,), "float32"), FaultyNode(KeyboardInterrupt())), PyTree[Float[np.ndarray, "a"]]),
           lambda: isinstance([FaultyNode(GeneratorExit())], PyTree[PyTree[Float[np.ndarray, "a"]]])]
    for o in ops:
        for ctx in (False, True):
            try:
                if ctx:
                    with jaxtyped("context"):
                        o()
                else:
                    o()
            except BaseException:  # noqa
                pass


def main():
    req = json.load(sys.stdin)
    if req.get("prelude"):
        import warnings as _w
        with _w.catch_warnings():
            _w.simplefilter("ignore")
            prelude()
    if req.get("mode") == "errors":
        buf = io.StringIO()
        with contextlib.redirect_stdout(buf), warnings.catch_warnings():
            warnings.simplefilter("ignore")
            res = [run_error_case(c) for c in req["cases"]]
            import jaxtyping
            from jaxtyping import _array_types as at
            cats = sorted({p["cat"] for c in req["cases"] for p in c["params"]} | {c["ret"]["cat"] for c in req["cases"] if c.get("ret")})
            cd = {}
            for c in cats:
                d = getattr(jaxtyping, c).dtypes
                cd[c] = None if d is at._any_dtype else list(d)
        print(json.dumps({"results": res, "cat_dtypes": cd}))
        return
    buf = io.StringIO()
    with contextlib.redirect_stdout(buf), warnings.catch_warnings():
        warnings.simplefilter("ignore")
        res = [run_case(c) for c in req["cases"]]
        import jaxtyping
        from jaxtyping import _array_types as at
        cats = sorted({p["cat"] for c in req["cases"] for p in c["params"]} | {c["ret"]["cat"] for c in req["cases"] if c.get("ret")})
        cd = {}
        for c in cats:
            d = getattr(jaxtyping, c).dtypes
            cd[c] = None if d is at._any_dtype else list(d)
    print(json.dumps({"results": res, "cat_dtypes": cd}))


if __name__ == "__main__":
    main()

"""Implementation-side worker for decorated calls (C02, C13, C17).
JSON on stdin: {"cases": [case...]}; case = {"params": [{"name","dim","cat"}...], "ret": {"dim","cat"} | null,
  "shapes": {name: [..]}, "dtypes": {name: str}, "ret_shape": [...], "ret_dtype": str,
  "variants": [{"order": [names...], "call": "pos"|"kw", "checker": "typeguard"|"beartype", "style": "new"|"old"|"dataclass"}...]}
-> per case, per variant: {"outcome": "ok"|"reject"|"raise:AnnotationError"|"other:<cls>", "msg": str}
"""
import json, sys, io, contextlib, dataclasses, warnings


def classify(e):
    from jaxtyping import AnnotationError, TypeCheckError
    if isinstance(e, AnnotationError):
        return "raise:AnnotationError"
    if isinstance(e, TypeCheckError):
        return "reject"
    n = type(e).__name__
    if isinstance(e, TypeError) or "Violation" in n:
        # old-style double decoration: the typechecker's own error type.  An AnnotationError raised inside
        # isinstance is wrapped by neither checker, so it is reported above.
        return "reject"
    return "other:" + n


def get_checker(name):
    if name == "typeguard":
        import typeguard
        return typeguard.typechecked
    import beartype
    return beartype.beartype


def build_fn(case, var):
    import numpy as np
    import jaxtyping
    from jaxtyping import jaxtyped
    order = var["order"]
    by = {p["name"]: p for p in case["params"]}
    ann = {n: getattr(jaxtyping, by[n]["cat"])[np.ndarray, by[n]["dim"]] for n in order}
    ret = case.get("ret")
    retv = np.zeros(tuple(case["ret_shape"]), dtype=case.get("ret_dtype", "float32")) if ret else None
    tc = get_checker(var["checker"])
    if var["style"] == "dataclass":
        ns = {"__annotations__": dict(ann)}
        cls = type("D", (), ns)
        cls = jaxtyped(typechecker=tc)(dataclasses.dataclass(cls))
        return cls
    src = "def f(%s):\n    return RET\n" % ", ".join(order)
    g = {"RET": retv}
    exec(src, g)
    f = g["f"]
    f.__annotations__ = dict(ann)
    if ret:
        f.__annotations__["return"] = getattr(jaxtyping, ret["cat"])[np.ndarray, ret["dim"]]
    if var["style"] == "new":
        return jaxtyped(typechecker=tc)(f)
    with warnings.catch_warnings():
        warnings.simplefilter("ignore")
        return jaxtyped(tc(f))


def run_case(case):
    import numpy as np
    out = []
    vals = {n: np.zeros(tuple(case["shapes"][n]), dtype=case.get("dtypes", {}).get(n, "float32")) for n in case["shapes"]}
    for var in case["variants"]:
        try:
            fn = build_fn(case, var)
        except BaseException as e:  # noqa
            out.append({"outcome": "build:" + type(e).__name__, "msg": str(e)[:300]}); continue
        try:
            if var["call"] == "pos":
                fn(*[vals[n] for n in var["order"]])
            else:
                fn(**{n: vals[n] for n in reversed(var["order"])})
            out.append({"outcome": "ok", "msg": ""})
        except BaseException as e:  # noqa
            out.append({"outcome": classify(e), "msg": str(e)[:1500]})
    return out


def main():
    req = json.load(sys.stdin)
    buf = io.StringIO()
    with contextlib.redirect_stdout(buf), warnings.catch_warnings():
        warnings.simplefilter("ignore")
        res = [run_case(c) for c in req["cases"]]
        import jaxtyping
        from jaxtyping import _array_types as at
        cats = sorted({p["cat"] for c in req["cases"] for p in c["params"]} | {c["ret"]["cat"] for c in req["cases"] if c.get("ret")})
        cd = {}
        for c in cats:
            d = getattr(jaxtyping, c).dtypes
            cd[c] = None if d is at._any_dtype else list(d)
    print(json.dumps({"results": res, "cat_dtypes": cd}))


if __name__ == "__main__":
    main()

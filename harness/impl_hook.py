"""Implementation-side worker for C10: run the real JaxtypingTransformer (+ fix_missing_locations) on sources.
JSON in: {"files": [paths], "sources": [text...], "coq": bool, "checker": "typeguard.typechecked"|null}
JSON out: per item {"ok", "problems": [...], "n_defs", "n_classes", "coq0", "coq1"} (coq terms only when asked)"""
import ast, copy, json, sys, os, io, contextlib, warnings
sys.setrecursionlimit(100000)
sys.path.insert(0, os.path.join(os.path.dirname(os.path.abspath(__file__)), "..", "lib"))
import pyast


def dump(n):
    return ast.dump(n, include_attributes=True)


def code_sig(c):
    """a code object up to identity: flags, bytecode, names, positions, constants (recursively)"""
    consts = tuple(code_sig(k) if hasattr(k, "co_code") else (type(k).__name__, repr(k)) for k in c.co_consts)
    return (c.co_name, c.co_flags, c.co_code, c.co_names, c.co_varnames, c.co_freevars, c.co_cellvars, c.co_firstlineno, tuple(c.co_positions()), consts)


def check_one(src, path, hook, tc, want_coq, shared=None):
    problems = []
    try:
        tree0 = compile(src, path, "exec", ast.PyCF_ONLY_AST, dont_inherit=True)
    except (SyntaxError, ValueError, RecursionError) as e:
        return {"skip": "does not parse: " + type(e).__name__}
    try:
        with warnings.catch_warnings():
            warnings.simplefilter("ignore")
            code0 = compile(copy.deepcopy(tree0), path, "exec", dont_inherit=True)
    except (SyntaxError, ValueError, RecursionError) as e:
        return {"skip": "does not compile untransformed: " + type(e).__name__}
    tree1 = copy.deepcopy(tree0)
    # the import hook builds one transformer per module, the IPython magic keeps ONE for every cell: both are exercised
    tree1 = (shared if shared is not None else hook.JaxtypingTransformer(typechecker=tc)).visit(tree1)
    ast.fix_missing_locations(tree1)
    # (a) always compiles, same __future__ flags, same docstring
    try:
        with warnings.catch_warnings():
            warnings.simplefilter("ignore")
            code1 = compile(copy.deepcopy(tree1), path, "exec", dont_inherit=True)
        import __future__
        fmask = 0
        for nm in __future__.all_feature_names:
            fmask |= getattr(__future__, nm).compiler_flag
        if (code0.co_flags & fmask) != (code1.co_flags & fmask):
            problems.append("__future__ flags differ: %x vs %x" % (code0.co_flags & fmask, code1.co_flags & fmask))
        doc0 = code0.co_consts[0] if ast.get_docstring(tree0, clean=False) is not None else None
        if ast.get_docstring(tree0, clean=False) != ast.get_docstring(tree1, clean=False):
            problems.append("module docstring changed: %r -> %r" % (ast.get_docstring(tree0, clean=False), ast.get_docstring(tree1, clean=False)))
        # (a') the code object the import hook's LOADER makes for this source is the compilation of that very tree:
        # same flags (no __future__ feature inherited from jaxtyping's own modules), same code, same line table
        data = src if isinstance(src, bytes) else src.encode("utf-8")
        try:
            code_l = hook._JaxtypingLoader("m", path, typechecker=tc).source_to_code(data, path)
            if code_sig(code_l) != code_sig(code1):
                problems.append("the loader's source_to_code differs from compiling the transformed tree (flags %x vs %x)" % (code_l.co_flags, code1.co_flags))
        except (SyntaxError, ValueError, RecursionError) as e:
            problems.append("the loader's source_to_code fails: %s: %s" % (type(e).__name__, e))
    except (SyntaxError, ValueError) as e:
        problems.append("transformed module does not compile: %s: %s" % (type(e).__name__, e))
    # (b) independent strip: remove exactly the documented additions, then the trees must be identical
    tmpl = dump(tc.get_ast())
    n_def = n_cls = 0
    t2 = copy.deepcopy(tree1)

    def same_dec(d, node):
        """d is the template with node's location on its root"""
        e = tc.get_ast(); ast.copy_location(e, node)
        return dump(d) == dump(e)
    for node in ast.walk(t2):
        if isinstance(node, ast.FunctionDef):
            n_def += 1
            if not node.decorator_list or not same_dec(node.decorator_list[-1], node):
                problems.append("def %s (line %d): the innermost decorator is not the jaxtyped decorator with the def's location" % (node.name, node.lineno))
            else:
                node.decorator_list.pop()
        elif isinstance(node, ast.ClassDef):
            n_cls += 1
            if not node.decorator_list or not same_dec(node.decorator_list[0], node):
                problems.append("class %s (line %d): the outermost decorator is not the jaxtyped decorator with the class's location" % (node.name, node.lineno))
            else:
                node.decorator_list.pop(0)
    body = t2.body
    i = 0
    while i < len(body) and ((isinstance(body[i], ast.ImportFrom) and body[i].module == "__future__") or (isinstance(body[i], ast.Expr) and isinstance(body[i].value, ast.Constant))):
        i += 1
    has_other = i < len(tree0.body) and i == sum(1 for _ in range(i))      # there is a statement after the prefix in the ORIGINAL
    # expected position: after the original's prefix of __future__ imports / bare constants
    j = 0
    b0 = tree0.body
    while j < len(b0) and ((isinstance(b0[j], ast.ImportFrom) and b0[j].module == "__future__") or (isinstance(b0[j], ast.Expr) and isinstance(b0[j].value, ast.Constant))):
        j += 1
    if j < len(b0):
        imp = body[j] if j < len(body) else None
        ok = (isinstance(imp, ast.Import) and len(imp.names) == 1 and imp.names[0].name == "jaxtyping" and imp.names[0].asname is None
              and (imp.lineno, imp.col_offset, imp.end_lineno, imp.end_col_offset) == (1, 0, 1, 0))
        if not ok:
            problems.append("`import jaxtyping` is not at statement index %d (after the docstring / __future__ prefix)" % j)
        else:
            del body[j]
    if dump(t2) != dump(tree0):
        # locate the first difference coarsely
        a, b = dump(t2), dump(tree0)
        k = next((q for q in range(min(len(a), len(b))) if a[q] != b[q]), min(len(a), len(b)))
        problems.append("after removing the additions the tree differs from the original near: ...%s <> ...%s" % (a[max(0, k - 80):k + 80], b[max(0, k - 80):k + 80]))
    out = {"ok": not problems, "problems": problems[:5], "n_defs": n_def, "n_classes": n_cls}
    if want_coq:
        out["coq0"] = pyast.to_coq(tree0)
        out["coq1"] = pyast.to_coq(tree1)
        out["hash"] = tc.get_hash()
    return out


def main():
    req = json.load(sys.stdin)
    buf = io.StringIO()
    with contextlib.redirect_stdout(buf):
        from jaxtyping import _import_hook as hook
        tc = hook.Typechecker(req.get("checker", "typeguard.typechecked"))
        res = []
        shared_tr = hook.JaxtypingTransformer(typechecker=tc)
        nth = [0]
        def pick():
            nth[0] += 1
            return shared_tr if nth[0] % 2 == 0 else None
        for p in req.get("files", []):
            try:
                src = open(p, "rb").read()
            except OSError as e:
                res.append({"skip": str(e)}); continue
            r = check_one(src, p, hook, tc, req.get("coq", False), shared=pick())
            r["path"] = p
            res.append(r)
        for k, s in enumerate(req.get("sources", [])):
            r = check_one(s, "<gen%d>" % k, hook, tc, req.get("coq", False), shared=pick())
            r["path"] = "<gen%d>" % k
            res.append(r)
    print(json.dumps(res))


if __name__ == "__main__":
    main()

"""C10 -- the import hook only adds decorators: everything else in the module is untouched."""
import glob, json, os, sys
sys.path.insert(0, os.path.join(os.path.dirname(os.path.abspath(__file__)), "..", "lib"))
import vf

PID = "C10"

DOCS = ["", '"""Module docstring."""\n', '""""""\n', '""" """\n', "'x'\n'y'\n", "42\n", '"""doc"""\n"second"\n']
FUTS = ["", "from __future__ import annotations\n", "from __future__ import annotations, division\n", "from __future__ import annotations\nfrom __future__ import generator_stop\n"]
STMTS = [
    "def f{i}(x, y=1):\n    return x\n",
    "@staticmethod\n@other(1)\ndef g{i}(x):\n    def inner(z):\n        return z\n    return inner\n",
    "async def h{i}(x):\n    def inside_async(q):\n        return q\n    return x\n",
    "class C{i}:\n    '''doc'''\n    attr = lambda s: s\n    def m(self):\n        class D:\n            def n(self): pass\n        return D\n",
    "@dec\nclass E{i}(Base, metaclass=M):\n    @property\n    def p(self): return 1\n",
    "if cond{i}:\n    def a{i}(): pass\nelif other:\n    def b{i}(): pass\nelse:\n    class K{i}: pass\n",
    "try:\n    from _accel import fast{i}\nexcept ImportError:\n    def fast{i}(x):\n        return x\nelse:\n    def e{i}(): pass\nfinally:\n    def fin{i}(): pass\n",
    "for i in range(3):\n    def loop{i}(): pass\nelse:\n    def lelse{i}(): pass\n",
    "with ctx() as c:\n    def w{i}(): pass\n",
    "match v{i}:\n    case 1:\n        def m1_{i}(): pass\n    case [a, b]:\n        class MC{i}: pass\n    case _:\n        pass\n",
    "while x{i}:\n    def wh{i}(): pass\n    break\n",
    "x{i} = lambda a: (lambda b: a + b)\n",
    "import os\n", "y{i} = [k for k in range(3)]\n", "def gen{i}():\n    yield 1\n",
    "def deco_args{i}(a: int, /, b: 'str' = 'q', *c, d, **e) -> None:\n    '''doc'''\n    pass\n",
    "try:\n    pass\nexcept* ValueError:\n    def eg{i}(): pass\n",
    "class Outer{i}:\n    class Inner:\n        class Deep:\n            def d(self):\n                def dd(): pass\n",
    "type Alias{i} = int\n", "def generic{i}[T](x: T) -> T:\n    return x\n",
]


def gen_source(rng):
    src = rng.choice(DOCS) + rng.choice(FUTS)
    if rng.random() < .1:
        src = rng.choice(FUTS) + rng.choice(DOCS)          # docstring-like constant AFTER the __future__ import (not a docstring)
    for i in range(rng.choice([0, 1, 2, 3, 4])):
        src += rng.choice(STMTS).replace("{i}", str(i))
    return src


def corpus_files(rng, n):
    import sysconfig
    roots = [os.path.dirname(os.__file__)]
    files = []
    for r in roots:
        files += glob.glob(r + "/*.py") + glob.glob(r + "/*/*.py") + glob.glob(r + "/*/*/*.py")
    files = sorted(f for f in files if "/test" not in f and "lib2to3" not in f)
    if n is None or n >= len(files):
        return files
    return rng.sample(files, n)


def site_files():
    import sysconfig
    sp = "/venv/lib/python3.12/site-packages"
    fs = []
    for pkg in ("typeguard", "beartype", "numpy/lib", "numpy/core", "jax/_src", "IPython/core", "wadler_lindig", "cloudpickle", "equinox", "pytest", "_pytest"):
        fs += glob.glob("%s/%s/*.py" % (sp, pkg)) + glob.glob("%s/%s/*/*.py" % (sp, pkg))
    return sorted(fs)


def main():
    R = vf.Report(PID)
    proved = R.proof_step()
    # ---- A: translation validation on real files, model-independent oracle (whole corpus in thorough)
    files = corpus_files(R.rng, None if R.thorough else 260)
    if R.thorough:
        files += site_files()
    nw = 12
    chunks = [files[i::nw] for i in range(nw)]
    from concurrent.futures import ThreadPoolExecutor
    with ThreadPoolExecutor(nw) as ex:
        outs = list(ex.map(lambda ch: vf.impl("impl_hook.py", {"files": ch, "checker": "typeguard.typechecked"}, timeout=3000), chunks))
    programs, skipped, ndefs = 0, 0, 0
    samples = []
    for o in outs:
        for r in o:
            if "skip" in r:
                skipped += 1; continue
            programs += 1
            ndefs += r["n_defs"] + r["n_classes"]
            if not r["ok"]:
                R.violation("property", "the hook's transformation of %s does more than add the import and the decorators: %s" % (r["path"], "; ".join(r["problems"])), {"file": r["path"], "problems": r["problems"]}, key={"kind": "file", "path": r["path"]})
            elif len(samples) < 3 and r["n_defs"] > 5:
                samples.append({"file": r["path"], "defs": r["n_defs"], "classes": r["n_classes"], "result": "only additions; compiles; docstring and __future__ flags unchanged"})
    R.count("real-files", programs); R.count("skipped-unparsable", skipped)
    # ---- B: generated modules + small real files, also against the Coq model
    ngen = 8000 if R.thorough else 160
    sources = [gen_source(R.rng) for _ in range(ngen)]
    sources += ["", "\n", '"""only a docstring"""\n', "from __future__ import annotations\n", '""" """\nfrom __future__ import annotations\ndef f(): pass\n',
                "def f(): pass\n", "class A: pass\n", '"""d"""\nfrom __future__ import annotations\nimport os\nfrom __future__ import division\n' if False else "x = 1\n"]
    small = [f for f in corpus_files(R.rng, 400) if os.path.getsize(f) < 5000][: (60 if R.thorough else 14)]
    res = []
    for chk in ("typeguard.typechecked", None):
        half = sources[::2] if chk else sources[1::2]
        res += vf.impl("impl_hook.py", {"sources": half, "files": small if chk else [], "coq": True, "checker": chk}, timeout=3000)
    terms, idxs = [], []
    for k, r in enumerate(res):
        if "skip" in r:
            continue
        programs += 1
        ndefs += r["n_defs"] + r["n_classes"]
        R.count("generated-or-small:" + ("ok" if r["ok"] else "PROBLEM"))
        if not r["ok"]:
            R.violation("property", "the hook's transformation of %s does more than add the import and the decorators: %s" % (r["path"], "; ".join(r["problems"])), {"file": r["path"], "problems": r["problems"]}, key={"kind": "generated", "path": r["path"]})
        terms.append("(%s, %s, %s)" % (vf.coqstr(r["hash"]), r["coq0"], r["coq1"])); idxs.append(k)
    mres = vf.coq_eval_strings(["model.HookAst", "gen.HookConsts"],
                               "fun c => let '(h, t0, t1) := c in (if ast_eqb (xform (subst_hash h dec_template) t0) t1 then \"1\" else \"0\") ++ (if ast_eqb (strip t1) t0 then \"1\" else \"0\")",
                               terms, shard=12, timeout=1500)
    for k, m in zip(idxs, mres):
        if m != "11":
            r = res[k]
            R.violation("correspondence", "model xform and the real transformer disagree on %s (xform(original)==real: %s, strip(real)==original: %s)" % (r["path"], m[0], m[1]),
                        {"file": r["path"], "model_bits": m}, key={"kind": "model", "path": r["path"]}, no_input=r["ok"])
    # ---- C: the same transformation as the IPython magic registers it, in a real InteractiveShell: every cell must be
    #         self-contained (own `import jaxtyping`, placed after docstring/__future__), whatever happened to the user
    #         namespace in between (%reset -f, a user variable called jaxtyping)
    import c11, tempfile, shutil, subprocess
    root = tempfile.mkdtemp(prefix="vfc10")
    try:
        c11.make_forest(root)
        env = vf.impl_env()
        ipy = [h for h in c11.IPY_CATALOGUE] + [c11.gen_ipython(R.rng) for _ in range(60 if R.thorough else 5)]
        def runi(ops):
            p = subprocess.run([vf.PY, os.path.join(vf.VERIF, "harness", "impl_hookfront.py"), "ipython", root, json.dumps({"ops": ops})], capture_output=True, text=True, env=env, timeout=600, cwd=root)
            lines = [l for l in p.stdout.splitlines() if l.startswith("{")]
            return json.loads(lines[-1]) if lines else {"error": (p.stderr or p.stdout)[-600:]}
        with ThreadPoolExecutor(nw) as ex:
            ires = list(ex.map(runi, ipy))
    finally:
        shutil.rmtree(root, ignore_errors=True)
    for ops, r in zip(ipy, ires):
        R.count("ipython-history")
        if "error" in r:
            R.violation("correspondence", "IPython history failed %s: %s" % (json.dumps(ops), r["error"][-300:]), {"ops": ops}, key={"kind": "ipython-run-error"}, no_input=True); continue
        programs += len(r["cells"])
        want = c11.ipy_reference(ops)[0]
        bad = [c for c, w in zip(r["cells"], want) if c != w]
        if bad or any(x != [[2], True] for x in r["selfc"]):
            R.violation("property", "IPython history %s: cells transformed by the magic's transformer came out as %s (expected %s); self-containedness of the registered transformer "
                        "[positions of `import jaxtyping` in a cell with docstring and __future__ import, runs in an empty namespace] = %s (expected [[2], True])" % (json.dumps(ops), r["cells"], want, r["selfc"]),
                        {"front_end": "ipython", "ops": ops, "got": r["cells"], "expected": want, "selfc": r["selfc"]}, key={"kind": "ipython-cell"})
    if not proved:
        R.violation("proof", "proof obligations of props/C10.v no longer check: " + str(R.broken_proof)[-800:],
                    {"theorem_file": "coq/props/C10.v", "log": R.broken_proof}, no_input=not any(v["kind"] == "property" for v in R.violations))
    R.level = "proof"
    R.coverage.update(evaluations=programs, distinct_nontrivial=programs, programs=programs, disagreements_checked=len(mres), samples=samples or [{"note": "no sample with > 5 defs"}],
                      defs_and_classes_seen=ndefs,
                      rule="translation validation per program: %d real files (standard library%s; files that do not compile even untransformed are skipped: %d) + %d generated modules (docstring kinds incl. blank, __future__ imports in all positions, decorator stacks, nesting, if/try/except/except*/finally/for/while/with/match bodies, async defs, lambdas, PEP 695) with typechecker string and None. "
                           "Oracle independent of the model: remove exactly the documented additions from the REAL result and compare ast.dump(include_attributes=True) with the original; compile(); docstring; __future__ flags. "
                           "Model: ast_eqb (xform dec original) real_result and ast_eqb (strip real_result) original evaluated inside Coq on %d programs." % (len(files), " and site-packages" if R.thorough else " sample", skipped, len(sources), len(mres)))
    R.assumptions += ["`always compiles` and runtime equivalence of the hooked module are CPython's: checked per file, not proved"]
    sys.exit(R.finish())


if __name__ == "__main__":
    vf.guarded(PID, main)

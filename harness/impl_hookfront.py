"""The two other front ends of the import hook, each run in this fresh interpreter.
argv: mode forest payload_json
 mode pytest : payload {"value": str|None, "imports": [...], "preload": [...]}: runs pytest in-process (pytest.main) with
               --jaxtyping-packages=value and `-p m` for every preloaded module; the generated test imports `imports`.
 mode ipython: payload {"ops": [["magic", K] | ["other", id] | ["cell", name]]}: a real InteractiveShell with the
               jaxtyping extension loaded.
Prints one JSON line."""
import hashlib, importlib, json, os, sys, tempfile, shutil


def tags(prefixes=("foo", "foobar", "foo_bar", "zed", "fo")):
    import spyreg
    loaded = {}
    for name, mod in sorted(sys.modules.items()):
        if name.split(".")[0] in prefixes:
            f = getattr(mod, "f", None)
            if f is None:
                continue
            wrapped = hasattr(f, "__wrapped__")
            who = sorted({k for (m, q, k) in spyreg.LOG if m == name})
            if not wrapped:
                loaded[name] = "plain" if not who else "plain-but-spied:%s" % who
            else:
                loaded[name] = "hooked:%s" % (who[0] if len(who) == 1 else "None" if not who else who)
    return loaded


def run_pytest(forest, pl):
    import pytest
    sys.path.insert(0, forest)
    sys.dont_write_bytecode = True
    d = tempfile.mkdtemp(prefix="vfc11t")
    try:
        out = os.path.join(d, "out.json")
        with open(os.path.join(d, "test_probe.py"), "w") as f:
            f.write("import importlib, json, sys\nsys.path.insert(0, %r)\nimport impl_hookfront\n\n"
                    "def test_probe():\n    for m in %r:\n        importlib.import_module(m)\n"
                    "    json.dump(impl_hookfront.tags(), open(%r, 'w'))\n" % (os.path.dirname(os.path.abspath(__file__)), pl["imports"], out))
        args = ["-q", "-p", "no:cacheprovider", "--rootdir", d, "-c", os.devnull]
        for m in pl.get("preload", []):
            args += ["-p", m]
        if pl["value"] is not None:
            args.append("--jaxtyping-packages=" + pl["value"])
        args.append(os.path.join(d, "test_probe.py"))
        import io, contextlib
        buf = io.StringIO()
        with contextlib.redirect_stdout(buf), contextlib.redirect_stderr(buf):
            try:
                rc = int(pytest.main(args))
                exc = None
            except BaseException as e:  # noqa
                rc, exc = -1, "%s: %s" % (type(e).__name__, e)
        txt = buf.getvalue()
        if os.path.exists(out):
            return {"loaded": json.load(open(out)), "rc": rc}
        if "already imported" in txt or (exc and "already imported" in exc):
            import re
            m = re.search(r"already imported: ([^\n]*)", txt + (exc or ""))
            return {"already": m.group(1).strip() if m else "", "rc": rc}
        return {"error": (exc or "") + txt[-800:], "rc": rc}
    finally:
        shutil.rmtree(d, ignore_errors=True)


def run_ipython(forest, pl):
    import ast
    sys.path.insert(0, forest)
    sys.dont_write_bytecode = True
    import spyreg
    from IPython.core.interactiveshell import InteractiveShell
    shell = InteractiveShell.instance()
    shell.run_line_magic("load_ext", "jaxtyping")
    from jaxtyping._import_hook import JaxtypingTransformer

    class Other(ast.NodeTransformer):
        def __init__(self, i):
            self.i = i

        def visit(self, node):
            return node
    cells = []
    for op in pl["ops"]:
        if op[0] == "magic":
            shell.run_line_magic("jaxtyping.typechecker", "spy%s.check" % op[1])
        elif op[0] == "other":
            shell.ast_transformers.append(Other(op[1]))
        elif op[0] == "reset":
            shell.run_line_magic("reset", "-f")          # "start over": the user namespace is wiped, the transformers stay
        elif op[0] == "shadow":
            shell.run_cell("jaxtyping = None\n", store_history=False)   # the user's own variable of that name
        else:
            r = shell.run_cell("def %s(x: int) -> int:\n    return x\n" % op[1], store_history=False)
            if not r.success:
                e = r.error_before_exec or r.error_in_exec
                cells.append([op[1], "failed:%s" % type(e).__name__]); continue
            f = shell.user_ns.get(op[1])
            who = []
            for (m, q, k) in spyreg.LOG:      # jaxtyped applies the typechecker to two synthesised functions per def: one entry per checker
                if q == op[1] and k not in who:
                    who.append(k)
            depth, g = 0, f
            while hasattr(g, "__wrapped__") and depth < 5:
                g = g.__wrapped__; depth += 1
            if f is None:
                cells.append([op[1], "missing"])
            elif not hasattr(f, "__wrapped__"):
                cells.append([op[1], "" if not who else "plain-but-spied:%s" % who])
            else:
                cells.append([op[1], ("+".join("spy%s.check" % k for k in who) if who else "wrapped-without-checker") + ("" if depth == 1 else "@depth%d" % depth)])
    hashes = {hashlib.md5(("spy%s.check" % k).encode()).hexdigest(): "spy%s.check" % k for k in "ABC"}
    xfs = []
    for t in shell.ast_transformers:
        if isinstance(t, JaxtypingTransformer):
            xfs.append("J:" + hashes.get(t._typechecker.get_hash(), "?"))
        elif isinstance(t, Other):
            xfs.append("O%d" % t.i)
        else:
            xfs.append("X:" + type(t).__name__)
    # the transformation the magic registered must make a cell self-contained: exactly one `import jaxtyping` after the
    # docstring and the __future__ imports, and the result runs in an EMPTY namespace
    SRC = '"""doc"""\nfrom __future__ import annotations\ndef h(x: int) -> int:\n    return x\n'
    selfc = []
    for t in shell.ast_transformers:
        if isinstance(t, JaxtypingTransformer):
            tree = ast.fix_missing_locations(t.visit(ast.parse(SRC)))
            pos = [i for i, st in enumerate(tree.body) if isinstance(st, ast.Import) and [a.name for a in st.names] == ["jaxtyping"]]
            try:
                exec(compile(tree, "<cell>", "exec"), {})
                ok = True
            except Exception as e:  # noqa
                ok = type(e).__name__
            selfc.append([pos, ok])
    return {"cells": cells, "xfs": xfs, "selfc": selfc}


if __name__ == "__main__":
    mode, forest, payload = sys.argv[1], sys.argv[2], json.loads(sys.argv[3])
    try:
        res = run_pytest(forest, payload) if mode == "pytest" else run_ipython(forest, payload)
    except BaseException as e:  # noqa
        import traceback
        res = {"error": "%s: %s\n%s" % (type(e).__name__, e, traceback.format_exc()[-600:])}
    print(json.dumps(res))

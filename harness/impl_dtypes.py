"""Implementation-side worker for C03: enumerate every dtype the installed array libraries can
produce, record the facets lines 196-211 look at, the verdict of all category classes, and an
expected classification that does not come from jaxtyping (np.dtype.kind / ml_dtypes.finfo,iinfo /
jax.dtypes.issubdtype(.., prng_key)).  JSON in: {"backends": [...], "user": [...user categories...],
"names": [...]}; JSON out on the last line."""
import os, json, sys, io, contextlib, os, re, warnings
os.environ.setdefault("TF_CPP_MIN_LOG_LEVEL", "3")


def facets_of(dtype):
    import jaxtyping._array_types as at
    f = {"type_name": None, "struct_str": None, "as_numpy": "absent", "str": None, "repr": None}
    try:
        f["repr"] = repr(dtype)
    except Exception:
        f["repr"] = "?"
    if hasattr(dtype, "type") and hasattr(dtype.type, "__name__"):
        f["type_name"] = dtype.type.__name__
        try:
            if at._dtype_is_numpy_struct_array(dtype):
                f["struct_str"] = str(dtype)
        except Exception:
            pass
    if hasattr(dtype, "as_numpy_dtype"):
        f["as_numpy"] = getattr(dtype.as_numpy_dtype, "__name__", None)
    if isinstance(dtype, str):
        f["str"] = dtype
    return f


def expected_kind(npdtype):
    """-> (kind in bool/int/uint/float/complex/key/other, canonical name) without asking jaxtyping"""
    import numpy as np
    import ml_dtypes
    try:
        import jax
        if jax.dtypes.issubdtype(npdtype, jax.dtypes.prng_key):
            return "key", "prng_key"
    except Exception:
        pass
    d = np.dtype(npdtype)
    if d.names is not None:
        return "other", str(d)
    k = d.kind
    if k == "b":
        return "bool", d.name
    if k == "i":
        return "int", d.name
    if k == "u":
        return "uint", d.name
    if k == "f":
        return "float", d.name
    if k == "c":
        return "complex", d.name
    try:
        ml_dtypes.finfo(d)
        return "float", d.name
    except Exception:
        pass
    try:
        ii = ml_dtypes.iinfo(d)
        return ("int" if ii.min < 0 else "uint"), d.name
    except Exception:
        pass
    return "other", d.name


class Duck:
    def __init__(self, dtype, shape=(2,)):
        self.dtype = dtype
        self.shape = shape


class TorchStyleDtype:
    def __init__(self, name):
        self.name_ = name

    def __repr__(self):
        return "torch." + self.name_


def all_categories():
    import jaxtyping
    from jaxtyping import AbstractDtype
    out = {}
    for n in dir(jaxtyping):
        c = getattr(jaxtyping, n)
        if isinstance(c, type) and issubclass(c, AbstractDtype) and c is not AbstractDtype:
            out[n] = c
    return out


def verdicts(x, cats):
    from typing import Any
    res = {}
    for n, C in cats.items():
        try:
            res[n] = bool(isinstance(x, C[Any, "..."]))
        except BaseException as e:  # noqa
            res[n] = "raise:" + type(e).__name__
    return res


REVERSE = [False]


def numpy_dtypes():
    import numpy as np, ml_dtypes
    seen, out = set(), []
    cands = list(np.sctypeDict.values()) + [np.longlong, np.ulonglong, np.longdouble, np.clongdouble, np.intc, np.uintc, np.half, np.single, np.double, np.csingle, np.cdouble, np.byte, np.ubyte, np.short, np.ushort, np.int_, np.uint, np.bool_]
    for n in dir(ml_dtypes):
        t = getattr(ml_dtypes, n)
        if isinstance(t, type) and issubclass(t, np.generic):
            cands.append(t)
    for t in cands:
        if t in seen:
            continue
        seen.add(t)
        if issubclass(t, (np.str_, np.bytes_, np.void, np.object_, np.datetime64, np.timedelta64)):
            continue
        try:
            x = np.zeros((2,), dtype=t)
        except Exception:
            continue
        out.append((t.__name__, x))
    out.append(("struct1", np.zeros((2,), dtype=np.dtype([("a", np.float32), ("b", np.int8)]))))
    out.append(("struct2", np.zeros((2,), dtype=np.dtype([("x", np.int32, (2,))]))))
    if REVERSE[0]:
        out.reverse()       # the second pass enumerates in the opposite order: a verdict must not depend on what was checked before
    return out


def main():
    req = json.load(sys.stdin)
    REVERSE[0] = bool(req.get("reverse"))
    if req.get("reverse"):
        # the second pass also runs after unrelated failing / raising PyTree checks in the same process
        sys.path.insert(0, os.path.dirname(os.path.abspath(__file__)))
        import impl_calls
        with warnings.catch_warnings():
            warnings.simplefilter("ignore")
            impl_calls.prelude()
    buf = io.StringIO()
    rows, notes = [], []
    with contextlib.redirect_stdout(buf), contextlib.redirect_stderr(io.StringIO()), warnings.catch_warnings():
        warnings.simplefilter("ignore")
        import numpy as np
        cats = all_categories()
        # user categories
        from jaxtyping import AbstractDtype
        users = {}
        for u in req.get("user", []):
            pats = [re.compile(p["re"], p.get("flags", 0)) if "re" in p else p["str"] for p in u["pats"]]
            form = u.get("form", "list")
            val = pats if form == "list" else tuple(pats) if form == "tuple" else pats[0]
            users[u["name"]] = type(u["name"], (AbstractDtype,), {"dtypes": val})
        if "numpy" in req["backends"]:
            for label, x in numpy_dtypes():
                kind, canon = expected_kind(x.dtype)
                rows.append({"backend": "numpy", "label": label, "facets": facets_of(x.dtype), "kind": kind, "canon": canon, "verdicts": verdicts(x, cats)})
        if "jax" in req["backends"]:
            import jax, jax.numpy as jnp, jax.random as jr
            jax.config.update("jax_enable_x64", True)
            seen = set()
            for label, x in numpy_dtypes():
                if label.startswith("struct"):
                    continue
                try:
                    j = jnp.zeros((2,), dtype=x.dtype)
                except Exception as e:
                    notes.append("jax cannot create %s: %s" % (label, type(e).__name__)); continue
                if j.dtype != x.dtype:
                    notes.append("jax canonicalises %s to %s" % (label, j.dtype))
                if str(j.dtype) in seen:
                    continue
                seen.add(str(j.dtype))
                kind, canon = expected_kind(j.dtype)
                rows.append({"backend": "jax", "label": label, "facets": facets_of(j.dtype), "kind": kind, "canon": canon, "verdicts": verdicts(j, cats)})
                # the same dtype as a tracer
                box = {}

                def f(a):
                    box["v"] = verdicts(a, cats); box["f"] = facets_of(a.dtype)
                    return a
                try:
                    jax.jit(f)(j)
                    rows.append({"backend": "jax-tracer", "label": label, "facets": box["f"], "kind": kind, "canon": canon, "verdicts": box["v"]})
                except Exception as e:
                    notes.append("jit failed for %s: %s" % (label, type(e).__name__))
            for impl in ("threefry2x32", "rbg", "unsafe_rbg"):
                k = jr.key(0, impl=impl)
                kind, canon = expected_kind(k.dtype)
                rows.append({"backend": "jax", "label": "key:" + impl, "facets": facets_of(k.dtype), "kind": kind, "canon": canon, "verdicts": verdicts(k, cats)})
                box = {}

                def g(a):
                    box["v"] = verdicts(a, cats); box["f"] = facets_of(a.dtype)
                    return a
                jax.jit(g)(k)
                rows.append({"backend": "jax-tracer", "label": "key:" + impl, "facets": box["f"], "kind": kind, "canon": canon, "verdicts": box["v"]})
        if "tf" in req["backends"]:
            import tensorflow as tf
            dts = sorted({v for v in vars(tf.dtypes).values() if isinstance(v, tf.dtypes.DType)}, key=lambda d: d.name)
            for d in dts:
                try:
                    try:
                        x = tf.zeros((2,), dtype=d)
                    except Exception:
                        x = tf.raw_ops.Empty(shape=(2,), dtype=d)
                except Exception as e:
                    notes.append("tf cannot create %s: %s" % (d.name, type(e).__name__)); continue
                try:
                    npd = np.dtype(d.as_numpy_dtype)
                    kind, canon = expected_kind(npd)
                    if kind == "other" and npd.kind in "OSUV" and npd.names is None:
                        kind, canon = "other", d.name
                    if d.name.startswith(("qint", "quint")):
                        kind, canon = "other", d.name
                except Exception:
                    kind, canon = "other", d.name
                rows.append({"backend": "tf", "label": d.name, "facets": facets_of(x.dtype), "kind": kind, "canon": canon, "verdicts": verdicts(x, cats)})
        if "duck" in req["backends"]:
            for name in req.get("names", []):
                for style in ("str", "torch"):
                    dt = name if style == "str" else TorchStyleDtype(name)
                    x = Duck(dt)
                    v = verdicts(x, cats)
                    uv = verdicts(x, users) if users else {}
                    rows.append({"backend": "duck-" + style, "label": name, "facets": facets_of(dt), "kind": "byname", "canon": name, "verdicts": v, "user_verdicts": uv})
    # a family of user categories built from one working list that is extended BETWEEN the class statements: a category means the
    # names it was defined with
    import numpy as np
    from jaxtyping import AbstractDtype as _AD
    work = ["float16"]
    Half = type("Half", (_AD,), {"dtypes": work})
    half_early = Half[np.ndarray, "..."]
    work.append("float32")
    Wider = type("Wider", (_AD,), {"dtypes": work})
    half_late = Half[np.ndarray, "..."]
    f16, f32 = np.zeros((2,), "float16"), np.zeros((2,), "float32")
    family = {"Half(early annotation) float16": [bool(isinstance(f16, half_early)), True], "Half(early annotation) float32": [bool(isinstance(f32, half_early)), False],
              "Half(annotation written after the list grew) float32": [bool(isinstance(f32, half_late)), False], "Half(late) float16": [bool(isinstance(f16, half_late)), True],
              "Wider float32": [bool(isinstance(f32, Wider[np.ndarray, "..."])), True]}
    print(json.dumps({"rows": rows, "notes": notes, "categories": sorted(cats), "family": family}))


if __name__ == "__main__":
    main()

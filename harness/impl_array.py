"""Implementation-side worker for array annotations (C01, C04, C14 ...).
Runs in a fresh interpreter with PYTHONPATH=/repo.  JSON on stdin, one JSON line out.

modes
  parse   : {"mode":"parse","specs":[<str or {"nonstr":...}>...]}
            -> per spec {"build": "ok"|"ValueError"|"Other:<cls>", "dims": canonical or None}
  sessions: {"mode":"sessions","sessions":[{"args":{name:int}, "steps":[step...]}...]}
            step = {"dim":str,"shape":[...],"dtype":"float32","cat":"Float","arr":"np"|"any"|"duck"|"notarray",
                    "twice":bool}
            -> per step {"build","verdict","memo","before_ok","idem"}
"""
import json, sys, io, contextlib


def canon_dims(ann):
    from jaxtyping import _array_types as at
    out = []
    for d in ann.dims:
        if d is at._anonymous_dim:
            out.append("anon")
        elif d is at._anonymous_variadic_dim:
            out.append("vanon")
        elif type(d) is at._NamedDim:
            out.append("named:%s:%s%s" % (d.name, "T" if d.broadcastable else "F", "T" if d.treepath else "F"))
        elif type(d) is at._NamedVariadicDim:
            out.append("vnamed:%s:%s%s" % (d.name, "T" if d.broadcastable else "F", "T" if d.treepath else "F"))
        elif type(d) is at._FixedDim:
            out.append("fixed:%d:%s" % (d.size, "T" if d.broadcastable else "F"))
        elif type(d) is at._SymbolicDim:
            out.append("sym:%s:%s" % (d.elem, "T" if d.broadcastable else "F"))
        else:
            out.append("?%r" % (d,))
    return "ok iv=%s [%s]" % (ann.index_variadic, " ".join(out))


def decode_spec(s):
    if isinstance(s, str):
        return s
    k = s["nonstr"]
    return {"int": 3, "none": None, "tuple": ("a",), "bytes": b"a", "float": 1.5, "list": ["a"]}[k]


_ANN_CACHE = {}
REUSE = [False]


def build(cat, arr, spec):
    """with REUSE on, every distinct (category, array type, dims) gets ONE annotation object for the whole worker process --
    what a module-level alias is in real code; otherwise annotations are built afresh for every check"""
    import jaxtyping
    Cat = getattr(jaxtyping, cat)
    key = None
    if REUSE[0] and isinstance(spec, str):
        try:
            key = (cat, repr(arr), spec)
        except Exception:
            key = None
    if key is not None and key in _ANN_CACHE:
        return "ok", _ANN_CACHE[key]
    try:
        ann = Cat[arr, spec]
        if key is not None:
            _ANN_CACHE[key] = ann
        return "ok", ann
    except ValueError:
        return "ValueError", None
    except BaseException as e:  # noqa
        return "Other:" + type(e).__name__, None


def sym_sources(ann):
    from jaxtyping import _array_types as at
    return [d.elem for d in ann.dims if type(d) is at._SymbolicDim]


def cat_dtypes(cats):
    import jaxtyping
    from jaxtyping import _array_types as at
    out = {}
    for c in cats:
        d = getattr(jaxtyping, c).dtypes
        out[c] = None if d is at._any_dtype else [x for x in d]
    return out


def _vb(x):
    """a variadic binding as (broadcastable, shape), whatever record the tree keeps it in"""
    if isinstance(x, tuple):
        return x
    return (getattr(x, "broadcastable"), tuple(getattr(x, "shape")))


def show_memo(memo):
    single, variadic, pytree, args = memo
    s = ",".join("%s=%d" % (k, v) for k, v in single.items())
    # same text as the model's show_memo; "P<n>" (number of structure names) is appended by callers that need it
    v = ",".join("%s=%s%s" % (k, "T" if b else "F", "(" + ",".join(str(int(x)) for x in sh) + ")") for k, (b, sh) in ((k_, _vb(x_)) for k_, x_ in variadic.items()))
    return "S{%s} V{%s}" % (s, v)


class LibDtype:
    def __init__(self, name):
        self.name_ = name

    def __repr__(self):
        return "lib." + self.name_


class Duck:
    def __init__(self, shape, dtype):
        self.shape = tuple(shape)
        self.dtype = dtype


def make_value(step):
    import numpy as np
    kind = step.get("arr", "np")
    shape = tuple(step["shape"])
    dt = step.get("dtype", "float32")
    if kind == "np":
        return np.ndarray, np.zeros(shape, dtype=dt)
    if kind == "any":
        from typing import Any
        return Any, np.zeros(shape, dtype=dt)
    if kind == "duck":
        from typing import Any
        return Any, Duck(shape, dt)
    if kind == "ducktorch":
        # an array-like whose dtype is an OBJECT printed like `torch.float32` (the "everyone else" branch of the dtype-name extraction)
        from typing import Any
        return Any, Duck(shape, LibDtype(dt))
    if kind == "notarray":
        return np.ndarray, Duck(shape, dt)       # right attributes, wrong type
    if kind == "noattrs":
        from typing import Any
        return Any, object()
    if kind == "jax":
        import jax, jax.numpy as jnp
        return jax.Array, jnp.zeros(shape, dtype=dt)
    raise KeyError(kind)


def do_check(ann, val):
    from jaxtyping import AnnotationError
    try:
        r = isinstance(val, ann)
        return "acc" if r else "rej"
    except AnnotationError:
        return "raise:AnnotationError"
    except Exception:
        return "raise:Exception"
    except BaseException:
        return "raise:BaseException"


class Boom(BaseException):
    pass


def boom(kind):
    if kind == 0:
        raise RuntimeError("boom")
    raise Boom("boom")


def run_sessions(sessions):
    import copy
    import jaxtyping
    from jaxtyping import jaxtyped
    from jaxtyping._storage import get_shape_memo
    out = []
    for sess in sessions:
        res = []
        args = dict(sess.get("args", {}))
        args["boom"] = boom

        def body_impl():
            for step in sess["steps"]:
                arr_t, val = make_value(step)
                b, ann = build(step.get("cat", "Float"), arr_t, step["dim"])
                if b == "ok" and step.get("outer") is not None:
                    # a NESTED annotation: Shaped[<the annotation>, outer]  (== (category)[array, outer + " " + dims])
                    try:
                        ann = jaxtyping.Shaped[ann, step["outer"]]
                    except ValueError:
                        b = "ValueError"
                if b != "ok":
                    res.append({"build": b}); continue
                if step.get("pt_reject"):
                    # an unrelated PyTree check that is REJECTED (its leaves disagree on an axis nobody else uses) and one that raises, just
                    # before this check: a rejected / raising check leaves no trace, also not in the call's argument memo
                    from jaxtyping import PyTree as _PT, AnnotationError as _AE
                    import numpy as np
                    try:
                        isinstance((np.zeros((3,), "float32"), np.zeros((4,), "float32")), _PT[jaxtyping.Float[np.ndarray, "zz_"]])
                        isinstance((np.zeros((3,), "float32"),), _PT[jaxtyping.Float[np.ndarray, "zz_+unbound_"], "ZZ_"])
                    except _AE:
                        pass
                before = copy.deepcopy([dict(m) for m in get_shape_memo()[:3]])
                before_txt = show_memo(get_shape_memo())
                v = do_check(ann, val)
                after = [dict(m) for m in get_shape_memo()[:3]]
                r = {"build": "ok", "verdict": v, "memo": show_memo(get_shape_memo()), "syms": sym_sources(ann),
                     "unchanged": (before == after and [list(x) for x in before] == [list(x) for x in after]),
                     "before": before_txt}
                if v == "acc" and step.get("twice", True):
                    m1 = copy.deepcopy(after)
                    v2 = do_check(ann, val)
                    m2 = [dict(m) for m in get_shape_memo()[:3]]
                    r["idem"] = (v2 == "acc" and m1 == m2 and [list(x) for x in m1] == [list(x) for x in m2])
                res.append(r)

        # the decorated function has exactly the session's arguments as parameters (some are named like axes)
        g = {"body_impl": body_impl}
        exec("def body(%s):\n    return body_impl()\n" % ", ".join(sorted(args)), g)
        body = g["body"]
        if sess.get("nocontext"):
            body(**args)
        else:
            f = jaxtyped(typechecker=None)(body)
            import warnings
            with warnings.catch_warnings():
                warnings.simplefilter("ignore")
                f(**args)
        out.append(res)
    return out


def main():
    req = json.load(sys.stdin)
    buf = io.StringIO()
    with contextlib.redirect_stdout(buf):
        if req["mode"] == "parse":
            import numpy as np
            res = []
            for s in req["specs"]:
                b, ann = build("Float", np.ndarray, decode_spec(s))
                res.append({"build": b, "dims": canon_dims(ann) if ann is not None else None})
        elif req["mode"] == "check_dims":
            # the FUNCTION _check_dims itself on explicit inputs: for the correspondence with the interpretation (model/PyL.v) of
            # the term generated from its source
            import numpy as np
            from jaxtyping import _array_types as at, _storage as stg, AnnotationError
            rows = []
            for c in req["cases"]:
                b, ann = build("Float", np.ndarray, c["dim"])
                if b != "ok":
                    rows.append({"out": b}); continue
                dims = list(ann.dims)
                single, args = dict(c["single"]), dict(c["args"])
                args["boom"] = boom
                stg._treepath_storage.value = c.get("label")
                try:
                    r = at._check_dims(dims, tuple(c["shape"]), single, args)
                    o = "ret:" + ("" if r == "" else "msg")
                except AnnotationError:
                    o = "raise:AnnotationError"
                except Exception:
                    o = "raise:Exception"
                except BaseException:
                    o = "raise:BaseException"
                finally:
                    stg._treepath_storage.value = None
                rows.append({"out": o + " {" + ",".join("%s=%d" % kv for kv in single.items()) + "}", "syms": sym_sources(ann),
                             "variadic": ann.index_variadic is not None, "rank": len(dims)})
            res = {"rows": rows}
        elif req["mode"] == "check_shape":
            # the METHOD _check_shape itself on explicit inputs (for the interpretation of the term generated from its source)
            import numpy as np
            from jaxtyping import _storage as stg, AnnotationError
            rows = []
            for c in req["cases"]:
                b, ann = build("Float", np.ndarray, c["dim"])
                if b != "ok":
                    rows.append({"out": b}); continue
                single, args = dict(c["single"]), dict(c["args"])
                variadic = {k: (bool(v[0]), tuple(v[1])) for k, v in c["variadic"].items()}
                args["boom"] = boom
                stg._treepath_storage.value = c.get("label")
                try:
                    r = ann._check_shape(np.zeros(tuple(c["shape"]), "float32"), single, variadic, args)
                    o = "ret:" + ("" if r == "" else "msg")
                except AnnotationError:
                    o = "raise:AnnotationError"
                except Exception:
                    o = "raise:Exception"
                except BaseException:
                    o = "raise:BaseException"
                finally:
                    stg._treepath_storage.value = None
                rows.append({"out": o + " " + show_memo((single, variadic, {}, {})), "syms": sym_sources(ann)})
            res = {"rows": rows}
        elif req["mode"] == "sessions":
            REUSE[0] = bool(req.get("reuse"))
            cats = sorted({st.get("cat", "Float") for se in req["sessions"] for st in se["steps"]})
            res = {"results": run_sessions(req["sessions"]), "cat_dtypes": cat_dtypes(cats)}
        else:
            raise KeyError(req["mode"])
    print(json.dumps(res))


if __name__ == "__main__":
    main()

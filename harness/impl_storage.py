"""Worker for the storage-accessor correspondence (C05/C06/C12): op sequences on the REAL jaxtyping/_storage.py accessor functions
and the REAL context manager, each sequence in a fresh thread (= a fresh view of the three threading.local cells).
JSON in {"seqs": [[op...]...]}; op = ["has"] | ["get"] | ["set", d, d, d, d] | ["push", d] | ["pop"] | ["clearpath"] |
 ["setpath", int|null, str] | ["getpath"] | ["clearflat"] | ["setflat"] | ["getflat"] | ["enter", k] | ["exit", k]   (d = {name: int};
 k = which of two context-manager objects)
JSON out: per sequence a list of "result | state" strings in the rendering of model/SL.v (show_sres / show_tls)."""
import json, sys, threading


def show(v):
    if v is None:
        return "None"
    if v is True:
        return "True"
    if v is False:
        return "False"
    if isinstance(v, str):
        return "'" + v + "'"
    if isinstance(v, int):
        return str(v)
    if isinstance(v, dict):
        return "{" + ",".join("%s:%d" % kv for kv in v.items()) + "}"
    if isinstance(v, tuple):
        return "(" + ",".join(show(x) for x in v) + ")"
    if isinstance(v, list):
        return "[" + ",".join(show(x) for x in v) + "]"
    return "?" + type(v).__name__


def main():
    req = json.load(sys.stdin)
    import jaxtyping
    from jaxtyping import _storage as st, jaxtyped, AnnotationError
    out = []

    def state():
        ss = getattr(st._shape_storage, "memo_stack", None)
        return "stack=%s path=%s flat=%s" % ("-" if ss is None else show(ss),
                                             show(st._treepath_storage.value) if hasattr(st._treepath_storage, "value") else "-",
                                             show(st._treeflatten_storage.value) if hasattr(st._treeflatten_storage, "value") else "-")

    def run_seq(seq, res):
        ctx = [jaxtyped("context"), jaxtyped("context")]
        for op in seq:
            k = op[0]
            try:
                if k == "has":
                    r = st._has_shape_memo()
                elif k == "get":
                    r = st.get_shape_memo()
                elif k == "set":
                    r = st.set_shape_memo(*[dict(d) for d in op[1:5]])
                elif k == "push":
                    r = st.push_shape_memo(dict(op[1]))
                elif k == "pop":
                    r = st.pop_shape_memo()
                elif k == "clearpath":
                    r = st.clear_treepath_memo()
                elif k == "setpath":
                    r = st.set_treepath_memo(op[1], op[2])
                elif k == "getpath":
                    r = st.get_treepath_memo()
                elif k == "clearflat":
                    r = st.clear_treeflatten_memo()
                elif k == "setflat":
                    r = st.set_treeflatten_memo()
                elif k == "getflat":
                    r = st.get_treeflatten_memo()
                elif k == "enter":
                    r = ctx[op[1]].__enter__()
                elif k == "exit":
                    r = ctx[op[1]].__exit__(None, None, None)
                else:
                    raise KeyError(k)
                txt = show(r)
            except AnnotationError:
                txt = "raise:AnnotationError"
            except AttributeError:
                txt = "raise:AttributeError"
            except IndexError:
                txt = "raise:IndexError"
            except BaseException as e:  # noqa
                txt = "raise:Other"
            res.append(txt + " | " + state())

    for seq in req["seqs"]:
        res = []
        th = threading.Thread(target=run_seq, args=(seq, res))        # a new thread: no attribute exists yet on its view of the cells
        th.start(); th.join()
        out.append(res)
    print(json.dumps(out))


if __name__ == "__main__":
    main()

"""Worker for the storage-accessor correspondence (C05/C06/C12): op sequences on the REAL jaxtyping/_storage.py accessor functions
and the REAL context manager, each sequence in a fresh thread (= a fresh view of the three threading.local cells).
JSON in {"seqs": [[op...]...]}; op = ["has"] | ["get"] | ["set", d, d, d, d] | ["push", d] | ["pop"] | ["clearpath"] |
 ["setpath", int|null, str] | ["getpath"] | ["clearflat"] | ["setflat"] | ["getflat"] | ["enter", k] | ["exit", k]   (d = {name: int};
 k = which of two context-manager objects)
JSON out: per sequence a list of "result | state" strings in the rendering of model/SL.v (show_sres / show_tls)."""
import json, sys, threading


def show(v):
    if v is None:
        return "None"
    if v is True:
        return "True"
    if v is False:
        return "False"
    if isinstance(v, str):
        return "'" + v + "'"
    if isinstance(v, int):
        return str(v)
    if isinstance(v, dict):
        return "{" + ",".join("%s:%d" % kv for kv in v.items()) + "}"
    if isinstance(v, tuple):
        return "(" + ",".join(show(x) for x in v) + ")"
    if isinstance(v, list):
        return "[" + ",".join(show(x) for x in v) + "]"
    return "?" + type(v).__name__


def main():
    req = json.load(sys.stdin)
    import jaxtyping
    from jaxtyping import _storage as st, jaxtyped, AnnotationError
    out = []

    def state():
        ss = getattr(st._shape_storage, "memo_stack", None)
        return "stack=%s path=%s flat=%s" % ("-" if ss is None else show(ss),
                                             show(st._treepath_storage.value) if hasattr(st._treepath_storage, "value") else "-",
                                             show(st._treeflatten_storage.value) if hasattr(st._treeflatten_storage, "value") else "-")

    def run_seq(seq, res):
        ctx = [jaxtyped("context"), jaxtyped("context")]
        for op in seq:
            k = op[0]
            try:
                if k == "has":
                    r = st._has_shape_memo()
                elif k == "get":
                    r = st.get_shape_memo()
                elif k == "set":
                    r = st.set_shape_memo(*[dict(d) for d in op[1:5]])
                elif k == "push":
                    r = st.push_shape_memo(dict(op[1]))
                elif k == "pop":
                    r = st.pop_shape_memo()
                elif k == "clearpath":
                    r = st.clear_treepath_memo()
                elif k == "setpath":
                    r = st.set_treepath_memo(op[1], op[2])
                elif k == "getpath":
                    r = st.get_treepath_memo()
                elif k == "clearflat":
                    r = st.clear_treeflatten_memo()
                elif k == "setflat":
                    r = st.set_treeflatten_memo()
                elif k == "getflat":
                    r = st.get_treeflatten_memo()
                elif k == "enter":
                    r = ctx[op[1]].__enter__()
                elif k == "exit":
                    r = ctx[op[1]].__exit__(None, None, None)
                else:
                    raise KeyError(k)
                txt = show(r)
            except AnnotationError:
                txt = "raise:AnnotationError"
            except AttributeError:
                txt = "raise:AttributeError"
            except IndexError:
                txt = "raise:IndexError"
            except BaseException as e:  # noqa
                txt = "raise:Other"
            res.append(txt + " | " + state())

    for seq in req.get("seqs", []):
        res = []
        th = threading.Thread(target=run_seq, args=(seq, res))        # a new thread: no attribute exists yet on its view of the cells
        th.start(); th.join()
        out.append(res)

    # ---- the two brackets of _MetaPyTree._check: CPython runs THE SAME STATEMENTS (cut out of the source), with scripted
    #      stand-ins for the code they call out to; model/SL.v interprets their translation with the same script
    fout = []
    if req.get("fragments"):
        import ast, inspect, textwrap
        from jaxtyping import _pytree_type as pt

        class Boom(BaseException):
            pass

        def scripted(code, what):
            if code == 0:
                return ([], None) if what == "flatten" else True
            if code == 1:
                return False
            if code == 2:
                raise AnnotationError("scripted")
            if code == 3:
                raise RuntimeError("scripted")
            if code == 4:
                raise Boom("scripted")
            if code == 5:
                st._treepath_storage.value = "x"; return True
            if code == 6:
                st._treeflatten_storage.value = False; return True
            if code == 7:
                st._treeflatten_storage.value = False; return ([], None)
            raise RuntimeError("unknown code")

        def scripted_check(code, live, ok, no):
            """stand-in for cls._check_shape / cls._check: optionally binds n=3 IN PLACE in the live dictionary it was handed"""
            if code in (8, 9, 10, 11):
                live["n"] = 3
            if code in (0, 8):
                return ok
            if code in (1, 9):
                return no
            if code == 2:
                raise AnnotationError("scripted")
            if code in (3, 10):
                raise RuntimeError("scripted")
            if code in (4, 11):
                raise Boom("scripted")
            raise RuntimeError("unknown code")

        src = open(pt.__file__).read()
        tree = ast.parse(src)
        chk = [m for c in tree.body if isinstance(c, ast.ClassDef) and c.name == "_MetaPyTree" for m in c.body if isinstance(m, ast.FunctionDef) and m.name == "_check"][0]
        body = chk.body
        fb = [i for i, x in enumerate(body) if isinstance(x, ast.Expr) and isinstance(x.value, ast.Call) and getattr(x.value.func, "id", None) == "set_treeflatten_memo"][0]

        def make(stmts, params):
            fn = ast.FunctionDef(name="frag", args=ast.arguments(posonlyargs=[], args=[ast.arg(arg=a) for a in params], kwonlyargs=[], kw_defaults=[], defaults=[]),
                                 body=stmts, decorator_list=[], type_params=[])
            mod = ast.fix_missing_locations(ast.Module(body=[fn], type_ignores=[]))
            g = dict(vars(pt))
            exec(compile(mod, "<fragment of _pytree_type.py>", "exec"), g)
            return g["frag"]
        def tail_of(module, clsname, fname):
            t = ast.parse(open(module.__file__).read())
            m = [m for c in t.body if isinstance(c, ast.ClassDef) and c.name == clsname for m in c.body if isinstance(m, ast.FunctionDef) and m.name == fname][0]
            k = [i for i, x in enumerate(m.body) if isinstance(x, ast.Assign) and isinstance(x.value, ast.Call) and getattr(x.value.func, "id", None) == "get_shape_memo"][0]
            fn = ast.FunctionDef(name="frag", args=ast.arguments(posonlyargs=[], args=[ast.arg(arg="cls"), ast.arg(arg="obj")], kwonlyargs=[], kw_defaults=[], defaults=[]),
                                 body=m.body[k:], decorator_list=[], type_params=[])
            g = dict(vars(module))
            exec(compile(ast.fix_missing_locations(ast.Module(body=[fn], type_ignores=[])), "<fragment of %s>" % module.__name__, "exec"), g)
            return g["frag"]
        from jaxtyping import _array_types as at_
        frag_atail = tail_of(at_, "_MetaAbstractArray", "__instancecheck_str__")
        frag_ptail = tail_of(pt, "_MetaPyTree", "__instancecheck__")
        # the new-style decorated-call wrapper (jaxtyping/_decorator.py: the wrapped_fn that calls wrapped_fn_impl), closure variables scripted
        from jaxtyping import _decorator as dc_
        dtree = ast.parse(open(dc_.__file__).read())
        wfn = [n for n in ast.walk(dtree) if isinstance(n, ast.FunctionDef) and n.name == "wrapped_fn" and any(isinstance(x, ast.Name) and x.id == "wrapped_fn_impl" for x in ast.walk(n))][0]
        wfn = ast.FunctionDef(name="frag", args=wfn.args, body=wfn.body, decorator_list=[], type_params=[])

        def run_wrapped(sc):
            bit = lambda n: (sc // n) % 2 == 1
            class Cfg:
                jaxtyping_disable = bit(1)
            class Fn:
                def __call__(self, *a, **k):
                    if bit(64):
                        raise RuntimeError("scripted")
                    return 9
            fn = Fn()
            if bit(2):
                fn.__no_type_check__ = True
            class Wr:
                pass
            wr = Wr()
            if bit(4):
                wr.__no_type_check__ = True
            class Bound:
                arguments = {"k": 2}
                def apply_defaults(self):
                    return None
            class Sig:
                def bind(self, *a, **k):
                    if bit(8):
                        raise RuntimeError("scripted")
                    return Bound()
            def impl(args, kwargs, bound, memos):
                code = (sc // 16) % 4
                if code == 1:
                    raise RuntimeError("scripted")
                if code == 2:
                    raise Boom("scripted")
                if code == 3:
                    memos[0]["n"] = 3
                return 7
            g = dict(vars(dc_))
            g.update(config=Cfg, fn=fn, param_signature=Sig(), wrapped_fn_holder=[lambda: wr], wrapped_fn_impl=impl)
            exec(compile(ast.fix_missing_locations(ast.Module(body=[wfn], type_ignores=[])), "<fragment of _decorator.py>", "exec"), g)
            return g["frag"](1)
        ofn = [n for n in ast.walk(dtree) if isinstance(n, ast.FunctionDef) and n.name == "wrapped_fn" and not any(isinstance(x, ast.Name) and x.id == "wrapped_fn_impl" for x in ast.walk(n))][0]
        ofn = ast.FunctionDef(name="frag", args=ofn.args, body=ofn.body, decorator_list=[], type_params=[])

        def run_old_wrapped(sc):
            bit = lambda n: (sc // n) % 2 == 1
            class Bound:
                arguments = {"k": 2}
                def apply_defaults(self):
                    return None
            class Sig:
                def bind(self, *a, **k):
                    if bit(8):
                        raise RuntimeError("scripted")
                    return Bound()
            def fn(*a, **k):
                code = (sc // 16) % 4
                if code == 1:
                    raise RuntimeError("scripted")
                if code == 2:
                    raise Boom("scripted")
                if code == 3:
                    st.get_shape_memo()[0]["n"] = 3
                    raise RuntimeError("scripted")
                return 9
            g = dict(vars(dc_))
            g.update(signature=Sig(), fn=fn)
            exec(compile(ast.fix_missing_locations(ast.Module(body=[ofn], type_ignores=[])), "<fragment of _decorator.py>", "exec"), g)
            return g["frag"](1)
        frag_loop = make(body[-2:], ["cls", "leaves", "is_check_leaftype"])
        frag_flat = make(body[fb:fb + 2], ["obj", "jtu", "is_flatten_leaftype"])

        class Jtu:
            @staticmethod
            def tree_flatten(obj, is_leaf=None):
                return scripted(obj, "flatten")

        def run_frag(case, res):
            pre = []
            run_seq(case["pre"], pre)
            try:
                if case["kind"] == "leafloop":
                    cls = type("C", (), {"structure": case["structure"]})
                    r = frag_loop(cls, list(case["codes"]), lambda leaf: scripted(leaf, "leaf"))
                elif case["kind"] == "wrapped":
                    r = run_wrapped(case["sc"])
                elif case["kind"] == "oldwrapped":
                    r = run_old_wrapped(case["sc"])
                elif case["kind"] == "arraytail":
                    cls = type("C", (), {"_check_shape": staticmethod(lambda obj, sm, vm, am: scripted_check(obj, sm, "", "msg"))})
                    r = frag_atail(cls, case["code"])
                elif case["kind"] == "pytreetail":
                    cls = type("C", (), {"_check": staticmethod(lambda obj, pm: scripted_check(obj, pm, True, False))})
                    r = frag_ptail(cls, case["code"])
                else:
                    r = frag_flat(case["code"], Jtu, None)
                txt = show(r)
            except AnnotationError:
                txt = "raise:AnnotationError"
            except AttributeError:
                txt = "raise:AttributeError"
            except IndexError:
                txt = "raise:IndexError"
            except Exception:
                txt = "raise:Other"
            except BaseException:
                txt = "raise:BaseException"
            res.append(txt + " | " + state())
        for case in req["fragments"]:
            res = []
            th = threading.Thread(target=run_frag, args=(case, res))
            th.start(); th.join()
            fout.append(res[0] if res else "thread-died")
    print(json.dumps({"seqs": out, "fragments": fout} if "fragments" in req else out))


if __name__ == "__main__":
    main()

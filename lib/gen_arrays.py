"""Generators and Coq renderers for array-check cases (C01, C04, C02, C13, C17)."""
import ast, re
from vf import coqstr, coqz, coqlist, coqbool, coqopt

SIZES = [0, 1, 1, 2, 3, 3, 4, 5, 7]
NAMES = ["a", "b", "c", "n"]
VNAMES = ["v", "w"]
SYMS = ["a+1", "2*b", "a+b", "n-1", "min(a,b)", "a//2", "a%2", "(a+b)*2", "a//(b-b)", "{k}", "{k}+a", "max(a,1)",
        "-a+10", "a*b-c", "{q}", "{k}*{m}", "a+{q}", "n%(a-a)", "3+0", "c-1", "{a}", "{n}+a", "2*n"]
SYMS_RAISE = ["{boom(0)}", "{boom(1)}", "a+{boom(0)}", "a+{boom(1)}"]


# ---------------------------------------------------------------- symbolic expressions -> Coq
def sym_to_coq(src):
    """Source text of a symbolic axis -> Coq `expr` term, or None when outside the grammar."""
    fields = {}

    def repl(m):
        key = "__f%d" % len(fields)
        fields[key] = m.group(1)
        return key

    txt = re.sub(r"\{([^{}]*)\}", repl, src)
    if "{" in txt or "}" in txt:
        return None
    try:
        tree = ast.parse(txt, mode="eval").body
    except SyntaxError:
        return None
    ops = {ast.Add: "OAdd", ast.Sub: "OSub", ast.Mult: "OMul", ast.FloorDiv: "OFloorDiv", ast.Mod: "OMod"}

    def go(n):
        if isinstance(n, ast.Constant) and type(n.value) is int:
            return "(EInt %s)" % coqz(n.value)
        if isinstance(n, ast.Name):
            if n.id in fields:
                f = fields[n.id].strip()
                if re.fullmatch(r"[A-Za-z_][A-Za-z0-9_]*", f):
                    return "(EArg %s)" % coqstr(f)
                m = re.fullmatch(r"boom\((\d)\)", f)
                if m:
                    return "(ERaise %s)" % coqbool(m.group(1) != "0")
                raise ValueError(f)
            return "(EVar %s)" % coqstr(n.id)
        if isinstance(n, ast.UnaryOp) and isinstance(n.op, ast.USub):
            return "(ENeg %s)" % go(n.operand)
        if isinstance(n, ast.UnaryOp) and isinstance(n.op, ast.UAdd):
            return go(n.operand)
        if isinstance(n, ast.BinOp) and type(n.op) in ops:
            return "(EBin %s %s %s)" % (ops[type(n.op)], go(n.left), go(n.right))
        if isinstance(n, ast.Call) and isinstance(n.func, ast.Name) and n.func.id in ("min", "max") and len(n.args) == 2 and not n.keywords:
            return "(%s %s %s)" % ("EMin" if n.func.id == "min" else "EMax", go(n.args[0]), go(n.args[1]))
        raise ValueError(ast.dump(n))

    try:
        return go(tree)
    except ValueError:
        return None


def symtab_coq(srcs):
    items = []
    for s in sorted(set(srcs)):
        t = sym_to_coq(s)
        if t is not None:
            items.append("(%s, %s)" % (coqstr(s), t))
    return "([" + "; ".join(items) + "] : alist expr)"


# ---------------------------------------------------------------- dim strings
def gen_axis(rng, allow_var, raising=False):
    """-> (token, kind) ; kind in named/fixed/sym/anon/var/vanon"""
    r = rng.random()
    if r < .07:
        return "_", "anon"
    if allow_var and r < .12:
        return rng.choice(["...", "*_", "_*"]), "vanon"
    if allow_var and r < .30:
        n = rng.choice(VNAMES)
        return rng.choice(["*", "*", "*#", "#*"]) + n, "var"
    kind = rng.choice(["named"] * 6 + ["fixed"] * 2 + ["sym"] * 3)
    bc = "#" if rng.random() < .25 else ""
    if kind == "named":
        tok = bc + rng.choice(NAMES)
    elif kind == "fixed":
        tok = bc + str(rng.choice([0, 1, 2, 3, 4]))
    else:
        pool = SYMS + (SYMS_RAISE * 3 if raising else [])
        tok = bc + rng.choice(pool)
    if rng.random() < .06:
        tok = "d=" + tok
    return tok, kind


def gen_dims(rng, raising=False, maxaxes=5):
    n = rng.choice([0, 1, 1, 2, 2, 3, 3, 4, 5][:maxaxes + 4])
    toks, var = [], False
    for _ in range(n):
        t, k = gen_axis(rng, not var, raising)
        if k in ("var", "vanon"):
            var = True
        toks.append((t, k))
    return toks


class Env:
    """hidden consistent assignment used to make most cases satisfiable"""

    def __init__(self, rng):
        self.sizes = {n: rng.choice(SIZES) for n in NAMES}
        self.vshapes = {n: tuple(rng.choice(SIZES) for _ in range(rng.choice([0, 1, 2, 2, 3]))) for n in VNAMES}
        self.args = {"k": rng.choice([0, 1, 2, 3]), "m": rng.choice([1, 2, 5])}
        # call arguments that happen to be NAMED like axes (def f(n: int, x: Float[Array, "n"]) ...): `{n}` is the argument, a bare `n`
        # is the axis; the two namespaces never mix
        for nm in ("a", "n", "b"):
            if rng.random() < .3:
                self.args[nm] = rng.choice([0, 1, 2, 3, 5])


def shape_for(rng, toks, env, perturb):
    shape = []
    for t, k in toks:
        base = t.split("=")[-1].lstrip("#*_?")
        bc = "#" in t.split("=")[-1][:3]
        if k == "anon":
            shape.append(rng.choice(SIZES))
        elif k == "vanon":
            shape += [rng.choice(SIZES) for _ in range(rng.choice([0, 1, 2]))]
        elif k == "var":
            s = list(env.vshapes.get(base, ()))
            if bc and rng.random() < .5:
                # a shape that broadcasts to the hidden one: drop leading axes / set some to 1
                s = s[rng.randrange(len(s) + 1):]
                s = [1 if rng.random() < .4 else x for x in s]
            shape += s
        elif k == "named":
            shape.append(1 if (bc and rng.random() < .35) else env.sizes[base])
        elif k == "fixed":
            shape.append(1 if (bc and rng.random() < .35) else int(base))
        else:
            try:
                src = re.sub(r"\{(\w+)\}", lambda m: str(env.args.get(m.group(1), 2)), base)
                v = eval(src, {"__builtins__": {"min": min, "max": max}}, dict(env.sizes))
                shape.append(v if isinstance(v, int) and 0 <= v <= 40 else rng.choice(SIZES))
            except Exception:
                shape.append(rng.choice(SIZES))
    if perturb and shape:
        how = rng.random()
        i = rng.randrange(len(shape))
        if how < .6:
            shape[i] = rng.choice([s for s in SIZES if s != shape[i]])
        elif how < .8:
            del shape[i]
        else:
            shape.insert(i, rng.choice(SIZES))
    return shape


def dimstr(rng, toks, fancy_ws=True):
    if not fancy_ws:
        return " ".join(t for t, _ in toks)
    s = rng.choice(["", "", " "])
    for t, _ in toks:
        s += t + rng.choice([" ", " ", " ", "  ", "\t"])
    return s


DT_CASES = [("Float", "float32"), ("Float", "float32"), ("Float", "float32"), ("Shaped", "int32"), ("Int", "int32"),
            ("Float", "int32"), ("Bool", "float32"), ("Num", "float64"), ("Shaped", "bool")]
ARR_KINDS = ["np"] * 10 + ["any", "duck", "ducktorch", "notarray", "noattrs"]


def gen_session(rng, nsteps=None, raising=False, p_perturb=.3, arrs=ARR_KINDS, dts=DT_CASES):
    env = Env(rng)
    steps = []
    for _ in range(nsteps or rng.choice([1, 2, 3, 4, 5])):
        toks = gen_dims(rng, raising)
        cat, dt = rng.choice(dts)
        arr = rng.choice(arrs)
        steps.append({"dim": dimstr(rng, toks), "shape": shape_for(rng, toks, env, rng.random() < p_perturb),
                      "dtype": dt, "cat": cat, "arr": arr})
    # `boom` reaches the expression through the call's arguments, so raising axes need a context
    return {"args": dict(env.args), "steps": steps, "nocontext": (not raising) and rng.random() < .04}


# ---------------------------------------------------------------- Coq rendering of sessions
def value_coq(step, dtype_name=None):
    arr = step.get("arr", "np")
    inst = arr in ("np", "jax")
    attrs = arr != "noattrs"
    if arr in ("any", "duck", "ducktorch"):
        inst = False
    return "(mkvalue %s %s %s %s)" % (coqbool(inst), coqbool(attrs), coqstr(dtype_name or step.get("dtype", "float32")),
                                      coqlist(step["shape"], coqz))


def step_coq(step, dtypes):
    """dtypes: list of str or None (from the implementation's category class)"""
    return "(mkstep %s %s %s %s)" % (coqstr(step["dim"]), coqbool(step.get("arr", "np") in ("any", "duck", "ducktorch", "noattrs")),
                                     coqopt(dtypes, lambda l: coqlist(l, coqstr)), value_coq(step))


def session_coq(sess, cat_dtypes, syms):
    args = coqlist(sorted(sess["args"].items()), lambda kv: "(%s, %s)" % (coqstr(kv[0]), coqz(kv[1])))
    steps = coqlist(sess["steps"], lambda s: step_coq(s, cat_dtypes[s.get("cat", "Float")]))
    return "(%s, %s, %s, %s)" % (symtab_coq(syms), args, coqbool(bool(sess.get("nocontext"))), steps)

"""Shared machinery of the /verif checks (orchestrator side).

Run under /venv/bin/python (stdlib only here).  Every property harness
(harness/cNN.py) uses:
  * regen()           -- regenerate coq/gen/*.v from /repo's working tree (translators)
  * coq_make()        -- full .vo build of the development (never -vos), under flock
  * coq_props(pid)    -- re-run coqc on props/<pid>.v, count theorems and closed
                         `Print Assumptions`
  * coq_eval(...)     -- evaluate model cases inside Coq (vm_compute) -> list of strings
  * impl(...)         -- run an implementation-side worker in a fresh interpreter with
                         PYTHONPATH=/repo, PYTHONHASHSEED=0 and the guard variable on
  * Report            -- violations, known findings, replay files, evidence
"""
import argparse, fcntl, hashlib, json, os, random, re, shutil, subprocess, sys, tempfile, time

VERIF = os.path.dirname(os.path.dirname(os.path.abspath(__file__)))
REPO = os.environ.get("VERIF_REPO", "/repo")
COQ = os.path.join(VERIF, "coq")
PY = "/venv/bin/python"
GUARD = "JAXTYPING_VERIF"
NCPU = os.cpu_count() or 4

TRUSTED_BASE_COMMON = [
    "Coq 8.16.1 kernel (coqc, vm_compute; no native_compute); full .vo build",
    "axioms: none expected -- every `Print Assumptions` must answer `Closed under the global context`",
    "translators in /verif/translator (Python ast -> Coq data and terms of the embedded Python fragments model/PyL.v, model/SL.v; fail-closed); the interpreters of those fragments are my reading of Python and are run against CPython on every check that uses them (DESIGN.md sections 18, 20, 20.1, 14)",
    "correspondence harness in /verif/harness + /verif/lib (Python): generators, rendering of cases to Coq terms, canonicalisation of observations; model evaluated inside Coq by vm_compute (no extraction)",
    "modelled, not verified: CPython, NumPy, JAX, TensorFlow, typeguard 2.13.3, beartype 0.22.9 (see DESIGN.md section 7)",
]


def impl_env(extra=None):
    env = dict(os.environ)
    env["PYTHONPATH"] = REPO
    env["PYTHONHASHSEED"] = "0"
    env[GUARD] = "1"
    env["PYTHONDONTWRITEBYTECODE"] = "1"
    env["JAX_PLATFORMS"] = "cpu"
    env["TF_CPP_MIN_LOG_LEVEL"] = "3"
    env.pop("JAXTYPING_DISABLE", None)
    env.pop("JAXTYPING_REMOVE_TYPECHECKER_STACK", None)
    if extra:
        env.update(extra)
    return env


class Lock:
    def __init__(self, name="coq"):
        self.path = os.path.join(VERIF, ".lock-" + name)

    def __enter__(self):
        self.f = open(self.path, "w")
        fcntl.flock(self.f, fcntl.LOCK_EX)

    def __exit__(self, *a):
        fcntl.flock(self.f, fcntl.LOCK_UN)
        self.f.close()


def sh(cmd, timeout=600, cwd=None, env=None, input=None):
    p = subprocess.run(cmd, cwd=cwd, env=env, input=input, capture_output=True, text=True, timeout=timeout)
    return p.returncode, p.stdout, p.stderr


# --------------------------------------------------------------------------- Coq

def regen():
    """Run every translator; returns (ok, message).  Translators write coq/gen/*.v only
    when the content changed, so `make` rebuilds only what depends on changed data."""
    rc, out, err = sh([PY, os.path.join(VERIF, "translator", "run_all.py"), REPO, os.path.join(COQ, "gen")], timeout=120)
    return rc == 0, (out + err).strip()


GEN_OF = {"tr_dtypes": "DtypeTables", "tr_config": "ConfigTable", "tr_storage": "StorageKinds", "tr_hook": "HookConsts",
          "tr_brackets": "Brackets", "tr_pyl": "CheckDimsSrc", "tr_pyl_hook": "ShouldInstrumentSrc", "tr_pyl_storage": "StorageSrc"}


def gen_deps(pid):
    """the generated files (coq/gen/X.v) the theorems of props/<pid>.v depend on, through every imported model/proofs file"""
    seen, todo, gens = set(), [os.path.join("props", pid + ".v")], set()
    while todo:
        f = todo.pop()
        if f in seen or not os.path.exists(os.path.join(COQ, f)):
            continue
        seen.add(f)
        src = strip_comments(open(os.path.join(COQ, f)).read())
        for m in re.finditer(r"From\s+JT\s+Require\s+(?:Import|Export)\s+(.*?)\.\s", src + " ", re.S):
            for mod in m.group(1).split():
                parts = mod.split(".")
                if len(parts) == 2:
                    if parts[0] == "gen":
                        gens.add(parts[1])
                    todo.append(os.path.join(parts[0], parts[1] + ".v"))
    return gens


def failed_translators(msg):
    return set(re.findall(r"^(tr_\w+):", msg, re.M))


def coq_project():
    files = []
    for d in ("model", "gen", "proofs", "props"):
        dd = os.path.join(COQ, d)
        if os.path.isdir(dd):
            files += sorted(os.path.join(d, f) for f in os.listdir(dd) if f.endswith(".v"))
    head = ["-Q . JT",
            "-arg -w -arg -notation-overridden,-deprecated-hint-without-locality,-deprecated-instance-without-locality"]
    txt = "\n".join(head + files) + "\n"
    p = os.path.join(COQ, "_CoqProject")
    old = open(p).read() if os.path.exists(p) else ""
    if old != txt or not os.path.exists(os.path.join(COQ, "Makefile")):
        open(p, "w").write(txt)
        sh(["coq_makefile", "-f", "_CoqProject", "-o", "Makefile"], cwd=COQ)


def coq_make(targets=None, timeout=1500):
    """Full build (or of the given .vo targets).  Returns (ok, log)."""
    with Lock("coq"):
        coq_project()
        cmd = ["timeout", str(timeout), "make", "-j%d" % NCPU] + (targets or [])
        rc, out, err = sh(cmd, cwd=COQ, timeout=timeout + 30)
    return rc == 0, out + err


HYGIENE = re.compile(r"\b(Admitted|admit|Axiom|Axioms|Parameter|Parameters|Conjecture|Conjectures|Admit Obligations|bypass_check|native_compute)\b|Unset Guard|type-in-type|impredicative-set|Unset Universe Checking|Unset Positivity")


def strip_comments(txt):
    out, depth, i = [], 0, 0
    while i < len(txt):
        if txt.startswith("(*", i):
            depth += 1; i += 2
        elif txt.startswith("*)", i) and depth > 0:
            depth -= 1; i += 2
        else:
            if depth == 0:
                out.append(txt[i])
            i += 1
    return "".join(out)


def coq_hygiene():
    bad = []
    for root, _, fs in os.walk(COQ):
        for f in fs:
            if f.endswith(".v"):
                p = os.path.join(root, f)
                txt = strip_comments(open(p).read())
                # string literals cannot contain vernacular; drop them
                txt = re.sub(r'"(?:[^"]|"")*"', '""', txt)
                for m in HYGIENE.finditer(txt):
                    bad.append("%s: %s" % (os.path.relpath(p, COQ), m.group(0)))
                if re.search(r"^\s*(Variable|Variables|Hypothesis|Hypotheses|Context)\b", txt, re.M) and not re.search(r"^\s*Section\b", txt, re.M):
                    bad.append("%s: Variable/Hypothesis outside a section" % os.path.relpath(p, COQ))
    return bad


def coq_props(pid, timeout=900):
    """Recompile props/<pid>.v, return dict(obligations, discharged, theorems, axioms, ok, log)."""
    path = os.path.join("props", pid + ".v")
    src = open(os.path.join(COQ, path)).read()
    theorems = re.findall(r"^\s*(?:Theorem|Lemma|Corollary)\s+([A-Za-z0-9_']+)", strip_comments(src), re.M)
    with Lock("coq"):
        rc, out, err = sh(["timeout", str(timeout), "coqc", "-Q", ".", "JT", "-w", "-notation-overridden", path], cwd=COQ, timeout=timeout + 30)
    closed = out.count("Closed under the global context")
    axioms = []
    for m in re.finditer(r"Axioms:\n((?:.+\n)+?)(?=\n|\Z)", out):
        axioms.append(m.group(1).strip())
    return dict(ok=(rc == 0), obligations=len(theorems), discharged=(closed if rc == 0 else 0),
                theorems=theorems, axioms=axioms, log=(out + err)[-4000:],
                checker_cmd="coq_makefile -f _CoqProject -o Makefile && make (full .vo build) ; coqc -Q . JT props/%s.v (Print Assumptions under every theorem)" % pid)


def coqstr(s):
    """Render a Python str as a Coq string term (ASCII; non printable via `sl`)."""
    if all(32 <= ord(c) < 127 for c in s):
        return '"' + s.replace('"', '""') + '"'
    return "(sl [" + ";".join(str(ord(c)) for c in s) + "]%nat)"


def coqz(z):
    return "(%d)%%Z" % z


def coqlist(xs, f=lambda x: x):
    return "[" + "; ".join(f(x) for x in xs) + "]"


def coqbool(b):
    return "true" if b else "false"


def coqopt(x, f=lambda x: x):
    return "None" if x is None else "(Some %s)" % f(x)


_EVAL_RE = re.compile(r'^\s*= "(.*)"\s*\n\s*: string\s*$', re.S)


def coq_eval_strings(imports, run_fn, case_terms, shard=400, timeout=900, defs=""):
    """Evaluate `run_fn case` for every Coq term in case_terms inside Coq (vm_compute).
    run_fn : Coq function returning a `string` WITHOUT newlines.  Returns list of str.
    Cases are sharded into files of <= shard cases, compiled in parallel."""
    if not case_terms:
        return []
    # the model files the cases import must be built against the current generated data
    okm, logm = coq_make([imp.replace(".", "/") + ".vo" for imp in imports])
    if not okm:
        raise RuntimeError("the model files %s do not build: %s" % (imports, logm[-1500:]))
    tmp = tempfile.mkdtemp(prefix="vfcoq")
    try:
        shards = [case_terms[i:i + shard] for i in range(0, len(case_terms), shard)]
        procs = []
        for k, sc in enumerate(shards):
            fn = os.path.join(tmp, "cases%d.v" % k)
            with open(fn, "w") as f:
                f.write("From JT Require Import %s.\nOpen Scope string_scope.\n%s\n" % (" ".join(imports), defs))
                # the list is elaborated against the domain of run_fn (so that e.g. a shard whose options are all `None` still types)
                f.write("Eval vm_compute in (sep_concat nl (map (%s)\n [ " % run_fn + "\n ; ".join(sc) + " ])).\n")
            procs.append((fn, None))
        results = [None] * len(shards)
        running = []
        idx = 0
        maxpar = max(1, NCPU // 2)
        while idx < len(shards) or running:
            while idx < len(shards) and len(running) < maxpar:
                fn = procs[idx][0]
                p = subprocess.Popen(["bash", "-c", "ulimit -s unlimited 2>/dev/null || ulimit -s 1000000 2>/dev/null; exec timeout %d coqc -Q %s JT -w -notation-overridden %s" % (timeout, COQ, fn)],
                                     stdout=subprocess.PIPE, stderr=subprocess.PIPE, text=True, cwd=tmp)
                running.append((idx, p)); idx += 1
            k, p = running.pop(0)
            out, err = p.communicate()
            if p.returncode != 0:
                raise RuntimeError("coqc failed on cases shard %d: %s" % (k, (out + err)[-3000:]))
            m = _EVAL_RE.match(out)
            if not m:
                raise RuntimeError("cannot parse coqc output: %r" % out[:500])
            body = m.group(1).replace('""', '"')
            lines = body.split("\n")
            if len(lines) != len(shards[k]):
                raise RuntimeError("shard %d: %d results for %d cases" % (k, len(lines), len(shards[k])))
            results[k] = lines
        return [x for r in results for x in r]
    finally:
        shutil.rmtree(tmp, ignore_errors=True)


# --------------------------------------------------------------------------- implementation side

def impl(script, payload, timeout=1800, env=None, args=(), bg=False):
    """Run harness/<script> in a fresh interpreter against /repo; JSON in, JSON out.
    bg=True: through harness/bgrun.py, i.e. while two other threads of the worker process sit parked inside jaxtyping (one in a
    context with bindings in the leaf loop of a structured PyTree check, one in the flatten phase): per-thread state must make
    no difference to the worker's results."""
    cmd = [PY, os.path.join(VERIF, "harness", "bgrun.py"), os.path.join(VERIF, "harness", script)] if bg else [PY, os.path.join(VERIF, "harness", script)]
    p = subprocess.run(cmd + list(args), input=json.dumps(payload),
                       capture_output=True, text=True, timeout=timeout, env=impl_env(env), cwd=tempfile.gettempdir())
    if p.returncode != 0:
        raise ImplCrash(script, p.returncode, p.stdout[-2000:], p.stderr[-6000:])
    # the worker prints one JSON document on the last non-empty stdout line
    line = [l for l in p.stdout.splitlines() if l.strip()][-1]
    return json.loads(line)


class ImplCrash(Exception):
    def __init__(self, script, rc, out, err):
        super().__init__("implementation worker %s exited %s\n%s\n%s" % (script, rc, out, err))
        self.script, self.rc, self.out, self.err = script, rc, out, err


# --------------------------------------------------------------------------- reporting

def load_known():
    p = os.path.join(VERIF, "known_findings.json")
    if not os.path.exists(p):
        return []
    return json.load(open(p)).get("findings", [])


class Report:
    """Collects what one run of one property's check found and writes evidence."""

    def __init__(self, pid, argv=None):
        ap = argparse.ArgumentParser()
        ap.add_argument("--tier", default=os.environ.get("VERIF_TIER", "quick"))
        ap.add_argument("--replay", default=None)
        a = ap.parse_args(argv)
        self.pid = pid
        self.tier = a.tier if a.tier in ("quick", "thorough") else "quick"
        self.replay = a.replay
        try:
            self.seed = int(os.environ.get("VERIF_SEED", "0"))
        except ValueError:
            self.seed = 0
        self.rng = random.Random(self.seed * 1000003 + int(pid[1:]))
        self.t0 = time.time()
        self.violations = []      # dicts: {kind, what, case, key}
        self.known_hits = {}      # finding id -> count
        self.coverage = dict(evaluations=0, distinct_nontrivial=0, rule="", samples=[], obligations=0,
                             discharged=0, checker_cmd="", trusted_base=list(TRUSTED_BASE_COMMON))
        self.assumptions = []
        self.level = "proof"
        self.known = [k for k in load_known() if k.get("property") == pid and k.get("status", "open") == "open"]
        self.distribution = {}
        self.notes = []

    thorough = property(lambda self: self.tier == "thorough")

    def count(self, key, n=1):
        self.distribution[key] = self.distribution.get(key, 0) + n

    # a finding matches a violation when its `match` predicate (a dict of key -> regex
    # applied to the violation's `key` fields) matches
    def match_known(self, key):
        for k in self.known:
            ok = True
            for field, rx in k.get("match", {}).items():
                v = key.get(field)
                if v is None or not re.fullmatch(rx, str(v)):
                    ok = False; break
            if ok:
                return k
        return None

    def violation(self, kind, what, case, key=None, no_input=False):
        """kind: 'property' (the property fails on the real code for this input),
        'correspondence' (model and implementation differ), 'proof' (obligation broken)."""
        key = key or {}
        k = self.match_known(key)
        if k is not None:
            self.known_hits.setdefault(k["id"], [k, 0])[1] += 1
            return False
        self.violations.append(dict(kind=kind, what=what, case=case, key=key, no_input=no_input))
        return True

    def proof_step(self):
        """regen + build + props; records obligations; returns True when all discharged."""
        ok, msg = regen()
        if not ok:
            # only the translators whose output this property's theorems depend on matter here
            ft = failed_translators(msg)
            mine = {t for t in ft if GEN_OF.get(t) in gen_deps(self.pid)} if ft else {"?"}
            if ft and not mine:
                self.notes.append("a translator this property does not depend on failed: " + msg[-300:])
                ok = True
            else:
                self.violation("proof", "translator failed (source no longer in the translatable fragment): " + msg[-1500:],
                               {"translator_output": msg[-3000:]}, no_input=True)
        bad = coq_hygiene()
        if bad:
            self.violation("proof", "hygiene grep failed: " + "; ".join(bad[:5]), {"hygiene": bad}, no_input=True)
        okb, log = coq_make(["props/%s.vo" % self.pid])      # this property's theorems and everything they depend on
        pr = coq_props(self.pid) if okb or True else None
        self.coverage["obligations"] = pr["obligations"]
        self.coverage["discharged"] = pr["discharged"] if okb else min(pr["discharged"], pr["obligations"])
        self.coverage["checker_cmd"] = pr["checker_cmd"]
        self.coverage["theorems"] = pr["theorems"]
        self.coverage["axioms_reported"] = pr["axioms"]
        self.build_ok = okb and pr["ok"]
        if not ok:
            # the generated part of the model is stale: the theorems were not re-checked against what the code says now
            self.coverage["discharged"] = 0
            self.broken_proof = "translator failed, generated model files are stale: " + msg[-600:]
            return False
        if not pr["ok"]:
            m = re.search(r'File "([^"]+)", line (\d+)[^\n]*\n(?:.*\n)*?Error:?\s*((?:.*\n){0,12})', pr["log"])
            where = pr["log"][-1500:]
            self.broken_proof = where
            return False
        if pr["discharged"] != pr["obligations"] or pr["axioms"]:
            self.broken_proof = "Print Assumptions not closed: %s" % pr["axioms"]
            return False
        if not okb:
            # some other file of the development is broken; this property's closure built
            self.notes.append("development build reported an error outside this property's closure: " + log[-600:])
        self.broken_proof = None
        return True

    def finish(self, extra_cov=None):
        cov = self.coverage
        if extra_cov:
            cov.update(extra_cov)
        cov["distribution"] = self.distribution
        if self.notes:
            cov["notes"] = self.notes
        cov["known_findings_hit"] = {fid: n for fid, (k, n) in self.known_hits.items()}
        for fid, (k, n) in sorted(self.known_hits.items()):
            print("KNOWN-FINDING: property=%s %s [%s; %d matching case(s) this run]" % (self.pid, k["what"], fid, n))
        rc = 0
        if self.violations:
            rc = 1
            os.makedirs(os.path.join(VERIF, "replays"), exist_ok=True)
            # most specific first: a concrete property failure beats a bare disagreement
            order = {"property": 0, "correspondence": 1, "proof": 2}
            vs = sorted(self.violations, key=lambda v: (v["no_input"], order.get(v["kind"], 3)))
            seen = set()
            for v in vs[:int(os.environ.get("VERIF_MAXREPORT", "5"))]:
                blob = json.dumps(v, sort_keys=True, default=str)
                h = hashlib.sha1(blob.encode()).hexdigest()[:10]
                if h in seen:
                    continue
                seen.add(h)
                path = os.path.join(VERIF, "replays", "%s-%s.json" % (self.pid, h))
                with open(path, "w") as f:
                    json.dump(dict(property=self.pid, seed=self.seed, tier=self.tier, **v), f, indent=1, default=str)
                tail = " no-failing-input-found" if v["no_input"] else ""
                print("VIOLATION property=%s replay=%s%s" % (self.pid, path, tail))
                print("  [%s] %s" % (v["kind"], v["what"][:600]))
        ev = dict(property_id=self.pid, tier=self.tier, seed=self.seed, level=self.level, coverage=cov,
                  assumptions=self.assumptions, wall_s=round(time.time() - self.t0, 2), violations=len(self.violations))
        os.makedirs(os.path.join(VERIF, "evidence"), exist_ok=True)
        with open(os.path.join(VERIF, "evidence", self.pid + ".json"), "w") as f:
            json.dump(ev, f, indent=1, default=str)
        print("%s %s: %d evaluations, %d distinct non-trivial, obligations %d/%d, %d violation(s), %d known finding(s), %.1fs" % (
            self.pid, self.tier, cov.get("evaluations", 0), cov.get("distinct_nontrivial", 0), cov.get("discharged", 0),
            cov.get("obligations", 0), len(self.violations), len(self.known_hits), time.time() - self.t0))
        return rc


def guarded(pid, main):
    """Run a harness main(); an internal failure (model does not build, worker crashed, ...) is reported
    as a violation without a failing input instead of a traceback: the property is no longer shown."""
    import traceback
    try:
        main()
    except SystemExit:
        raise
    except BaseException as e:  # noqa
        tb = traceback.format_exc()
        os.makedirs(os.path.join(VERIF, "replays"), exist_ok=True)
        h = hashlib.sha1(tb.encode()).hexdigest()[:10]
        path = os.path.join(VERIF, "replays", "%s-%s.json" % (pid, h))
        with open(path, "w") as f:
            json.dump(dict(property=pid, kind="machinery", what="the check could not be completed: model/proof build, correspondence evaluation or implementation worker failed",
                           broken="see traceback: names the Coq file / correspondence stage that no longer checks", traceback=tb[-6000:]), f, indent=1)
        print("VIOLATION property=%s replay=%s no-failing-input-found" % (pid, path))
        print("  [machinery] " + tb[-1200:])
        ev = dict(property_id=pid, tier=os.environ.get("VERIF_TIER", "quick") if os.environ.get("VERIF_TIER") in ("quick", "thorough") else "quick",
                  seed=0, level="proof", coverage=dict(obligations=1, discharged=0, checker_cmd="coq_makefile + make; coqc props/%s.v" % pid, trusted_base=list(TRUSTED_BASE_COMMON),
                  explanation="check aborted: " + tb[-500:]), wall_s=0.0, violations=1)
        os.makedirs(os.path.join(VERIF, "evidence"), exist_ok=True)
        json.dump(ev, open(os.path.join(VERIF, "evidence", pid + ".json"), "w"), indent=1)
        sys.exit(1)

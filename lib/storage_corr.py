"""Correspondence of the interpreter of model/SL.v with CPython on the statements the translator cut out of the source:
the snapshot / roll-back tails of the array check and of the PyTree check, the flatten bracket and the leaf loop of
_MetaPyTree._check.  CPython executes THE SAME STATEMENTS (harness/impl_storage.py compiles them from the file's AST) with
scripted stand-ins for the code they call out to; Coq interprets their translation (gen/StorageSrc.v) with the same script
(model/SL.v: script_ext).  A disagreement means the translation or the interpreter misreads the code: reported as a broken
correspondence (no failing input for the property is implied)."""
import json
import vf

KINDS = {"arraytail": "array_tail", "pytreetail": "pytree_tail", "flatten": "flatten_bracket", "leafloop": "leaf_loop", "wrapped": "wrapped_fn", "oldwrapped": "old_wrapped_fn"}


def gen_pre(rng):
    seq = []
    for _ in range(rng.choice([0, 1, 2, 4])):
        k = rng.choice(["push", "push", "pop", "clearpath", "setpath", "clearflat", "setflat", "enter"])
        if k == "push":
            seq.append([k, rng.choice([{}, {"k": 2}])])
        elif k == "setpath":
            seq.append([k, rng.choice([None, 0, 3]), rng.choice(["T", "S"])])
        elif k == "enter":
            seq.append([k, 0])
        else:
            seq.append([k])
    return seq


def gen_case(rng, kind):
    if kind == "oldwrapped":
        # scenario: bind fails (8); the wrapped function returns / raises Exception / raises BaseException / binds an axis and raises (x16)
        return {"kind": kind, "pre": gen_pre(rng), "sc": 8 * rng.randrange(8)}
    if kind == "wrapped":
        # scenario bits: switch, no_type_check on the function / on the wrapper, bind fails, what wrapped_fn_impl does (x4), the plain call fails
        return {"kind": kind, "pre": gen_pre(rng), "sc": rng.randrange(128)}
    if kind in ("arraytail", "pytreetail"):
        return {"kind": kind, "pre": gen_pre(rng), "code": rng.choice([0, 1, 2, 3, 4, 8, 9, 10, 11])}
    if kind == "flatten":
        return {"kind": kind, "pre": gen_pre(rng), "code": rng.choice([0, 0, 1, 2, 3, 4, 7])}
    return {"kind": "leafloop", "pre": gen_pre(rng), "structure": rng.choice([None, "T", "T", "my tree"]),
            "codes": [rng.choice([0, 0, 0, 1, 2, 3, 4, 5, 6]) for _ in range(rng.choice([0, 1, 2, 3, 5]))]}


def _cdict(x):
    return "DEmpty" if not x else "(DArgs [%s])" % "; ".join("(%s, %s)" % (vf.coqstr(k), vf.coqz(v)) for k, v in x.items())


def _cop(o):
    k = o[0]
    if k == "push":
        return "(OPush %s)" % _cdict(o[1])
    if k == "setpath":
        return "(OSetPath %s %s)" % ("None" if o[1] is None else "(Some %s)" % vf.coqz(o[1]), vf.coqstr(o[2]))
    return {"pop": "OPop", "clearpath": "OClearPath", "clearflat": "OClearFlat", "setflat": "OSetFlat", "enter": "OEnter"}[k]


def _cterm(c):
    pre = "[" + "; ".join(_cop(o) for o in c["pre"]) + "]"
    if c["kind"] == "oldwrapped":
        return "(%s, %s, %s, [%s])" % (vf.coqz(c["sc"]), pre, vf.coqstr("old_wrapped_fn"), "; ".join(["SVNone"] * 10))
    if c["kind"] == "wrapped":
        return "(%s, %s, %s, [SVNone; SVNone; SVNone; SVStr %s; SVNone; SVNone; SVNone])" % (vf.coqz(c["sc"]), pre, vf.coqstr("wrapped_fn"), vf.coqstr("fn"))
    if c["kind"] == "leafloop":
        return "(0%%Z, %s, %s, [%s; SVList [%s]])" % (pre, vf.coqstr("leaf_loop"), "SVNone" if c["structure"] is None else "SVStr " + vf.coqstr(c["structure"]),
                                                "; ".join("SVInt %s" % vf.coqz(k) for k in c["codes"]))
    if c["kind"] in ("arraytail", "pytreetail"):
        return "(0%%Z, %s, %s, [SVNone; SVInt %s])" % (pre, vf.coqstr(KINDS[c["kind"]]), vf.coqz(c["code"]))
    return "(0%%Z, %s, %s, [SVInt %s])" % (pre, vf.coqstr("flatten_bracket"), vf.coqz(c["code"]))


def fragment_correspondence(R, kinds, n):
    """runs n generated cases per kind; records violations on R; returns the number of cases"""
    cases = [gen_case(R.rng, k) for k in kinds for _ in range(n)]
    try:
        out = vf.impl("impl_storage.py", {"seqs": [], "fragments": cases})
    except vf.ImplCrash as e:
        R.violation("correspondence", "the source fragments (%s) could not be cut out and run on this tree: %s" % (", ".join(kinds), str(e)[-400:]),
                    {"worker": "impl_storage.py", "kinds": list(kinds)}, key={"kind": "fragment-worker"}, no_input=True)
        return 0
    model = vf.coq_eval_strings(["model.SL", "gen.StorageSrc"], "fun c : Z * list sop * string * list sval => let '(sc, pre, f, args) := c in if String.eqb f \"wrapped_fn\" || String.eqb f \"old_wrapped_fn\" then run_fragment_w sc all_src pre f args else run_fragment all_src pre f args",
                                [_cterm(c) for c in cases], shard=150)
    for c, i, m in zip(cases, out["fragments"], model):
        R.count("source-fragment:" + c["kind"])
        if i != m:
            R.violation("correspondence", "the statements of the %s fragment, run by CPython with scripted stand-ins, give `%s`; their translation interpreted in Coq (model/SL.v) gives `%s` (case %s)" % (
                c["kind"], i, m, json.dumps(c)), {"case": c, "impl": i, "model": m}, key={"kind": "source-fragment", "fragment": c["kind"]}, no_input=True)
    return len(cases)

"""Python ast -> the model's generic AST (model/HookAst.v), as Coq text and as the canonical show_ast text."""
import ast


def cq(s):
    if all(32 <= ord(c) < 127 for c in s):
        return '"' + s.replace('"', '""') + '"'
    return "(sl [" + ";".join(str(b) for b in s.encode("utf-8", "backslashreplace")) + "]%nat)"


def scalar(v):
    r = repr(v)
    r = r.encode("ascii", "backslashreplace").decode("ascii")
    return r[:300]


def loc_of(n):
    if hasattr(n, "lineno") and hasattr(n, "col_offset"):
        return (n.lineno, n.col_offset, getattr(n, "end_lineno", None), getattr(n, "end_col_offset", None))
    return None


def fields(n):
    for f in n._fields:
        if not hasattr(n, f):
            continue
        v = getattr(n, f)
        if isinstance(v, list) and all(isinstance(x, ast.AST) for x in v) and (v or f in ("body", "decorator_list", "orelse", "finalbody", "handlers", "names", "targets", "args", "keywords", "bases", "elts", "values", "ops", "comparators", "generators", "ifs", "items", "cases", "patterns", "kwd_patterns", "kwd_attrs", "type_ignores", "type_params", "posonlyargs", "kwonlyargs", "kw_defaults", "defaults", "keys")):
            yield f, "list", v
        elif isinstance(v, list):
            # lists with None entries (kw_defaults, dict keys) or scalars (kwd_attrs, global names): keep shape by repr of non-nodes
            yield f, "mixed", v
        elif isinstance(v, ast.AST):
            yield f, "node", v
        else:
            yield f, "scalar", v


def to_coq(n):
    l = loc_of(n)
    ls = "None" if l is None else "(Some (%s, %s, %s, %s)%%Z)" % tuple("(%d)" % (x if x is not None else -1) for x in l)
    fs = []
    for name, kind, v in fields(n):
        if kind == "list":
            fs.append("(%s, FList [%s])" % (cq(name), "; ".join(to_coq(x) for x in v)))
        elif kind == "mixed":
            fs.append("(%s, FList [%s])" % (cq(name), "; ".join(to_coq(x) if isinstance(x, ast.AST) else 'N "py" None [("v", FScalar %s)]' % cq(scalar(x)) for x in v)))
        elif kind == "node":
            fs.append("(%s, FNode %s)" % (cq(name), to_coq(v)))
        else:
            fs.append("(%s, FScalar %s)" % (cq(name), cq(scalar(v))))
    return "(N %s %s [%s])" % (cq(type(n).__name__), ls, "; ".join(fs))


def show(n, out):
    """the same text as Coq's show_ast"""
    l = loc_of(n)
    out.append("(" + type(n).__name__ + " " + ("-" if l is None else ":".join(str(x if x is not None else -1) for x in l)))
    for name, kind, v in fields(n):
        out.append(" " + name + "=")
        if kind == "list":
            out.append("[")
            for x in v:
                show(x, out)
            out.append("]")
        elif kind == "mixed":
            out.append("[")
            for x in v:
                if isinstance(x, ast.AST):
                    show(x, out)
                else:
                    out.append("(py - v=" + scalar(x) + ")")
            out.append("]")
        elif kind == "node":
            show(v, out)
        else:
            out.append(scalar(v))
    out.append(")")


def show_text(n):
    out = []
    show(n, out)
    return "".join(out)

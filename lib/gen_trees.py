"""Generators and Coq renderers for PyTree cases (C08, C09, C16, C04)."""
from vf import coqstr, coqz, coqlist, coqbool, coqopt
import gen_arrays as G

KEYS = ["a", "b", "c", "w"]


# ---------------------------------------------------------------- values
def gen_tree(rng, depth, leaf):
    """leaf: function rng -> leaf value (JSON form)"""
    if depth == 0 or rng.random() < .25:
        return leaf(rng)
    k = rng.choice("ttlldnNC")
    if k == "n":
        return ["n"]
    if k == "N":
        if rng.random() < .6:
            return ["N", "P", [gen_tree(rng, depth - 1, leaf), gen_tree(rng, depth - 1, leaf)]]
        return ["N", "Q", [gen_tree(rng, depth - 1, leaf)]]
    n = rng.choice([0, 1, 2, 2, 3])
    cs = [gen_tree(rng, depth - 1, leaf) for _ in range(n)]
    if k == "t":
        return ["t", cs]
    if k == "l":
        return ["l", cs]
    if k == "C":
        return ["C", cs]
    keys = rng.sample(KEYS, n)
    rng.shuffle(keys)          # insertion order must not matter
    return ["d", dict(zip(keys, cs))]


def fill(u, f):
    """replace every leaf of u by f()"""
    k = u[0]
    if k in ("t", "l", "C"):
        return [k, [fill(c, f) for c in u[1]]]
    if k == "d":
        return ["d", {kk: fill(c, f) for kk, c in u[1].items()}]
    if k == "N":
        return ["N", u[1], [fill(c, f) for c in u[2]]]
    if k == "n":
        return ["n"]
    return f()


def tree_coq(t):
    k = t[0]
    if k == "t":
        return "(Node KTuple %s)" % coqlist(t[1], tree_coq)
    if k == "l":
        return "(Node KList %s)" % coqlist(t[1], tree_coq)
    if k == "C":
        return "(Node (KCustom \"C\") %s)" % coqlist(t[1], tree_coq)
    if k == "d":
        ks = sorted(t[1])
        return "(Node (KDict %s) %s)" % (coqlist(ks, coqstr), coqlist([t[1][x] for x in ks], tree_coq))
    if k == "n":
        return "(Node KNone [])"
    if k == "N":
        return "(Node (KNamed %s) %s)" % (coqstr(t[1]), coqlist(t[2], tree_coq))
    if k == "i":
        return "(Leaf (PInt %s))" % coqz(t[1])
    if k == "b":
        return "(Leaf (PBool %s))" % coqbool(t[1])
    if k == "s":
        return "(Leaf (PStr %s))" % coqstr(t[1])
    if k == "a":
        return "(Leaf (PArr (mkvalue true true %s %s)))" % (coqstr(t[2]), coqlist(t[1], coqz))
    if k == "o":
        return "(Leaf PObj)"
    if k == "M":      # a dict JAX cannot flatten (unorderable keys): only ever used with the bare PyTree, which accepts everything
        return "(Node (KDict [\"1\"; \"two\"]) %s)" % coqlist(t[1], tree_coq)
    if k == "F":      # a registered node whose flatten raises: likewise
        return "(Leaf PObj)"
    if k == "K":      # an array-like object (shape, dtype) that is ALSO a registered pytree node
        return "(Leaf (PArr (mkvalue false true %s %s)))" % (coqstr(t[2]), coqlist(t[1], coqz))
    raise KeyError(k)


# ---------------------------------------------------------------- leaf types
def leaf_coq(l, cat_dtypes):
    if l == "int":
        return "LInt"
    if l == "str":
        return "LStr"
    if l == "any":
        return "LAny"
    if l == "pytree":
        return "LPyTreeBare"
    if l == "tpair":
        # a typing.NamedTuple class with array-annotated fields: the typechecker checks the class, then field by field
        # (values of another class are never generated for it, so the model's positional LTuple is faithful)
        return leaf_coq(["tuple", TPAIR_FIELDS], cat_dtypes)
    k = l[0]
    if k == "tuple":
        return "(LTuple %s)" % coqlist(l[1], lambda x: leaf_coq(x, cat_dtypes))
    if k == "union":
        return "(LUnion %s)" % coqlist(l[1], lambda x: leaf_coq(x, cat_dtypes))
    if k == "arr":
        return "(LArr (%s %s %s))" % ("ACany" if len(l) > 3 and l[3] == "any" else "AC", coqopt(cat_dtypes[l[1]], lambda d: coqlist(d, coqstr)), coqstr(l[2]))
    if k == "parr":
        return leaf_coq(["arr", l[1], "2 " + l[2]], cat_dtypes)
    if k == "pytree":
        return "(LPyTree %s %s)" % (leaf_coq(l[1], cat_dtypes), coqopt(l[2], coqstr))
    raise KeyError(k)


TPAIR_FIELDS = [["arr", "Float", "a"], ["arr", "Float", "a b"]]


def leaf_dims(l):
    """all dim strings mentioned by a leaf type (for the symbol table)"""
    if l == "tpair":
        return ["a", "a b"]
    if isinstance(l, str):
        return []
    if l[0] in ("tuple", "union"):
        return [d for x in l[1] for d in leaf_dims(x)]
    if l[0] == "arr":
        return [l[2]]
    if l[0] == "parr":
        return ["2 " + l[2]]
    if l[0] == "pytree":
        return leaf_dims(l[1])
    return []


CAT_DTYPES = {"Float": ["float8_e4m3b11fnuz", "float8_e4m3fn", "float8_e4m3fnuz", "float8_e5m2", "float8_e5m2fnuz", "bfloat16", "float16", "float32", "float64"],
              "Int": ["int2", "int4", "int8", "int16", "int32", "int64"], "Shaped": None}


def step_coq(st, cat_dtypes=CAT_DTYPES):
    if st["kind"] == "arr":
        return "(PSArr (AC %s %s) (mkvalue true true %s %s))" % (coqopt(cat_dtypes[st.get("cat", "Float")], lambda d: coqlist(d, coqstr)), coqstr(st["dim"]),
                                                               coqstr(st.get("dtype", "float32")), coqlist(st["shape"], coqz))
    return "(PSTree %s %s %s)" % (coqopt(st["leaf"], lambda l: leaf_coq(l, cat_dtypes)), coqopt(st.get("structure"), coqstr), tree_coq(st["value"]))


def session_coq(sess):
    dims = []
    for st in sess["steps"]:
        dims += [st["dim"]] if st["kind"] == "arr" else (leaf_dims(st["leaf"]) if st["leaf"] is not None else [])
    syms = [t.split("=")[-1].lstrip("#*_?") for d in dims for t in d.split()]
    return "(%s, %s, %s)" % (G.symtab_coq(syms), coqbool(bool(sess.get("nocontext"))), coqlist(sess["steps"], step_coq))


RUN = "fun c => let '(st, noctx, steps) := c in run_psession st noctx steps"

(* C05 -- bindings live exactly as long as one jaxtyped call or context block.
   Programs (model/Prog.v): manual checks, print_bindings, decorated calls of three styles with
   exits by return / Exception / BaseException / generator creation / non-binding arguments /
   failing parameter check, context blocks, try/except -- nested to any depth. *)
From JT Require Import model.Prog proofs.ProgFacts.
Open Scope string_scope.

Theorem C05_block_restores_callers_bindings : forall lbl st p s s' ev sg,
  match p with
  | PCall _ _ _ _ XGenerator => False
  | PCall _ _ _ _ _ | PContext _ _ => True
  | _ => False
  end ->
  run lbl st p s = (s', ev, sg) -> s' = s.
Proof. exact block_restores_stack. Qed.
Print Assumptions C05_block_restores_callers_bindings.

Theorem C05_generator_does_not_keep_context : forall lbl st sty ps body s,
  run lbl st (PCall sty true ps body XGenerator) s =
  match sty with
  | SNone => run_list lbl st body s
  | _ => match walk lbl st ps (push_memo s []) with
         | (Acc, _) => run_list lbl st body s
         | (Rej, _) => (s, [], Some OtherExc)
         | (Raise e, _) => (s, [], Some (match e with AnnotationErr => AnnotationErr | BaseExc => BaseExc | _ => OtherExc end))
         end
  end.
Proof. exact generator_call_does_not_keep_context. Qed.
Print Assumptions C05_generator_does_not_keep_context.

Theorem C05_enclosing_contexts_untouched : forall lbl st ps s s' ev sg,
  run_list lbl st ps s = (s', ev, sg) -> length s' = length s /\ tl s' = tl s.
Proof. exact program_keeps_callers_untouched. Qed.
Print Assumptions C05_enclosing_contexts_untouched.

Theorem C05_toplevel_stateless : forall lbl st ps s' ev sg,
  run_list lbl st ps [] = (s', ev, sg) -> s' = [].
Proof. exact toplevel_stateless. Qed.
Print Assumptions C05_toplevel_stateless.

Theorem C05_fresh_context : forall lbl st ps rest s s1,
  walk lbl st ps (push_memo s []) = (Acc, s1) ->
  exists ev sg, run lbl st (PCall SNew true ps (PObserve :: rest) XReturn) s = (s, EvBindings (get_memo s1) (S (length s)) :: ev, sg) /\
  (ps = [] -> get_memo s1 = empty_memo).
Proof. exact fresh_context_in_call. Qed.
Print Assumptions C05_fresh_context.

Example C05_nonvacuous :
  run_prog [PContext [PCheck (A "n", V [3]%Z);
                      PTry [PCall SNew true [(A "n", V [4]%Z)] [PObserve; PCheck (A "n m", V [4; 5]%Z)] (XRaise true)];
                      PObserve; PCheck (A "n", V [4]%Z)] XReturn; PObserve]
  = "v:acc b:2:S{n=4} V{} v:acc x:BaseException b:1:S{n=3} V{} v:rej b:0:S{} V{} | depth=0 sig=-".
Proof. vm_compute. reflexivity. Qed.

(* the model pops the context on every exit of a call or block; the source does so exactly when each push_shape_memo is
   directly followed by try/finally pop_shape_memo() with no suspension point inside, the context block pops once
   unconditionally in __exit__, and pop itself is unconditional -- read from the AST (gen/Brackets.v) *)
From JT Require Import gen.Brackets.
Theorem C05_push_pop_is_bracketed_in_the_source : push_pop_bracketed = true /\ pop_unconditional = true.
Proof. split; reflexivity. Qed.
Print Assumptions C05_push_pop_is_bracketed_in_the_source.

(* the interpreter with the wrapper's try/finally as a parameter (model/ProgSrc.v): instantiated with what the source
   says now it IS model/Prog.v's interpreter and every block restores the caller's bindings; with the pop placed after
   the body instead, a call whose body raises leaves its context behind (model witness) *)
From JT Require Import model.ProgSrc proofs.ProgSrcFacts.
Theorem C05_interpreter_as_in_source_is_the_model : forall lbl st p s,
  run_src push_pop_bracketed lbl st p s = run lbl st p s.
Proof. exact run_src_true_is_run. Qed.
Print Assumptions C05_interpreter_as_in_source_is_the_model.

Theorem C05_block_as_in_source_restores_callers_bindings : forall lbl st p s s' ev sg,
  match p with
  | PCall _ _ _ _ XGenerator => False
  | PCall _ _ _ _ _ | PContext _ _ => True
  | _ => False
  end ->
  run_src push_pop_bracketed lbl st p s = (s', ev, sg) -> s' = s.
Proof. exact (fun lbl st p s s' ev sg => block_restores_stack_src lbl st push_pop_bracketed p s s' ev sg eq_refl). Qed.
Print Assumptions C05_block_as_in_source_restores_callers_bindings.

Theorem C05_pop_after_body_refuted : exists lbl st p s s' ev sg,
  match p with PCall _ _ _ _ XGenerator => False | PCall _ _ _ _ _ => True | _ => False end /\
  run_src false lbl st p s = (s', ev, sg) /\ s' <> s.
Proof. exact pop_after_body_refuted. Qed.
Print Assumptions C05_pop_after_body_refuted.

(* the context stack's accessor functions and the context manager, AS REGENERATED FROM jaxtyping/_storage.py and
   jaxtyping/_decorator.py on every run (gen/StorageSrc.v, a term of model/SL.v): interpreting the source gives exactly the
   stack operations the models above are built from, in every state of the thread's storage *)
From JT Require Import model.SL gen.StorageSrc proofs.SLFacts.
Theorem C05_stack_accessors_as_in_source_are_the_models_operations : forall s,
  (forall args r s', run_acc storage_src "push_shape_memo" [SVDict args] s = Some (r, s') ->
     abs_stack s' = push_memo (abs_stack s) (dA args)) /\
  (forall r s', run_acc storage_src "pop_shape_memo" [] s = Some (r, s') ->
     match abs_stack s with [] => r <> SRVal SVNone /\ s' = s | _ => r = SRVal SVNone /\ abs_stack s' = pop_memo (abs_stack s) end) /\
  (forall v s', run_acc storage_src "get_shape_memo" [] s = Some (SRVal v, s') ->
     s' = s /\ fst (dec_frame v) = get_memo (abs_stack s)) /\
  (forall a b c d r s', run_acc storage_src "set_shape_memo" [a; b; c; d] s = Some (r, s') ->
     abs_stack s' = set_memo (abs_stack s) (fst (dec_frame (SVTuple [a; b; c; d])))).
Proof. exact context_stack_ops_are_the_source. Qed.
Print Assumptions C05_stack_accessors_as_in_source_are_the_models_operations.

Theorem C05_context_manager_as_in_source_is_push_then_pop : forall self e1 e2 e3 s,
  (forall r s', run_acc context_src "__enter__" [self] s = Some (r, s') ->
     r = SRVal SVNone /\ abs_stack s' = push_memo (abs_stack s) [] /\
     ps_stack (abs_store s') = (empty_memo, []) :: ps_stack (abs_store s) /\
     ps_path (abs_store s') = ps_path (abs_store s) /\ ps_flat (abs_store s') = ps_flat (abs_store s)) /\
  (forall r s', run_acc context_src "__exit__" [self; e1; e2; e3] s = Some (r, s') ->
     match abs_stack s with
     | [] => r <> SRVal SVNone /\ s' = s
     | _ => r = SRVal SVNone /\ abs_stack s' = pop_memo (abs_stack s) /\
            ps_path (abs_store s') = ps_path (abs_store s) /\ ps_flat (abs_store s') = ps_flat (abs_store s)
     end).
Proof. exact (fun self e1 e2 e3 s => conj (context_enter_is_push self s) (context_exit_is_pop self e1 e2 e3 s)). Qed.
Print Assumptions C05_context_manager_as_in_source_is_push_then_pop.

Theorem C05_context_object_as_in_source_is_stateless : forall self self' e1 e2 e3 e1' e2' e3' s,
  run_acc context_src "__enter__" [self] s = run_acc context_src "__enter__" [self'] s /\
  run_acc context_src "__exit__" [self; e1; e2; e3] s = run_acc context_src "__exit__" [self'; e1'; e2'; e3'] s /\
  context_call_returns_new_object = true.
Proof. exact context_object_is_stateless. Qed.
Print Assumptions C05_context_object_as_in_source_is_stateless.

Theorem C05_nested_context_blocks_as_in_source_restore_the_store : forall n s,
  abs_store (exit_n n (enter_n n s)) = abs_store s.
Proof. exact nested_context_blocks_restore. Qed.
Print Assumptions C05_nested_context_blocks_as_in_source_restore_the_store.

(* the hypotheses `wf_cells`, `wf_top` of the theorems about the regenerated storage layer hold in every state the accessors
   and the context manager can reach from a fresh thread, through any sequence of calls with dictionary arguments *)
Theorem C05_reachable_storage_states_are_well_formed : forall ops,
  wf_state (state_after context_src ops (mktls None None None)) /\ wf_top (state_after context_src ops (mktls None None None)).
Proof. exact reachable_states_are_well_formed. Qed.
Print Assumptions C05_reachable_storage_states_are_well_formed.

(* the wrapper that jaxtyped(typechecker=...)(fn) returns, AS REGENERATED FROM THE SOURCE on every run (gen/StorageSrc.v:
   src_wrapped_fn, interpreted by model/SL.v), with everything it calls that is not a storage accessor an arbitrary function
   `ext`: it is the transparent call when switched off, and otherwise bind -- push one context with the bound arguments -- run
   wrapped_fn_impl -- pop one context, whatever wrapped_fn_impl returned or raised *)
From JT Require Import proofs.SLWrapFacts.
Theorem C05_decorated_call_wrapper_as_in_source : forall ext a k c f p h i s,
  run_ext ext wrapped_src "wrapped_fn" [a; k; c; f; p; h; i] s = Some (wrapped_spec ext a k f s).
Proof. exact wrapped_fn_as_in_source. Qed.
Print Assumptions C05_decorated_call_wrapper_as_in_source.

Theorem C05_checked_call_as_in_source_pushes_once_and_pops_once : forall ext a k s b s1 v s2 d s3,
  ext "param_signature.bind" [a; k] s = (SRVal b, s1) ->
  ext "bound.apply_defaults" [] s1 = (SRVal v, s2) ->
  ext "bound.arguments" [] s2 = (SRVal (SVDict d), s3) ->
  let s4 := with_stack s3 (Some (stack_or_nil s3 ++ [new_frame d])%list) in
  abs_stack s4 = push_memo (abs_stack s3) (dA d) /\
  forall r s5, ext "wrapped_fn_impl" [a; k; b; new_frame d] s4 = (r, s5) -> abs_stack s5 <> [] ->
    exists s', checked_call ext a k s = (r, s') /\ abs_stack s' = pop_memo (abs_stack s5) /\
               ps_path (abs_store s') = ps_path (abs_store s5) /\ ps_flat (abs_store s') = ps_flat (abs_store s5).
Proof. exact checked_call_brackets. Qed.
Print Assumptions C05_checked_call_as_in_source_pushes_once_and_pops_once.

Theorem C05_decorated_call_as_in_source_keeps_the_stack_depth : forall ext,
  (forall g l st, length (abs_stack (snd (ext g l st))) = length (abs_stack st)) ->
  forall a k c f p h i s r s',
  run_ext ext wrapped_src "wrapped_fn" [a; k; c; f; p; h; i] s = Some (r, s') ->
  length (abs_stack s') = length (abs_stack s).
Proof. exact wrapped_fn_stack_neutral. Qed.
Print Assumptions C05_decorated_call_as_in_source_keeps_the_stack_depth.

(* the old spelling jaxtyped(typechecker(fn)): PARTIAL.  Proved: when the wrapped function returns, or raises a BaseException that
   is not an Exception, exactly one context is pushed before it and exactly one is popped after it.  Not proved (only run against
   CPython by the correspondence check): the `except Exception as e:` path, whose handler reads the context to add a note. *)
Theorem C05_old_style_call_as_in_source_brackets_partial : forall ext a k p3 p4 p5 p6 p7 p8 p9 p10 s b s1 v s2 d s3 r s5,
  ext "signature.bind" [a; k] s = (SRVal b, s1) ->
  ext "bound.apply_defaults" [] s1 = (SRVal v, s2) ->
  ext "bound.arguments" [] s2 = (SRVal (SVDict d), s3) ->
  let s4 := with_stack s3 (Some (stack_or_nil s3 ++ [new_frame d])%list) in
  ext "fn" [a; k] s4 = (r, s5) ->
  (exists w, r = SRVal w) \/ r = SRExn XBase ->
  abs_stack s5 <> [] ->
  exists s', run_ext ext wrapped_src "old_wrapped_fn" [a; k; p3; p4; p5; p6; p7; p8; p9; p10] s = Some (r, s') /\
             abs_stack s' = pop_memo (abs_stack s5) /\
             ps_path (abs_store s') = ps_path (abs_store s5) /\ ps_flat (abs_store s') = ps_flat (abs_store s5).
Proof. exact old_wrapped_fn_brackets_partial. Qed.
Print Assumptions C05_old_style_call_as_in_source_brackets_partial.

(* C14 -- the dim-string language: modifier order is free, whitespace insignificant,
   `name=` ignored, `...` = `*_`, illegal forms rejected.  Statements only; proofs are in
   proofs/DimLangFacts.v.  The parser model has no fuel: `strip` is structurally
   recursive, so totality ("every specification is accepted or rejected, nothing else")
   is the kernel's termination check of model/DimLang.v. *)
From JT Require Import model.DimLang proofs.DimLangFacts.
From Coq Require Import Permutation.
Open Scope string_scope.

(* leading / trailing whitespace, for every string and every kind of ASCII whitespace *)
Theorem C14_whitespace_insignificant : forall w1 a w2 : string,
  all_chars is_ws w1 = true -> all_chars is_ws w2 = true ->
  parse_dims (w1 ++ a ++ w2) = parse_dims a.
Proof. exact parse_dims_ws_invariant. Qed.
Print Assumptions C14_whitespace_insignificant.

(* any non-empty run of whitespace separates axes like any other *)
Theorem C14_separator_insignificant : forall a w w' b : string,
  all_chars is_ws w = true -> w <> "" -> all_chars is_ws w' = true -> w' <> "" ->
  parse_dims (a ++ w ++ b) = parse_dims (a ++ w' ++ b).
Proof. exact parse_dims_sep_invariant. Qed.
Print Assumptions C14_separator_insignificant.

(* modifiers in any order: for every run of modifier characters of any length and every
   base, two orders of the same modifiers parse alike (same axis, or both rejected);
   side condition: neither spelling ends in '#', which is itself a documented illegal form *)
Theorem C14_modifier_order : forall (m1 m2 : list modc) (base : string),
  Permutation m1 m2 ->
  ends_with_char "#" (mods m1 ++ base) = false ->
  ends_with_char "#" (mods m2 ++ base) = false ->
  res_equiv (parse_token (mods m1 ++ base)) (parse_token (mods m2 ++ base)).
Proof. exact parse_token_modifier_order. Qed.
Print Assumptions C14_modifier_order.

Example C14_modifier_order_nonvacuous :
  parse_token "*#?foo" = parse_token "?#*foo" /\
  parse_token "*#?foo" = Ok (mkflags true true false true, "foo", TNamed).
Proof. split; reflexivity. Qed.

Theorem C14_repeated_modifier_rejected : forall (m : list modc) (base : string),
  ~ NoDup m -> exists c, parse_token (mods m ++ base) = Err c.
Proof. exact repeated_modifier_rejected. Qed.
Print Assumptions C14_repeated_modifier_rejected.

(* a `name=` prefix is skipped and the loop goes on with what follows it *)
Theorem C14_doc_prefix_ignored : forall (name rest : string) (f : flags),
  plain_start name = true -> count_char "=" name = 0 -> count_char "=" rest = 0 ->
  strip (name ++ String "=" rest) f = strip rest f.
Proof. exact strip_doc_prefix. Qed.
Print Assumptions C14_doc_prefix_ignored.

(* `...` means `*_` *)
Theorem C14_ellipsis_is_star_underscore : forall sv : bool,
  match parse_token "...", parse_token "*_" with
  | Ok a, Ok b => build_dim sv a = build_dim sv b /\ build_dim false a = Ok DVarAnon
  | _, _ => False
  end.
Proof. intros []; split; reflexivity. Qed.
Print Assumptions C14_ellipsis_is_star_underscore.

Theorem C14_second_variadic_rejected : forall (t : list string) (index i : nat),
  existsb tok_variadic t = true -> exists c, parse_tokens t index (Some i) = Err c.
Proof. exact second_variadic_rejected. Qed.
Print Assumptions C14_second_variadic_rejected.

Theorem C14_fixed_axis_modifiers_rejected : forall sv f rest z,
  f_var f || f_anon f || f_tp f = true -> exists c, build_dim sv (f, rest, TFixed z) = Err c.
Proof. exact fixed_modifiers_rejected. Qed.
Print Assumptions C14_fixed_axis_modifiers_rejected.

Theorem C14_symbolic_axis_modifiers_rejected : forall sv f rest,
  f_var f || f_anon f || f_tp f = true -> exists c, build_dim sv (f, rest, TSym) = Err c.
Proof. exact symbolic_modifiers_rejected. Qed.
Print Assumptions C14_symbolic_axis_modifiers_rejected.

Theorem C14_anonymous_broadcastable_rejected : forall sv f rest,
  f_anon f = true -> f_bc f = true -> exists c, build_dim sv (f, rest, TNamed) = Err c.
Proof. exact anonymous_broadcastable_rejected. Qed.
Print Assumptions C14_anonymous_broadcastable_rejected.

(* ... and only those: the exact set of accepted (flags, base kind) combinations *)
Theorem C14_accepted_exactly : forall sv f rest ty d,
  build_dim sv (f, rest, ty) = Ok d <->
  (f_var f && sv = false) /\
  match ty with
  | TFixed z => f_var f = false /\ f_anon f = false /\ f_tp f = false /\ d = DFixed z (f_bc f)
  | TSym => f_var f = false /\ f_anon f = false /\ f_tp f = false /\ d = DSym rest (f_bc f)
  | TNamed =>
      (f_anon f = true /\ f_bc f = false /\ d = (if f_var f then DVarAnon else DAnon)) \/
      (f_anon f = false /\ d = (if f_var f then DVarNamed rest (f_bc f) (f_tp f) else DNamed rest (f_bc f) (f_tp f)))
  end.
Proof. exact build_dim_ok_iff. Qed.
Print Assumptions C14_accepted_exactly.

(* whole-token illegal forms, by computation on the documented examples *)
Example C14_illegal_examples :
  map (fun s => show_parse_code (parse_dims s))
      ["a,b"; "a#"; "#..."; "##a"; "**a"; "__a"; "??a"; "*a *b"; "*4"; "_4"; "?4"; "#_"; "_a+b"; "*a+b"; "?a+b"; "min(a,b)"]
  = ["E1"; "E2"; "E3"; "E4"; "E5"; "E6"; "E7"; "E8"; "E9"; "E10"; "E11"; "E12"; "E13"; "E14"; "E15"; "ok"].
Proof. reflexivity. Qed.

(* C03 -- dtype categories accept exactly the documented dtypes, on every backend.
   gen/DtypeTables.v is regenerated from jaxtyping/_array_types.py on every run; the spec
   (proofs/DtypeFacts.v: spec_table) is transcribed from docs/api/array.md. *)
From JT Require Import model.Dtype gen.DtypeTables proofs.DtypeFacts.
Open Scope string_scope.

(* for every exported category and EVERY string: accepted iff documented (the sweep over the
   34 category names is by computation; the statement about names is for all strings) *)
Theorem C03_tables_eq_spec : forall c gen,
  lookup c category_table = Some gen ->
  exists sp, lookup c spec_table = Some sp /\
    forall name, cat_accepts (as_pats gen) name = match sp with None => true | Some l => mem name l end.
Proof. exact table_eq_spec. Qed.
Print Assumptions C03_tables_eq_spec.

Theorem C03_every_documented_category_exists : forall c sp,
  lookup c spec_table = Some sp -> exists gen, lookup c category_table = Some gen.
Proof. exact every_documented_category_exists. Qed.
Print Assumptions C03_every_documented_category_exists.

Theorem C03_hierarchy :
  set_eqb s_num (s_inexact ++ s_integer) = true /\ set_eqb s_inexact (s_float ++ s_complex) = true /\
  set_eqb s_integer (s_uint ++ s_int) = true /\ set_eqb s_real (s_float ++ s_integer) = true /\
  disjoint s_bool s_num = true /\ disjoint s_key s_num = true /\ disjoint s_bool s_key = true /\
  disjoint s_float s_complex = true /\ disjoint s_uint s_int = true /\ disjoint s_float s_integer = true /\
  forallb (fun p => mem (snd p) s_num) precision_classes = true /\ NoDup (map snd precision_classes).
Proof. exact hierarchy. Qed.
Print Assumptions C03_hierarchy.

Theorem C03_backend_independent : forall d f1 f2,
  extract_name f1 = extract_name f2 -> accepts_facets d f1 = accepts_facets d f2.
Proof. exact backend_independent. Qed.
Print Assumptions C03_backend_independent.

Theorem C03_user_category : forall pats name,
  cat_accepts (Some pats) name = true <->
  exists p, In p pats /\ (p = PStr name \/ exists r, p = PRe r /\ re_match r name = true).
Proof. exact user_category_spec. Qed.
Print Assumptions C03_user_category.

Theorem C03_pattern_match_is_prefix_match : forall s r,
  re_match r s = true <-> exists p q, s = (p ++ q)%string /\ nullable (is_empty q) (derivs r p) = true.
Proof. exact re_match_is_prefix_match. Qed.
Print Assumptions C03_pattern_match_is_prefix_match.

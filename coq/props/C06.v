(* C06 -- threads never see each other's bindings or transient check state.
   Model: model/Threads.v -- a global store with a shared and a per-thread copy of the three cells of
   jaxtyping/_storage.py; gen/StorageKinds.v (regenerated from the source on every run) says which copy each
   accessor uses.  That threading.local() really gives per-thread attributes, and that no state hides elsewhere
   (C extensions), is CPython's: validated by the controlled-schedule harness, not proved. *)
From JT Require Import model.Threads proofs.ThreadsFacts.
Open Scope string_scope.

Theorem C06_kinds : shape_kind = ThreadLocal /\ treepath_kind = ThreadLocal /\ treeflatten_kind = ThreadLocal.
Proof. exact kinds_are_thread_local. Qed.
Print Assumptions C06_kinds.

(* no other module-level state in _storage.py, and every accessor reaches its cell through those three names only *)
Theorem C06_storage_bindings :
  storage_bindings = [("_shape_storage", "threading.local()"); ("_treepath_storage", "threading.local()"); ("_treeflatten_storage", "threading.local()")] /\
  forall f us, In (f, us) accessor_uses -> forall u, In u us -> In u ["_shape_storage"; "_treepath_storage"; "_treeflatten_storage"].
Proof. exact storage_bindings_unchanged. Qed.
Print Assumptions C06_storage_bindings.

(* every number of threads, every workload of atomic steps, EVERY schedule *)
Theorem C06_noninterference : forall st sched progs g obs t,
  length progs = length (g_local g) -> length obs = length (g_local g) -> (t < length (g_local g))%nat ->
  let k := Nat.min (count t sched) (length (nth t progs [])) in
  let '(g', obs') := run_sched shape_kind treepath_kind treeflatten_kind st sched progs g obs in
  let '(s_solo, o_solo) := run_solo st (firstn k (nth t progs [])) (nth t (g_local g) dflt) in
  nth t (g_local g') dflt = s_solo /\ nth t obs' [] = (nth t obs [] ++ o_solo)%list /\ g_shared g' = g_shared g.
Proof. exact noninterference. Qed.
Print Assumptions C06_noninterference.

(* were any one of the cells shared, there is a two-thread schedule that changes a verdict -- the schedules the
   harness replays on the real code when C06_kinds / C06_storage_bindings break *)
Theorem C06_shared_flatten_refuted :
  let progs := [[TSetFlat true; TSetFlat false]; [TArr (fst wrong_dtype) (snd wrong_dtype)]] in
  snd (run_sched ThreadLocal ThreadLocal Shared [] [0; 1; 0]%nat progs g2 [[]; []]) = [[ObsNone; ObsNone]; [ObsVerdict Acc]] /\
  snd (run_solo [] (nth 1 progs []) dflt) = [ObsVerdict Rej].
Proof. exact shared_flatten_refuted. Qed.
Print Assumptions C06_shared_flatten_refuted.

Theorem C06_shared_stack_refuted :
  let progs := [[TPush; TArr A_n V3; TPop]; [TArr A_n V4]] in
  snd (run_sched Shared ThreadLocal ThreadLocal [] [0; 0; 1; 0]%nat progs g2 [[]; []]) = [[ObsNone; ObsVerdict Acc; ObsNone]; [ObsVerdict Rej]] /\
  snd (run_solo [] (nth 1 progs []) dflt) = [ObsVerdict Acc].
Proof. exact shared_stack_refuted. Qed.
Print Assumptions C06_shared_stack_refuted.

Theorem C06_shared_path_refuted :
  let Aq := AC None "?q" in
  let progs := [[TPush; TSetPath (Some "(Leaf 0 in structure T) "); TArr Aq V3; TSetPath None; TPop]; [TArr Aq V4]] in
  snd (run_sched ThreadLocal Shared ThreadLocal [] [0; 0; 1; 0; 0; 0]%nat progs g2 [[]; []]) = [[ObsNone; ObsNone; ObsVerdict Acc; ObsNone; ObsNone]; [ObsVerdict Acc]] /\
  snd (run_solo [] (nth 1 progs []) dflt) = [ObsVerdict (Raise AnnotationErr)].
Proof. exact shared_path_refuted. Qed.
Print Assumptions C06_shared_path_refuted.

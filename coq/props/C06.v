(* C06 -- threads never see each other's bindings or transient check state.
   Model: model/Threads.v -- a global store with a shared and a per-thread copy of the three cells of
   jaxtyping/_storage.py; gen/StorageKinds.v (regenerated from the source on every run) says which copy each
   accessor uses.  That threading.local() really gives per-thread attributes, and that no state hides elsewhere
   (C extensions), is CPython's: validated by the controlled-schedule harness, not proved. *)
From JT Require Import model.Threads proofs.ThreadsFacts.
Open Scope string_scope.

Theorem C06_kinds : shape_kind = ThreadLocal /\ treepath_kind = ThreadLocal /\ treeflatten_kind = ThreadLocal.
Proof. exact kinds_are_thread_local. Qed.
Print Assumptions C06_kinds.

(* no other module-level state in _storage.py, and every accessor reaches its cell through those three names only *)
Theorem C06_storage_bindings :
  storage_bindings = [("_shape_storage", "threading.local()"); ("_treepath_storage", "threading.local()"); ("_treeflatten_storage", "threading.local()")] /\
  forall f us, In (f, us) accessor_uses -> forall u, In u us -> In u ["_shape_storage"; "_treepath_storage"; "_treeflatten_storage"].
Proof. exact storage_bindings_unchanged. Qed.
Print Assumptions C06_storage_bindings.

(* every number of threads, every workload of atomic steps, EVERY schedule *)
Theorem C06_noninterference : forall st sched progs g obs t,
  length progs = length (g_local g) -> length obs = length (g_local g) -> (t < length (g_local g))%nat ->
  let k := Nat.min (count t sched) (length (nth t progs [])) in
  let '(g', obs') := run_sched shape_kind treepath_kind treeflatten_kind st sched progs g obs in
  let '(s_solo, o_solo) := run_solo st (firstn k (nth t progs [])) (nth t (g_local g) dflt) in
  nth t (g_local g') dflt = s_solo /\ nth t obs' [] = (nth t obs [] ++ o_solo)%list /\ g_shared g' = g_shared g.
Proof. exact noninterference. Qed.
Print Assumptions C06_noninterference.

(* were any one of the cells shared, there is a two-thread schedule that changes a verdict -- the schedules the
   harness replays on the real code when C06_kinds / C06_storage_bindings break *)
Theorem C06_shared_flatten_refuted :
  let progs := [[TSetFlat true; TSetFlat false]; [TArr (fst wrong_dtype) (snd wrong_dtype)]] in
  snd (run_sched ThreadLocal ThreadLocal Shared [] [0; 1; 0]%nat progs g2 [[]; []]) = [[ObsNone; ObsNone]; [ObsVerdict Acc]] /\
  snd (run_solo [] (nth 1 progs []) dflt) = [ObsVerdict Rej].
Proof. exact shared_flatten_refuted. Qed.
Print Assumptions C06_shared_flatten_refuted.

Theorem C06_shared_stack_refuted :
  let progs := [[TPush; TArr A_n V3; TPop]; [TArr A_n V4]] in
  snd (run_sched Shared ThreadLocal ThreadLocal [] [0; 0; 1; 0]%nat progs g2 [[]; []]) = [[ObsNone; ObsVerdict Acc; ObsNone]; [ObsVerdict Rej]] /\
  snd (run_solo [] (nth 1 progs []) dflt) = [ObsVerdict Acc].
Proof. exact shared_stack_refuted. Qed.
Print Assumptions C06_shared_stack_refuted.

Theorem C06_shared_path_refuted :
  let Aq := AC None "?q" in
  let progs := [[TPush; TSetPath (Some "(Leaf 0 in structure T) "); TArr Aq V3; TSetPath None; TPop]; [TArr Aq V4]] in
  snd (run_sched ThreadLocal Shared ThreadLocal [] [0; 0; 1; 0; 0; 0]%nat progs g2 [[]; []]) = [[ObsNone; ObsNone; ObsVerdict Acc; ObsNone; ObsNone]; [ObsVerdict Acc]] /\
  snd (run_solo [] (nth 1 progs []) dflt) = [ObsVerdict (Raise AnnotationErr)].
Proof. exact shared_path_refuted. Qed.
Print Assumptions C06_shared_path_refuted.

(* the atomic storage steps of the thread model are what the accessor functions of jaxtyping/_storage.py do, as regenerated
   from the source on every run (gen/StorageSrc.v interpreted by model/SL.v): each step, run from any well-typed state of a
   thread's cells, lands in the state the model's step_view computes *)
From JT Require Import model.SL gen.StorageSrc proofs.SLFacts.
Theorem C06_thread_model_storage_steps_are_the_source : forall st o f args s,
  wf_cells s ->
  acc_of_step o = Some (f, args) ->
  (o = TPop -> ps_stack (abs_store s) <> []) ->
  exists r s', run_acc storage_src f args s = Some (r, s') /\ r <> SRExn XOther /\
               abs_store s' = fst (step_view st o (abs_store s)) /\ wf_cells s'.
Proof. exact thread_model_storage_steps_are_the_source. Qed.
Print Assumptions C06_thread_model_storage_steps_are_the_source.

Theorem C06_leaf_position_step_is_the_source : forall s (i : nat) structure r s',
  wf_cells s ->
  run_acc storage_src "set_treepath_memo" [SVInt (Z.of_nat i); SVStr structure] s = Some (r, s') ->
  match ps_path (abs_store s) with
  | Some _ => r = SRExn XAnnotation /\ s' = s
  | None => r = SRVal SVNone /\ abs_store s' = with_path (abs_store s) (Some (label_of i structure)) /\ wf_cells s'
  end.
Proof. exact set_treepath_refines. Qed.
Print Assumptions C06_leaf_position_step_is_the_source.

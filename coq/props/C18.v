(* C18 -- cached bytecode never makes a module run with the wrong instrumentation.
   Model: model/HookCache.v; gen/HookConsts.v says which loader method holds the patch of
   cache_from_source and what the optimisation tag looks like (regenerated from the source). *)
From JT Require Import model.HookCache model.HookRegistry gen.HookConsts proofs.HookCacheFacts proofs.HookRegistryFacts.
Open Scope string_scope.

(* the patch is confined to the hooked module's own cache access (fix commit in /repo; before it: "exec_module") *)
Theorem C18_patch_scope : cache_patch_method = "get_code" /\ cache_patch_body_calls = ["super().get_code"; "super"].
Proof. split; reflexivity. Qed.
Print Assumptions C18_patch_scope.

(* the tag depends on the typechecker hash, which is the md5 of the typechecker string ("0" for None) *)
Theorem C18_tag_format : optimization_tag = "jaxtyping9{typechecker_hash}" /\ none_hash = "0" /\ hash_is_md5_of_string = true.
Proof. repeat split; reflexivity. Qed.
Print Assumptions C18_tag_format.

(* the invariant: the tag determines what was compiled; preserved by every run *)
Theorem C18_tag_consistent_invariant : forall r c, cinv c -> cinv (rs_cache (run_once false r c)).
Proof. intros r c H. apply (run_once_correct r c H). Qed.
Print Assumptions C18_tag_consistent_invariant.

(* every history of runs over one cache directory: each executed module is what the current source and the
   current hook configuration call for *)
Theorem C18_correct : forall rs, Forall2 (fun r d => all_correct r d) rs (run_history false rs []).
Proof. intros rs. apply history_correct. apply cinv_nil. Qed.
Print Assumptions C18_correct.

Theorem C18_checker_change_never_reuses : forall c m h h' v k,
  cinv c -> h <> h' -> cget c m (J h) = Some (v, k) -> k <> Instr h'.
Proof. exact checker_change_never_reuses. Qed.
Print Assumptions C18_checker_change_never_reuses.

(* with the patch around exec_module the statement is false: the two-run witnesses *)
Theorem C18_exec_module_scope_refuted :
  (exists rs, ~ Forall2 (fun r d => all_correct r d) rs (run_history true rs [])) /\
  show_done (nth 1 (run_history true [mkrun [("a", "h")] witness_src witness_deps ["a"]; mkrun [("a", "h"); ("b", "h")] witness_src witness_deps ["a"]] []) [])
    = "a=hooked:h@1,b=plain@1" /\
  show_done (nth 1 (run_history true [mkrun [("a", "h"); ("b", "h")] witness_src witness_deps ["a"]; mkrun [("a", "h")] witness_src witness_deps ["a"]] []) [])
    = "a=hooked:h@1,b=hooked:h@1".
Proof. exact exec_module_scope_refuted. Qed.
Print Assumptions C18_exec_module_scope_refuted.

(* one interpreter that goes on after its hooks are uninstalled (modules imported again, sources possibly edited): in the source's
   design every phase is one more run, so every phase of every process executes what its own configuration and the current source call for *)
Theorem C18_continuations_in_one_interpreter : forall ps, Forall2 (fun r d => all_correct r d) ps (fst (process_getcode ps [])).
Proof. exact process_getcode_correct. Qed.
Print Assumptions C18_continuations_in_one_interpreter.

(* without a hook, whatever the cache holds: plain code from the current source *)
Theorem C18_unhooked_phase_runs_plain : forall r c, cinv c -> r_hooked r = [] ->
  forall m k v, In (m, (k, v)) (rs_done (run_once false r c)) -> k = Uninstr /\ v = src_of r m.
Proof. exact unhooked_phase_runs_plain. Qed.
Print Assumptions C18_unhooked_phase_runs_plain.

(* the alternative "tag by source file, registered by the loader, never unregistered" (model/HookRegistry.v) is indistinguishable
   from the source's design on every process of one phase ... *)
Theorem C18_per_file_tagging_agrees_on_one_phase : forall r c, g_rs (phase_reg r c []) = run_once false r c.
Proof. exact one_phase_agrees. Qed.
Print Assumptions C18_per_file_tagging_agrees_on_one_phase.

(* ... and violates the property on a continuation *)
Theorem C18_per_file_tagging_refuted :
  map show_done (fst (process_reg [reg_hooked; reg_plain1] [] [])) = ["a=hooked:h@1"; "a=hooked:h@1"] /\
  map show_done (fst (process_reg [reg_hooked2] (snd (process_reg [reg_hooked; reg_plain2] [] [])) [])) = ["a=plain@2"] /\
  (exists ps, ~ Forall2 (fun r d => all_correct r d) ps (fst (process_reg ps [] []))) /\
  map show_done (fst (process_getcode [reg_hooked; reg_plain1] [])) = ["a=hooked:h@1"; "a=plain@1"] /\
  map show_done (fst (process_getcode [reg_hooked2] (snd (process_getcode [reg_hooked; reg_plain2] [])))) = ["a=hooked:h@2"].
Proof. exact per_file_registry_refuted. Qed.
Print Assumptions C18_per_file_tagging_refuted.

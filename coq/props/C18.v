(* C18 -- cached bytecode never makes a module run with the wrong instrumentation.
   Model: model/HookCache.v; gen/HookConsts.v says which loader method holds the patch of
   cache_from_source and what the optimisation tag looks like (regenerated from the source). *)
From JT Require Import model.HookCache gen.HookConsts proofs.HookCacheFacts.
Open Scope string_scope.

(* the patch is confined to the hooked module's own cache access (fix commit in /repo; before it: "exec_module") *)
Theorem C18_patch_scope : cache_patch_method = "get_code" /\ cache_patch_body_calls = ["super().get_code"; "super"].
Proof. split; reflexivity. Qed.
Print Assumptions C18_patch_scope.

(* the tag depends on the typechecker hash, which is the md5 of the typechecker string ("0" for None) *)
Theorem C18_tag_format : optimization_tag = "jaxtyping9{typechecker_hash}" /\ none_hash = "0" /\ hash_is_md5_of_string = true.
Proof. repeat split; reflexivity. Qed.
Print Assumptions C18_tag_format.

(* the invariant: the tag determines what was compiled; preserved by every run *)
Theorem C18_tag_consistent_invariant : forall r c, cinv c -> cinv (rs_cache (run_once false r c)).
Proof. intros r c H. apply (run_once_correct r c H). Qed.
Print Assumptions C18_tag_consistent_invariant.

(* every history of runs over one cache directory: each executed module is what the current source and the
   current hook configuration call for *)
Theorem C18_correct : forall rs, Forall2 (fun r d => all_correct r d) rs (run_history false rs []).
Proof. intros rs. apply history_correct. apply cinv_nil. Qed.
Print Assumptions C18_correct.

Theorem C18_checker_change_never_reuses : forall c m h h' v k,
  cinv c -> h <> h' -> cget c m (J h) = Some (v, k) -> k <> Instr h'.
Proof. exact checker_change_never_reuses. Qed.
Print Assumptions C18_checker_change_never_reuses.

(* with the patch around exec_module the statement is false: the two-run witnesses *)
Theorem C18_exec_module_scope_refuted :
  (exists rs, ~ Forall2 (fun r d => all_correct r d) rs (run_history true rs [])) /\
  show_done (nth 1 (run_history true [mkrun [("a", "h")] witness_src witness_deps ["a"]; mkrun [("a", "h"); ("b", "h")] witness_src witness_deps ["a"]] []) [])
    = "a=hooked:h@1,b=plain@1" /\
  show_done (nth 1 (run_history true [mkrun [("a", "h"); ("b", "h")] witness_src witness_deps ["a"]; mkrun [("a", "h")] witness_src witness_deps ["a"]] []) [])
    = "a=hooked:h@1,b=hooked:h@1".
Proof. exact exec_module_scope_refuted. Qed.
Print Assumptions C18_exec_module_scope_refuted.

(* C15 -- nested, union, TypeVar and scalar annotations obey the documented laws.
   Model: model/Annot.v (make_array = _make_array_cached 527-596, getitem = __getitem__ 633-666). *)
From JT Require Import model.Annot gen.DtypeTables proofs.DimLangFacts proofs.AnnotFacts proofs.DtypeFacts proofs.AnnotAcceptFacts.
Open Scope string_scope.

(* `s2 s1` parses to the concatenation of the two axis lists (the multi-axis index of s1 shifted by the
   number of axes of s2); two multi-axis specifiers are an error *)
Theorem C15_parse_concat : forall s1 s2 d1 d2,
  parse_dims s1 = Ok d1 -> parse_dims s2 = Ok d2 ->
  match ivar d1, ivar d2 with
  | Some _, Some _ => exists c, parse_dims (s2 ++ " " ++ s1) = Err c
  | Some i, None => parse_dims (s2 ++ " " ++ s1) = Ok (mkdims (ds d2 ++ ds d1) (Some (i + length (ds d2))%nat))
  | None, iv => parse_dims (s2 ++ " " ++ s1) = Ok (mkdims (ds d2 ++ ds d1) iv)
  end.
Proof. exact parse_concat. Qed.
Print Assumptions C15_parse_concat.

(* the dtypes of a nested annotation are the intersection; error iff it is empty *)
Theorem C15_dtype_intersection : forall outer inner,
  match inter outer inner with
  | Some r => forall name, dtype_ok (mkannot false r (mkdims [] None) false) name =
                           dtype_ok (mkannot false outer (mkdims [] None) false) name && dtype_ok (mkannot false inner (mkdims [] None) false) name
  | None => exists o i, outer = Some o /\ inner = Some i /\ forall name, smem name o && smem name i = false
  end.
Proof. exact inter_spec. Qed.
Print Assumptions C15_dtype_intersection.

(* D2[D1[A, s1], s2] is built exactly like (D1 n D2)[A, "s2 s1"], or both are errors *)
Theorem C15_nest_law : forall D1 D2 A s1 s2 b1,
  (A = TAny \/ exists id, A = TClass id) ->
  make_array D1 A s1 = MBuilt b1 ->
  match make_array D2 (TNested b1) s2 with
  | MBuilt b =>
      exists dt, inter D2 D1 = Some dt /\ b_dtypes b = dt /\
      exists bflat, make_array dt A (s2 ++ " " ++ s1) = MBuilt bflat /\
                    b_dims bflat = b_dims b /\ b_any bflat = b_any b /\ b_cls bflat = b_cls b /\ b_dimstr bflat = b_dimstr b
  | MErr _ => (exists c, parse_dims s2 = Err c) \/ inter D2 D1 = None \/ (exists c, parse_dims (s2 ++ " " ++ s1) = Err c)
  | _ => False
  end.
Proof. exact nest_law. Qed.
Print Assumptions C15_nest_law.

Theorem C15_union_law : forall dtypes arrs s l,
  getitem dtypes arrs s = inl l ->
  l = filter (fun m => match m with MNotMade => false | _ => true end) (map (fun a => make_array dtypes a s) arrs) /\
  Forall (fun a => forall c, make_array dtypes a s <> MErr c) arrs /\ l <> [].
Proof. exact union_law. Qed.
Print Assumptions C15_union_law.

(* Python scalar types survive iff every axis is a multi-axis specifier (so rank 0 is admitted) and the category
   has a dtype of that kind *)
Theorem C15_scalar_survives_iff : forall k dtypes s d,
  parse_dims s = Ok d ->
  (make_array dtypes (TScalar k) s = MScalar k <->
   (forall x, In x (ds d) -> is_variadic x = true) /\
   match dtypes with None => True | Some l => exists n, In n l /\ sprefix (scalar_prefix k) n = true end).
Proof. exact scalar_survives_iff. Qed.
Print Assumptions C15_scalar_survives_iff.

(* the ladder over the 34 generated categories x {bool, int, float, complex} (a bounded sweep by computation):
   which categories contain a Python scalar of each kind *)
Definition ladder (t : list (string * option (list string))) : list (string * list bool) :=
  map (fun kv => (fst kv, map (fun k => check_scalar (scalar_prefix k) (snd kv) (mkdims [] None)) [KBool; KInt; KFloat; KComplex])) t.
Definition has (c : string) (l : list string) : bool := existsb (String.eqb c) l.
Theorem C15_scalar_ladder_table :
  forall c row, In (c, row) (ladder category_table) ->
  row = [has c ["Bool"; "Shaped"];
         has c ["Int"; "Integer"; "Real"; "Num"; "Shaped"; "Int2"; "Int4"; "Int8"; "Int16"; "Int32"; "Int64"];
         has c ["Float"; "Inexact"; "Real"; "Num"; "Shaped"; "Float16"; "Float32"; "Float64"; "Float8e4m3b11fnuz"; "Float8e4m3fn"; "Float8e4m3fnuz"; "Float8e5m2"; "Float8e5m2fnuz"];
         has c ["Complex"; "Inexact"; "Num"; "Shaped"; "Complex64"; "Complex128"]].
Proof.
  assert (H : forallb (fun p => match snd p with
        | [a; b; c0; d] =>
            Bool.eqb a (has (fst p) ["Bool"; "Shaped"]) &&
            Bool.eqb b (has (fst p) ["Int"; "Integer"; "Real"; "Num"; "Shaped"; "Int2"; "Int4"; "Int8"; "Int16"; "Int32"; "Int64"]) &&
            Bool.eqb c0 (has (fst p) ["Float"; "Inexact"; "Real"; "Num"; "Shaped"; "Float16"; "Float32"; "Float64"; "Float8e4m3b11fnuz"; "Float8e4m3fn"; "Float8e4m3fnuz"; "Float8e5m2"; "Float8e5m2fnuz"]) &&
            Bool.eqb d (has (fst p) ["Complex"; "Inexact"; "Num"; "Shaped"; "Complex64"; "Complex128"])
        | _ => false end) (ladder category_table) = true) by (vm_compute; reflexivity).
  intros c row Hin. rewrite forallb_forall in H. specialize (H _ Hin). cbn [fst snd] in H.
  destruct row as [|a [|b [|c0 [|d [|x r]]]]]; try discriminate.
  apply andb_true_iff in H as [H Hd]. apply andb_true_iff in H as [H Hc]. apply andb_true_iff in H as [Ha Hb].
  apply Bool.eqb_prop in Ha, Hb, Hc, Hd. now subst.
Qed.
Print Assumptions C15_scalar_ladder_table.

(* the nest law at the level of what is ACCEPTED: for every value, symbol table and context, a check against D2[D1[A, s1], s2]
   gives the same verdict and leaves the same bindings as a check against (D1 n D2)[A, "s2 s1"] *)
Theorem C15_nest_accepts_exactly_the_flat : forall D1 D2 A s1 s2 b1 b,
  (A = TAny \/ exists id, A = TClass id) ->
  make_array D1 A s1 = MBuilt b1 -> make_array D2 (TNested b1) s2 = MBuilt b ->
  exists dt bflat, inter D2 D1 = Some dt /\ make_array dt A (s2 ++ " " ++ s1) = MBuilt bflat /\
    (forall st cls v s, check_built st b cls v s = check_built st bflat cls v s) /\
    (forall st x s, accepts_one st (MBuilt b) x s = accepts_one st (MBuilt bflat) x s).
Proof. exact nest_accepts_same. Qed.
Print Assumptions C15_nest_accepts_exactly_the_flat.

(* C16 -- '?' axes are per-leaf-position axes of exactly one structured PyTree.
   A '?name' axis of leaf i of PyTree[..., 'T'] is stored in the single-axis memo under the key
   "(Leaf i in structure T) name" (qkey i T name): _storage.set_treepath_memo / _array_types 156-159. *)
From JT Require Import model.PyTreeCheck proofs.CheckFacts proofs.LabelFacts.
Open Scope string_scope.

Theorem C16_key_of_question_axis : forall i t n,
  dkey (Some (label_of i t)) n true = Some (qkey i t n) /\ dkey (Some (label_of i t)) n false = Some n.
Proof. exact dkey_is_qkey. Qed.
Print Assumptions C16_key_of_question_axis.

(* keys are injective in (leaf position, structure string, axis name) ... *)
Theorem C16_keys_injective : forall i j t t' n n',
  nochar ")" t -> nochar ")" t' ->
  qkey i t n = qkey j t' n' -> i = j /\ t = t' /\ n = n'.
Proof. exact qkey_inj. Qed.
Print Assumptions C16_keys_injective.

(* ... and never equal to a plain axis name *)
Theorem C16_key_never_plain : forall i t n, is_identifier (qkey i t n) = false /\ qkey i t n <> "".
Proof. exact qkey_not_plain. Qed.
Print Assumptions C16_key_never_plain.

(* hence: different positions (or structures, or names) are independent ... *)
Theorem C16_positions_independent : forall (sm : alist Z) i j t t' n n' v,
  nochar ")" t -> nochar ")" t' -> (i, t, n) <> (j, t', n') ->
  aget (aset sm (qkey i t n) v) (qkey j t' n') = aget sm (qkey j t' n').
Proof. exact qkey_independent. Qed.
Print Assumptions C16_positions_independent.

(* ... and a '?' axis never interacts with a plain axis of the same (or any) name *)
Theorem C16_plain_axis_independent : forall (sm : alist Z) i t n v p,
  (is_identifier p = true \/ p = "") ->
  aget (aset sm (qkey i t n) v) p = aget sm p /\ aget (aset sm p v) (qkey i t n) = aget sm (qkey i t n).
Proof. exact qkey_plain_independent. Qed.
Print Assumptions C16_plain_axis_independent.

Theorem C16_identifier_has_no_paren : forall s, is_identifier s = true -> nochar ")" s.
Proof. exact identifier_no_paren. Qed.
Print Assumptions C16_identifier_has_no_paren.

Theorem C16_outside_raises : forall st args n bc z sm,
  bc && (z =? 1)%Z = false -> dim_step None st args (DNamed n bc true) z sm = SRaise AnnotationErr.
Proof. exact question_outside_raises. Qed.
Print Assumptions C16_outside_raises.

Theorem C16_beneath_two_raises : forall ischeck str leaf r i s lbl,
  ps_path s = Some lbl -> leaf_loop ischeck (Some str) (leaf :: r) i s = (Raise AnnotationErr, s).
Proof. exact question_beneath_two_raises. Qed.
Print Assumptions C16_beneath_two_raises.

(* same position in two trees annotated T must agree; different positions need not *)
Example C16_nonvacuous :
  let arr sh := Leaf (PArr (mkvalue true true "float32" sh)) in
  let s := mkps [(empty_memo, [])] None false in
  let L := LArr (AC None "?n") in
  let '(v1, s1) := leafmatch [] (LPyTree L (Some "T")) (Node KTuple [arr [3]%Z; arr [4]%Z]) s in
  v1 = Acc /\ fst (leafmatch [] (LPyTree L (Some "T")) (Node KTuple [arr [3]%Z; arr [4]%Z]) s1) = Acc /\
  fst (leafmatch [] (LPyTree L (Some "T")) (Node KTuple [arr [4]%Z; arr [3]%Z]) s1) = Rej /\
  show_single (single (fst (top_frame s1))) = "(Leaf 0 in structure T) n=3,(Leaf 1 in structure T) n=4".
Proof. vm_compute. repeat split. Qed.

(* the full usability clause is FALSE of the current code (known finding F-C16-structureless-nested):
   a '?' axis inside a structure-less PyTree nested in the structured one raises *)
Theorem C16_usable_in_structureless_nested_refuted :
  let arr sh := Leaf (PArr (mkvalue true true "float32" sh)) in
  exists x, fst (leafmatch [] (LPyTree (LPyTree (LArr (AC None "?n")) None) (Some "T")) x (mkps [(empty_memo, [])] None false)) = Raise AnnotationErr.
Proof. exists (Node KTuple [Leaf (PArr (mkvalue true true "float32" [3]%Z))]). vm_compute. reflexivity. Qed.
Print Assumptions C16_usable_in_structureless_nested_refuted.

(* outside a structured PyTree no leaf position is set -- also after a check that raised -- because every
   set_treepath_memo is bracketed by try/finally clear_treepath_memo() in the source (gen/Brackets.v) *)
From JT Require Import gen.Brackets.
Theorem C16_leaf_position_is_bracketed_in_the_source : treepath_protected = true.
Proof. reflexivity. Qed.
Print Assumptions C16_leaf_position_is_bracketed_in_the_source.

(* the leaf loop of _MetaPyTree._check (set_treepath_memo(i, structure) / leaf check / clear_treepath_memo(), inside
   try ... finally: clear_treepath_memo()), AS REGENERATED FROM THE SOURCE on every run (gen/StorageSrc.v, interpreted by
   model/SL.v): for every list of leaves and every starting state it computes the model's leaf_loop followed by
   `with_path .. None`, given only that the leaf check outside the fragment simulates the model's leaf check *)
From JT Require Import model.SL gen.StorageSrc proofs.SLFacts proofs.SLWalkFacts.
Theorem C16_leaf_loop_as_in_source_is_the_models_loop : forall ext ischeck leafof,
  (forall v s, wf_cells s ->
     let '(r, s') := ext "is_check_leaftype" [v] s in
     let '(vd, p') := ischeck (leafof v) (abs_store s) in
     r = res_of vd /\ abs_store s' = p' /\ wf_cells s') ->
  forall sv structure lvs s, struct_rel sv structure -> wf_cells s ->
  exists r s', run_ext ext walk_src "leaf_loop" [sv; SVList lvs] s = Some (r, s') /\
    let '(vd, p') := leaf_loop ischeck structure (map leafof lvs) 0 (abs_store s) in
    r = res_of vd /\ abs_store s' = with_path p' None /\ wf_cells s'.
Proof. exact leaf_loop_as_in_source. Qed.
Print Assumptions C16_leaf_loop_as_in_source_is_the_models_loop.

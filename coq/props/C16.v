From JT Require Import model.PyTreeCheck.
Theorem C16_placeholder : True. Proof. exact I. Qed.
Print Assumptions C16_placeholder.

(* C04 -- a failed or raising array check binds nothing; a passing check is idempotent.
   (The PyTree half is in props/C08.v: C08_reject_restores.)
   In the model the check mutates the context's dictionaries in place (the returned
   memo of check_shape is the mutated one) and __instancecheck_str__ restores the
   snapshot; these theorems are about the stack that results. *)
From JT Require Import model.Check proofs.CheckFacts model.PyTreeCheck proofs.PyTreeFacts.
Open Scope string_scope.

Theorem C04_reject_or_raise_restores : forall lbl st flat a v s vd s',
  instancecheck flat lbl st a v s = (vd, s') -> vd <> Acc -> s' = s.
Proof. exact instancecheck_not_acc_restores. Qed.
Print Assumptions C04_reject_or_raise_restores.

(* ... although the failed check had made progress: the memo returned by check_shape differs *)
Example C04_partial_progress_exists :
  match parse_dims "a b a" with
  | Ok d => let '(r, m') := check_shape None [] d [2; 3; 4]%Z empty_memo in
            r = CFail /\ single m' = [("a", 2%Z); ("b", 3%Z)]
  | Err _ => False
  end.
Proof. vm_compute. split; reflexivity. Qed.

(* a check that raises after partial progress: user code in a symbolic axis raising a
   BaseException (before the fix commit 6f7f1fa in /repo this left a=3 bound) *)
Example C04_raise_after_progress_restores :
  let a := mkannot false None (mkdims [DNamed "a" false false; DSym "b" false] None) false in
  instancecheck false None [("b", ERaise true)] a (mkvalue true true "float32" [3; 4]%Z) [empty_memo]
  = (Raise BaseExc, [empty_memo]).
Proof. vm_compute. reflexivity. Qed.

Theorem C04_pass_idempotent : forall lbl st flat a v s s',
  wf_dims (a_dims a) ->
  instancecheck flat lbl st a v s = (Acc, s') ->
  instancecheck flat lbl st a v s' = (Acc, s').
Proof. exact instancecheck_idempotent. Qed.
Print Assumptions C04_pass_idempotent.

Theorem C04_variadic_idempotent : forall name bc mid vm vm',
  check_variadic name bc mid vm = (COk, vm') -> check_variadic name bc mid vm' = (COk, vm').
Proof. exact check_variadic_again. Qed.
Print Assumptions C04_variadic_idempotent.

Theorem C04_outside_context_stateless : forall lbl st flat a v vd s',
  instancecheck flat lbl st a v [] = (vd, s') -> s' = [].
Proof. exact instancecheck_stateless. Qed.
Print Assumptions C04_outside_context_stateless.

(* the PyTree half: a tree that is rejected, or whose check raises, at ANY point -- flatten phase,
   structure name, k-th leaf -- leaves the whole context stack (axes and structure names) as it was *)
Theorem C04_pytree_reject_restores : forall st l sopt x s vd s',
  leafmatch st (LPyTree l sopt) x s = (vd, s') -> vd <> Acc -> ps_stack s' = ps_stack s.
Proof. exact pytree_reject_restores. Qed.
Print Assumptions C04_pytree_reject_restores.

Example C04_pytree_kth_leaf :
  let arr sh := Leaf (PArr (mkvalue true true "float32" sh)) in
  let s := mkps [(mkmemo [("x", 5%Z)] [] [], [])] None false in
  leafmatch [] (LPyTree (LArr (AC None "?a b")) (Some "T")) (Node KTuple [arr [2; 9]%Z; arr [3; 9]%Z; arr [4; 8]%Z]) s = (Rej, s).
Proof. vm_compute. reflexivity. Qed.

(* ---------- the tie of the rollback to the source's exception-safety structure ----------
   translator/tr_brackets.py reads from jaxtyping/_array_types.py and _pytree_type.py whether the call of _check_shape /
   _check is wrapped in `except BaseException: set_shape_memo(<four copies taken before>); raise` and whether the mismatch
   branch restores the same copies (gen/Brackets.v).  model/SourceShape.v is the check with that structure as a parameter;
   instantiated with what the source says NOW it restores, and with the structure absent it provably does not. *)
From JT Require Import gen.Brackets model.SourceShape proofs.SourceShapeFacts.

Theorem C04_array_check_as_in_source_is_the_model : forall flat lbl st a v s,
  instancecheck_src array_check_rolls_back flat lbl st a v s = instancecheck flat lbl st a v s.
Proof. exact instancecheck_src_true. Qed.
Print Assumptions C04_array_check_as_in_source_is_the_model.

Theorem C04_array_check_as_in_source_restores : forall flat lbl st a v s vd s',
  instancecheck_src array_check_rolls_back flat lbl st a v s = (vd, s') -> vd <> Acc -> s' = s.
Proof. exact (fun flat lbl st a v s vd s' => instancecheck_src_restores array_check_rolls_back flat lbl st a v s vd s' eq_refl). Qed.
Print Assumptions C04_array_check_as_in_source_restores.

Theorem C04_without_rollback_refuted : exists flat lbl st a v s vd s',
  instancecheck_src false flat lbl st a v s = (vd, s') /\ vd <> Acc /\ s' <> s.
Proof. exact instancecheck_src_false_refuted. Qed.
Print Assumptions C04_without_rollback_refuted.

Theorem C04_pytree_check_as_in_source_restores : forall st l sopt x s vd s',
  pytree_check_src st pytree_check_rolls_back l sopt x s = (vd, s') -> vd <> Acc -> ps_stack s' = ps_stack s.
Proof. exact (fun st l sopt x s vd s' => pytree_check_src_restores pytree_check_rolls_back st l sopt x s vd s' eq_refl). Qed.
Print Assumptions C04_pytree_check_as_in_source_restores.

Theorem C04_pytree_without_rollback_refuted : exists st l sopt x s vd s',
  pytree_check_src st false l sopt x s = (vd, s') /\ vd <> Acc /\ ps_stack s' <> ps_stack s.
Proof. exact pytree_check_src_false_refuted. Qed.
Print Assumptions C04_pytree_without_rollback_refuted.

(* the second half of the property for PyTrees: repeating a PyTree check that passed -- array leaf type, with or without a
   structure name, '?' axes included, inside a context -- passes again and changes no binding *)
From JT Require Import proofs.IdemFacts.
Theorem C04_pytree_pass_idempotent : forall st a, wf_annot a -> forall sopt x m t r s',
  leafmatch st (LPyTree (LArr a) sopt) x (mkps ((m, t) :: r) None false) = (Acc, s') ->
  leafmatch st (LPyTree (LArr a) sopt) x s' = (Acc, s').
Proof. exact pytree_array_leaves_idempotent. Qed.
Print Assumptions C04_pytree_pass_idempotent.

Example C04_pytree_pass_idempotent_nonvacuous :
  let arr sh := Leaf (PArr (mkvalue true true "float32" sh)) in
  let x := Node KTuple [arr [2; 9]%Z; Node KList [arr [3; 9]%Z]] in
  let s := mkps [(mkmemo [("b", 9%Z)] [] [], [])] None false in
  exists s', leafmatch [] (LPyTree (LArr (AC None "?a b")) (Some "T")) x s = (Acc, s') /\ ps_stack s' <> ps_stack s /\
             leafmatch [] (LPyTree (LArr (AC None "?a b")) (Some "T")) x s' = (Acc, s').
Proof. eexists. split; [vm_compute; reflexivity|]. split; [discriminate | vm_compute; reflexivity]. Qed.

(* the snapshot / roll-back wrapper at the end of _MetaAbstractArray.__instancecheck_str__, AS REGENERATED FROM THE SOURCE on
   every run (gen/StorageSrc.v, interpreted by model/SL.v): whatever cls._check_shape does to the store (`ext` is an arbitrary
   function), a non-empty message or ANY exception leaves the frame the check started from on top; the empty message keeps
   what the shape check bound *)
From JT Require Import model.SL gen.StorageSrc proofs.SLFacts.
Theorem C04_array_rollback_wrapper_as_in_source : forall ext cls obj s,
  wf_top s ->
  exists args,
    let '(r1, s1) := ext "_check_shape" args s in
    exists r' s', run_ext ext rollback_src "array_tail" [cls; obj] s = Some (r', s') /\
      match r1 with
      | SRExn x => r' = SRExn x /\ abs_store s' = set_top (abs_store s1) (top_frame (abs_store s))
      | SRVal v => match array_ok v with
                   | Some true => r' = SRVal v /\ s' = s1
                   | Some false => r' = SRVal v /\ abs_store s' = set_top (abs_store s1) (top_frame (abs_store s))
                   | None => r' = SRExn XOther
                   end
      end.
Proof. exact (fun ext cls obj s W => rollback_wrappers_as_in_source ext cls obj s true W). Qed.
Print Assumptions C04_array_rollback_wrapper_as_in_source.

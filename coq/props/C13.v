(* C13 -- type-check errors are raised iff violated and describe the failure truthfully.
   Model: model/Wrapper.v (call_new = wrapped_fn_impl + _get_problem_arg).  Together with
   C02 (verdict of a walk = existence of a consistent assignment) and C04 (a failed check
   is rolled back) these say: the error names the stage, blames the first parameter that
   fails given those declared before it, and reports the bindings of exactly the accepted
   checks. *)
From JT Require Import model.Wrapper proofs.CheckFacts proofs.WrapperFacts.
Open Scope string_scope.

Theorem C13_success_iff_both_walks_accept : forall lbl st params ret s0 s',
  call_new lbl st params ret s0 = (CROk, s') <->
  exists s1, walk lbl st params s0 = (Acc, s1) /\
             match ret with None => s' = s1 | Some r => walk lbl st (params ++ [r]) s1 = (Acc, s') end.
Proof. exact call_ok_iff. Qed.
Print Assumptions C13_success_iff_both_walks_accept.

Theorem C13_error_stage_and_bindings : forall lbl st params ret s0 stg k m s',
  call_new lbl st params ret s0 = (CRTypeCheck stg k m, s') ->
  match stg with
  | SParams => exists vd s1, walk lbl st params s0 = (vd, s1) /\ (vd = Rej \/ exists e, vd = Raise e /\ converted e = true)
  | SReturn => exists s1 r vd, walk lbl st params s0 = (Acc, s1) /\ ret = Some r /\
               walk lbl st (params ++ [r]) s1 = (vd, s') /\ (vd = Rej \/ exists e, vd = Raise e /\ converted e = true)
  end /\ m = get_memo s'.
Proof. exact typecheck_error_not_from_annotation_error. Qed.
Print Assumptions C13_error_stage_and_bindings.

Theorem C13_blame_truthful : forall lbl st us idx s k s',
  problem_arg lbl st us idx s = (PBlame (Some k), s') ->
  exists pre a v post,
    us = (pre ++ (a, v) :: post)%list /\ k = (idx + length pre)%nat /\
    walk lbl st pre s = (Acc, s') /\
    fst (instancecheck false lbl st a v s') <> Acc /\
    snd (instancecheck false lbl st a v s') = s'.
Proof. exact problem_arg_blames_first_failure. Qed.
Print Assumptions C13_blame_truthful.

Theorem C13_no_blame_means_each_passes : forall lbl st us idx s s',
  problem_arg lbl st us idx s = (PBlame None, s') -> walk lbl st us s = (Acc, s').
Proof. exact problem_arg_none. Qed.
Print Assumptions C13_no_blame_means_each_passes.

Theorem C13_annotation_error_passes_through : forall lbl st params ret s0,
  (exists s1, walk lbl st params s0 = (Raise AnnotationErr, s1)) \/
  (exists s1 r s2, walk lbl st params s0 = (Acc, s1) /\ ret = Some r /\ walk lbl st (params ++ [r]) s1 = (Raise AnnotationErr, s2)) ->
  fst (call_new lbl st params ret s0) = CRRaise AnnotationErr.
Proof. exact annotation_error_passes_through. Qed.
Print Assumptions C13_annotation_error_passes_through.

(* non-vacuity, and the example of the defect repaired by /repo commit 095bda1:
   f(x: "foo", y: "bar foo") with shapes (3,), (4, 5): y is blamed and the bindings are foo=3 only
   (the stale tuple used to show bar=4, taken from the failed check) *)
Example C13_nonvacuous :
  run_call [] [] [mkstep "foo" false None (mkvalue true true "float32" [3]%Z);
               mkstep "bar foo" false None (mkvalue true true "float32" [4; 5]%Z)] None
  = "TypeCheckError params blamed=1 S{foo=3} V{}".
Proof. vm_compute. reflexivity. Qed.

(* raised iff violated: with C02, no TypeCheckError when one consistent assignment exists, and one (or a propagated
   exception) when none does *)
From JT Require Import proofs.TwoPassFacts.
Theorem C13_raised_iff_no_consistent_assignment : forall lbl st params r args vd s',
  Forall (fun u => wf_annot (fst u)) (params ++ [r]) ->
  walk lbl st (params ++ [r]) (push_memo [] args) = (vd, s') -> (forall x, vd <> Raise x) ->
  (fst (call_new lbl st params (Some r) (push_memo [] args)) = CROk <->
   exists e, Forall (full_sat lbl st args e) (params ++ [r])).
Proof. exact call_succeeds_iff_consistent_assignment. Qed.
Print Assumptions C13_raised_iff_no_consistent_assignment.

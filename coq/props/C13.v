(* C13 -- type-check errors are raised iff violated and describe the failure truthfully.
   Model: model/Wrapper.v (call_new = wrapped_fn_impl + _get_problem_arg).  Together with
   C02 (verdict of a walk = existence of a consistent assignment) and C04 (a failed check
   is rolled back) these say: the error names the stage, blames the first parameter that
   fails given those declared before it, and reports the bindings of exactly the accepted
   checks. *)
From JT Require Import model.Wrapper proofs.CheckFacts proofs.WrapperFacts.
Open Scope string_scope.

Theorem C13_success_iff_both_walks_accept : forall lbl st params ret s0 s',
  call_new lbl st params ret s0 = (CROk, s') <->
  exists s1, walk lbl st params s0 = (Acc, s1) /\
             match ret with None => s' = s1 | Some r => walk lbl st (params ++ [r]) s1 = (Acc, s') end.
Proof. exact call_ok_iff. Qed.
Print Assumptions C13_success_iff_both_walks_accept.

Theorem C13_error_stage_and_bindings : forall lbl st params ret s0 stg k m s',
  call_new lbl st params ret s0 = (CRTypeCheck stg k m, s') ->
  match stg with
  | SParams => exists vd s1, walk lbl st params s0 = (vd, s1) /\ (vd = Rej \/ exists e, vd = Raise e /\ converted e = true)
  | SReturn => exists s1 r vd, walk lbl st params s0 = (Acc, s1) /\ ret = Some r /\
               walk lbl st (params ++ [r]) s1 = (vd, s') /\ (vd = Rej \/ exists e, vd = Raise e /\ converted e = true)
  end /\ m = get_memo s'.
Proof. exact typecheck_error_not_from_annotation_error. Qed.
Print Assumptions C13_error_stage_and_bindings.

Theorem C13_blame_truthful : forall lbl st us idx s k s',
  problem_arg lbl st us idx s = (PBlame (Some k), s') ->
  exists pre a v post,
    us = (pre ++ (a, v) :: post)%list /\ k = (idx + length pre)%nat /\
    walk lbl st pre s = (Acc, s') /\
    fst (instancecheck false lbl st a v s') <> Acc /\
    snd (instancecheck false lbl st a v s') = s'.
Proof. exact problem_arg_blames_first_failure. Qed.
Print Assumptions C13_blame_truthful.

Theorem C13_no_blame_means_each_passes : forall lbl st us idx s s',
  problem_arg lbl st us idx s = (PBlame None, s') -> walk lbl st us s = (Acc, s').
Proof. exact problem_arg_none. Qed.
Print Assumptions C13_no_blame_means_each_passes.

Theorem C13_annotation_error_passes_through : forall lbl st params ret s0,
  (exists s1, walk lbl st params s0 = (Raise AnnotationErr, s1)) \/
  (exists s1 r s2, walk lbl st params s0 = (Acc, s1) /\ ret = Some r /\ walk lbl st (params ++ [r]) s1 = (Raise AnnotationErr, s2)) ->
  fst (call_new lbl st params ret s0) = CRRaise AnnotationErr.
Proof. exact annotation_error_passes_through. Qed.
Print Assumptions C13_annotation_error_passes_through.

(* non-vacuity, and the example of the defect repaired by /repo commit 095bda1:
   f(x: "foo", y: "bar foo") with shapes (3,), (4, 5): y is blamed and the bindings are foo=3 only
   (the stale tuple used to show bar=4, taken from the failed check) *)
Example C13_nonvacuous :
  run_call [] [] [mkstep "foo" false None (mkvalue true true "float32" [3]%Z);
               mkstep "bar foo" false None (mkvalue true true "float32" [4; 5]%Z)] None
  = "TypeCheckError params blamed=1 S{foo=3} V{}".
Proof. vm_compute. reflexivity. Qed.

(* raised iff violated: with C02, no TypeCheckError when one consistent assignment exists, and one (or a propagated
   exception) when none does *)
From JT Require Import proofs.TwoPassFacts.
Theorem C13_raised_iff_no_consistent_assignment : forall lbl st params r args vd s',
  Forall (fun u => wf_annot (fst u)) (params ++ [r]) ->
  walk lbl st (params ++ [r]) (push_memo [] args) = (vd, s') -> (forall x, vd <> Raise x) ->
  (fst (call_new lbl st params (Some r) (push_memo [] args)) = CROk <->
   exists e, Forall (full_sat lbl st args e) (params ++ [r])).
Proof. exact call_succeeds_iff_consistent_assignment. Qed.
Print Assumptions C13_raised_iff_no_consistent_assignment.

(* "none [of the listed bindings is] taken from the check that failed": the failing isinstance has restored the context
   before the wrapper formats the message, because of the rollback structure read from the source (gen/Brackets.v) *)
From JT Require Import gen.Brackets model.SourceShape proofs.SourceShapeFacts model.PyTreeCheck.
Theorem C13_failed_check_leaves_nothing_behind : forall flat lbl st a v s vd s',
  instancecheck_src array_check_rolls_back flat lbl st a v s = (vd, s') -> vd <> Acc -> s' = s.
Proof. exact (fun flat lbl st a v s vd s' => instancecheck_src_restores array_check_rolls_back flat lbl st a v s vd s' eq_refl). Qed.
Print Assumptions C13_failed_check_leaves_nothing_behind.
Theorem C13_failed_pytree_check_leaves_nothing_behind : forall st l sopt x s vd s',
  pytree_check_src st pytree_check_rolls_back l sopt x s = (vd, s') -> vd <> Acc -> ps_stack s' = ps_stack s.
Proof. exact (fun st l sopt x s vd s' => pytree_check_src_restores pytree_check_rolls_back st l sopt x s vd s' eq_refl). Qed.
Print Assumptions C13_failed_pytree_check_leaves_nothing_behind.

(* ---------- PyTree-annotated parameters (model/PWrapper.v: the same wrapper over array and PyTree[L, structure] uses) ---------- *)
From JT Require Import model.PWrapper proofs.PWrapperFacts.

(* a use that does not accept -- an array or a whole tree, wherever in the tree the failure is -- leaves the context as it was *)
Theorem C13_failed_use_leaves_nothing_behind : forall st u s vd s',
  run_pstep st u s = (vd, s') -> vd <> Acc -> ps_stack s' = ps_stack s.
Proof. exact run_pstep_not_acc_restores. Qed.
Print Assumptions C13_failed_use_leaves_nothing_behind.

(* parameter stage: the blamed parameter k does not accept given the parameters before it, and the bindings listed (axes
   AND structure names) are exactly the frame established by those parameters *)
Theorem C13_pytree_param_error_truthful : forall st params ret s0 k fr s',
  pcall_new st params ret s0 = (PCTypeCheck SParams (Some k) fr, s') ->
  exists sw vw pre u post s1 vd,
    pwalk st params s0 = (vw, sw) /\ vw <> Acc /\
    params = (pre ++ u :: post)%list /\ k = length pre /\
    pwalk st pre sw = (Acc, s1) /\ fst (run_pstep st u s1) = vd /\ vd <> Acc /\
    fr = top_frame s1.
Proof. exact pcall_param_error_truthful. Qed.
Print Assumptions C13_pytree_param_error_truthful.

Theorem C13_pytree_return_error_truthful : forall st params ret s0 k fr s',
  pcall_new st params ret s0 = (PCTypeCheck SReturn k fr, s') ->
  exists s1 r pre u post s2 vd, pwalk st params s0 = (Acc, s1) /\ ret = Some r /\
    (params ++ [r] = pre ++ u :: post)%list /\ pwalk st pre s1 = (Acc, s2) /\ fst (run_pstep st u s2) = vd /\ vd <> Acc /\
    fr = top_frame s2.
Proof. exact pcall_return_error_truthful. Qed.
Print Assumptions C13_pytree_return_error_truthful.

Theorem C13_pytree_success_iff_both_walks_accept : forall st params ret s0 s',
  pcall_new st params ret s0 = (PCOk, s') <->
  exists s1, pwalk st params s0 = (Acc, s1) /\
             match ret with None => s' = s1 | Some r => pwalk st (params ++ [r]) s1 = (Acc, s') end.
Proof. exact pcall_ok_iff. Qed.
Print Assumptions C13_pytree_success_iff_both_walks_accept.

Theorem C13_pytree_annotation_error_passes_through : forall st params ret s0,
  (exists s1, pwalk st params s0 = (Raise AnnotationErr, s1)) \/
  (exists s1 r s2, pwalk st params s0 = (Acc, s1) /\ ret = Some r /\ pwalk st (params ++ [r]) s1 = (Raise AnnotationErr, s2)) ->
  fst (pcall_new st params ret s0) = PCRaise AnnotationErr.
Proof. exact pcall_annotation_error_passes_through. Qed.
Print Assumptions C13_pytree_annotation_error_passes_through.

(* f(w: "m", x: PyTree[Float "?k m", "T"], z: "m") with w (5,), x = ((2,5), (3,4)), z (5,): x is blamed (its second leaf
   breaks m); the listing has m=5 only -- neither the first leaf's `(Leaf 0 in structure T) k=2` nor T itself *)
Example C13_pytree_nonvacuous :
  let arr sh := Leaf (PArr (mkvalue true true "float32" sh)) in
  run_pcall [] [] [PSArr (AC None "m") (mkvalue true true "float32" [5]%Z);
                   PSTree (Some (LArr (AC None "?k m"))) (Some "T") (Node KTuple [arr [2; 5]%Z; arr [3; 4]%Z]);
                   PSArr (AC None "m") (mkvalue true true "float32" [5]%Z)] None
  = "TypeCheckError params blamed=1 S{m=5} V{} T{}".
Proof. vm_compute. reflexivity. Qed.

(* the wrapper formats the context AS IT IS when the message is built: every shape_str(..) in _decorator.py is given
   get_shape_memo() (read from the AST, gen/Brackets.v) -- the model's `m = get_memo s'` above; the defect repaired by
   /repo 095bda1 was a message built from a tuple captured at push time *)
Theorem C13_messages_read_the_live_context : messages_read_live_memo = true.
Proof. reflexivity. Qed.
Print Assumptions C13_messages_read_the_live_context.

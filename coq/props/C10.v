(* C10 -- the import hook only adds decorators: everything else in the module is untouched.
   Model: model/HookAst.v (generic AST with locations and scalar payloads; xform = JaxtypingTransformer
   + fix_missing_locations for the added nodes; strip removes exactly one import at the insertion
   point, the FIRST decorator of every ClassDef and the LAST decorator of every FunctionDef).
   gen/HookConsts.v (decorator template, placement calls, visited classes) is regenerated from source. *)
From JT Require Import model.HookAst gen.HookConsts proofs.HookFacts proofs.HookCompleteFacts.
Open Scope string_scope.

(* removing the additions gives back the original tree: every other node, every location, every scalar *)
Theorem C10_strip_xform : forall dec, closed dec = true -> forall t, strip (xform dec t) = t.
Proof. exact strip_xform. Qed.
Print Assumptions C10_strip_xform.

(* the decorator template taken from the source contains no def / class (for every typechecker hash),
   so visiting it again -- as the code does -- changes nothing, and the theorem above applies to it *)
Theorem C10_template_closed : forall h, closed (subst_hash h dec_template) = true.
Proof. intros h. vm_compute. reflexivity. Qed.
Print Assumptions C10_template_closed.

Theorem C10_added_nodes_are_fixed_points : forall dec a, closed a = true -> xform dec a = a.
Proof. exact closed_xform_id. Qed.
Print Assumptions C10_added_nodes_are_fixed_points.

(* the import goes after the module's own prefix of __future__ imports and bare constants (docstring),
   which stays in front, unchanged; no import when the module has nothing else *)
Theorem C10_import_position : forall body,
  (exists pre rest, body = (pre ++ rest)%list /\ insert_import body = (pre ++ the_import :: rest)%list /\
      forallb (fun s => is_future_import s || is_const_expr s) pre = true /\
      match rest with s :: _ => is_future_import s || is_const_expr s = false | [] => False end)
  \/ (forallb (fun s => is_future_import s || is_const_expr s) body = true /\ insert_import body = body).
Proof. exact insert_import_spec. Qed.
Print Assumptions C10_import_position.

(* the generated facts about the source the model relies on *)
Theorem C10_source_shape :
  function_placement = "node.decorator_list.append(decorator)" /\
  class_placement = "node.decorator_list.insert(0, decorator)" /\
  transformer_base = ["ast.NodeVisitor"] /\
  transformer_visits = ["visit_ClassDef"; "visit_FunctionDef"; "visit_Module"] /\
  transformer_overrides_generic_visit = false.
Proof. repeat split; reflexivity. Qed.
Print Assumptions C10_source_shape.

(* completeness: in the transformed tree EVERY ClassDef carries the decorator first and EVERY FunctionDef carries it last, at any
   nesting depth (methods, nested defs, defs inside decorators or default values), relocated onto the node's own position *)
Theorem C10_every_def_and_class_decorated : forall dec, closed dec = true -> forall t, all_nodes (decorated dec) (xform dec t) = true.
Proof. exact every_def_and_class_decorated. Qed.
Print Assumptions C10_every_def_and_class_decorated.

(* ... in particular with the decorator the source builds, for every typechecker hash *)
Theorem C10_every_def_and_class_decorated_with_the_template : forall h t,
  all_nodes (decorated (subst_hash h dec_template)) (xform (subst_hash h dec_template) t) = true.
Proof. intros h t. apply every_def_and_class_decorated. vm_compute. reflexivity. Qed.
Print Assumptions C10_every_def_and_class_decorated_with_the_template.

(* nothing of the module is lost or merged: different modules transform to different trees; class and position of a node are kept *)
Theorem C10_transformation_is_injective : forall dec, closed dec = true -> forall t1 t2, xform dec t1 = xform dec t2 -> t1 = t2.
Proof. exact xform_injective. Qed.
Print Assumptions C10_transformation_is_injective.

Theorem C10_node_class_and_position_kept : forall dec t, cls_of (xform dec t) = cls_of t /\ loc_of (xform dec t) = loc_of t.
Proof. exact root_kept. Qed.
Print Assumptions C10_node_class_and_position_kept.

(* C10 -- the import hook only adds decorators: everything else in the module is untouched.
   Model: model/HookAst.v (generic AST with locations and scalar payloads; xform = JaxtypingTransformer
   + fix_missing_locations for the added nodes; strip removes exactly one import at the insertion
   point, the FIRST decorator of every ClassDef and the LAST decorator of every FunctionDef).
   gen/HookConsts.v (decorator template, placement calls, visited classes) is regenerated from source. *)
From JT Require Import model.HookAst gen.HookConsts proofs.HookFacts.
Open Scope string_scope.

(* removing the additions gives back the original tree: every other node, every location, every scalar *)
Theorem C10_strip_xform : forall dec, closed dec = true -> forall t, strip (xform dec t) = t.
Proof. exact strip_xform. Qed.
Print Assumptions C10_strip_xform.

(* the decorator template taken from the source contains no def / class (for every typechecker hash),
   so visiting it again -- as the code does -- changes nothing, and the theorem above applies to it *)
Theorem C10_template_closed : forall h, closed (subst_hash h dec_template) = true.
Proof. intros h. vm_compute. reflexivity. Qed.
Print Assumptions C10_template_closed.

Theorem C10_added_nodes_are_fixed_points : forall dec a, closed a = true -> xform dec a = a.
Proof. exact closed_xform_id. Qed.
Print Assumptions C10_added_nodes_are_fixed_points.

(* the import goes after the module's own prefix of __future__ imports and bare constants (docstring),
   which stays in front, unchanged; no import when the module has nothing else *)
Theorem C10_import_position : forall body,
  (exists pre rest, body = (pre ++ rest)%list /\ insert_import body = (pre ++ the_import :: rest)%list /\
      forallb (fun s => is_future_import s || is_const_expr s) pre = true /\
      match rest with s :: _ => is_future_import s || is_const_expr s = false | [] => False end)
  \/ (forallb (fun s => is_future_import s || is_const_expr s) body = true /\ insert_import body = body).
Proof. exact insert_import_spec. Qed.
Print Assumptions C10_import_position.

(* the generated facts about the source the model relies on *)
Theorem C10_source_shape :
  function_placement = "node.decorator_list.append(decorator)" /\
  class_placement = "node.decorator_list.insert(0, decorator)" /\
  transformer_base = ["ast.NodeVisitor"] /\
  transformer_visits = ["visit_ClassDef"; "visit_FunctionDef"; "visit_Module"] /\
  transformer_overrides_generic_visit = false.
Proof. repeat split; reflexivity. Qed.
Print Assumptions C10_source_shape.

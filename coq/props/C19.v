(* C19 -- disabling checks makes decorated code behave exactly like plain code.
   gen/ConfigTable.v (accepted spellings, item names, the wrapper's early-return test) is
   regenerated from jaxtyping/_config.py and _decorator.py on every run. *)
From JT Require Import model.Config proofs.ConfigFacts.
Open Scope string_scope.

Theorem C19_switch_accepts_exactly : forall v b,
  maybestr2bool v = Some b <->
  v = VBool b \/ exists s, v = VStr s /\ In (lower s) (if b then ["1"; "true"] else ["0"; "false"]).
Proof. exact parse_spec. Qed.
Print Assumptions C19_switch_accepts_exactly.

Theorem C19_switch_rejects_everything_else : forall v,
  maybestr2bool v = None <->
  (v = VOther \/ exists s, v = VStr s /\ ~ In (lower s) ["0"; "false"; "1"; "true"]).
Proof. exact parse_rejects_everything_else. Qed.
Print Assumptions C19_switch_rejects_everything_else.

Theorem C19_case_insensitive : forall s1 s2,
  lower s1 = lower s2 -> maybestr2bool (VStr s1) = maybestr2bool (VStr s2).
Proof. exact case_insensitive. Qed.
Print Assumptions C19_case_insensitive.

Theorem C19_disabled_transparent : forall d n1 n2 c,
  d || n1 || n2 = true -> wrapper_trace d n1 n2 c = [EBody].
Proof. exact disabled_transparent. Qed.
Print Assumptions C19_disabled_transparent.

Theorem C19_early_return_test_unchanged : early_return_test_is_standard = true.
Proof. exact early_return_test_unchanged. Qed.
Print Assumptions C19_early_return_test_unchanged.

Theorem C19_toggle : forall pre flag c post,
  nth_error (run_ops flag (pre ++ OCall c :: post)) (length pre) =
  Some (wrapper_trace (flag_after flag pre) false false c).
Proof. exact toggle. Qed.
Print Assumptions C19_toggle.

(* the disabled wrapper's trace is [Body] in the model because the source tests the switch first and returns
   the original function before binding the signature or opening a context -- read from the AST (gen/Brackets.v) *)
From JT Require Import gen.Brackets.
Theorem C19_disabled_returns_before_anything_else : disabled_returns_before_push = true.
Proof. reflexivity. Qed.
Print Assumptions C19_disabled_returns_before_anything_else.

(* the wrapper with the position of the switch test as a parameter (model/SourceShape.v) *)
From JT Require Import model.SourceShape proofs.SourceShapeFacts.
Theorem C19_wrapper_as_in_source_is_transparent_when_disabled : forall d n1 n2 c,
  d || n1 || n2 = true -> wrapper_trace_src disabled_returns_before_push d n1 n2 c = [EBody].
Proof. exact (fun d n1 n2 c => wrapper_trace_src_transparent disabled_returns_before_push d n1 n2 c eq_refl). Qed.
Print Assumptions C19_wrapper_as_in_source_is_transparent_when_disabled.

Theorem C19_late_disable_test_refuted : exists d n1 n2 c,
  d || n1 || n2 = true /\ wrapper_trace_src false d n1 n2 c <> [EBody].
Proof. exact late_disable_test_refuted. Qed.
Print Assumptions C19_late_disable_test_refuted.

(* the decorated-call wrapper AS REGENERATED FROM THE SOURCE on every run (gen/StorageSrc.v: src_wrapped_fn, interpreted by
   model/SL.v): when the switch reads true the wrapper's result and store are exactly those of calling the wrapped function --
   it binds nothing, pushes nothing, pops nothing -- whatever the wrapped function and the rest of the program do *)
From JT Require Import model.SL gen.StorageSrc proofs.SLWrapFacts.
Theorem C19_wrapper_as_in_source_switched_off_is_the_plain_call : forall ext a k c f p h i s s1,
  ext "config.jaxtyping_disable" [] s = (SRVal (SVBool true), s1) ->
  run_ext ext wrapped_src "wrapped_fn" [a; k; c; f; p; h; i] s = Some (ext "fn" [a; k] s1).
Proof. exact wrapped_fn_disabled_is_the_plain_call. Qed.
Print Assumptions C19_wrapper_as_in_source_switched_off_is_the_plain_call.

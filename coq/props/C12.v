(* C12 -- a check's verdict never depends on earlier, unrelated activity in the process.
   State beyond the context stack: the flatten mode and the '?'-leaf position (model/PyTreeCheck.v: ps_flat,
   ps_path) and the per-annotation-object transparency switch (a_skip).  Faults -- exceptions of class Exception
   or BaseException raised by user code during a check (array attributes, custom flatteners, leaf
   __instancecheck__, symbolic expressions) -- are the `Raise e` outcomes of the leaf / is_leaf functions. *)
From JT Require Import model.PyTreeCheck proofs.PyTreeFacts.
Open Scope string_scope.

(* after ANY check of any leaf type on any value from a store with the mode off -- whether it accepts, rejects or
   raises (any class), wherever the fault occurs -- the flatten mode is off again *)
Theorem C12_flatten_mode_never_outlives_a_check : forall st l x s vd s',
  leafmatch st l x s = (vd, s') -> ps_flat s = false -> ps_flat s' = false.
Proof. exact check_leaves_flatten_mode_off. Qed.
Print Assumptions C12_flatten_mode_never_outlives_a_check.

(* ... and no '?'-leaf position is left behind *)
Theorem C12_leaf_position_never_outlives_a_check : forall st l x s vd s',
  leafmatch st l x s = (vd, s') -> ps_path s = None -> ps_path s' = None.
Proof. exact check_leaves_no_leaf_position. Qed.
Print Assumptions C12_leaf_position_never_outlives_a_check.

(* ... and the contexts of the callers are untouched (C05) *)
Theorem C12_check_touches_top_context_only : forall st l x s vd s',
  leafmatch st l x s = (vd, s') -> same_below s s'.
Proof. intros st l. exact (leafmatch_frame st l). Qed.
Print Assumptions C12_check_touches_top_context_only.

(* the verdict of an array check is a function of the value, the annotation, the current context's bindings and
   those two flags -- nothing else in the store matters *)
Theorem C12_probe_is_function_of_context : forall st a v s1 s2,
  top_frame s1 = top_frame s2 -> (ps_stack s1 = [] <-> ps_stack s2 = []) ->
  ps_flat s1 = ps_flat s2 -> ps_path s1 = ps_path s2 ->
  fst (arr_check st a v s1) = fst (arr_check st a v s2).
Proof.
  intros st a v s1 s2 Ht He Hf Hp. unfold arr_check. rewrite Ht, Hf, Hp. destruct (top_frame s2) as [m t].
  destruct (ps_stack s1) as [|f1 r1] eqn:E1; destruct (ps_stack s2) as [|f2 r2] eqn:E2.
  - destruct (instancecheck _ _ st a v []); reflexivity.
  - exfalso. assert (H : f2 :: r2 = []) by (apply He; reflexivity). discriminate.
  - exfalso. assert (H : f1 :: r1 = []) by (apply He; reflexivity). discriminate.
  - destruct (instancecheck _ _ st a v [m]); reflexivity.
Qed.
Print Assumptions C12_probe_is_function_of_context.

(* the exception to the property on the current code (known finding F-C12-transparent-alias): an annotation object
   that has been made transparent accepts everything *)
Theorem C12_transparent_refuted : forall st a v s, a_skip a = true -> fst (arr_check st a v s) = Acc.
Proof.
  intros st a v s H. unfold arr_check, instancecheck. rewrite H. destruct (top_frame s). destruct (ps_stack s); reflexivity.
Qed.
Print Assumptions C12_transparent_refuted.

(* the model resets the flatten mode and the '?'-leaf position on EVERY exit of the region that set them; that is what the
   source does exactly when each set_...() is bracketed by try/finally clear_...() -- read from the AST (gen/Brackets.v) *)
From JT Require Import gen.Brackets.
Theorem C12_transient_state_is_bracketed_in_the_source :
  flatten_flag_protected = true /\ treepath_protected = true /\ bracket_notes = [].
Proof. repeat split; reflexivity. Qed.
Print Assumptions C12_transient_state_is_bracketed_in_the_source.

(* the '?'-leaf position with its try/finally bracket as a parameter (model/SourceShape.v): instantiated with what the
   source says now the PyTree check IS the model's and leaves no position and no flatten mode behind; without the
   finally a structured tree whose k-th leaf does not match leaves the position set (model witness) *)
From JT Require Import model.SourceShape proofs.SourceShapeFacts.
Theorem C12_check_as_in_source_is_the_model : forall st l sopt x s,
  pytree_check_flags st treepath_protected l sopt x s = leafmatch st (LPyTree l sopt) x s.
Proof. exact (fun st l sopt x s => pytree_check_flags_true st l sopt x s). Qed.
Print Assumptions C12_check_as_in_source_is_the_model.

Theorem C12_check_as_in_source_resets_transient_state : forall st l sopt x s vd s',
  pytree_check_flags st treepath_protected l sopt x s = (vd, s') ->
  (ps_flat s = false -> ps_flat s' = false) /\ (ps_path s = None -> ps_path s' = None).
Proof. exact (fun st l sopt x s vd s' => pytree_check_flags_reset treepath_protected st l sopt x s vd s' eq_refl). Qed.
Print Assumptions C12_check_as_in_source_resets_transient_state.

Theorem C12_leaf_position_without_finally_refuted : exists st l sopt x s vd s',
  pytree_check_flags st false l sopt x s = (vd, s') /\ ps_path s = None /\ ps_path s' <> None.
Proof. exact leaf_position_without_finally_refuted. Qed.
Print Assumptions C12_leaf_position_without_finally_refuted.

(* the accessors of the '?'-leaf position and of the flatten mode, as regenerated from jaxtyping/_storage.py on every run
   (gen/StorageSrc.v interpreted by model/SL.v), read and write exactly the ps_path / ps_flat components the theorems above
   speak about *)
From JT Require Import model.SL gen.StorageSrc proofs.SLFacts.
Theorem C12_transient_state_accessors_as_in_source : forall s, wf_cells s ->
  (forall r s', run_acc storage_src "clear_treepath_memo" [] s = Some (r, s') ->
     r = SRVal SVNone /\ abs_store s' = with_path (abs_store s) None /\ wf_cells s') /\
  (forall r s', run_acc storage_src "get_treepath_memo" [] s = Some (r, s') ->
     s' = s /\ r = match ps_path (abs_store s) with Some p => SRVal (SVStr p) | None => SRExn XAnnotation end) /\
  (forall (b : bool) r s', run_acc storage_src (if b then "set_treeflatten_memo" else "clear_treeflatten_memo") [] s = Some (r, s') ->
     r = SRVal SVNone /\ abs_store s' = with_flat (abs_store s) b /\ wf_cells s') /\
  (forall r s', run_acc storage_src "get_treeflatten_memo" [] s = Some (r, s') ->
     s' = s /\ r = SRVal (SVBool (ps_flat (abs_store s)))).
Proof.
  exact (fun s W => conj (fun r s' => clear_treepath_refines s r s' W) (conj (fun r s' => get_treepath_refines s r s' W)
                     (conj (fun b r s' => set_treeflatten_refines s b r s' W) (fun r s' => get_treeflatten_refines s r s' W)))).
Qed.
Print Assumptions C12_transient_state_accessors_as_in_source.

(* the flatten bracket of _MetaPyTree._check, AS REGENERATED FROM THE SOURCE (gen/StorageSrc.v, model/SL.v): whatever
   jtu.tree_flatten and the leaf predicate do (`ext` arbitrary), they run with the flag on and the flag is off afterwards,
   on normal completion and on every exception *)
From JT Require Import proofs.SLWalkFacts.
Theorem C12_flatten_bracket_as_in_source : forall ext obj s,
  wf_cells s ->
  exists r s', run_ext ext walk_src "flatten_bracket" [obj] s = Some (r, s') /\
    let s0 := with_flatv s (SVBool true) in
    abs_store s0 = with_flat (abs_store s) true /\
    abs_store s' = with_flat (abs_store (snd (ext "tree_flatten" [obj] s0))) false /\
    ps_flat (abs_store s') = false /\
    (forall x, fst (ext "tree_flatten" [obj] s0) = SRExn x -> r = SRExn x).
Proof. exact flatten_bracket_as_in_source. Qed.
Print Assumptions C12_flatten_bracket_as_in_source.

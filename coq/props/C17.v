(* C17 -- verdicts depend on type, shape and dtype only, so tracing equals eager.
   Model: model/Trace.v (the check with an access log over objects that also carry element data and a tracer flag).
   What jit / vmap / grad / eval_shape hand to the function is JAX's: validated by the correspondence, not proved. *)
From JT Require Import model.Trace proofs.TraceFacts proofs.TraceCallFacts.
Open Scope string_scope.

Theorem C17_log_refines_the_check : forall flat lbl st a o s,
  fst (instancecheck_log flat lbl st a o s) = instancecheck flat lbl st a (observe o) s.
Proof. exact log_refines. Qed.
Print Assumptions C17_log_refines_the_check.

Theorem C17_never_forces_a_value : forall flat lbl st a o s, ~ In AForce (snd (instancecheck_log flat lbl st a o s)).
Proof. exact never_forces. Qed.
Print Assumptions C17_never_forces_a_value.

Theorem C17_value_independent : forall flat lbl st a o1 o2 s,
  observe o1 = observe o2 -> instancecheck_log flat lbl st a o1 s = instancecheck_log flat lbl st a o2 s.
Proof. exact value_independent. Qed.
Print Assumptions C17_value_independent.

Theorem C17_tracer_equals_eager : forall flat lbl st a i at_ d sh data1 data2 s,
  instancecheck_log flat lbl st a (mkobj i at_ d sh data1 true) s = instancecheck_log flat lbl st a (mkobj i at_ d sh data2 false) s.
Proof. exact tracer_equals_eager. Qed.
Print Assumptions C17_tracer_equals_eager.

(* the same for a WHOLE decorated call: every annotated argument and the return value checked in turn inside one context
   (bindings made by an earlier argument constrain the later ones) *)
Theorem C17_call_log_refines_the_walk : forall lbl st us s, fst (walk_log lbl st us s) = walk lbl st (map observe_use us) s.
Proof. exact walk_log_refines. Qed.
Print Assumptions C17_call_log_refines_the_walk.

Theorem C17_call_never_forces_a_value : forall lbl st us s, ~ In AForce (snd (walk_log lbl st us s)).
Proof. exact walk_never_forces. Qed.
Print Assumptions C17_call_never_forces_a_value.

Theorem C17_call_value_independent : forall lbl st us1 us2 s,
  map observe_use us1 = map observe_use us2 -> walk_log lbl st us1 s = walk_log lbl st us2 s.
Proof. exact walk_value_independent. Qed.
Print Assumptions C17_call_value_independent.

(* every argument replaced by a tracer of the same aval (what jit, vmap, grad and eval_shape hand over): same verdict, same
   bindings left in the context, same accesses as the eager call *)
Theorem C17_traced_call_equals_eager_call : forall lbl st us s, walk_log lbl st (map as_tracer us) s = walk_log lbl st us s.
Proof. exact traced_call_equals_eager_call. Qed.
Print Assumptions C17_traced_call_equals_eager_call.

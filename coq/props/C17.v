(* C17 -- verdicts depend on type, shape and dtype only, so tracing equals eager.
   Model: model/Trace.v (the check with an access log over objects that also carry element data and a tracer flag).
   What jit / vmap / grad / eval_shape hand to the function is JAX's: validated by the correspondence, not proved. *)
From JT Require Import model.Trace proofs.TraceFacts.
Open Scope string_scope.

Theorem C17_log_refines_the_check : forall flat lbl st a o s,
  fst (instancecheck_log flat lbl st a o s) = instancecheck flat lbl st a (observe o) s.
Proof. exact log_refines. Qed.
Print Assumptions C17_log_refines_the_check.

Theorem C17_never_forces_a_value : forall flat lbl st a o s, ~ In AForce (snd (instancecheck_log flat lbl st a o s)).
Proof. exact never_forces. Qed.
Print Assumptions C17_never_forces_a_value.

Theorem C17_value_independent : forall flat lbl st a o1 o2 s,
  observe o1 = observe o2 -> instancecheck_log flat lbl st a o1 s = instancecheck_log flat lbl st a o2 s.
Proof. exact value_independent. Qed.
Print Assumptions C17_value_independent.

Theorem C17_tracer_equals_eager : forall flat lbl st a i at_ d sh data1 data2 s,
  instancecheck_log flat lbl st a (mkobj i at_ d sh data1 true) s = instancecheck_log flat lbl st a (mkobj i at_ d sh data2 false) s.
Proof. exact tracer_equals_eager. Qed.
Print Assumptions C17_tracer_equals_eager.

(* C02 -- a checked call is accepted iff one consistent axis assignment exists; the verdict
   does not depend on the order in which the parameters are walked.
   `walk` = what a typechecker does with the annotated parameters (and the return value)
   of one call: isinstance on each in turn, in one fresh context. *)
From JT Require Import model.Check proofs.BroadcastFacts proofs.CheckFacts.
From Coq Require Import Permutation.
Open Scope string_scope.

Theorem C02_gamma_never_empty : forall m : memo, exists e, gamma m e.
Proof. intros m. eexists. apply gamma_nonempty. Qed.
Print Assumptions C02_gamma_never_empty.

Theorem C02_walk_accept : forall lbl st us m s s',
  Forall (fun u => wf_annot (fst u)) us ->
  walk lbl st us (m :: s) = (Acc, s') ->
  exists m', s' = m' :: s /\ margs m' = margs m /\
             forall e, gamma m' e <-> gamma m e /\ Forall (full_sat lbl st (margs m) e) us.
Proof. exact walk_acc. Qed.
Print Assumptions C02_walk_accept.

Theorem C02_walk_reject : forall lbl st us m s s',
  Forall (fun u => wf_annot (fst u)) us ->
  walk lbl st us (m :: s) = (Rej, s') ->
  forall e, gamma m e -> ~ Forall (full_sat lbl st (margs m) e) us.
Proof. exact walk_rej. Qed.
Print Assumptions C02_walk_reject.

Theorem C02_accept_iff_consistent_assignment : forall lbl st us args vd s',
  Forall (fun u => wf_annot (fst u)) us ->
  walk lbl st us (push_memo [] args) = (vd, s') ->
  (forall x, vd <> Raise x) ->
  (vd = Acc <-> exists e, Forall (full_sat lbl st args e) us).
Proof. exact walk_iff_sat. Qed.
Print Assumptions C02_accept_iff_consistent_assignment.

Theorem C02_order_independent : forall lbl st us us' args vd vd' s1 s2,
  Permutation us us' ->
  Forall (fun u => wf_annot (fst u)) us ->
  walk lbl st us (push_memo [] args) = (vd, s1) ->
  walk lbl st us' (push_memo [] args) = (vd', s2) ->
  (forall x, vd <> Raise x) -> (forall x, vd' <> Raise x) ->
  vd = vd'.
Proof. exact walk_order_independent. Qed.
Print Assumptions C02_order_independent.

(* non-vacuity: f(x: "#n", y: "n") with shapes (1,), (3,) is accepted in both orders,
   and *#v (1,3), *#v (2,1), *v (2,3) in two different orders *)
Example C02_nonvacuous :
  let A s := match parse_dims s with Ok d => mkannot false None d false | Err _ => mkannot false None (mkdims [] None) true end in
  let V sh := mkvalue true true "float32" sh in
  let x := (A "#n", V [1]%Z) in let y := (A "n", V [3]%Z) in
  let p := (A "*#v", V [1; 3]%Z) in let q := (A "*#v", V [2; 1]%Z) in let r := (A "*v", V [2; 3]%Z) in
  fst (walk None [] [x; y] (push_memo [] [])) = Acc /\ fst (walk None [] [y; x] (push_memo [] [])) = Acc /\
  fst (walk None [] [p; q; r] (push_memo [] [])) = Acc /\ fst (walk None [] [r; q; p] (push_memo [] [])) = Acc /\
  fst (walk None [] [r; p; (A "*v", V [2; 4]%Z)] (push_memo [] [])) = Rej.
Proof. vm_compute. repeat split. Qed.

(* ---------- the decorated call: two passes ---------- *)
From JT Require Import model.Wrapper proofs.TwoPassFacts.

(* uses that were accepted are accepted again, unchanged, from every later state of the same context: the wrapper's
   second pass over the parameters (before the return value) changes nothing *)
Theorem C02_rewalk_changes_nothing : forall lbl st us m s s',
  Forall (fun u => wf_annot (fst u)) us ->
  walk lbl st us (m :: s) = (Acc, s') ->
  exists m', s' = m' :: s /\ mle m m' /\ forall mx, mle m' mx -> walk lbl st us (mx :: s) = (Acc, mx :: s).
Proof. exact walk_again. Qed.
Print Assumptions C02_rewalk_changes_nothing.

Theorem C02_two_pass : forall lbl st params r s0 s1,
  Forall (fun u => wf_annot (fst u)) params ->
  walk lbl st params s0 = (Acc, s1) -> s0 <> [] ->
  walk lbl st (params ++ [r]) s1 = walk lbl st [r] s1 /\ walk lbl st (params ++ [r]) s0 = walk lbl st [r] s1.
Proof. exact second_pass_is_return_check. Qed.
Print Assumptions C02_two_pass.

(* the statement of the property for the wrapper as a whole (wrapped_fn_impl: parameters, body, parameters + return value):
   the call succeeds iff ONE assignment satisfies every parameter and the return value *)
Theorem C02_call_succeeds_iff_consistent_assignment : forall lbl st params r args vd s',
  Forall (fun u => wf_annot (fst u)) (params ++ [r]) ->
  walk lbl st (params ++ [r]) (push_memo [] args) = (vd, s') -> (forall x, vd <> Raise x) ->
  (fst (call_new lbl st params (Some r) (push_memo [] args)) = CROk <->
   exists e, Forall (full_sat lbl st args e) (params ++ [r])).
Proof. exact call_succeeds_iff_consistent_assignment. Qed.
Print Assumptions C02_call_succeeds_iff_consistent_assignment.

(* ---------- unions of array annotations: resolved greedily, so NOT "accepted iff a consistent assignment exists" ---------- *)
(* a typechecker tries the alternatives of Union[A1, A2, ..] in turn against the shared context and keeps the first that accepts
   (model/UnionWalk.v).  With single alternatives this is the walk above; with real unions the statement of the property is
   REFUTED in the model -- the witness below is replayed on the implementation by the C02 check (known finding F-C02-union-greedy) *)
From JT Require Import model.UnionWalk proofs.UnionFacts.
Theorem C02_union_walk_of_single_alternatives_is_the_walk : forall lbl st us s,
  walk_union lbl st (map (fun u => ([fst u], snd u)) us) s = walk lbl st us s.
Proof. exact walk_union_singletons. Qed.
Print Assumptions C02_union_walk_of_single_alternatives_is_the_walk.

Theorem C02_union_alternatives_resolved_greedily_refuted :
  let U := [AU "n"; AU "n+1"] in
  let x := VU [4%Z] in let y := VU [3%Z] in
  fst (walk_union None st_n1 [(U, x); (U, y)] (push_memo [] [])) = Rej /\
  fst (walk_union None st_n1 [(U, y); (U, x)] (push_memo [] [])) = Acc /\
  exists e, Forall (full_sat None st_n1 [] e) [(AU "n", y); (AU "n+1", x)].
Proof. exact union_greedy_refuted. Qed.
Print Assumptions C02_union_alternatives_resolved_greedily_refuted.

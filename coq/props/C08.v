(* C08 -- PyTree[L] accepts exactly the trees all of whose leaves match L.
   Model: model/PyTreeCheck.v (leafmatch / pytree_body / flatten_with / leaf_loop). *)
From JT Require Import model.PyTreeCheck proofs.PyTreeFacts.
Open Scope string_scope.

(* a check only ever touches the current (top) context *)
Theorem C08_check_touches_top_context_only : forall st l x s vd s',
  leafmatch st l x s = (vd, s') -> same_below s s'.
Proof. intros st l. exact (leafmatch_frame st l). Qed.
Print Assumptions C08_check_touches_top_context_only.

(* a rejected (or raising) tree binds nothing: neither axes nor structure names -- although leaves
   before the offending one had already bound theirs (C04, PyTree half) *)
Theorem C08_reject_restores : forall st l sopt x s vd s',
  leafmatch st (LPyTree l sopt) x s = (vd, s') -> vd <> Acc -> ps_stack s' = ps_stack s.
Proof. exact pytree_reject_restores. Qed.
Print Assumptions C08_reject_restores.

(* bare PyTree accepts everything; a top-level None is accepted by every PyTree[L, S] *)
Theorem C08_bare_accepts_everything : forall st x s, leafmatch st LPyTreeBare x s = (Acc, s).
Proof. reflexivity. Qed.
Print Assumptions C08_bare_accepts_everything.

Theorem C08_toplevel_none_accepted : forall st l sopt s, pytree_check st l sopt (Node KNone []) s = (Acc, s).
Proof. reflexivity. Qed.
Print Assumptions C08_toplevel_none_accepted.

(* non-vacuity: partial progress exists and is rolled back *)
Example C08_partial_progress_rolled_back :
  let x := Node KTuple [Leaf (PArr (mkvalue true true "float32" [2]%Z)); Leaf (PArr (mkvalue true true "float32" [3]%Z))] in
  let s := mkps [(empty_memo, [])] None false in
  leafmatch [] (LPyTree (LArr (AC None "a")) (Some "T")) x s = (Rej, s) /\
  fst (leafmatch [] (LPyTree (LArr (AC None "b")) (Some "T")) (Node KTuple [Leaf (PArr (mkvalue true true "float32" [2]%Z))]) s) = Acc.
Proof. vm_compute. split; reflexivity. Qed.

(* ---------- leaf types without array annotations: int, str, tuples and unions of them ---------- *)
From JT Require Import proofs.PurePyTreeFacts.

(* typeguard's check of such a leaf type is a pure function of the value *)
Theorem C08_pure_leaf_check : forall st l, pure l = true -> forall x s, leafmatch st l x s = (vb (pmatch l x), s).
Proof. exact pure_leafmatch. Qed.
Print Assumptions C08_pure_leaf_check.

(* PyTree[L] accepts x iff every leaf of x matches L, where a leaf is a topmost subtree that matches L or else a
   non-container object; None and empty containers contribute no leaves; a top-level None is accepted *)
Theorem C08_accepts_iff_all_leaves_match : forall st l, pure l = true -> forall x s,
  fst (leafmatch st (LPyTree l None) x s) = vb (is_none x || forallb (pmatch l) (leaves_of (pmatch l) x)).
Proof. exact pytree_accepts_iff_all_leaves_match. Qed.
Print Assumptions C08_accepts_iff_all_leaves_match.

(* PyTree[PyTree[L]] and PyTree[L] accept the same values *)
Theorem C08_nested_same : forall st l, pure l = true -> forall x s1 s2,
  fst (leafmatch st (LPyTree (LPyTree l None) None) x s1) = fst (leafmatch st (LPyTree l None) x s2).
Proof. exact nested_pytree_same. Qed.
Print Assumptions C08_nested_same.

Theorem C08_any_accepts_everything : forall st x s, fst (leafmatch st (LPyTree LAny None) x s) = Acc.
Proof. exact pytree_any_accepts_everything. Qed.
Print Assumptions C08_any_accepts_everything.

Example C08_leaves_examples :
  let i := Leaf (PInt 1) in
  leaves_of (pmatch LInt) (Node KTuple [Node KNone []; i; Node KTuple []; Node (KDict []) []]) = [i] /\
  leaves_of (pmatch (LTuple [LInt; LInt])) (Node KList [Node KTuple [i; i]; Node (KNamed "P") [i; i]; Node KTuple [i]]) = [Node KTuple [i; i]; Node (KNamed "P") [i; i]; i].
Proof. split; reflexivity. Qed.

(* "a rejected tree binds nothing", for the PyTree check with the rollback structure read from the source *)
From JT Require Import gen.Brackets model.SourceShape proofs.SourceShapeFacts.
Theorem C08_check_as_in_source_is_the_model : forall st l sopt x s,
  pytree_check_src st pytree_check_rolls_back l sopt x s = leafmatch st (LPyTree l sopt) x s.
Proof. exact (fun st l sopt x s => pytree_check_src_true st l sopt x s). Qed.
Print Assumptions C08_check_as_in_source_is_the_model.

(* "array-annotated leaves share axis bindings with one another and with the rest of the context": inside a context,
   PyTree[Dtype[Array, dims]] decides like ONE walk over its array leaves -- it accepts exactly when the assignments
   consistent with the context can be narrowed to ones satisfying EVERY leaf (and narrows to exactly those); a rejected
   tree means no assignment consistent with the context satisfies all leaves, and leaves the store as it was *)
From JT Require Import proofs.CheckFacts proofs.IdemFacts.
Theorem C08_array_leaves_share_one_assignment : forall st a, wf_annot a -> forall x m t r vd s',
  leafmatch st (LPyTree (LArr a) None) x (mkps ((m, t) :: r) None false) = (vd, s') ->
  (vd = Acc -> exists m', s' = mkps ((m', t) :: r) None false /\ margs m' = margs m /\
                          forall e, gamma m' e <-> gamma m e /\ Forall (full_sat None st (margs m) e) (uses a (array_leaves st a x))) /\
  (vd = Rej -> s' = mkps ((m, t) :: r) None false /\
               forall e, gamma m e -> ~ Forall (full_sat None st (margs m) e) (uses a (array_leaves st a x))).
Proof. exact pytree_arrays_decide_like_one_walk. Qed.
Print Assumptions C08_array_leaves_share_one_assignment.

(* the leaves meant above are the ones the flatten phase yields whatever the bindings are *)
Theorem C08_flatten_phase_independent_of_bindings : forall st a, wf_annot a -> forall x st1 p1 st2 p2, exists fl,
  flatten_with (leafmatch st (LArr a)) x (mkps st1 p1 true) = (fl, mkps st1 p1 true, None) /\
  flatten_with (leafmatch st (LArr a)) x (mkps st2 p2 true) = (fl, mkps st2 p2 true, None).
Proof. exact flatten_flat. Qed.
Print Assumptions C08_flatten_phase_independent_of_bindings.

Example C08_array_leaves_nonvacuous :
  let arr sh := Leaf (PArr (mkvalue true true "float32" sh)) in
  array_leaves [] (AC None "a b") (Node KTuple [arr [2; 3]%Z; Node KNone []; Node (KDict ["k"]) [arr [2; 4]%Z]]) = [arr [2; 3]%Z; arr [2; 4]%Z] /\
  fst (leafmatch [] (LPyTree (LArr (AC None "a b")) None) (Node KTuple [arr [2; 3]%Z; Node (KDict ["k"]) [arr [2; 4]%Z]]) (mkps [(empty_memo, [])] None false)) = Rej.
Proof. vm_compute. split; reflexivity. Qed.

(* the snapshot / roll-back wrapper of _MetaPyTree.__instancecheck__, AS REGENERATED FROM THE SOURCE on every run
   (gen/StorageSrc.v, interpreted by model/SL.v): whatever the tree walk cls._check does to the store (`ext` is an arbitrary
   function), a rejected tree and ANY exception leave the frame the check started from on top -- a rejected tree binds nothing *)
From JT Require Import model.SL gen.StorageSrc proofs.SLFacts.
Theorem C08_pytree_rollback_wrapper_as_in_source : forall ext cls obj s,
  wf_top s ->
  exists args,
    let '(r1, s1) := ext "_check" args s in
    exists r' s', run_ext ext rollback_src "pytree_tail" [cls; obj] s = Some (r', s') /\
      match r1 with
      | SRExn x => r' = SRExn x /\ abs_store s' = set_top (abs_store s1) (top_frame (abs_store s))
      | SRVal v => match pytree_ok v with
                   | Some true => r' = SRVal v /\ s' = s1
                   | Some false => r' = SRVal v /\ abs_store s' = set_top (abs_store s1) (top_frame (abs_store s))
                   | None => r' = SRExn XOther
                   end
      end.
Proof. exact (fun ext cls obj s W => rollback_wrappers_as_in_source ext cls obj s false W). Qed.
Print Assumptions C08_pytree_rollback_wrapper_as_in_source.

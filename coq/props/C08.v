(* C08 -- PyTree[L] accepts exactly the trees all of whose leaves match L.
   Model: model/PyTreeCheck.v (leafmatch / pytree_body / flatten_with / leaf_loop). *)
From JT Require Import model.PyTreeCheck proofs.PyTreeFacts.
Open Scope string_scope.

(* a check only ever touches the current (top) context *)
Theorem C08_check_touches_top_context_only : forall st l x s vd s',
  leafmatch st l x s = (vd, s') -> same_below s s'.
Proof. intros st l. exact (leafmatch_frame st l). Qed.
Print Assumptions C08_check_touches_top_context_only.

(* a rejected (or raising) tree binds nothing: neither axes nor structure names -- although leaves
   before the offending one had already bound theirs (C04, PyTree half) *)
Theorem C08_reject_restores : forall st l sopt x s vd s',
  leafmatch st (LPyTree l sopt) x s = (vd, s') -> vd <> Acc -> ps_stack s' = ps_stack s.
Proof. exact pytree_reject_restores. Qed.
Print Assumptions C08_reject_restores.

(* bare PyTree accepts everything; a top-level None is accepted by every PyTree[L, S] *)
Theorem C08_bare_accepts_everything : forall st x s, leafmatch st LPyTreeBare x s = (Acc, s).
Proof. reflexivity. Qed.
Print Assumptions C08_bare_accepts_everything.

Theorem C08_toplevel_none_accepted : forall st l sopt s, pytree_check st l sopt (Node KNone []) s = (Acc, s).
Proof. reflexivity. Qed.
Print Assumptions C08_toplevel_none_accepted.

(* non-vacuity: partial progress exists and is rolled back *)
Example C08_partial_progress_rolled_back :
  let x := Node KTuple [Leaf (PArr (mkvalue true true "float32" [2]%Z)); Leaf (PArr (mkvalue true true "float32" [3]%Z))] in
  let s := mkps [(empty_memo, [])] None false in
  leafmatch [] (LPyTree (LArr (AC None "a")) (Some "T")) x s = (Rej, s) /\
  fst (leafmatch [] (LPyTree (LArr (AC None "b")) (Some "T")) (Node KTuple [Leaf (PArr (mkvalue true true "float32" [2]%Z))]) s) = Acc.
Proof. vm_compute. split; reflexivity. Qed.

(* C11 -- the hook instruments exactly the named packages, only while installed.
   Model: model/HookScope.v.  gen/HookConsts.v carries the test of should_instrument as written in the source. *)
From JT Require Import model.HookScope gen.HookConsts proofs.HookScopeFacts.
Open Scope string_scope.

Theorem C11_source_test_unchanged :
  should_instrument_tests = ["module_name == module or module_name.startswith(module + '.')"].
Proof. reflexivity. Qed.
Print Assumptions C11_source_test_unchanged.

(* equal to one of the names, or beneath one of them as a LIST OF DOTTED COMPONENTS *)
Theorem C11_should_instrument_spec : forall names m,
  should_instrument names m = true <-> exists n, In n names /\ is_list_prefix (comps n) (comps m) = true.
Proof. exact should_instrument_spec. Qed.
Print Assumptions C11_should_instrument_spec.

Theorem C11_first_import_takes_first_live_hook : forall s m,
  aget (loaded s) m = None -> aget (loaded (import_one s m)) m = Some (first_match (meta s) m).
Proof. exact first_import_tag. Qed.
Print Assumptions C11_first_import_takes_first_live_hook.

Theorem C11_first_match_spec : forall hs m,
  (first_match hs m = None /\ forall h, In h hs -> should_instrument (h_names h) m = false) \/
  (exists pre h post, hs = (pre ++ h :: post)%list /\ first_match hs m = Some (h_chk h) /\ should_instrument (h_names h) m = true /\
                      forall h', In h' pre -> should_instrument (h_names h') m = false).
Proof. exact first_match_spec. Qed.
Print Assumptions C11_first_match_spec.

Theorem C11_loaded_module_never_changes : forall ops s x t,
  aget (loaded s) x = Some t -> aget (loaded (hrun ops s)) x = Some t.
Proof. exact loaded_module_is_stable. Qed.
Print Assumptions C11_loaded_module_never_changes.

Theorem C11_no_hook_loads_unmodified : forall s m,
  meta s = [] -> aget (loaded s) m = None -> aget (loaded (import_one s m)) m = Some None.
Proof. exact no_hook_loads_plain. Qed.
Print Assumptions C11_no_hook_loads_unmodified.

(* for every history of install / uninstall / import operations: handles stay unique, and uninstall(id)
   removes exactly the hook with that handle -- all others stay live *)
Theorem C11_after_uninstall : forall ops id,
  let s := hrun ops hs0 in
  forall h, In h (meta (hstep s (Uninstall id))) <-> In h (meta s) /\ h_id h <> id.
Proof. intros ops id s. apply after_uninstall. apply hinv_run. apply hinv0. Qed.
Print Assumptions C11_after_uninstall.

Theorem C11_uninstall_idempotent : forall ops id,
  let s := hrun ops hs0 in meta (hstep (hstep s (Uninstall id)) (Uninstall id)) = meta (hstep s (Uninstall id)).
Proof. intros ops id s. cbn. apply uninstall_idempotent. apply (hinv_run ops hs0 hinv0). Qed.
Print Assumptions C11_uninstall_idempotent.

(* ---------- the other two front ends (model/HookFront.v) ---------- *)
From JT Require Import model.HookFront proofs.HookFrontFacts.

(* `--jaxtyping-packages=v`: the names installed and the checker are exactly the comma-separated, stripped items
   of v, the last one being the checker; none of the names was imported before *)
Theorem C11_pytest_option_items : forall imported v names chk,
  pytest_configure imported v = PInstall names chk ->
  v <> "" /\ (names ++ [chk])%list = pytest_items v /\ forall n, In n names -> ~ In n imported.
Proof. exact pytest_configure_spec. Qed.
Print Assumptions C11_pytest_option_items.

(* written by a user as names and a checker, each optionally padded with whitespace and joined with commas, the
   option is install_import_hook(names, checker) followed by the session's imports -- so the scope theorems
   above apply to it unchanged *)
Theorem C11_pytest_option_is_install : forall preload ps pc imports,
  Forall good_item (ps ++ [pc]) -> join_on ","%char (map pad (ps ++ [pc])) <> "" ->
  (forall n, In n (map core ps) -> ~ In n (akeys (loaded (hrun (map Import preload) hs0)))) ->
  pytest_run preload (join_on ","%char (map pad (ps ++ [pc]))) imports =
  Some (hrun (Install (map core ps) (Some (core pc)) :: map Import imports) (hrun (map Import preload) hs0)).
Proof. exact pytest_option_is_install. Qed.
Print Assumptions C11_pytest_option_is_install.

(* a name that is already imported makes the configuration fail, naming exactly those *)
Theorem C11_pytest_already_imported : forall imported v bad,
  pytest_configure imported v = PAlready bad ->
  bad <> [] /\ forall n, In n bad <-> In n (removelast (pytest_items v)) /\ In n imported.
Proof. exact pytest_already_imported_spec. Qed.
Print Assumptions C11_pytest_already_imported.

Example C11_pytest_option_nonvacuous :
  Forall good_item [("", "foo", " "); (" ", "bar.baz", ""); ("", "typeguard.typechecked", "")] /\
  show_pytest ["zed"] "foo , bar.baz,typeguard.typechecked" ["foo.a"; "foobar"; "bar.baz.q"; "bar"] =
  "zed=plain,foo=hooked:typeguard.typechecked,foo.a=hooked:typeguard.typechecked,foobar=plain,bar=plain,bar.baz=hooked:typeguard.typechecked,bar.baz.q=hooked:typeguard.typechecked" /\
  show_pytest ["foo.a"] "foo,x.y" [] = "already-imported".
Proof. split; [repeat constructor | split; vm_compute; reflexivity]. Qed.

(* str.strip as modelled removes whitespace only, and all of it at both ends *)
Theorem C11_strip_only_removes_whitespace : forall s, exists w1 w2,
  all_ws w1 = true /\ all_ws w2 = true /\ s = w1 ++ pystrip s ++ w2.
Proof. exact pystrip_only_removes_whitespace. Qed.
Print Assumptions C11_strip_only_removes_whitespace.

(* the IPython magic: for every history of magics, other extensions' transformers and cells, every cell is
   instrumented by exactly the checker of the latest magic before it (by none before the first magic), and at
   most one jaxtyping transformer is ever active; other transformers are kept, in order *)
Theorem C11_magic_cells : forall ops,
  cells (irun ops is0) = spec_cells ops None /\
  cell_checkers (xfs (irun ops is0)) = opt_list (latest_magic ops None).
Proof. intros ops. exact (magic_run ops is0 None eq_refl). Qed.
Print Assumptions C11_magic_cells.

Theorem C11_magic_keeps_other_transformers : forall ops,
  nonjax (xfs (irun ops is0)) = others_added ops.
Proof. intros ops. exact (magic_keeps_others ops is0). Qed.
Print Assumptions C11_magic_keeps_other_transformers.

(* ---------- the name test REGENERATED FROM THE SOURCE ----------
   translator/tr_pyl.py turns the AST of _JaxtypingFinder.should_instrument into a term of the deep embedding model/PyL.v
   (gen/CheckDimsSrc.v: should_instrument_src); interpreting it computes model/HookScope.v's should_instrument for every
   list of hook names and every module name -- so C11_should_instrument_spec above (equal to a name, or beneath one as a
   list of dotted components) is a theorem about what the source says now *)
From JT Require Import model.PyL gen.ShouldInstrumentSrc proofs.PyLHookFacts.
Theorem C11_should_instrument_source_refines_model : forall lbl st call names m env,
  env "self" = Some (VFinder names) -> env "module_name" = Some (VS m) ->
  exists env2, run_body_with call lbl st should_instrument_src env = OReturn (VB (should_instrument names m)) env2.
Proof. exact should_instrument_src_refines_model. Qed.
Print Assumptions C11_should_instrument_source_refines_model.

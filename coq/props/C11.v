(* C11 -- the hook instruments exactly the named packages, only while installed.
   Model: model/HookScope.v.  gen/HookConsts.v carries the test of should_instrument as written in the source. *)
From JT Require Import model.HookScope gen.HookConsts proofs.HookScopeFacts.
Open Scope string_scope.

Theorem C11_source_test_unchanged :
  should_instrument_tests = ["module_name == module or module_name.startswith(module + '.')"].
Proof. reflexivity. Qed.
Print Assumptions C11_source_test_unchanged.

(* equal to one of the names, or beneath one of them as a LIST OF DOTTED COMPONENTS *)
Theorem C11_should_instrument_spec : forall names m,
  should_instrument names m = true <-> exists n, In n names /\ is_list_prefix (comps n) (comps m) = true.
Proof. exact should_instrument_spec. Qed.
Print Assumptions C11_should_instrument_spec.

Theorem C11_first_import_takes_first_live_hook : forall s m,
  aget (loaded s) m = None -> aget (loaded (import_one s m)) m = Some (first_match (meta s) m).
Proof. exact first_import_tag. Qed.
Print Assumptions C11_first_import_takes_first_live_hook.

Theorem C11_first_match_spec : forall hs m,
  (first_match hs m = None /\ forall h, In h hs -> should_instrument (h_names h) m = false) \/
  (exists pre h post, hs = (pre ++ h :: post)%list /\ first_match hs m = Some (h_chk h) /\ should_instrument (h_names h) m = true /\
                      forall h', In h' pre -> should_instrument (h_names h') m = false).
Proof. exact first_match_spec. Qed.
Print Assumptions C11_first_match_spec.

Theorem C11_loaded_module_never_changes : forall ops s x t,
  aget (loaded s) x = Some t -> aget (loaded (hrun ops s)) x = Some t.
Proof. exact loaded_module_is_stable. Qed.
Print Assumptions C11_loaded_module_never_changes.

Theorem C11_no_hook_loads_unmodified : forall s m,
  meta s = [] -> aget (loaded s) m = None -> aget (loaded (import_one s m)) m = Some None.
Proof. exact no_hook_loads_plain. Qed.
Print Assumptions C11_no_hook_loads_unmodified.

(* for every history of install / uninstall / import operations: handles stay unique, and uninstall(id)
   removes exactly the hook with that handle -- all others stay live *)
Theorem C11_after_uninstall : forall ops id,
  let s := hrun ops hs0 in
  forall h, In h (meta (hstep s (Uninstall id))) <-> In h (meta s) /\ h_id h <> id.
Proof. intros ops id s. apply after_uninstall. apply hinv_run. apply hinv0. Qed.
Print Assumptions C11_after_uninstall.

Theorem C11_uninstall_idempotent : forall ops id,
  let s := hrun ops hs0 in meta (hstep (hstep s (Uninstall id)) (Uninstall id)) = meta (hstep s (Uninstall id)).
Proof. intros ops id s. cbn. apply uninstall_idempotent. apply (hinv_run ops hs0 hinv0). Qed.
Print Assumptions C11_uninstall_idempotent.

(* C09 -- PyTree structure names bind, compose, prefix and suffix exactly as documented.
   tdef = treedefs (rose trees with node kinds); `composed [S1;...;Sn]` = S1 with every leaf
   replaced by (S2 with every leaf replaced by ...); `structure_step` is lines 126-180 of
   jaxtyping/_pytree_type.py on the treedef of the candidate. *)
From JT Require Import model.PyTreeCheck proofs.TreeFacts proofs.StructFacts.
Open Scope string_scope.

Theorem C09_bind_on_first_use : forall n x tm,
  aget tm n = None -> structure_step (SName n) x tm = StOk (aset tm n x).
Proof. exact bind_on_first_use. Qed.
Print Assumptions C09_bind_on_first_use.

Theorem C09_later_use_accepts_iff_identical : forall n x tm prev,
  aget tm n = Some prev -> (structure_step (SName n) x tm = StOk tm <-> x = prev).
Proof. exact later_use_accepts_iff_identical. Qed.
Print Assumptions C09_later_use_accepts_iff_identical.

Theorem C09_treedef_equality_is_identity : forall a b : tdef, tdef_eqb a b = true <-> a = b.
Proof. exact tdef_eqb_eq. Qed.
Print Assumptions C09_treedef_equality_is_identity.

(* the fold of the implementation composes left to right, and composition is associative *)
Theorem C09_compose_impl : forall pieces, compose_impl pieces = fold_right compose star pieces.
Proof. exact compose_impl_spec. Qed.
Print Assumptions C09_compose_impl.

Theorem C09_compose_assoc : forall a b c, compose (compose a b) c = compose a (compose b c).
Proof. exact compose_assoc. Qed.
Print Assumptions C09_compose_assoc.

Theorem C09_composite_exact : forall names ds x tm,
  lookup_all tm names = Some ds ->
  (structure_step (SComp false false names) x tm = StOk tm <-> x = composed ds) /\
  (structure_step (SComp false false names) x tm = StOk tm \/ structure_step (SComp false false names) x tm = StNo).
Proof. exact composite_exact. Qed.
Print Assumptions C09_composite_exact.

(* `T ...`: exactly the trees obtained from T by replacing every leaf by some tree *)
Theorem C09_prefix_exact : forall names ds x tm,
  lookup_all tm names = Some ds ->
  (structure_step (SComp true false names) x tm = StOk tm <-> Prefix (composed ds) x) /\
  (structure_step (SComp true false names) x tm = StOk tm \/ structure_step (SComp true false names) x tm = StNo).
Proof. exact prefix_exact. Qed.
Print Assumptions C09_prefix_exact.

(* `... T`: exactly the trees U o T -- the greedy top-down cut of the code is sound and complete,
   including leaf-less T and candidates containing None / empty containers *)
Theorem C09_suffix_exact : forall names ds x tm,
  lookup_all tm names = Some ds ->
  (structure_step (SComp false true names) x tm = StOk tm <-> exists u, x = compose u (composed ds)) /\
  (structure_step (SComp false true names) x tm = StOk tm \/ structure_step (SComp false true names) x tm = StNo).
Proof. exact suffix_form_exact. Qed.
Print Assumptions C09_suffix_exact.

Theorem C09_greedy_cut_exact : forall t x, suffix_check t x = true <-> exists u, x = compose u t.
Proof. exact suffix_exact. Qed.
Print Assumptions C09_greedy_cut_exact.

Theorem C09_unbound_name_raises : forall pre suf names x tm,
  lookup_all tm names = None -> structure_step (SComp pre suf names) x tm = StRaise.
Proof. exact unbound_name_raises. Qed.
Print Assumptions C09_unbound_name_raises.

Theorem C09_unbound_iff_some_name_unseen : forall tm names,
  lookup_all tm names = None <-> exists n, In n names /\ aget tm n = None.
Proof. exact lookup_all_none_iff. Qed.
Print Assumptions C09_unbound_iff_some_name_unseen.

(* structure strings: accepted at build time iff identifiers optionally preceded or followed (not both) by `...` *)
Theorem C09_validate_spec : forall s, validate_structure s = true <-> struct_ok (split_ws s).
Proof. exact validate_structure_spec. Qed.
Print Assumptions C09_validate_spec.

From JT Require Import model.Check.
Theorem C01_placeholder : True. Proof. exact I. Qed.
Print Assumptions C01_placeholder.

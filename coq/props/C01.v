(* C01 -- an array check decides shape exactly as the dim-string language says.
   Statements only; proofs in proofs/BroadcastFacts.v, proofs/CheckFacts.v.
   Reading guide: `gamma m e` = assignment e (sizes for names, shapes for *names) is
   consistent with the context's bindings m; `use_sat ... e d sh` = the documented
   meaning of dims d for shape sh under e; the theorems say that an accepted check
   narrows the consistent assignments by exactly that meaning and a rejected check
   means no consistent assignment has it -- for every rank, size and prior context. *)
From JT Require Import model.Check proofs.BroadcastFacts proofs.DimLangFacts proofs.CheckFacts.
Open Scope string_scope.

Theorem C01_broadcast_is_lub : forall a b s : list Z,
  (ble a s /\ ble b s) <-> exists l, bcast a b = Some l /\ ble l s.
Proof. exact bcast_lub. Qed.
Print Assumptions C01_broadcast_is_lub.

Theorem C01_slices_partition : forall (sh : list Z) (i k : nat),
  (i + k <= length sh)%nat ->
  sh = (firstn i sh ++ firstn (length sh - k - i) (skipn i sh) ++ skipn (length sh - k) sh)%list /\
  length (firstn i sh) = i /\
  length (firstn (length sh - k - i) (skipn i sh)) = (length sh - k - i)%nat /\
  length (skipn (length sh - k) sh) = k.
Proof. exact slices_partition. Qed.
Print Assumptions C01_slices_partition.

Theorem C01_axes_accept : forall lbl st args dl sh sm sm',
  length dl = length sh ->
  check_dims lbl st args dl sh sm = (COk, sm') ->
  forall r, agrees sm' r <-> agrees sm r /\ Forall2 (dim_sat lbl st args r) dl sh.
Proof. exact check_dims_ok. Qed.
Print Assumptions C01_axes_accept.

Theorem C01_axes_reject : forall lbl st args dl sh sm sm',
  check_dims lbl st args dl sh sm = (CFail, sm') ->
  forall r, agrees sm r -> ~ Forall2 (dim_sat lbl st args r) dl sh.
Proof. exact check_dims_fail. Qed.
Print Assumptions C01_axes_reject.

Theorem C01_variadic_accept : forall name bc mid vm vm',
  check_variadic name bc mid vm = (COk, vm') ->
  forall rv, agreesv vm' rv <-> agreesv vm rv /\ var_sat rv name bc mid.
Proof. exact check_variadic_ok. Qed.
Print Assumptions C01_variadic_accept.

Theorem C01_variadic_reject : forall name bc mid vm vm',
  check_variadic name bc mid vm = (CFail, vm') ->
  forall rv, agreesv vm rv -> ~ var_sat rv name bc mid.
Proof. exact check_variadic_fail. Qed.
Print Assumptions C01_variadic_reject.

Theorem C01_shape_accept : forall lbl st d sh m m',
  wf_dims d ->
  check_shape lbl st d sh m = (COk, m') ->
  margs m' = margs m /\
  forall e, gamma m' e <-> gamma m e /\ use_sat lbl st (margs m) e d sh.
Proof. exact check_shape_ok. Qed.
Print Assumptions C01_shape_accept.

Theorem C01_shape_reject : forall lbl st d sh m m',
  wf_dims d ->
  check_shape lbl st d sh m = (CFail, m') ->
  forall e, gamma m e -> ~ use_sat lbl st (margs m) e d sh.
Proof. exact check_shape_fail. Qed.
Print Assumptions C01_shape_reject.

(* the whole isinstance: array type (or, for Any, the two attributes), dtype, shape *)
Theorem C01_isinstance_true : forall lbl st a v m s s',
  wf_annot a ->
  instancecheck false lbl st a v (m :: s) = (Acc, s') ->
  exists m', s' = m' :: s /\ margs m' = margs m /\
             forall e, gamma m' e <-> gamma m e /\ full_sat lbl st (margs m) e (a, v).
Proof. exact instancecheck_acc. Qed.
Print Assumptions C01_isinstance_true.

Theorem C01_isinstance_false : forall lbl st a v m s s',
  wf_annot a ->
  instancecheck false lbl st a v (m :: s) = (Rej, s') ->
  s' = m :: s /\ forall e, gamma m e -> ~ full_sat lbl st (margs m) e (a, v).
Proof. exact instancecheck_rej. Qed.
Print Assumptions C01_isinstance_false.

(* the side condition wf_dims is met by everything the parser produces *)
Theorem C01_parsed_dims_wellformed : forall s d, parse_dims s = Ok d -> wf_dims d.
Proof. intros s d H i Hi. exact (parse_dims_ivar_in_range s d H i Hi). Qed.
Print Assumptions C01_parsed_dims_wellformed.

(* a symbolic axis whose value was computed keeps that value under every consistent assignment *)
Theorem C01_symbolic_stable : forall sm r args e v,
  agrees sm r -> eval_sym sm args e = EVal v -> eval_symr r args e = EVal v.
Proof. exact eval_sym_stable. Qed.
Print Assumptions C01_symbolic_stable.

(* non-vacuity: "a *#b 3 a+1" on a rank-5 array after a history that bound b *)
Example C01_nonvacuous :
  match parse_dims "a *#b 3 a+1" with
  | Ok d =>
      let st := [("a+1", EBin OAdd (EVar "a") (EInt 1))] in
      let m := mkmemo [] [("b", (false, [2; 5]%Z))] [] in
      wf_dims d /\
      fst (check_shape None st d [4; 1; 5; 3; 5]%Z m) = COk /\
      fst (check_shape None st d [4; 3; 5; 3; 5]%Z m) = CFail /\
      fst (check_shape None st d [4; 3; 4]%Z m) = CFail
  | Err _ => False
  end.
Proof. cbn. split; [intros i Hi; inversion Hi; cbn; auto with arith | repeat split]. Qed.

(* ---------- "raises AnnotationError instead of answering" ---------- *)
From JT Require Import proofs.SymFacts.

(* at one axis: AnnotationError iff evaluation reaches the axis (it is not excused by `#` and size 1) and its expression
   mentions an unbound name -- or a `?` axis is used outside a structured PyTree *)
Theorem C01_annotation_error_iff : forall lbl st args d z sm,
  dim_step lbl st args d z sm = SRaise AnnotationErr <->
  match d with
  | DSym src bc => bc && (z =? 1)%Z = false /\ exists e, aget st src = Some e /\ eval_sym sm args e = ENameErr
  | DNamed n bc tp => bc && (z =? 1)%Z = false /\ dkey lbl n tp = None
  | _ => False
  end.
Proof. exact dim_step_annotation_error. Qed.
Print Assumptions C01_annotation_error_iff.

Theorem C01_name_error_names_an_unbound_name : forall sm args e, eval_sym sm args e = ENameErr ->
  (exists n, In n (vars e) /\ aget sm n = None) \/ (exists n, In n (argrefs e) /\ aget args n = None).
Proof. exact nameerr_has_unbound_name. Qed.
Print Assumptions C01_name_error_names_an_unbound_name.

Theorem C01_bound_names_never_raise_name_error : forall sm args e,
  (forall n, In n (vars e) -> aget sm n <> None) -> (forall n, In n (argrefs e) -> aget args n <> None) ->
  eval_sym sm args e <> ENameErr.
Proof. exact bound_names_no_nameerr. Qed.
Print Assumptions C01_bound_names_never_raise_name_error.

(* ---------- the decision procedure of one axis-by-axis comparison, REGENERATED FROM THE SOURCE ----------
   translator/tr_pyl.py turns the AST of jaxtyping/_array_types.py:_check_dims into a term of the deep embedding
   model/PyL.v on every run (gen/CheckDimsSrc.v); interpreting that term computes model/Check.v's check_dims -- same
   verdict, same exception, same single-axis bindings, partial progress included -- for every list of (non-variadic) dims,
   every shape of the same length, every state of the bindings and every '?' label.  So the theorems above about check_dims
   are theorems about what the source says now (Python's eval of a symbolic axis is the model's eval_sym; messages are
   abstracted to empty / non-empty). *)
From JT Require Import model.PyL gen.CheckDimsSrc proofs.PyLFacts.
Theorem C01_check_dims_source_refines_model : forall lbl st args dl sh sm env,
  good args env sm -> env "cls_dims" = Some (VDims dl) -> env "obj_shape" = Some (VZs sh) ->
  length dl = length sh -> forallb (fun d => negb (is_variadic d)) dl = true ->
  match check_dims lbl st args dl sh sm with
  | (COk, sm') => exists env2, run_body lbl st check_dims_src env = OReturn (VS "") env2 /\ good args env2 sm'
  | (CFail, sm') => exists env2, run_body lbl st check_dims_src env = OReturn (VS "msg") env2 /\ good args env2 sm'
  | (CRaise e, sm') => exists env2, run_body lbl st check_dims_src env = ORaise e env2 /\ good args env2 sm'
  end.
Proof. exact (fun lbl st args => check_dims_src_refines_model lbl st args no_calls). Qed.
Print Assumptions C01_check_dims_source_refines_model.

Example C01_check_dims_source_nonvacuous :
  run_src check_dims_src None [("a+1", EBin OAdd (EVar "a") (EInt 1))] "a #b 3 a+1" [2; 1; 3; 3]%Z [("b", 7%Z)] [] = "ret: {b=7,a=2}" /\
  run_src check_dims_src None [] "a b a" [2; 3; 4]%Z [] [] = "ret:msg {a=2,b=3}" /\
  run_src check_dims_src (Some "(Leaf 0 in structure T) ") [] "?a" [5]%Z [] [] = "ret: {(Leaf 0 in structure T) a=5}" /\
  run_src check_dims_src None [] "?a" [5]%Z [] [] = "raise:AnnotationError {}".
Proof. vm_compute. repeat split. Qed.

(* ... and the whole shape decision: the term generated from _MetaAbstractArray._check_shape (prefix axes, suffix axes, the
   variadic axis with its broadcasting rules; Python slices with negative bounds; the calls of _check_dims; the memo
   dictionaries passed by reference) computes model/Check.v's check_shape, for every dim string the parser accepts, every
   shape and every state of the bindings *)
From JT Require Import model.PyLRun proofs.PyLShapeFacts proofs.StrictWfFacts.
Theorem C01_check_shape_source_refines_model : forall lbl st s d sh m env,
  parse_dims s = Ok d -> goodS env d sh m ->
  exists env2,
    run_body_with (calls lbl st) lbl st check_shape_src env =
      match fst (check_shape lbl st d sh m) with
      | COk => OReturn (VS "") env2 | CFail => OReturn (VS "msg") env2 | CRaise e => ORaise e env2
      end /\ memo_in env2 (snd (check_shape lbl st d sh m)).
Proof. exact (fun lbl st s d sh m env Hp Hg => check_shape_src_refines_model lbl st d sh m env Hg (parse_dims_strict_wf s d Hp)). Qed.
Print Assumptions C01_check_shape_source_refines_model.

(* what the parser guarantees and the theorem above needs: at most one multi-axis specifier, at index_variadic *)
Theorem C01_parsed_dims_have_one_variadic : forall s d, parse_dims s = Ok d -> strict_wf d.
Proof. exact parse_dims_strict_wf. Qed.
Print Assumptions C01_parsed_dims_have_one_variadic.

Example C01_check_shape_source_nonvacuous :
  run_shape_src None [] "a *#v b" [2; 1; 3; 5]%Z (mkmemo [("b", 5%Z)] [("v", (true, [4; 3]%Z))] []) = "ret: S{b=5,a=2} V{v=T(4,3)}" /\
  run_shape_src None [] "a *v b" [2; 1; 3; 5]%Z (mkmemo [("b", 5%Z)] [("v", (true, [4; 3]%Z))] []) = "ret:msg S{b=5,a=2} V{v=T(4,3)}" /\
  run_shape_src None [] "a ... b" [2]%Z empty_memo = "ret:msg S{} V{}" /\
  run_shape_src None [] "*v a" [7; 8; 2]%Z empty_memo = "ret: S{a=2} V{v=F(7,8)}".
Proof. vm_compute. repeat split. Qed.

(* C20 -- annotations survive pickling and copying with their meaning intact.
   Model: model/Annot.v -- `built` is what an annotation class carries; reduce_rebuild is the copyreg reducer
   followed by the rebuild function (fix commit 60b840a in /repo).  copy/deepcopy return the class itself and
   cloudpickle copies the class dictionary by value; since fix commit 67a4bcc the identity-compared markers
   survive that copy, so both are the identity on `built` (validated by the correspondence, not proved:
   pickle / cloudpickle machinery is third-party). *)
From JT Require Import model.Annot proofs.AnnotFacts proofs.AnnotAcceptFacts.
Open Scope string_scope.

(* annotations built directly ... *)
Theorem C20_flat_is_wellformed : forall d A s b,
  (A = TAny \/ exists id, A = TClass id) -> make_array d A s = MBuilt b -> wf_built b.
Proof. exact make_flat_wf. Qed.
Print Assumptions C20_flat_is_wellformed.

(* ... or by nesting one annotation in another, to any depth, keep "dim_str parses to dims" *)
Theorem C20_nested_is_wellformed : forall d2 b1 s2 b,
  wf_built b1 -> make_array d2 (TNested b1) s2 = MBuilt b -> wf_built b.
Proof. exact make_nested_wf. Qed.
Print Assumptions C20_nested_is_wellformed.

(* and every such annotation comes back with the same array type, dims and effective dtypes *)
Theorem C20_reducer_roundtrip : forall b, wf_built b ->
  exists b', reduce_rebuild b = MBuilt b' /\ b_dims b' = b_dims b /\ b_dtypes b' = b_dtypes b /\ b_any b' = b_any b /\
             (b_any b = false -> b_cls b' = b_cls b).
Proof. exact reducer_roundtrip. Qed.
Print Assumptions C20_reducer_roundtrip.

(* the reducer as it was before the fix widened nested annotations: Shaped[Float[A, "a"], "b"] *)
Theorem C20_old_reducer_refuted :
  exists b b', wf_built b /\ reduce_rebuild_old b = MBuilt b' /\ b_dtypes b' <> b_dtypes b.
Proof. exact old_reducer_refuted. Qed.
Print Assumptions C20_old_reducer_refuted.

(* "accepting exactly the same values": for every value, symbol table and context, a check against the annotation that comes back
   gives the same verdict AND leaves the same bindings as a check against the original; the result is again well-formed *)
Theorem C20_rebuilt_accepts_exactly_the_same : forall b, wf_built b ->
  exists b', reduce_rebuild b = MBuilt b' /\ wf_built b' /\
             (forall st cls v s, check_built st b' cls v s = check_built st b cls v s) /\
             (forall st x s, accepts_one st (MBuilt b') x s = accepts_one st (MBuilt b) x s).
Proof. exact reducer_accepts_same. Qed.
Print Assumptions C20_rebuilt_accepts_exactly_the_same.

(* ... so it can be sent on any number of times (process to process, pickle of an unpickled annotation) *)
Theorem C20_sent_any_number_of_times : forall n b, wf_built b ->
  exists b', resend n b = MBuilt b' /\ wf_built b' /\
             (forall st cls v s, check_built st b' cls v s = check_built st b cls v s) /\
             (forall st x s, accepts_one st (MBuilt b') x s = accepts_one st (MBuilt b) x s).
Proof. exact resend_accepts_same. Qed.
Print Assumptions C20_sent_any_number_of_times.

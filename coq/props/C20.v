(* C20 -- annotations survive pickling and copying with their meaning intact.
   Model: model/Annot.v -- `built` is what an annotation class carries; reduce_rebuild is the copyreg reducer
   followed by the rebuild function (fix commit 60b840a in /repo).  copy/deepcopy return the class itself and
   cloudpickle copies the class dictionary by value; since fix commit 67a4bcc the identity-compared markers
   survive that copy, so both are the identity on `built` (validated by the correspondence, not proved:
   pickle / cloudpickle machinery is third-party). *)
From JT Require Import model.Annot proofs.AnnotFacts.
Open Scope string_scope.

(* annotations built directly ... *)
Theorem C20_flat_is_wellformed : forall d A s b,
  (A = TAny \/ exists id, A = TClass id) -> make_array d A s = MBuilt b -> wf_built b.
Proof. exact make_flat_wf. Qed.
Print Assumptions C20_flat_is_wellformed.

(* ... or by nesting one annotation in another, to any depth, keep "dim_str parses to dims" *)
Theorem C20_nested_is_wellformed : forall d2 b1 s2 b,
  wf_built b1 -> make_array d2 (TNested b1) s2 = MBuilt b -> wf_built b.
Proof. exact make_nested_wf. Qed.
Print Assumptions C20_nested_is_wellformed.

(* and every such annotation comes back with the same array type, dims and effective dtypes *)
Theorem C20_reducer_roundtrip : forall b, wf_built b ->
  exists b', reduce_rebuild b = MBuilt b' /\ b_dims b' = b_dims b /\ b_dtypes b' = b_dtypes b /\ b_any b' = b_any b /\
             (b_any b = false -> b_cls b' = b_cls b).
Proof. exact reducer_roundtrip. Qed.
Print Assumptions C20_reducer_roundtrip.

(* the reducer as it was before the fix widened nested annotations: Shaped[Float[A, "a"], "b"] *)
Theorem C20_old_reducer_refuted :
  exists b b', wf_built b /\ reduce_rebuild_old b = MBuilt b' /\ b_dtypes b' <> b_dtypes b.
Proof. exact old_reducer_refuted. Qed.
Print Assumptions C20_old_reducer_refuted.

(* C07 -- on well-typed calls a decorated function is indistinguishable from the original.
   Proved here: the name generation of the synthesised checking functions (model/Synth.v) can never clash,
   whatever the parameters and the function are called; the event trace of a call (model/Config.v:
   wrapper_trace) runs the body exactly once on a well-typed binding call, not at all on an ill-typed or
   non-binding one.  Object identity, functools.wraps and descriptor plumbing are CPython's: validated by
   the correspondence (harness/c07.py), not proved. *)
From JT Require Import model.Synth model.Config proofs.SynthFacts.
Open Scope string_scope.

Theorem C07_gensym_fresh : forall names p, ~ In (gensym names p) names.
Proof. exact gensym_fresh. Qed.
Print Assumptions C07_gensym_fresh.

Theorem C07_gensym_terminates_within_len_names : forall names p, exists i, gensym names p = cand p i /\ (i <= length names)%nat.
Proof. exact gensym_is_candidate. Qed.
Print Assumptions C07_gensym_terminates_within_len_names.

Theorem C07_scope_injective : forall params n scope,
  NoDup (generated (gen_names scope params n)) /\
  forall g, In g (generated (gen_names scope params n)) -> ~ In g scope /\ ~ In g params.
Proof. exact gen_names_fresh. Qed.
Print Assumptions C07_scope_injective.

Theorem C07_def_name_fresh : forall name params, ~ In (def_name false name params) params.
Proof. exact def_name_fresh. Qed.
Print Assumptions C07_def_name_fresh.

(* the body runs exactly once on a well-typed binding call, never on an ill-typed or non-binding one *)
Definition body_runs (tr : list event) : nat := length (filter (fun e => match e with EBody => true | _ => false end) tr).
Theorem C07_body_once : forall c,
  (binds c = true /\ params_ok c = true -> body_runs (wrapper_trace false false false c) = 1%nat) /\
  (binds c = false \/ params_ok c = false -> body_runs (wrapper_trace false false false c) = 0%nat).
Proof.
  intros [b p h f]; destruct b, p, h, f; cbn; split; intros H; try reflexivity; try (destruct H; discriminate); destruct H as [H|H]; discriminate.
Qed.
Print Assumptions C07_body_once.

(* ---------- the synthesised parameter list ---------- *)
From JT Require Import model.Sig proofs.SigFacts.

(* Python reads the generated `def name(<pieces>)` back as the original signature: same names, kinds and
   has-a-default flags in the same order, for every well-formed signature (all five kinds, any defaults) *)
Theorem C07_signature_roundtrip : forall ps, wf_sig ps -> sig_of_pieces (pieces_of_sig ps) = Some ps.
Proof. exact signature_roundtrip. Qed.
Print Assumptions C07_signature_roundtrip.

(* ---------- the wrapper regenerated from the source (gen/StorageSrc.v: src_wrapped_fn, interpreted by model/SL.v) ---------- *)
From JT Require Import model.SL gen.StorageSrc model.Threads proofs.SLFacts proofs.SLWrapFacts proofs.SLWrapPassFacts.

(* checking on, the call binds: the decorated call hands back exactly the value or exception that wrapped_fn_impl handed back, and
   wrapped_fn_impl received the caller's args / kwargs objects (`ext` stands for everything outside the wrapper: ANY behaviour) *)
Theorem C07_wrapper_hands_back_the_impl_result :
  forall (ext : extern_t) (a k c f p h i : sval) (s s1 s2 : tls) (hv : sval) (s3 s4 : tls) (b : sval) (s5 : tls) (v : sval) (s6 : tls) (d : dict) (s7 : tls) (r : slres) (s8 : tls),
  ext "config.jaxtyping_disable" [] s = (SRVal (SVBool false), s1) ->
  ext "getattr" [f; SVStr "__no_type_check__"; SVBool false] s1 = (SRVal (SVBool false), s2) ->
  ext "wrapped_fn_holder[0]" [] s2 = (SRVal hv, s3) ->
  ext "getattr" [hv; SVStr "__no_type_check__"; SVBool false] s3 = (SRVal (SVBool false), s4) ->
  ext "param_signature.bind" [a; k] s4 = (SRVal b, s5) ->
  ext "bound.apply_defaults" [] s5 = (SRVal v, s6) ->
  ext "bound.arguments" [] s6 = (SRVal (SVDict d), s7) ->
  ext "wrapped_fn_impl" [a; k; b; new_frame d] (with_stack s7 (Some (stack_or_nil s7 ++ [new_frame d])%list)) = (r, s8) ->
  abs_stack s8 <> [] -> exists s' : tls, run_ext ext wrapped_src "wrapped_fn" [a; k; c; f; p; h; i] s = Some (r, s').
Proof. exact wrapped_fn_hands_back_the_impl_result. Qed.
Print Assumptions C07_wrapper_hands_back_the_impl_result.

(* a call that does not bind to the signature raises what Signature.bind raised (the ordinary TypeError); nothing else ran *)
Theorem C07_nonbinding_call_raises_the_bind_error :
  forall (ext : extern_t) (a k c f p h i : sval) (s s1 s2 : tls) (hv : sval) (s3 s4 : tls) (x : sexn) (s5 : tls),
  ext "config.jaxtyping_disable" [] s = (SRVal (SVBool false), s1) ->
  ext "getattr" [f; SVStr "__no_type_check__"; SVBool false] s1 = (SRVal (SVBool false), s2) ->
  ext "wrapped_fn_holder[0]" [] s2 = (SRVal hv, s3) ->
  ext "getattr" [hv; SVStr "__no_type_check__"; SVBool false] s3 = (SRVal (SVBool false), s4) ->
  ext "param_signature.bind" [a; k] s4 = (SRExn x, s5) -> run_ext ext wrapped_src "wrapped_fn" [a; k; c; f; p; h; i] s = Some (SRExn x, s5).
Proof. exact wrapped_fn_nonbinding_call_raises_the_bind_error. Qed.
Print Assumptions C07_nonbinding_call_raises_the_bind_error.

(* checking off in any of the three ways: the decorated call IS the plain call of fn on the caller's objects *)
Theorem C07_wrapper_off_is_the_plain_call :
  forall (ext : extern_t) (a k c f p h i : sval) (s : tls),
  (forall s1 : tls, ext "config.jaxtyping_disable" [] s = (SRVal (SVBool true), s1) -> run_ext ext wrapped_src "wrapped_fn" [a; k; c; f; p; h; i] s = Some (ext "fn" [a; k] s1)) /\
  (forall s1 s2 : tls,
   ext "config.jaxtyping_disable" [] s = (SRVal (SVBool false), s1) ->
   ext "getattr" [f; SVStr "__no_type_check__"; SVBool false] s1 = (SRVal (SVBool true), s2) -> run_ext ext wrapped_src "wrapped_fn" [a; k; c; f; p; h; i] s = Some (ext "fn" [a; k] s2)) /\
  (forall (s1 s2 : tls) (hv : sval) (s3 s4 : tls),
   ext "config.jaxtyping_disable" [] s = (SRVal (SVBool false), s1) ->
   ext "getattr" [f; SVStr "__no_type_check__"; SVBool false] s1 = (SRVal (SVBool false), s2) ->
   ext "wrapped_fn_holder[0]" [] s2 = (SRVal hv, s3) ->
   ext "getattr" [hv; SVStr "__no_type_check__"; SVBool false] s3 = (SRVal (SVBool true), s4) -> run_ext ext wrapped_src "wrapped_fn" [a; k; c; f; p; h; i] s = Some (ext "fn" [a; k] s4)).
Proof. exact wrapped_fn_off_is_the_plain_call. Qed.
Print Assumptions C07_wrapper_off_is_the_plain_call.

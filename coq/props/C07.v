From JT Require Import model.Check.
Theorem C07_placeholder : True. Proof. exact I. Qed.
Print Assumptions C07_placeholder.

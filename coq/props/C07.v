(* C07 -- on well-typed calls a decorated function is indistinguishable from the original.
   Proved here: the name generation of the synthesised checking functions (model/Synth.v) can never clash,
   whatever the parameters and the function are called; the event trace of a call (model/Config.v:
   wrapper_trace) runs the body exactly once on a well-typed binding call, not at all on an ill-typed or
   non-binding one.  Object identity, functools.wraps and descriptor plumbing are CPython's: validated by
   the correspondence (harness/c07.py), not proved. *)
From JT Require Import model.Synth model.Config proofs.SynthFacts.
Open Scope string_scope.

Theorem C07_gensym_fresh : forall names p, ~ In (gensym names p) names.
Proof. exact gensym_fresh. Qed.
Print Assumptions C07_gensym_fresh.

Theorem C07_gensym_terminates_within_len_names : forall names p, exists i, gensym names p = cand p i /\ (i <= length names)%nat.
Proof. exact gensym_is_candidate. Qed.
Print Assumptions C07_gensym_terminates_within_len_names.

Theorem C07_scope_injective : forall params n scope,
  NoDup (generated (gen_names scope params n)) /\
  forall g, In g (generated (gen_names scope params n)) -> ~ In g scope /\ ~ In g params.
Proof. exact gen_names_fresh. Qed.
Print Assumptions C07_scope_injective.

Theorem C07_def_name_fresh : forall name params, ~ In (def_name false name params) params.
Proof. exact def_name_fresh. Qed.
Print Assumptions C07_def_name_fresh.

(* the body runs exactly once on a well-typed binding call, never on an ill-typed or non-binding one *)
Definition body_runs (tr : list event) : nat := length (filter (fun e => match e with EBody => true | _ => false end) tr).
Theorem C07_body_once : forall c,
  (binds c = true /\ params_ok c = true -> body_runs (wrapper_trace false false false c) = 1%nat) /\
  (binds c = false \/ params_ok c = false -> body_runs (wrapper_trace false false false c) = 0%nat).
Proof.
  intros [b p h f]; destruct b, p, h, f; cbn; split; intros H; try reflexivity; try (destruct H; discriminate); destruct H as [H|H]; discriminate.
Qed.
Print Assumptions C07_body_once.

(* ---------- the synthesised parameter list ---------- *)
From JT Require Import model.Sig proofs.SigFacts.

(* Python reads the generated `def name(<pieces>)` back as the original signature: same names, kinds and
   has-a-default flags in the same order, for every well-formed signature (all five kinds, any defaults) *)
Theorem C07_signature_roundtrip : forall ps, wf_sig ps -> sig_of_pieces (pieces_of_sig ps) = Some ps.
Proof. exact signature_roundtrip. Qed.
Print Assumptions C07_signature_roundtrip.

(* CheckFacts.v -- the array check model decides the declarative semantics of the
   dim-string language (C01), the greedy bind-or-compare walk keeps
       gamma(memo') = gamma(memo) /\ Sat(use)
   (C02), a rejected check restores and an accepted check is idempotent (C04). *)
From JT Require Import model.Check proofs.BroadcastFacts.
From Coq Require Import Lia Permutation.
Open Scope string_scope.

(* ------------------------------------------------------------------ association lists *)
Lemma aget_aset {V} (m : alist V) k v k' :
  aget (aset m k v) k' = if String.eqb k' k then Some v else aget m k'.
Proof.
  induction m as [|[k0 v0] m IH]; cbn.
  - destruct (String.eqb k' k); reflexivity.
  - destruct (String.eqb k k0) eqn:E; cbn.
    + apply String.eqb_eq in E; subst k0. destruct (String.eqb k' k); reflexivity.
    + destruct (String.eqb k' k0) eqn:E'.
      * apply String.eqb_eq in E'; subst k0.
        rewrite String.eqb_sym in E. now rewrite E.
      * apply IH.
Qed.

Lemma aget_aset_same {V} (m : alist V) k v : aget (aset m k v) k = Some v.
Proof. rewrite aget_aset. now rewrite String.eqb_refl. Qed.

Lemma aset_same {V} (m : alist V) k v : aget m k = Some v -> aset m k v = m.
Proof.
  induction m as [|[k0 v0] m IH]; cbn; [discriminate|].
  destruct (String.eqb k k0) eqn:E.
  - intros H; inversion H; subst. apply String.eqb_eq in E; now subst.
  - intros H. now rewrite IH.
Qed.

(* ------------------------------------------------------------------ environments *)
(* an assignment of sizes to axis names and of shapes to `*names` *)
Record env := mkenv { rho : string -> Z; rhov : string -> list Z }.

Definition agrees (sm : alist Z) (r : string -> Z) : Prop :=
  forall k v, aget sm k = Some v -> r k = v.

Definition agreesv (vm : alist (bool * list Z)) (rv : string -> list Z) : Prop :=
  forall n bc s, aget vm n = Some (bc, s) -> if bc then ble s (rv n) else rv n = s.

(* gamma: the assignments consistent with a memo.  `(False, S)` pins the shape,
   `(True, B)` only says that B broadcasts to the (not yet pinned) shape *)
Definition gamma (m : memo) (e : env) : Prop := agrees (single m) (rho e) /\ agreesv (variadic m) (rhov e).

Lemma agrees_aset sm k z r : aget sm k = None -> (agrees (aset sm k z) r <-> agrees sm r /\ r k = z).
Proof.
  intros Hn. unfold agrees. split.
  - intros H. split.
    + intros k' v Hk. apply H. rewrite aget_aset. destruct (String.eqb k' k) eqn:E; [|assumption].
      apply String.eqb_eq in E; subst. congruence.
    + apply H. apply aget_aset_same.
  - intros [H Hk] k' v. rewrite aget_aset. destruct (String.eqb k' k) eqn:E.
    + apply String.eqb_eq in E; subst. intros H'; inversion H'; now subst.
    + apply H.
Qed.

(* every memo has a consistent assignment: gamma is never empty *)
Definition rho_of (sm : alist Z) (k : string) : Z := match aget sm k with Some v => v | None => 0%Z end.
Definition rhov_of (vm : alist (bool * list Z)) (n : string) : list Z :=
  match aget vm n with Some (_, s) => s | None => [] end.

Theorem gamma_nonempty (m : memo) : gamma m (mkenv (rho_of (single m)) (rhov_of (variadic m))).
Proof.
  split; cbn.
  - intros k v H. unfold rho_of. now rewrite H.
  - intros n bc s H. unfold rhov_of. rewrite H. destruct bc; [apply ble_refl | reflexivity].
Qed.

(* ------------------------------------------------------------------ symbolic axes under an assignment *)
Fixpoint stage2r (r : string -> Z) (args : alist Z) (e : expr) : evres :=
  match e with
  | EInt z => EVal z
  | EVar n => EVal (r n)
  | EArg n => match aget args n with Some z => EVal z | None => ENameErr end
  | ERaise base => if base then EBaseExc else EExc
  | ENeg a => match stage2r r args a with EVal z => EVal (- z) | x => x end
  | EBin op a b =>
      match stage2r r args a with
      | EVal x => match stage2r r args b with EVal y => apply_op op x y | x => x end
      | x => x
      end
  | EMin a b =>
      match stage2r r args a with
      | EVal x => match stage2r r args b with EVal y => EVal (Z.min x y) | x => x end
      | x => x
      end
  | EMax a b =>
      match stage2r r args a with
      | EVal x => match stage2r r args b with EVal y => EVal (Z.max x y) | x => x end
      | x => x
      end
  end.

Definition eval_symr (r : string -> Z) (args : alist Z) (e : expr) : evres :=
  match stage1 args e with Some x => x | None => stage2r r args e end.

(* stability: a value computed from the bindings made so far is the value under every
   assignment consistent with them *)
Lemma stage2_stable sm r args e v :
  agrees sm r -> stage2 sm args e = EVal v -> stage2r r args e = EVal v.
Proof.
  intros Hag. revert v. induction e as [z|n|n|b|a IHa|op a IHa b IHb|a IHa b IHb|a IHa b IHb]; intros v; cbn.
  - auto.
  - destruct (aget sm n) eqn:E; [|discriminate]. intros H; inversion H; subst. now rewrite (Hag _ _ E).
  - auto.
  - auto.
  - destruct (stage2 sm args a) eqn:E; try discriminate. rewrite (IHa _ eq_refl). auto.
  - destruct (stage2 sm args a) eqn:Ea; try discriminate.
    destruct (stage2 sm args b) eqn:Eb; try discriminate.
    rewrite (IHa _ eq_refl), (IHb _ eq_refl). auto.
  - destruct (stage2 sm args a) eqn:Ea; try discriminate.
    destruct (stage2 sm args b) eqn:Eb; try discriminate.
    rewrite (IHa _ eq_refl), (IHb _ eq_refl). auto.
  - destruct (stage2 sm args a) eqn:Ea; try discriminate.
    destruct (stage2 sm args b) eqn:Eb; try discriminate.
    rewrite (IHa _ eq_refl), (IHb _ eq_refl). auto.
Qed.

Lemma eval_sym_stable sm r args e v :
  agrees sm r -> eval_sym sm args e = EVal v -> eval_symr r args e = EVal v.
Proof.
  unfold eval_sym, eval_symr. intros Hag. destruct (stage1 args e); [auto|]. now apply stage2_stable.
Qed.

(* ------------------------------------------------------------------ declarative meaning of one axis *)
Definition dim_sat (lbl : option string) (st : symtab) (args : alist Z) (r : string -> Z) (d : dim) (z : Z) : Prop :=
  match d with
  | DAnon => True
  | DFixed n bc => (bc = true /\ z = 1%Z) \/ n = z
  | DNamed n bc tp => (bc = true /\ z = 1%Z) \/ exists k, dkey lbl n tp = Some k /\ r k = z
  | DSym src bc => (bc = true /\ z = 1%Z) \/ exists e, aget st src = Some e /\ eval_symr r args e = EVal z
  | DVarAnon | DVarNamed _ _ _ => False
  end.

Lemma bc1_dec (bc : bool) (z : Z) : {bc = true /\ z = 1%Z} + {bc && (z =? 1)%Z = false /\ ~ (bc = true /\ z = 1%Z)}.
Proof.
  destruct bc; cbn; [|right; split; [reflexivity | intros [? _]; discriminate]].
  destruct (Z.eqb_spec z 1); [left; auto | right; split; [reflexivity | tauto]].
Qed.

Section Dims.
Variables (lbl : option string) (st : symtab) (args : alist Z).

(* one axis, accepted: the consistent assignments are cut down by exactly this axis *)
Lemma dim_step_cont d z sm sm1 :
  dim_step lbl st args d z sm = SCont sm1 ->
  forall r, agrees sm1 r <-> agrees sm r /\ dim_sat lbl st args r d z.
Proof.
  intros H r. destruct d as [| |n bc tp|n bc tp|n bc|src bc]; cbn in H; try discriminate.
  - inversion H; subst. cbn. tauto.
  - destruct (bc1_dec bc z) as [[Hb Hz]|[Hb Hnb]].
    + subst. cbn in H. inversion H; subst. cbn. tauto.
    + rewrite Hb in H. destruct (dkey lbl n tp) as [k|] eqn:Ek; [|discriminate].
      destruct (aget sm k) as [v|] eqn:Ev.
      * destruct (Z.eqb_spec v z) as [->|Hne]; [|discriminate]. inversion H; subst. cbn. split; [|tauto].
        intros Ha. split; [assumption|]. right. exists k. split; [assumption|]. now apply Ha.
      * inversion H; subst. rewrite agrees_aset by assumption. cbn. split.
        -- intros [Ha Hk]. split; [assumption|]. right. exists k. auto.
        -- intros [Ha [Hc|[k' [Hk' Hr]]]]; [tauto|]. rewrite Ek in Hk'. inversion Hk'; subst. auto.
  - destruct (bc1_dec bc z) as [[Hb Hz]|[Hb Hnb]].
    + subst. cbn in H. inversion H; subst. cbn. tauto.
    + rewrite Hb in H. destruct (Z.eqb_spec n z) as [->|Hne]; [|discriminate]. inversion H; subst. cbn. tauto.
  - destruct (bc1_dec bc z) as [[Hb Hz]|[Hb Hnb]].
    + subst. cbn in H. inversion H; subst. cbn. tauto.
    + rewrite Hb in H. destruct (aget st src) as [e|] eqn:Ee; [|discriminate].
      destruct (eval_sym sm args e) as [v| | |] eqn:Ev; try discriminate.
      destruct (Z.eqb_spec v z) as [->|Hne]; [|discriminate]. inversion H; subst. cbn. split; [|tauto].
      intros Ha. split; [assumption|]. right. exists e. split; [assumption|]. eapply eval_sym_stable; eauto.
Qed.

(* one axis, rejected: no assignment consistent with the bindings so far satisfies it *)
Lemma dim_step_fail d z sm :
  dim_step lbl st args d z sm = SFail ->
  forall r, agrees sm r -> ~ dim_sat lbl st args r d z.
Proof.
  intros H r Ha Hs. destruct d as [| |n bc tp|n bc tp|n bc|src bc]; cbn in H; try discriminate.
  - destruct (bc1_dec bc z) as [[Hb Hz]|[Hb Hnb]]; [subst; cbn in H; discriminate|].
    rewrite Hb in H. destruct (dkey lbl n tp) as [k|] eqn:Ek; [|discriminate].
    destruct (aget sm k) as [v|] eqn:Ev; [|discriminate].
    destruct (Z.eqb_spec v z) as [->|Hne]; [discriminate|].
    cbn in Hs. destruct Hs as [Hc|[k' [Hk' Hr]]]; [tauto|]. rewrite Ek in Hk'. inversion Hk'; subst.
    apply Hne. symmetry. rewrite <- (Ha _ _ Ev). reflexivity.
  - destruct (bc1_dec bc z) as [[Hb Hz]|[Hb Hnb]]; [subst; cbn in H; discriminate|].
    rewrite Hb in H. destruct (Z.eqb_spec n z) as [->|Hne]; [discriminate|].
    cbn in Hs. tauto.
  - destruct (bc1_dec bc z) as [[Hb Hz]|[Hb Hnb]]; [subst; cbn in H; discriminate|].
    rewrite Hb in H. destruct (aget st src) as [e|] eqn:Ee; [|discriminate].
    destruct (eval_sym sm args e) as [v| | |] eqn:Ev; try discriminate.
    destruct (Z.eqb_spec v z) as [->|Hne]; [discriminate|].
    cbn in Hs. destruct Hs as [Hc|[e' [He' Hr]]]; [tauto|]. rewrite Ee in He'. inversion He'; subst.
    rewrite (eval_sym_stable _ _ _ _ _ Ha Ev) in Hr. inversion Hr. contradiction.
Qed.

(* _check_dims, accepted: exactly the assignments that also satisfy every axis remain *)
Theorem check_dims_ok : forall dl sh sm sm',
  length dl = length sh ->
  check_dims lbl st args dl sh sm = (COk, sm') ->
  forall r, agrees sm' r <-> agrees sm r /\ Forall2 (dim_sat lbl st args r) dl sh.
Proof.
  induction dl as [|d dl IH]; intros sh sm sm' Hlen H r.
  - destruct sh; [|discriminate]. cbn in H. inversion H; subst. split; [intros; split; auto | tauto].
  - destruct sh as [|z sh]; [discriminate|]. cbn in Hlen. injection Hlen as Hlen.
    cbn [check_dims] in H. destruct (dim_step lbl st args d z sm) as [sm1| |e] eqn:Es; try discriminate.
    rewrite (IH _ _ _ Hlen H r), (dim_step_cont _ _ _ _ Es r). split.
    + intros [[Ha Hd] Hf]. split; [assumption | constructor; assumption].
    + intros [Ha Hf]. inversion Hf; subst. tauto.
Qed.

(* _check_dims, rejected: no consistent assignment satisfies all axes *)
Theorem check_dims_fail : forall dl sh sm sm',
  check_dims lbl st args dl sh sm = (CFail, sm') ->
  forall r, agrees sm r -> ~ Forall2 (dim_sat lbl st args r) dl sh.
Proof.
  induction dl as [|d dl IH]; intros sh sm sm' H r Ha Hf.
  - cbn in H. discriminate.
  - destruct sh as [|z sh]; [cbn in H; discriminate|]. inversion Hf; subst.
    cbn [check_dims] in H. destruct (dim_step lbl st args d z sm) as [sm1| |e] eqn:Es; try discriminate.
    + eapply IH; eauto. apply (dim_step_cont _ _ _ _ Es r). auto.
    + eapply dim_step_fail; eauto.
Qed.

(* progress is monotone: bindings are only ever added *)
Definition extends (a b : alist Z) : Prop := forall k v, aget a k = Some v -> aget b k = Some v.

Lemma extends_refl a : extends a a. Proof. intros k v H; exact H. Qed.
Lemma extends_trans a b c : extends a b -> extends b c -> extends a c.
Proof. intros H1 H2 k v H. auto. Qed.

Lemma dim_step_extends d z sm sm1 : dim_step lbl st args d z sm = SCont sm1 -> extends sm sm1.
Proof.
  intros H. destruct d as [| |n bc tp|n bc tp|n bc|src bc]; cbn in H; try discriminate.
  - inversion H; subst. apply extends_refl.
  - destruct (bc && (z =? 1)%Z); [inversion H; subst; apply extends_refl|].
    destruct (dkey lbl n tp) as [k|]; [|discriminate].
    destruct (aget sm k) as [v|] eqn:Ev.
    + destruct (v =? z)%Z; inversion H; subst. apply extends_refl.
    + inversion H; subst. intros k' v' Hk. rewrite aget_aset. destruct (String.eqb k' k) eqn:E; [|assumption].
      apply String.eqb_eq in E; subst. congruence.
  - destruct (bc && (z =? 1)%Z); [inversion H; subst; apply extends_refl|].
    destruct (n =? z)%Z; inversion H; subst. apply extends_refl.
  - destruct (bc && (z =? 1)%Z); [inversion H; subst; apply extends_refl|].
    destruct (aget st src); [|discriminate]. destruct (eval_sym sm args e); try discriminate.
    destruct (z0 =? z)%Z; inversion H; subst. apply extends_refl.
Qed.

Lemma check_dims_extends : forall dl sh sm sm', check_dims lbl st args dl sh sm = (COk, sm') -> extends sm sm'.
Proof.
  induction dl as [|d dl IH]; intros sh sm sm' H.
  - cbn in H. inversion H; subst. apply extends_refl.
  - destruct sh as [|z sh]; [cbn in H; inversion H; subst; apply extends_refl|].
    cbn [check_dims] in H. destruct (dim_step lbl st args d z sm) as [sm1| |e] eqn:Es; try discriminate.
    eapply extends_trans; [eapply dim_step_extends; eauto | eauto].
Qed.

(* symbolic values are stable under extension of the bindings *)
Lemma stage2_extends sm smx e v : extends sm smx -> stage2 sm args e = EVal v -> stage2 smx args e = EVal v.
Proof.
  intros Hx. revert v. induction e as [z|n|n|b|a IHa|op a IHa b IHb|a IHa b IHb|a IHa b IHb]; intros v; cbn; auto.
  - destruct (aget sm n) eqn:E; [|discriminate]. now rewrite (Hx _ _ E).
  - destruct (stage2 sm args a) eqn:E; try discriminate. rewrite (IHa _ eq_refl). auto.
  - destruct (stage2 sm args a) eqn:Ea; try discriminate. destruct (stage2 sm args b) eqn:Eb; try discriminate.
    rewrite (IHa _ eq_refl), (IHb _ eq_refl). auto.
  - destruct (stage2 sm args a) eqn:Ea; try discriminate. destruct (stage2 sm args b) eqn:Eb; try discriminate.
    rewrite (IHa _ eq_refl), (IHb _ eq_refl). auto.
  - destruct (stage2 sm args a) eqn:Ea; try discriminate. destruct (stage2 sm args b) eqn:Eb; try discriminate.
    rewrite (IHa _ eq_refl), (IHb _ eq_refl). auto.
Qed.

Lemma eval_sym_extends sm smx e v : extends sm smx -> eval_sym sm args e = EVal v -> eval_sym smx args e = EVal v.
Proof. unfold eval_sym. intros Hx. destruct (stage1 args e); [auto|]. now apply stage2_extends. Qed.

(* an axis that passed keeps passing, without binding anything, once its result is in the memo *)
Lemma dim_step_again d z sm sm1 smx :
  dim_step lbl st args d z sm = SCont sm1 -> extends sm1 smx -> dim_step lbl st args d z smx = SCont smx.
Proof.
  intros H Hx. assert (Hx0 : extends sm smx) by (eapply extends_trans; [eapply dim_step_extends; eauto | assumption]).
  destruct d as [| |n bc tp|n bc tp|n bc|src bc]; cbn in H |- *; try discriminate; auto.
  - destruct (bc && (z =? 1)%Z); [reflexivity|].
    destruct (dkey lbl n tp) as [k|]; [|discriminate].
    assert (Hk : aget smx k = Some z).
    { destruct (aget sm k) as [v|] eqn:Ev.
      - destruct (Z.eqb_spec v z); [subst|discriminate]. apply Hx0. assumption.
      - inversion H; subst. apply Hx. apply aget_aset_same. }
    rewrite Hk, Z.eqb_refl. reflexivity.
  - destruct (bc && (z =? 1)%Z); [reflexivity|]. destruct (n =? z)%Z; [reflexivity|discriminate].
  - destruct (bc && (z =? 1)%Z); [reflexivity|].
    destruct (aget st src); [|discriminate]. destruct (eval_sym sm args e) eqn:Ev; try discriminate.
    destruct (Z.eqb_spec z0 z); [subst|discriminate].
    rewrite (eval_sym_extends _ _ _ _ Hx0 Ev), Z.eqb_refl. reflexivity.
Qed.

Theorem check_dims_again : forall dl sh sm sm' smx,
  check_dims lbl st args dl sh sm = (COk, sm') -> extends sm' smx ->
  check_dims lbl st args dl sh smx = (COk, smx).
Proof.
  induction dl as [|d dl IH]; intros sh sm sm' smx H Hx; [reflexivity|].
  destruct sh as [|z sh]; [reflexivity|].
  cbn [check_dims] in H |- *. destruct (dim_step lbl st args d z sm) as [sm1| |e] eqn:Es; try discriminate.
  rewrite (dim_step_again _ _ _ _ smx Es).
  - eapply IH; eauto.
  - eapply extends_trans; [eapply check_dims_extends; eauto | assumption].
Qed.

End Dims.

(* ------------------------------------------------------------------ `*name` / `*#name` *)
Definition var_sat (rv : string -> list Z) (name : string) (bc : bool) (mid : list Z) : Prop :=
  if bc then ble mid (rv name) else rv name = mid.

Lemma agreesv_aset vm n x rv :
  agreesv (aset vm n x) rv <->
  (forall n' bc s, n' <> n -> aget vm n' = Some (bc, s) -> if bc then ble s (rv n') else rv n' = s) /\
  (if fst x then ble (snd x) (rv n) else rv n = snd x).
Proof.
  unfold agreesv. split.
  - intros H. split.
    + intros n' bc s Hne Hg. apply H. rewrite aget_aset. destruct (String.eqb n' n) eqn:E; [|assumption].
      apply String.eqb_eq in E. contradiction.
    + destruct x as [b s]. cbn. apply (H n b s). apply aget_aset_same.
  - intros [H1 H2] n' bc s. rewrite aget_aset. destruct (String.eqb n' n) eqn:E.
    + apply String.eqb_eq in E; subst. intros Hx; inversion Hx; subst. exact H2.
    + apply String.eqb_neq in E. apply H1. assumption.
Qed.

Lemma agreesv_split vm n rv :
  agreesv vm rv <->
  (forall n' bc s, n' <> n -> aget vm n' = Some (bc, s) -> if bc then ble s (rv n') else rv n' = s) /\
  (forall bc s, aget vm n = Some (bc, s) -> if bc then ble s (rv n) else rv n = s).
Proof.
  unfold agreesv. split.
  - intros H. split; intros; apply H; assumption.
  - intros [H1 H2] n' bc s Hg. destruct (String.eqb n' n) eqn:E.
    + apply String.eqb_eq in E; subst. apply H2. assumption.
    + apply String.eqb_neq in E. apply H1; assumption.
Qed.

(* the four-way branch of _check_shape (lines 283-316), accepted *)
Theorem check_variadic_ok name bc mid vm vm' :
  check_variadic name bc mid vm = (COk, vm') ->
  forall rv, agreesv vm' rv <-> agreesv vm rv /\ var_sat rv name bc mid.
Proof.
  unfold check_variadic, var_sat. intros H rv.
  destruct (aget vm name) as [[pbc ps]|] eqn:Eg.
  - destruct pbc.
    + (* previous use(s) broadcastable: the stored shape is only a lower bound *)
      destruct (bcast mid ps) as [b|] eqn:Eb; [|discriminate].
      destruct (negb bc && negb (zlist_eqb b mid)) eqn:Ec; [discriminate|].
      inversion H; subst vm'. rewrite agreesv_aset. rewrite (agreesv_split vm name rv). cbn [fst snd].
      split.
      * intros [Hoth Hn]. split; [split; [assumption|]|].
        -- intros bc' s Hg. rewrite Eg in Hg. inversion Hg; subst.
           destruct bc.
           ++ apply (bcast_lub mid s (rv name)). exists b. auto.
           ++ cbn in Ec. apply negb_false_iff, zlist_eqb_eq in Ec. subst b.
              rewrite Hn. apply (bcast_upper _ _ _ Eb).
        -- destruct bc.
           ++ apply (bcast_lub mid ps (rv name)). exists b. auto.
           ++ cbn in Ec. apply negb_false_iff, zlist_eqb_eq in Ec. subst b. exact Hn.
      * intros [[Hoth Hn] Hs]. split; [assumption|]. specialize (Hn _ _ Eg). cbn in Hn.
        destruct bc.
        -- destruct (proj1 (bcast_lub mid ps (rv name)) (conj Hs Hn)) as [l [Hl Hls]]. congruence.
        -- cbn in Ec. apply negb_false_iff, zlist_eqb_eq in Ec. subst b. exact Hs.
    + (* previous use pinned the shape *)
      destruct bc.
      * destruct (bcast mid ps) as [b|] eqn:Eb; [|discriminate].
        destruct (zlist_eqb b ps) eqn:Ec; [|discriminate]. apply zlist_eqb_eq in Ec; subst b.
        inversion H; subst vm'. split; [|tauto].
        intros Ha. split; [assumption|]. rewrite (Ha _ _ _ Eg). exact Eb.
      * destruct (zlist_eqb mid ps) eqn:Ec; [|discriminate]. apply zlist_eqb_eq in Ec; subst ps.
        inversion H; subst vm'. split; [|tauto].
        intros Ha. split; [assumption|]. exact (Ha _ _ _ Eg).
  - inversion H; subst vm'. rewrite agreesv_aset. rewrite (agreesv_split vm name rv). cbn [fst snd].
    split.
    + intros [Hoth Hn]. split; [split; [assumption|]|assumption]. intros bc' s Hg. congruence.
    + intros [[Hoth _] Hs]. split; assumption.
Qed.

(* ... rejected: no consistent assignment of a shape to the name fits this use *)
Theorem check_variadic_fail name bc mid vm vm' :
  check_variadic name bc mid vm = (CFail, vm') ->
  forall rv, agreesv vm rv -> ~ var_sat rv name bc mid.
Proof.
  unfold check_variadic, var_sat. intros H rv Ha Hs.
  destruct (aget vm name) as [[pbc ps]|] eqn:Eg; [|discriminate].
  specialize (Ha _ _ _ Eg). destruct pbc.
  - destruct (bcast mid ps) as [b|] eqn:Eb.
    + destruct bc; cbn in H; [discriminate|].
      destruct (zlist_eqb b mid) eqn:Ec; cbn in H; [discriminate|]. apply zlist_eqb_neq in Ec.
      (* rv name = mid and ps broadcasts to it, so the lub of mid and ps is mid *)
      subst mid. apply Ec. clear Ec H.
      destruct (proj1 (bcast_lub (rv name) ps (rv name)) (conj (ble_refl _) Ha)) as [l [Hl Hls]].
      rewrite Eb in Hl. inversion Hl; subst l.
      destruct (bcast_upper _ _ _ Eb) as [Hu _].
      (* antisymmetry via the definition of ble *)
      unfold ble in Hls, Hu. rewrite bcast_comm in Hu. congruence.
    + destruct bc.
      * eapply bcast_none_no_ub; eauto.
      * subst mid. eapply bcast_none_no_ub; eauto. apply ble_refl.
  - destruct bc.
    + rewrite Ha in Hs. unfold ble in Hs. rewrite Hs in H. rewrite zlist_eqb_refl in H. discriminate.
    + rewrite <- Hs, Ha in H. rewrite zlist_eqb_refl in H. discriminate.
Qed.

(* ... and idempotent *)
Theorem check_variadic_again name bc mid vm vm' :
  check_variadic name bc mid vm = (COk, vm') -> check_variadic name bc mid vm' = (COk, vm').
Proof.
  unfold check_variadic. intros H.
  assert (Hself : forall b, bcast mid b = Some b -> forall vmx, aget vmx name = Some (bc, b) ->
                  (bc = false -> b = mid) ->
                  match aget vmx name with
                  | Some (pbc, ps) =>
                      if pbc then match bcast mid ps with
                                  | Some b0 => if negb bc && negb (zlist_eqb b0 mid) then (CFail, vmx) else (COk, aset vmx name (bc, b0))
                                  | None => (CFail, vmx) end
                      else if bc then match bcast mid ps with Some b0 => if zlist_eqb b0 ps then (COk, vmx) else (CFail, vmx) | None => (CFail, vmx) end
                      else if zlist_eqb mid ps then (COk, vmx) else (CFail, vmx)
                  | None => (COk, aset vmx name (bc, mid))
                  end = (COk, vmx)).
  { intros b Hb vmx Hg Hbm. rewrite Hg. destruct bc.
    - rewrite Hb. cbn. now rewrite (aset_same _ _ _ Hg).
    - rewrite (Hbm eq_refl). now rewrite zlist_eqb_refl. }
  destruct (aget vm name) as [[pbc ps]|] eqn:Eg.
  - destruct pbc.
    + destruct (bcast mid ps) as [b|] eqn:Eb; [|discriminate].
      destruct (negb bc && negb (zlist_eqb b mid)) eqn:Ec; [discriminate|].
      inversion H; subst vm'. apply (Hself b).
      * destruct (bcast_upper _ _ _ Eb) as [Hu _]. exact Hu.
      * apply aget_aset_same.
      * intros ->. cbn in Ec. now apply negb_false_iff, zlist_eqb_eq in Ec.
    + destruct bc.
      * destruct (bcast mid ps) as [b|] eqn:Eb; [|discriminate].
        destruct (zlist_eqb b ps) eqn:Ec; [|discriminate].
        inversion H; subst vm'. rewrite Eg, Eb, Ec. reflexivity.
      * destruct (zlist_eqb mid ps) eqn:Ec; [|discriminate].
        inversion H; subst vm'. rewrite Eg, Ec. reflexivity.
  - inversion H; subst vm'. apply (Hself mid).
    + apply ble_refl.
    + apply aget_aset_same.
    + reflexivity.
Qed.

(* ------------------------------------------------------------------ list slicing (Python's negative indices) *)
Open Scope list_scope.
Lemma firstn_app_exact {A} (a b : list A) : firstn (length a) (a ++ b) = a.
Proof. induction a as [|x a IH]; cbn; [now destruct b | now rewrite IH]. Qed.
Lemma skipn_app_exact {A} (a b : list A) : skipn (length a) (a ++ b) = b.
Proof. induction a as [|x a IH]; cbn; auto. Qed.

Lemma skipn_skipn' {A} (x y : nat) (l : list A) : skipn x (skipn y l) = skipn (y + x) l.
Proof. revert l. induction y as [|y IH]; intros l; cbn; [reflexivity|]. destruct l; [now rewrite skipn_nil | apply IH]. Qed.

(* `shape[:i]`, `shape[i:j]`, `shape[j:]` with j = -(len(dims)-i-1) (or None when that is 0)
   cover every axis exactly once, for every rank >= len(dims)-1 *)
Theorem slices_partition (sh : list Z) (i k : nat) :
  (i + k <= length sh)%nat ->
  sh = firstn i sh ++ firstn (length sh - k - i) (skipn i sh) ++ skipn (length sh - k) sh /\
  length (firstn i sh) = i /\
  length (firstn (length sh - k - i) (skipn i sh)) = (length sh - k - i)%nat /\
  length (skipn (length sh - k) sh) = k.
Proof.
  intros H. repeat split.
  - rewrite <- (firstn_skipn i sh) at 1. f_equal.
    rewrite <- (firstn_skipn (length sh - k - i) (skipn i sh)) at 1. f_equal.
    rewrite skipn_skipn'. f_equal. lia.
  - rewrite firstn_length. lia.
  - rewrite firstn_length, skipn_length. lia.
  - rewrite skipn_length. lia.
Qed.

Lemma Forall2_len {A B} (P : A -> B -> Prop) l l' : Forall2 P l l' -> length l = length l'.
Proof. induction 1; cbn; congruence. Qed.

Lemma split3_unique (sh pre mid suf : list Z) (i k : nat) :
  sh = pre ++ mid ++ suf -> length pre = i -> length suf = k ->
  pre = firstn i sh /\ mid = firstn (length sh - k - i) (skipn i sh) /\ suf = skipn (length sh - k) sh.
Proof.
  intros -> <- <-. repeat split.
  - now rewrite firstn_app_exact.
  - rewrite skipn_app_exact. rewrite !app_length.
    replace (length pre + (length mid + length suf) - length suf - length pre)%nat with (length mid) by lia.
    now rewrite firstn_app_exact.
  - rewrite !app_length.
    replace (length pre + (length mid + length suf) - length suf)%nat with (length (pre ++ mid)) by (rewrite app_length; lia).
    rewrite app_assoc. now rewrite skipn_app_exact.
Qed.

(* ------------------------------------------------------------------ declarative meaning of a whole shape *)
Definition var_dim_sat (lbl : option string) (rv : string -> list Z) (od : option dim) (mid : list Z) : Prop :=
  match od with
  | Some DVarAnon => True
  | Some (DVarNamed n bc tp) => exists k, dkey lbl n tp = Some k /\ var_sat rv k bc mid
  | _ => False
  end.

Definition use_sat (lbl : option string) (st : symtab) (args : alist Z) (e : env) (d : dims) (sh : list Z) : Prop :=
  match ivar d with
  | None => Forall2 (dim_sat lbl st args (rho e)) (ds d) sh
  | Some i =>
      exists pre mid suf,
        sh = pre ++ mid ++ suf /\ length pre = i /\ length suf = (length (ds d) - i - 1)%nat /\
        Forall2 (dim_sat lbl st args (rho e)) (firstn i (ds d)) pre /\
        Forall2 (dim_sat lbl st args (rho e)) (skipn (S i) (ds d)) suf /\
        var_dim_sat lbl (rhov e) (nth_error (ds d) i) mid
  end.

Definition wf_dims (d : dims) : Prop := forall i, ivar d = Some i -> (i < length (ds d))%nat.

Section Shape.
Variables (lbl : option string) (st : symtab).

(* the suffix test `if j == 0` is only a shortcut *)
Lemma suffix_norm args dl sh sm i :
  (i < length dl)%nat ->
  let k := (length dl - i - 1)%nat in
  (if (k =? 0)%nat then (COk, sm)
   else check_dims lbl st args (skipn (length dl - k) dl) (skipn (length sh - k) sh) sm)
  = check_dims lbl st args (skipn (S i) dl) (skipn (length sh - k) sh) sm.
Proof.
  intros Hi k. destruct (Nat.eqb_spec k 0) as [E|E].
  - assert (Hs : skipn (S i) dl = []) by (apply skipn_all2; lia). now rewrite Hs.
  - replace (length dl - k)%nat with (S i) by lia. reflexivity.
Qed.

Theorem check_shape_ok d sh m m' :
  wf_dims d ->
  check_shape lbl st d sh m = (COk, m') ->
  margs m' = margs m /\
  forall e, gamma m' e <-> gamma m e /\ use_sat lbl st (margs m) e d sh.
Proof.
  intros Hwf H. unfold check_shape in H. unfold use_sat, gamma.
  destruct (ivar d) as [i|] eqn:Ei.
  - specialize (Hwf i Ei).
    destruct (Nat.ltb_spec (length sh) (length (ds d) - 1)) as [Hlt|Hge]; [discriminate|].
    destruct (check_dims lbl st (margs m) (firstn i (ds d)) (firstn i sh) (single m)) as [r1 sm1] eqn:E1.
    destruct r1; try discriminate.
    pose proof (suffix_norm (margs m) (ds d) sh sm1 i Hwf) as Hsn. cbv zeta in Hsn. rewrite Hsn in H. clear Hsn.
    set (k := (length (ds d) - i - 1)%nat) in *.
    destruct (slices_partition sh i k ltac:(lia)) as [Hsplit [Hl1 [Hl2 Hl3]]].
    destruct (check_dims lbl st (margs m) (skipn (S i) (ds d)) (skipn (length sh - k) sh) sm1) as [r2 sm2] eqn:E2.
    destruct r2; try discriminate.
    assert (Hlen1 : length (firstn i (ds d)) = length (firstn i sh)) by (rewrite !firstn_length; lia).
    assert (Hlen2 : length (skipn (S i) (ds d)) = length (skipn (length sh - k) sh)) by (rewrite !skipn_length; lia).
    pose proof (check_dims_ok lbl st (margs m) _ _ _ _ Hlen1 E1) as P1.
    pose proof (check_dims_ok lbl st (margs m) _ _ _ _ Hlen2 E2) as P2.
    assert (Hcore : forall e (V : Prop) vmx,
              (agreesv vmx (rhov e) <-> agreesv (variadic m) (rhov e) /\ V) ->
              ((agrees sm2 (rho e) /\ agreesv vmx (rhov e)) <->
               (agrees (single m) (rho e) /\ agreesv (variadic m) (rhov e)) /\
               Forall2 (dim_sat lbl st (margs m) (rho e)) (firstn i (ds d)) (firstn i sh) /\
               Forall2 (dim_sat lbl st (margs m) (rho e)) (skipn (S i) (ds d)) (skipn (length sh - k) sh) /\ V)).
    { intros e V vmx HV. rewrite (P2 (rho e)), (P1 (rho e)), HV. tauto. }
    assert (Hdecomp : forall e (V : list Z -> Prop),
              (Forall2 (dim_sat lbl st (margs m) (rho e)) (firstn i (ds d)) (firstn i sh) /\
               Forall2 (dim_sat lbl st (margs m) (rho e)) (skipn (S i) (ds d)) (skipn (length sh - k) sh) /\
               V (firstn (length sh - k - i) (skipn i sh)))
              <->
              (exists pre mid suf, sh = pre ++ mid ++ suf /\ length pre = i /\ length suf = k /\
                 Forall2 (dim_sat lbl st (margs m) (rho e)) (firstn i (ds d)) pre /\
                 Forall2 (dim_sat lbl st (margs m) (rho e)) (skipn (S i) (ds d)) suf /\ V mid)).
    { intros e V. split.
      - intros [Ha [Hb Hc]]. eexists _, _, _. repeat split; try exact Hsplit; eauto.
      - intros [pre [mid [suf [Hs [Hp [Hsf [Ha [Hb Hc]]]]]]]].
        destruct (split3_unique _ _ _ _ _ _ Hs Hp Hsf) as [-> [-> ->]]. auto. }
    destruct (nth_error (ds d) i) as [dv|] eqn:En; [|discriminate].
    destruct dv as [| |n bc tp|n bc tp|n bc|src bc]; try discriminate.
    + (* anonymous variadic *)
      inversion H; subst m'. unfold var_dim_sat. cbn [margs single variadic]. split; [reflexivity|]. intros e.
      pose proof (Hdecomp e (fun _ => True)) as HD. cbv beta in HD. rewrite <- HD. apply Hcore. tauto.
    + (* named variadic *)
      destruct (dkey lbl n tp) as [kname|] eqn:Ek; [|discriminate].
      destruct (check_variadic kname bc (firstn (length sh - k - i) (skipn i sh)) (variadic m)) as [r3 vm] eqn:E3.
      inversion H; subst m' r3. unfold var_dim_sat. cbn [margs single variadic]. rewrite Ek. split; [reflexivity|]. intros e.
      pose proof (Hdecomp e (fun mid => exists k0, Some kname = Some k0 /\ var_sat (rhov e) k0 bc mid)) as HD.
      cbv beta in HD. rewrite <- HD. clear HD.
      rewrite (Hcore e (var_sat (rhov e) kname bc (firstn (length sh - k - i) (skipn i sh))) vm (check_variadic_ok _ _ _ _ _ E3 (rhov e))).
      split.
      * intros [Hg [Ha [Hb Hc]]]. repeat split; try tauto. exists kname. auto.
      * intros [Hg [Ha [Hb [k0 [Hk0 Hc]]]]]. inversion Hk0; subst. tauto.
  - destruct (Nat.eqb_spec (length sh) (length (ds d))) as [Hl|Hl]; cbn in H; [|discriminate].
    destruct (check_dims lbl st (margs m) (ds d) sh (single m)) as [r sm] eqn:E1.
    inversion H; subst r m'. cbn. split; [reflexivity|]. intros e.
    rewrite (check_dims_ok lbl st (margs m) _ _ _ _ (eq_sym Hl) E1 (rho e)). tauto.
Qed.

Theorem check_shape_fail d sh m m' :
  wf_dims d ->
  check_shape lbl st d sh m = (CFail, m') ->
  forall e, gamma m e -> ~ use_sat lbl st (margs m) e d sh.
Proof.
  intros Hwf H e [Hg Hgv] Hs. unfold check_shape in H. unfold use_sat in Hs.
  destruct (ivar d) as [i|] eqn:Ei.
  - specialize (Hwf i Ei).
    destruct Hs as [pre [mid [suf [Hsh [Hp [Hsf [Ha [Hb Hc]]]]]]]].
    set (k := (length (ds d) - i - 1)%nat) in *.
    assert (Hn : (i + k <= length sh)%nat) by (subst sh; rewrite !app_length; lia).
    destruct (Nat.ltb_spec (length sh) (length (ds d) - 1)) as [Hlt|Hge]; [lia|].
    destruct (split3_unique _ _ _ _ _ _ Hsh Hp Hsf) as [-> [-> ->]].
    destruct (check_dims lbl st (margs m) (firstn i (ds d)) (firstn i sh) (single m)) as [r1 sm1] eqn:E1.
    destruct r1; try discriminate.
    2:{ eapply check_dims_fail; eauto. }
    pose proof (suffix_norm (margs m) (ds d) sh sm1 i Hwf) as Hsn. cbv zeta in Hsn. fold k in Hsn. rewrite Hsn in H. clear Hsn.
    destruct (check_dims lbl st (margs m) (skipn (S i) (ds d)) (skipn (length sh - k) sh) sm1) as [r2 sm2] eqn:E2.
    assert (Hlen1 : length (firstn i (ds d)) = length (firstn i sh)) by (rewrite !firstn_length; lia).
    assert (Hg1 : agrees sm1 (rho e)) by (apply (check_dims_ok lbl st (margs m) _ _ _ _ Hlen1 E1 (rho e)); auto).
    destruct r2; try discriminate.
    2:{ eapply check_dims_fail; eauto. }
    destruct (nth_error (ds d) i) as [dv|] eqn:En; [|discriminate].
    destruct dv as [| |n bc tp|n bc tp|n bc|src bc]; try discriminate.
    destruct (dkey lbl n tp) as [kname|] eqn:Ek; [|discriminate].
    destruct (check_variadic kname bc (firstn (length sh - k - i) (skipn i sh)) (variadic m)) as [r3 vm] eqn:E3.
    inversion H; subst r3. unfold var_dim_sat in Hc. destruct Hc as [k0 [Hk0 Hc]]. assert (k0 = kname) by congruence. subst k0.
    eapply check_variadic_fail; eauto.
  - destruct (Nat.eqb_spec (length sh) (length (ds d))) as [Hl|Hl]; cbn in H.
    + destruct (check_dims lbl st (margs m) (ds d) sh (single m)) as [r sm] eqn:E1.
      inversion H; subst r. eapply check_dims_fail; eauto.
    + apply Forall2_len in Hs. congruence.
Qed.

(* an accepted shape check is idempotent *)
Theorem check_shape_again d sh m m' :
  wf_dims d ->
  check_shape lbl st d sh m = (COk, m') -> check_shape lbl st d sh m' = (COk, m').
Proof.
  intros Hwf H. unfold check_shape in H |- *.
  destruct (ivar d) as [i|] eqn:Ei.
  - specialize (Hwf i Ei).
    destruct (length sh <? length (ds d) - 1)%nat; [discriminate|].
    destruct (check_dims lbl st (margs m) (firstn i (ds d)) (firstn i sh) (single m)) as [r1 sm1] eqn:E1.
    destruct r1; try discriminate.
    pose proof (suffix_norm (margs m) (ds d) sh sm1 i Hwf) as Hsn. cbv zeta in Hsn. rewrite Hsn in H. clear Hsn.
    set (k := (length (ds d) - i - 1)%nat) in *.
    destruct (check_dims lbl st (margs m) (skipn (S i) (ds d)) (skipn (length sh - k) sh) sm1) as [r2 sm2] eqn:E2.
    destruct r2; try discriminate.
    assert (Hm' : margs m' = margs m /\ single m' = sm2).
    { destruct (nth_error (ds d) i) as [dv|]; [|discriminate].
      destruct dv as [| |n bc tp|n bc tp|n bc|src bc]; try discriminate.
      - inversion H; subst; cbn; auto.
      - destruct (dkey lbl n tp); [|discriminate]. destruct (check_variadic _ _ _ _). inversion H; subst; cbn; auto. }
    destruct Hm' as [Hm1 Hm2]. rewrite Hm1, Hm2.
    rewrite (check_dims_again lbl st (margs m) _ _ _ _ sm2 E1 (check_dims_extends lbl st (margs m) _ _ _ _ E2)).
    pose proof (suffix_norm (margs m) (ds d) sh sm2 i Hwf) as Hsn. cbv zeta in Hsn. fold k in Hsn. rewrite Hsn. clear Hsn.
    rewrite (check_dims_again lbl st (margs m) _ _ _ _ sm2 E2 (extends_refl _)).
    destruct (nth_error (ds d) i) as [dv|]; [|discriminate].
    destruct dv as [| |n bc tp|n bc tp|n bc|src bc]; try discriminate.
    + inversion H; subst; cbn. reflexivity.
    + destruct (dkey lbl n tp) as [kname|]; [|discriminate].
      destruct (check_variadic kname bc _ (variadic m)) as [r3 vm] eqn:E3.
      inversion H; subst r3 m'. cbn. rewrite (check_variadic_again _ _ _ _ _ E3). reflexivity.
  - destruct (negb (length sh =? length (ds d))%nat); [discriminate|].
    destruct (check_dims lbl st (margs m) (ds d) sh (single m)) as [r sm] eqn:E1.
    inversion H; subst r m'. cbn.
    rewrite (check_dims_again lbl st (margs m) _ _ _ _ sm E1 (extends_refl _)). reflexivity.
Qed.

End Shape.

(* ------------------------------------------------------------------ __instancecheck_str__ *)
Definition val_ok (a : annot) (v : value) : bool :=
  (if a_any a then v_attrs v else v_inst v) && dtype_ok a (v_dtype v).

(* what the documentation says one use means under an assignment *)
Definition full_sat (lbl : option string) (st : symtab) (args : alist Z) (e : env) (u : annot * value) : Prop :=
  val_ok (fst u) (snd u) = true /\ use_sat lbl st args e (a_dims (fst u)) (v_shape (snd u)).

Definition wf_annot (a : annot) : Prop := a_skip a = false /\ wf_dims (a_dims a).

Section Instance.
Variables (lbl : option string) (st : symtab).

Theorem instancecheck_acc a v m s s' :
  wf_annot a ->
  instancecheck false lbl st a v (m :: s) = (Acc, s') ->
  exists m', s' = m' :: s /\ margs m' = margs m /\
             forall e, gamma m' e <-> gamma m e /\ full_sat lbl st (margs m) e (a, v).
Proof.
  intros [Hskip Hwf] H. unfold instancecheck in H. rewrite Hskip in H. unfold full_sat, val_ok. cbn [fst snd].
  destruct (if a_any a then v_attrs v else v_inst v); cbn in H; [|discriminate].
  destruct (dtype_ok a (v_dtype v)); cbn in H; [|discriminate].
  destruct (check_shape lbl st (a_dims a) (v_shape v) m) as [r m'] eqn:E.
  destruct r; try discriminate.
  - inversion H; subst s'. exists m'. destruct (check_shape_ok lbl st _ _ _ _ Hwf E) as [Ha Hg].
    split; [reflexivity|]. split; [assumption|]. intros e. rewrite (Hg e). cbn. tauto.
Qed.

Theorem instancecheck_rej a v m s s' :
  wf_annot a ->
  instancecheck false lbl st a v (m :: s) = (Rej, s') ->
  s' = m :: s /\ forall e, gamma m e -> ~ full_sat lbl st (margs m) e (a, v).
Proof.
  intros [Hskip Hwf] H. unfold instancecheck in H. rewrite Hskip in H. unfold full_sat, val_ok. cbn [fst snd].
  destruct (if a_any a then v_attrs v else v_inst v); cbn in H.
  2:{ inversion H. split; [reflexivity|]. intros e _ [Hc _]. discriminate. }
  destruct (dtype_ok a (v_dtype v)); cbn in H.
  2:{ inversion H. split; [reflexivity|]. intros e _ [Hc _]. discriminate. }
  destruct (check_shape lbl st (a_dims a) (v_shape v) m) as [r m'] eqn:E.
  destruct r; try discriminate.
  - inversion H. split; [reflexivity|]. intros e Hg [_ Hs]. eapply check_shape_fail; eauto.
Qed.

(* C04: a check that returns False, or raises (any class), leaves the whole stack as it was *)
Lemma set_get_memo s : set_memo s (get_memo s) = s.
Proof. destruct s; reflexivity. Qed.

Theorem instancecheck_not_acc_restores flat a v s vd s' :
  instancecheck flat lbl st a v s = (vd, s') -> vd <> Acc -> s' = s.
Proof.
  intros H Hv. unfold instancecheck in H.
  destruct (a_skip a); [inversion H; subst; congruence|].
  destruct (negb (if a_any a then v_attrs v else v_inst v)); [inversion H; reflexivity|].
  destruct flat; [inversion H; subst; congruence|].
  destruct (negb (dtype_ok a (v_dtype v))); [inversion H; reflexivity|].
  destruct (check_shape lbl st (a_dims a) (v_shape v) (get_memo s)) as [r m'].
  destruct r; inversion H; subst; try congruence; apply set_get_memo.
Qed.

(* C04: repeating a check that passed passes again and changes nothing *)
Theorem instancecheck_idempotent flat a v s s' :
  wf_dims (a_dims a) ->
  instancecheck flat lbl st a v s = (Acc, s') ->
  instancecheck flat lbl st a v s' = (Acc, s').
Proof.
  intros Hwf H. unfold instancecheck in H |- *.
  destruct (a_skip a); [inversion H; reflexivity|].
  destruct (negb (if a_any a then v_attrs v else v_inst v)); [discriminate|].
  destruct flat; [inversion H; reflexivity|].
  destruct (negb (dtype_ok a (v_dtype v))); [discriminate|].
  destruct (check_shape lbl st (a_dims a) (v_shape v) (get_memo s)) as [r m'] eqn:E.
  destruct r.
  - inversion H; subst s'. destruct s as [|m s].
    + (* outside every context: nothing is kept, the check runs on fresh empty memos again *)
      cbn in *. rewrite E. reflexivity.
    + cbn in *. rewrite (check_shape_again lbl st _ _ _ _ Hwf E). reflexivity.
  - discriminate.
  - discriminate.
Qed.

(* C05 (toplevel): outside every context nothing persists *)
Theorem instancecheck_stateless flat a v vd s' :
  instancecheck flat lbl st a v [] = (vd, s') -> s' = [].
Proof.
  unfold instancecheck. cbn.
  destruct (a_skip a); [intros H; inversion H; reflexivity|].
  destruct (negb (if a_any a then v_attrs v else v_inst v)); [intros H; inversion H; reflexivity|].
  destruct flat; [intros H; inversion H; reflexivity|].
  destruct (negb (dtype_ok a (v_dtype v))); [intros H; inversion H; reflexivity|].
  destruct (check_shape lbl st (a_dims a) (v_shape v) empty_memo) as [r m'].
  destruct r; intros H; inversion H; reflexivity.
Qed.

(* ------------------------------------------------------------------ C02: the walk *)
Theorem walk_acc : forall us m s s',
  Forall (fun u => wf_annot (fst u)) us ->
  walk lbl st us (m :: s) = (Acc, s') ->
  exists m', s' = m' :: s /\ margs m' = margs m /\
             forall e, gamma m' e <-> gamma m e /\ Forall (full_sat lbl st (margs m) e) us.
Proof.
  induction us as [|[a v] us IH]; intros m s s' Hwf H.
  - cbn in H. inversion H; subst. exists m. split; [reflexivity|]. split; [reflexivity|]. intros e. split; [intros; split; auto | tauto].
  - inversion Hwf as [|? ? Hwa Hwr]; subst. cbn [walk] in H.
    destruct (instancecheck false lbl st a v (m :: s)) as [vd s1] eqn:E.
    destruct vd; try discriminate.
    destruct (instancecheck_acc _ _ _ _ _ Hwa E) as [m1 [-> [Hargs Hg1]]].
    destruct (IH _ _ _ Hwr H) as [m' [-> [Hargs' Hg']]].
    exists m'. split; [reflexivity|]. split; [congruence|]. intros e.
    rewrite (Hg' e), (Hg1 e), Hargs. split.
    + intros [[Hg Hs] Hf]. split; [assumption|]. constructor; assumption.
    + intros [Hg Hf]. inversion Hf; subst. tauto.
Qed.

Theorem walk_rej : forall us m s s',
  Forall (fun u => wf_annot (fst u)) us ->
  walk lbl st us (m :: s) = (Rej, s') ->
  forall e, gamma m e -> ~ Forall (full_sat lbl st (margs m) e) us.
Proof.
  induction us as [|[a v] us IH]; intros m s s' Hwf H e Hg Hf.
  - cbn in H. discriminate.
  - inversion Hwf as [|? ? Hwa Hwr]; subst. inversion Hf as [|? ? Hfa Hfr]; subst. cbn [walk] in H.
    destruct (instancecheck false lbl st a v (m :: s)) as [vd s1] eqn:E.
    destruct vd; try discriminate.
    + destruct (instancecheck_acc _ _ _ _ _ Hwa E) as [m1 [-> [Hargs Hg1]]].
      eapply (IH _ _ _ Hwr H e).
      * apply Hg1. auto.
      * rewrite Hargs. assumption.
    + inversion H; subst. destruct (instancecheck_rej _ _ _ _ _ Hwa E) as [_ Hn]. eapply Hn; eauto.
Qed.

(* a walk from a fresh context that does not raise accepts iff ONE consistent assignment exists *)
Theorem walk_iff_sat us args vd s' :
  Forall (fun u => wf_annot (fst u)) us ->
  walk lbl st us (push_memo [] args) = (vd, s') ->
  (forall x, vd <> Raise x) ->
  (vd = Acc <-> exists e, Forall (full_sat lbl st args e) us).
Proof.
  intros Hwf H Hnr. unfold push_memo in H. destruct vd as [| |x]; [| |exfalso; eapply Hnr; eauto].
  - split; [intros _|reflexivity].
    destruct (walk_acc _ _ _ _ Hwf H) as [m' [_ [_ Hg]]]. cbn in Hg.
    exists (mkenv (rho_of (single m')) (rhov_of (variadic m'))).
    apply (Hg _). apply gamma_nonempty.
  - split; [discriminate|]. intros [e He]. exfalso.
    eapply (walk_rej _ _ _ _ Hwf H e); [|exact He].
    split; cbn; intros ? ?; discriminate.
Qed.

(* hence the verdict does not depend on the order in which the uses are walked *)
Theorem walk_order_independent us us' args vd vd' s1 s2 :
  Permutation us us' ->
  Forall (fun u => wf_annot (fst u)) us ->
  walk lbl st us (push_memo [] args) = (vd, s1) ->
  walk lbl st us' (push_memo [] args) = (vd', s2) ->
  (forall x, vd <> Raise x) -> (forall x, vd' <> Raise x) ->
  vd = vd'.
Proof.
  intros Hp Hwf H1 H2 Hn1 Hn2.
  assert (Hwf' : Forall (fun u => wf_annot (fst u)) us') by (eapply Permutation_Forall; eauto).
  pose proof (walk_iff_sat _ _ _ _ Hwf H1 Hn1) as I1.
  pose proof (walk_iff_sat _ _ _ _ Hwf' H2 Hn2) as I2.
  assert (Hex : (exists e, Forall (full_sat lbl st args e) us) <-> (exists e, Forall (full_sat lbl st args e) us')).
  { split; intros [e He]; exists e; [eapply Permutation_Forall; eauto | eapply Permutation_Forall; [apply Permutation_sym|]; eauto]. }
  destruct vd as [| |x]; [| |exfalso; eapply Hn1; eauto]; destruct vd' as [| |y]; try reflexivity; try (exfalso; eapply Hn2; eauto; fail).
  - assert (Hc : @Rej = Acc) by (apply I2, Hex, I1; reflexivity). discriminate.
  - assert (Hc : @Rej = Acc) by (apply I1, Hex, I2; reflexivity). discriminate.
Qed.

End Instance.

(* AnnotAcceptFacts.v -- what comes back from the reducer ACCEPTS exactly the same values, with the same bindings, and can be
   sent again any number of times (C20). *)
From JT Require Import model.Annot proofs.AnnotFacts.
Open Scope string_scope.

Lemma instancecheck_any_ignores_inst flat lbl st a f1 f2 at_ d sh s :
  a_any a = true -> instancecheck flat lbl st a (mkvalue f1 at_ d sh) s = instancecheck flat lbl st a (mkvalue f2 at_ d sh) s.
Proof. intros Ha. unfold instancecheck. rewrite Ha. reflexivity. Qed.

(* the whole outcome of a check -- verdict AND the bindings it leaves -- against the rebuilt annotation *)
Definition check_built (st : symtab) (b : built) (cls : nat) (v : value) (s : stack) : verdict * stack :=
  instancecheck false None st (built_annot b) (mkvalue (Nat.eqb cls (b_cls b)) (v_attrs v) (v_dtype v) (v_shape v)) s.

Lemma same_meaning b b' :
  b_dims b' = b_dims b -> b_dtypes b' = b_dtypes b -> b_any b' = b_any b -> (b_any b = false -> b_cls b' = b_cls b) ->
  (forall st cls v s, check_built st b' cls v s = check_built st b cls v s) /\
  (forall st x s, accepts_one st (MBuilt b') x s = accepts_one st (MBuilt b) x s).
Proof.
  intros Hd Ht Ha Hc.
  assert (G : forall st cls v s, check_built st b' cls v s = check_built st b cls v s).
  { intros st cls v s. unfold check_built, built_annot. rewrite Hd, Ht, Ha. destruct (b_any b) eqn:E.
    - apply instancecheck_any_ignores_inst. reflexivity.
    - now rewrite (Hc eq_refl). }
  split; [exact G|]. intros st x s. destruct x as [cls v| |]; cbn [accepts_one]; [|reflexivity|reflexivity].
  exact (f_equal fst (G st cls v s)).
Qed.

Theorem reducer_accepts_same b : wf_built b ->
  exists b', reduce_rebuild b = MBuilt b' /\ wf_built b' /\
             (forall st cls v s, check_built st b' cls v s = check_built st b cls v s) /\
             (forall st x s, accepts_one st (MBuilt b') x s = accepts_one st (MBuilt b) x s).
Proof.
  intros W. destruct (reducer_roundtrip b W) as [b' [E [Hd [Ht [Ha Hc]]]]]. exists b'. split; [exact E|]. split.
  - unfold reduce_rebuild, make_array in E. rewrite W in E. unfold wf_built.
    destruct (b_any b); cbn [b_dtypes] in E; destruct (odt_eqb (b_cat b) (b_dtypes b)); inversion E; subst; cbn [b_dimstr b_dims]; exact W.
  - exact (same_meaning b b' Hd Ht Ha Hc).
Qed.

(* sent again and again (a worker that receives an annotation and passes it on, a cache of pickles, copy of a copy) *)
Fixpoint resend (n : nat) (b : built) : mres :=
  match n with
  | O => MBuilt b
  | S k => match reduce_rebuild b with MBuilt b' => resend k b' | x => x end
  end.

Theorem resend_accepts_same : forall n b, wf_built b ->
  exists b', resend n b = MBuilt b' /\ wf_built b' /\
             (forall st cls v s, check_built st b' cls v s = check_built st b cls v s) /\
             (forall st x s, accepts_one st (MBuilt b') x s = accepts_one st (MBuilt b) x s).
Proof.
  induction n as [|n IH]; intros b W; cbn [resend].
  - exists b. repeat split; auto.
  - destruct (reducer_accepts_same b W) as [b1 [E [W1 [G1 A1]]]]. rewrite E.
    destruct (IH b1 W1) as [b2 [E2 [W2 [G2 A2]]]]. exists b2. split; [exact E2|]. split; [exact W2|]. split.
    + intros st cls v s. now rewrite G2, G1.
    + intros st x s. now rewrite A2, A1.
Qed.

(* non-vacuity: Shaped[Float32or64[A, "a"], "b"] sent three times still rejects float16 and accepts float32 of shape (2, 3) *)
Example resend_nonvacuous :
  match make_array (Some ["float32"; "float64"]) (TClass 1) "a" with
  | MBuilt b1 => match make_array None (TNested b1) "b" with
                 | MBuilt b => match resend 3 b with
                               | MBuilt b' => (show_verdict (accepts_one [] (MBuilt b') (VArr 1 (mkvalue true true "float32" [2; 3]%Z)) [empty_memo]),
                                               show_verdict (accepts_one [] (MBuilt b') (VArr 1 (mkvalue true true "float16" [2; 3]%Z)) [empty_memo]),
                                               show_verdict (accepts_one [] (MBuilt b') (VArr 2 (mkvalue true true "float32" [2; 3]%Z)) [empty_memo]))
                               | _ => ("", "", "")
                               end
                 | _ => ("", "", "")
                 end
  | _ => ("", "", "")
  end = ("acc", "rej", "rej").
Proof. vm_compute. reflexivity. Qed.

(* ---------- C15, at the level of what is ACCEPTED: D2[D1[A, s1], s2] against (D1 n D2)[A, "s2 s1"] ---------- *)
Lemma flat_dtypes d A s b : (A = TAny \/ exists id, A = TClass id) -> make_array d A s = MBuilt b -> b_dtypes b = d.
Proof.
  intros HA H. unfold make_array in H. destruct (parse_dims s) as [d0|c]; [|discriminate].
  destruct HA as [->|[id ->]]; inversion H; reflexivity.
Qed.

Theorem nest_accepts_same D1 D2 A s1 s2 b1 b :
  (A = TAny \/ exists id, A = TClass id) ->
  make_array D1 A s1 = MBuilt b1 -> make_array D2 (TNested b1) s2 = MBuilt b ->
  exists dt bflat, inter D2 D1 = Some dt /\ make_array dt A (s2 ++ " " ++ s1) = MBuilt bflat /\
    (forall st cls v s, check_built st b cls v s = check_built st bflat cls v s) /\
    (forall st x s, accepts_one st (MBuilt b) x s = accepts_one st (MBuilt bflat) x s).
Proof.
  intros HA H1 H2. pose proof (nest_law D1 D2 A s1 s2 b1 HA H1) as N. rewrite H2 in N.
  destruct N as [dt [Hi [Hdt [bflat [Hm [Hd [Ha [Hc Hs]]]]]]]]. exists dt, bflat. split; [exact Hi|]. split; [exact Hm|].
  apply same_meaning; [now rewrite Hd | now rewrite Hdt, (flat_dtypes dt A _ bflat HA Hm) | now rewrite Ha | intros _; now rewrite Hc].
Qed.

(* LabelFacts.v -- the '?'-axis keys "(Leaf i in structure T) name" (C16). *)
From JT Require Import model.PyTreeCheck proofs.CheckFacts proofs.DimLangFacts.
From Coq Require Import Lia DecimalString DecimalZ DecimalPos.
Open Scope string_scope.

(* ---------- strings ---------- *)
Lemma app_cancel_l (a x y : string) : a ++ x = a ++ y -> x = y.
Proof. induction a as [|c a IH]; cbn; [auto | intros H; inversion H; auto]. Qed.

Definition nochar (c : ascii) (s : string) : Prop := mem_char c s = false.

(* split at the first occurrence of a character that occurs in neither prefix *)
Lemma split_at_char c : forall a b x y,
  nochar c a -> nochar c b -> a ++ String c x = b ++ String c y -> a = b /\ x = y.
Proof.
  unfold nochar. induction a as [|d a IH]; intros b x y Ha Hb H.
  - destruct b as [|e b]; cbn in H.
    + inversion H. auto.
    + inversion H; subst. cbn in Hb. rewrite Ascii.eqb_refl in Hb. discriminate.
  - destruct b as [|e b]; cbn in H.
    + inversion H; subst. cbn in Ha. rewrite Ascii.eqb_refl in Ha. discriminate.
    + inversion H; subst. cbn in Ha, Hb. apply orb_false_iff in Ha as [_ Ha]. apply orb_false_iff in Hb as [_ Hb].
      destruct (IH _ _ _ Ha Hb H2) as [-> ->]. auto.
Qed.

(* ---------- decimal rendering ---------- *)
Lemma uint_digits d : all_chars is_digit (NilEmpty.string_of_uint d) = true.
Proof. induction d; cbn; auto. Qed.

Lemma ns_digits i : all_chars is_digit (ns i) = true.
Proof.
  unfold ns, zs. destruct (Z.of_nat i) eqn:E; cbn.
  - reflexivity.
  - unfold NilZero.string_of_uint. destruct (Pos.to_uint p) eqn:Ep; try apply uint_digits. reflexivity.
  - lia.
Qed.

Lemma digits_no_space s : all_chars is_digit s = true -> nochar " " s.
Proof.
  unfold nochar. induction s as [|c s IH]; cbn [all_chars mem_char]; [reflexivity|]. intros H. apply andb_true_iff in H as [Hc Hs].
  rewrite (IH Hs), orb_false_r. destruct (Ascii.eqb " " c) eqn:E; [|reflexivity].
  apply Ascii.eqb_eq in E. subst c. discriminate Hc.
Qed.

Lemma zs_inj a b : zs a = zs b -> a = b.
Proof.
  unfold zs. intros H. apply DecimalZ.to_int_inj.
  assert (Hn : forall z, Z.to_int z <> Decimal.Pos Decimal.Nil /\ Z.to_int z <> Decimal.Neg Decimal.Nil).
  { intros [|p|p]; cbn; split; try discriminate; intros E; inversion E as [E']; exact (Unsigned.to_uint_nonnil _ E'). }
  destruct (Hn a) as [Ha1 Ha2], (Hn b) as [Hb1 Hb2].
  pose proof (NilZero.isi _ Ha1 Ha2) as Ia. pose proof (NilZero.isi _ Hb1 Hb2) as Ib.
  rewrite H in Ia. congruence.
Qed.

Lemma ns_inj i j : ns i = ns j -> i = j.
Proof. unfold ns. intros H. apply zs_inj in H. lia. Qed.

(* ---------- the keys ---------- *)
Definition qkey (i : nat) (structure name : string) : string := label_of i structure ++ name.

(* a '?' key is never a plain axis name (plain names are identifiers, or empty) *)
Theorem qkey_not_plain i t n : is_identifier (qkey i t n) = false /\ qkey i t n <> "".
Proof. split; [reflexivity | discriminate]. Qed.

Lemma label_shape i t n :
  qkey i t n = "(Leaf " ++ (ns i ++ String " " ("in structure " ++ (t ++ String ")" (String " " n)))).
Proof.
  unfold qkey, label_of. rewrite !append_assoc. reflexivity.
Qed.

(* keys are injective in (leaf position, structure string, axis name) *)
Theorem qkey_inj i j t t' n n' :
  nochar ")" t -> nochar ")" t' ->
  qkey i t n = qkey j t' n' -> i = j /\ t = t' /\ n = n'.
Proof.
  intros Ht Ht' H. rewrite !label_shape in H. apply app_cancel_l in H.
  destruct (split_at_char " " _ _ _ _ (digits_no_space _ (ns_digits i)) (digits_no_space _ (ns_digits j)) H) as [Hij Hrest].
  apply ns_inj in Hij. apply app_cancel_l in Hrest.
  destruct (split_at_char ")" _ _ _ _ Ht Ht' Hrest) as [-> Hn]. inversion Hn. auto.
Qed.

(* structure strings that pass validation contain no ')' *)
Lemma identifier_no_paren s : is_identifier s = true -> nochar ")" s.
Proof.
  unfold nochar. destruct s as [|c s]; [discriminate|]. cbn [is_identifier]. intros H. apply andb_true_iff in H as [Hc Hs].
  assert (G : forall s, all_chars is_alnum_ s = true -> mem_char ")" s = false).
  { induction s0 as [|d s0 IH]; cbn [all_chars mem_char]; [reflexivity|]. intros H0. apply andb_true_iff in H0 as [Hd H0]. rewrite (IH H0), orb_false_r.
    destruct (Ascii.eqb ")" d) eqn:E; [|reflexivity]. apply Ascii.eqb_eq in E. subst d. discriminate Hd. }
  cbn [mem_char]. rewrite (G _ Hs), orb_false_r. destruct (Ascii.eqb ")" c) eqn:E; [|reflexivity].
  apply Ascii.eqb_eq in E. subst c. discriminate Hc.
Qed.

(* ---------- consequences for the single-axis memo ---------- *)
(* a binding made for one (position, structure, name) is invisible at every other one, and to every plain name *)
Theorem qkey_independent (sm : alist Z) i j t t' n n' v :
  nochar ")" t -> nochar ")" t' -> (i, t, n) <> (j, t', n') ->
  aget (aset sm (qkey i t n) v) (qkey j t' n') = aget sm (qkey j t' n').
Proof.
  intros Ht Ht' Hne. rewrite aget_aset. destruct (String.eqb (qkey j t' n') (qkey i t n)) eqn:E; [|reflexivity].
  apply String.eqb_eq in E. destruct (qkey_inj _ _ _ _ _ _ Ht' Ht E) as [-> [-> ->]]. contradiction.
Qed.

Theorem qkey_plain_independent (sm : alist Z) i t n v p :
  (is_identifier p = true \/ p = "") ->
  aget (aset sm (qkey i t n) v) p = aget sm p /\ aget (aset sm p v) (qkey i t n) = aget sm (qkey i t n).
Proof.
  intros Hp. assert (Hne : p <> qkey i t n).
  { intros ->. destruct Hp as [H|H]; [now rewrite (proj1 (qkey_not_plain i t n)) in H | exact (proj2 (qkey_not_plain i t n) H)]. }
  rewrite !aget_aset. split.
  - destruct (String.eqb p (qkey i t n)) eqn:E; [apply String.eqb_eq in E; contradiction | reflexivity].
  - destruct (String.eqb (qkey i t n) p) eqn:E; [apply String.eqb_eq in E; symmetry in E; contradiction | reflexivity].
Qed.

(* where the key comes from: a '?' dim under the label of leaf i of structure t *)
Theorem dkey_is_qkey i t n : dkey (Some (label_of i t)) n true = Some (qkey i t n) /\ dkey (Some (label_of i t)) n false = Some n.
Proof. split; reflexivity. Qed.

(* outside a structured PyTree (no label) a '?' axis raises AnnotationError unless excused by #-and-size-1 *)
Theorem question_outside_raises st args n bc z sm :
  bc && (z =? 1)%Z = false -> dim_step None st args (DNamed n bc true) z sm = SRaise AnnotationErr.
Proof. intros H. cbn. now rewrite H. Qed.

(* beneath two structured PyTrees: the inner leaf loop finds the label already set *)
Theorem question_beneath_two_raises ischeck str leaf r i s lbl :
  ps_path s = Some lbl -> leaf_loop ischeck (Some str) (leaf :: r) i s = (Raise AnnotationErr, s).
Proof. intros H. cbn. now rewrite H. Qed.

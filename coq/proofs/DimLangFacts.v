(* DimLangFacts.v -- lemmas about the dim-string parser model (C14; reused by C15/C20). *)
From JT Require Import model.DimLang.
From Coq Require Import Lia Permutation.
Open Scope string_scope.

(* ------------------------------------------------------------------ tokens *)

Lemma append_nil_r (s : string) : s ++ "" = s.
Proof. induction s as [|c s IH]; cbn; [reflexivity | now rewrite IH]. Qed.

Lemma append_assoc (a b c : string) : (a ++ b) ++ c = a ++ (b ++ c).
Proof. induction a as [|x a IH]; cbn; [reflexivity | now rewrite IH]. Qed.

Lemma tokens_app_ws (a b : string) (w : ascii) (cur : string) :
  is_ws w = true ->
  tokens (a ++ String w b) cur = (tokens a cur ++ tokens b "")%list.
Proof.
  intros Hw. revert cur. induction a as [|c a IH]; intros cur; cbn [append tokens].
  - rewrite Hw. reflexivity.
  - destruct (is_ws c) eqn:E.
    + rewrite IH. rewrite app_assoc. reflexivity.
    + apply IH.
Qed.

Lemma tokens_all_ws (a : string) : all_chars is_ws a = true -> tokens a "" = [].
Proof.
  induction a as [|c a IH]; cbn; [reflexivity|].
  intros H. apply andb_true_iff in H as [Hc Ha]. rewrite Hc. cbn. auto.
Qed.

Lemma tokens_app_ws_cur (a b : string) (cur : string) :
  all_chars is_ws a = true -> a <> "" ->
  tokens (a ++ b) cur = (flush cur ++ tokens b "")%list.
Proof.
  revert cur. induction a as [|c a IH]; intros cur Hall Hne; [congruence|].
  cbn in Hall. apply andb_true_iff in Hall as [Hc Ha].
  cbn [append tokens]. rewrite Hc. destruct a as [|d a'].
  - cbn [append]. reflexivity.
  - rewrite (IH "" Ha); [reflexivity | discriminate].
Qed.

(* whitespace is insignificant: leading, trailing and repeated *)
Theorem split_ws_leading (w b : string) :
  all_chars is_ws w = true -> split_ws (w ++ b) = split_ws b.
Proof.
  intros H. unfold split_ws. destruct w as [|c w']; [reflexivity|].
  rewrite tokens_app_ws_cur; [reflexivity | assumption | discriminate].
Qed.

Theorem split_ws_sep (a w b : string) :
  all_chars is_ws w = true -> w <> "" ->
  split_ws (a ++ w ++ b) = (split_ws a ++ split_ws b)%list.
Proof.
  intros Hall Hne. unfold split_ws. destruct w as [|c w']; [congruence|].
  cbn in Hall. apply andb_true_iff in Hall as [Hc Hw].
  cbn [append]. rewrite tokens_app_ws by assumption.
  f_equal. fold (split_ws (w' ++ b)). apply split_ws_leading. assumption.
Qed.

Theorem split_ws_trailing (a w : string) :
  all_chars is_ws w = true -> split_ws (a ++ w) = split_ws a.
Proof.
  intros Hall. destruct w as [|c w'].
  - now rewrite append_nil_r.
  - replace (a ++ String c w') with (a ++ String c w' ++ "") by now rewrite append_nil_r.
    rewrite split_ws_sep; [| assumption | discriminate].
    unfold split_ws at 2. cbn. now rewrite app_nil_r.
Qed.

(* parse_dims is a function of the token list only *)
Lemma parse_dims_tokens (s t : string) : split_ws s = split_ws t -> parse_dims s = parse_dims t.
Proof. unfold parse_dims. intros ->. reflexivity. Qed.

Theorem parse_dims_ws_invariant (w1 a w2 : string) :
  all_chars is_ws w1 = true -> all_chars is_ws w2 = true ->
  parse_dims (w1 ++ a ++ w2) = parse_dims a.
Proof.
  intros H1 H2. apply parse_dims_tokens.
  rewrite split_ws_leading by assumption. apply split_ws_trailing. assumption.
Qed.

Theorem parse_dims_sep_invariant (a w w' b : string) :
  all_chars is_ws w = true -> w <> "" -> all_chars is_ws w' = true -> w' <> "" ->
  parse_dims (a ++ w ++ b) = parse_dims (a ++ w' ++ b).
Proof.
  intros. apply parse_dims_tokens. rewrite !split_ws_sep by assumption. reflexivity.
Qed.

(* ------------------------------------------------------------------ modifiers *)

Inductive modc := MHash | MStar | MUnder | MQuest.

Definition char_of_mod (m : modc) : ascii :=
  match m with MHash => "#" | MStar => "*" | MUnder => "_" | MQuest => "?" end%char.

Fixpoint mods (m : list modc) : string :=
  match m with [] => "" | x :: r => String (char_of_mod x) (mods r) end.

Definition set_flag (x : modc) (f : flags) : flags + nat :=
  match x with
  | MHash => if f_bc f then inr 4 else inl (mkflags true (f_var f) (f_anon f) (f_tp f))
  | MStar => if f_var f then inr 5 else inl (mkflags (f_bc f) true (f_anon f) (f_tp f))
  | MUnder => if f_anon f then inr 6 else inl (mkflags (f_bc f) (f_var f) true (f_tp f))
  | MQuest => if f_tp f then inr 7 else inl (mkflags (f_bc f) (f_var f) (f_anon f) true)
  end.

Fixpoint apply_mods (m : list modc) (f : flags) : flags + nat :=
  match m with
  | [] => inl f
  | x :: r => match set_flag x f with inl f' => apply_mods r f' | inr c => inr c end
  end.

(* the loop consumes a run of modifier characters exactly as apply_mods says *)
Lemma strip_mods (m : list modc) (base : string) (f : flags) :
  strip (mods m ++ base) f =
  match apply_mods m f with inl f' => strip base f' | inr c => SErr c end.
Proof.
  revert f. induction m as [|x m IH]; intros f; [reflexivity|].
  cbn [mods append apply_mods].
  destruct x; cbn [strip char_of_mod set_flag Ascii.eqb Bool.eqb];
    match goal with |- context [if ?b then SErr _ else _] => destruct b end;
    try reflexivity; apply IH.
Qed.

(* both fail, or both succeed with the same flags *)
Definition mods_equiv (a b : flags + nat) : Prop :=
  match a, b with inl x, inl y => x = y | inr _, inr _ => True | _, _ => False end.

Lemma mods_equiv_refl a : mods_equiv a a.
Proof. destruct a; cbn; auto. Qed.
Lemma mods_equiv_trans a b c : mods_equiv a b -> mods_equiv b c -> mods_equiv a c.
Proof. destruct a, b, c; cbn; intros; subst; auto; contradiction. Qed.

Lemma apply_mods_swap x y m f :
  mods_equiv (apply_mods (x :: y :: m) f) (apply_mods (y :: x :: m) f).
Proof.
  destruct f as [[] [] [] []], x, y; cbn; try apply mods_equiv_refl; exact I.
Qed.

Theorem apply_mods_perm m1 m2 :
  Permutation m1 m2 -> forall f, mods_equiv (apply_mods m1 f) (apply_mods m2 f).
Proof.
  induction 1 as [| x l l' HP IH | x y l | l l' l'' H1 IH1 H2 IH2]; intros f.
  - apply mods_equiv_refl.
  - cbn [apply_mods]. destruct (set_flag x f) as [f'|c]; [apply IH | exact I].
  - apply apply_mods_swap.
  - eapply mods_equiv_trans; [apply IH1 | apply IH2].
Qed.

(* a repeated modifier is always an error, wherever it stands *)
Theorem apply_mods_dup m f : ~ NoDup m -> exists c, apply_mods m f = inr c.
Proof.
  revert f. induction m as [|x m IH]; intros f Hnd.
  - exfalso. apply Hnd. constructor.
  - cbn [apply_mods]. destruct (set_flag x f) as [f'|c] eqn:E; [|eauto].
    destruct (in_dec (fun a b : modc => ltac:(decide equality) : {a = b} + {a <> b}) x m) as [Hin|Hnin].
    + (* x occurs again later: its flag is now set, so the later occurrence fails *)
      clear IH Hnd. revert f' E. revert f.
      assert (G : forall m f', In x m ->
                 (match x with MHash => f_bc f' | MStar => f_var f' | MUnder => f_anon f' | MQuest => f_tp f' end) = true ->
                 exists c, apply_mods m f' = inr c).
      { clear. induction m as [|y m IH]; intros f' Hin Hset; [destruct Hin|].
        cbn [apply_mods]. destruct Hin as [->|Hin].
        - destruct x; cbn [set_flag]; rewrite Hset; eauto.
        - destruct (set_flag y f') as [f''|c] eqn:E; [|eauto].
          apply IH; [assumption|].
          destruct x, y; cbn in E;
            repeat match type of E with context [if ?b then _ else _] => destruct b eqn:? end;
            inversion E; subst; cbn; congruence. }
      intros f f' E. apply G; [assumption|].
      destruct x; cbn in E;
        repeat match type of E with context [if ?b then _ else _] => destruct b eqn:? end;
        inversion E; subst; reflexivity.
    + apply IH. intros Hm. apply Hnd. constructor; assumption.
Qed.

(* ------------------------------------------------------------------ whole-token tests *)

Lemma mem_char_mods c m base :
  (forall x, char_of_mod x <> c) -> mem_char c (mods m ++ base) = mem_char c base.
Proof.
  intros H. induction m as [|x m IH]; [reflexivity|]. cbn [mods append mem_char].
  destruct (Ascii.eqb_spec c (char_of_mod x)) as [E|E]; [exfalso; eapply H; eauto|]. exact IH.
Qed.

Lemma has_dots_mods m base : has_dots (mods m ++ base) = has_dots base.
Proof.
  induction m as [|x m IH]; [reflexivity|]. cbn [mods append].
  destruct x; cbn [char_of_mod has_dots]; exact IH.
Qed.

Lemma mods_dots_neq x m base : String.eqb (mods (x :: m) ++ base) "..." = false.
Proof. destruct x; reflexivity. Qed.

(* results of parse_token agree up to the identity of the error *)
Definition res_equiv {A} (a b : res A) : Prop :=
  match a, b with Ok x, Ok y => x = y | Err _, Err _ => True | _, _ => False end.

Lemma res_equiv_refl {A} (a : res A) : res_equiv a a.
Proof. destruct a; cbn; auto. Qed.

Theorem parse_token_modifier_order m1 m2 base :
  Permutation m1 m2 ->
  ends_with_char "#" (mods m1 ++ base) = false ->
  ends_with_char "#" (mods m2 ++ base) = false ->
  res_equiv (parse_token (mods m1 ++ base)) (parse_token (mods m2 ++ base)).
Proof.
  intros HP H1 H2. unfold parse_token.
  rewrite !mem_char_mods by (intros []; discriminate).
  rewrite H1, H2, !has_dots_mods.
  destruct (mem_char "," base && negb (mem_char "(" base)); [exact I|].
  destruct (has_dots base).
  - destruct m1 as [|x m1].
    + apply Permutation_nil in HP. subst. apply res_equiv_refl.
    + destruct m2 as [|y m2]; [apply Permutation_sym, Permutation_nil in HP; discriminate|].
      rewrite !mods_dots_neq. exact I.
  - rewrite !strip_mods.
    pose proof (apply_mods_perm m1 m2 HP no_flags) as HE.
    destruct (apply_mods m1 no_flags), (apply_mods m2 no_flags); cbn in HE; try contradiction; subst.
    + apply res_equiv_refl.
    + exact I.
Qed.

(* ------------------------------------------------------------------ name= prefix *)

(* text without '=' and not starting with a modifier character *)
Definition plain_start (s : string) : bool :=
  match s with
  | EmptyString => false
  | String c _ => negb (Ascii.eqb c "#" || Ascii.eqb c "*" || Ascii.eqb c "_" || Ascii.eqb c "?" || Ascii.eqb c "=")%char
  end.

Lemma count_eq_app a b : count_char "=" (a ++ b) = count_char "=" a + count_char "=" b.
Proof. induction a as [|c a IH]; cbn [append count_char]; [reflexivity | rewrite IH; lia]. Qed.

Lemma strip_skip_eq (name rest : string) (f : flags) :
  count_char "=" name = 0 ->
  (fix skip (t : string) : stripres :=
     match t with
     | EmptyString => SDone f EmptyString
     | String d t' => if Ascii.eqb d "="%char then strip t' f else skip t'
     end) (name ++ String "=" rest) = strip rest f.
Proof.
  induction name as [|c name IH]; intros H0.
  - reflexivity.
  - cbn [append]. cbn [count_char] in H0.
    destruct (Ascii.eqb_spec "="%char c) as [E|E]; [discriminate|].
    destruct (Ascii.eqb_spec c "="%char) as [E'|E']; [congruence|].
    apply IH. lia.
Qed.

(* one `name=` prefix is ignored (the loop then continues, so modifiers may follow it) *)
Theorem strip_doc_prefix (name rest : string) (f : flags) :
  plain_start name = true -> count_char "=" name = 0 -> count_char "=" rest = 0 ->
  strip (name ++ String "=" rest) f = strip rest f.
Proof.
  intros Hp Hn Hr. destruct name as [|c name]; [discriminate|].
  cbn [plain_start] in Hp. cbn [append].
  assert (Hc : count_char "=" (String c (name ++ String "=" rest)) = 1).
  { change (String c (name ++ String "=" rest)) with (String c name ++ String "=" rest).
    rewrite count_eq_app. cbn [count_char] in *. rewrite Hr.
    destruct (Ascii.eqb "="%char "="%char) eqn:E; [lia | discriminate]. }
  cbn [strip].
  apply negb_true_iff in Hp. repeat (apply orb_false_iff in Hp as [Hp ?]).
  repeat match goal with H : Ascii.eqb c _ = false |- _ => rewrite H; clear H end.
  rewrite Hc. cbn [Nat.eqb].
  apply strip_skip_eq.
  cbn [count_char] in Hn. destruct (Ascii.eqb "="%char c); lia.
Qed.

(* ------------------------------------------------------------------ concatenation (C15/C20) *)

Definition has_iv (o : option nat) : bool := match o with Some _ => true | None => false end.

Lemma parse_tokens_app (t1 t2 : list string) :
  forall index iv d1 iv1,
  parse_tokens t1 index iv = Ok (d1, iv1) ->
  parse_tokens (t1 ++ t2)%list index iv =
  match parse_tokens t2 (index + length t1) iv1 with
  | Err c => Err c
  | Ok (d2, iv2) => Ok ((d1 ++ d2)%list, iv2)
  end.
Proof.
  induction t1 as [|e t1 IH]; intros index iv d1 iv1 H.
  - cbn in H. inversion H; subst. cbn [app length]. rewrite Nat.add_0_r.
    destruct (parse_tokens t2 index iv1) as [[d2 iv2]|c]; reflexivity.
  - cbn [app parse_tokens] in *.
    destruct (parse_token e) as [t|c]; [|discriminate].
    destruct (build_dim _ t) as [d|c]; [|discriminate].
    destruct (parse_tokens t1 (S index) _) as [[dl ivf]|c] eqn:E; [|discriminate].
    inversion H; subst. rewrite (IH _ _ _ _ E).
    cbn [length]. replace (S index + length t1) with (index + S (length t1)) by lia.
    destruct (parse_tokens t2 _ iv1) as [[d2 iv2]|c]; reflexivity.
Qed.

Lemma parse_tokens_length t : forall index iv d ivf,
  parse_tokens t index iv = Ok (d, ivf) -> length d = length t.
Proof.
  induction t as [|e t IH]; intros index iv d ivf H; cbn in H.
  - inversion H; reflexivity.
  - destruct (parse_token e) as [tk|c]; [|discriminate].
    destruct (build_dim _ tk) as [dd|c]; [|discriminate].
    destruct (parse_tokens t _ _) as [[dl i]|c] eqn:E; [|discriminate].
    inversion H; subst. cbn. f_equal. eapply IH; eauto.
Qed.

(* ------------------------------------------------------------------ illegal forms *)

Theorem repeated_modifier_rejected m base :
  ~ NoDup m -> exists c, parse_token (mods m ++ base) = Err c.
Proof.
  intros Hnd. unfold parse_token.
  destruct (mem_char "," (mods m ++ base) && negb (mem_char "(" (mods m ++ base))); [eauto|].
  destruct (ends_with_char "#" (mods m ++ base)); [eauto|].
  rewrite has_dots_mods. destruct (has_dots base).
  - destruct m as [|x m]; [exfalso; apply Hnd; constructor|].
    rewrite mods_dots_neq. eauto.
  - rewrite strip_mods. destruct (apply_mods_dup m no_flags Hnd) as [c ->]. eauto.
Qed.

Definition tok_variadic (e : string) : bool :=
  match parse_token e with Ok (f, _, _) => f_var f | Err _ => false end.

Theorem second_variadic_rejected t : forall index i,
  existsb tok_variadic t = true -> exists c, parse_tokens t index (Some i) = Err c.
Proof.
  induction t as [|e t IH]; intros index i H; [discriminate|].
  cbn [existsb] in H. cbn [parse_tokens].
  unfold tok_variadic in H at 1.
  destruct (parse_token e) as [[[f rest] ty]|c] eqn:E; [|eauto].
  destruct (f_var f) eqn:Fv.
  - unfold build_dim. rewrite Fv. cbn. eauto.
  - cbn [orb] in H.
    destruct (build_dim true (f, rest, ty)) as [d|c] eqn:B; [|eauto].
    assert (Hd : is_variadic d = false).
    { unfold build_dim in B. rewrite Fv in B. cbn [andb] in B.
      destruct ty; repeat match type of B with context [if ?b then _ else _] => destruct b end;
        inversion B; reflexivity. }
    rewrite Hd. destruct (IH (S index) i H) as [c ->]. eauto.
Qed.

Theorem fixed_modifiers_rejected sv f rest z :
  f_var f || f_anon f || f_tp f = true -> exists c, build_dim sv (f, rest, TFixed z) = Err c.
Proof.
  intros H. unfold build_dim. destruct (f_var f && sv); [eauto|].
  destruct (f_var f); [eauto|]. destruct (f_anon f); [eauto|]. destruct (f_tp f); [eauto|]. discriminate.
Qed.

Theorem symbolic_modifiers_rejected sv f rest :
  f_var f || f_anon f || f_tp f = true -> exists c, build_dim sv (f, rest, TSym) = Err c.
Proof.
  intros H. unfold build_dim. destruct (f_var f && sv); [eauto|].
  destruct (f_anon f); [eauto|]. destruct (f_var f); [eauto|]. destruct (f_tp f); [eauto|]. discriminate.
Qed.

Theorem anonymous_broadcastable_rejected sv f rest :
  f_anon f = true -> f_bc f = true -> exists c, build_dim sv (f, rest, TNamed) = Err c.
Proof.
  intros Ha Hb. unfold build_dim. destruct (f_var f && sv); [eauto|]. rewrite Ha, Hb. eauto.
Qed.

(* legal tokens: exactly these succeed (build_dim is total and its successes are listed) *)
Theorem build_dim_ok_iff sv f rest ty d :
  build_dim sv (f, rest, ty) = Ok d <->
  (f_var f && sv = false) /\
  match ty with
  | TFixed z => f_var f = false /\ f_anon f = false /\ f_tp f = false /\ d = DFixed z (f_bc f)
  | TSym => f_var f = false /\ f_anon f = false /\ f_tp f = false /\ d = DSym rest (f_bc f)
  | TNamed =>
      (f_anon f = true /\ f_bc f = false /\ d = (if f_var f then DVarAnon else DAnon)) \/
      (f_anon f = false /\ d = (if f_var f then DVarNamed rest (f_bc f) (f_tp f) else DNamed rest (f_bc f) (f_tp f)))
  end.
Proof.
  unfold build_dim. destruct (f_var f && sv) eqn:E0.
  - split; [discriminate | intros [H _]; discriminate].
  - destruct ty, (f_var f), (f_anon f), (f_tp f), (f_bc f); cbn;
      split; intros H; try discriminate;
      repeat match goal with
             | H : _ /\ _ |- _ => destruct H
             | H : _ \/ _ |- _ => destruct H
             end; try discriminate; subst; try reflexivity;
      try (inversion H; subst; split; [reflexivity|]; tauto).
Qed.

(* ------------------------------------------------------------------ index_variadic is in range *)
Lemma parse_tokens_iv : forall toks index iv dl ivf,
  parse_tokens toks index iv = Ok (dl, ivf) ->
  forall i, ivf = Some i -> iv = Some i \/ (index <= i < index + length dl)%nat.
Proof.
  induction toks as [|e r IH]; intros index iv dl ivf H i Hi; cbn in H.
  - inversion H; subst. left. reflexivity.
  - destruct (parse_token e) as [t|c]; [|discriminate].
    destruct (build_dim _ t) as [d|c]; [|discriminate].
    destruct (parse_tokens r (S index) (if is_variadic d then Some index else iv)) as [[dl' ivf']|c] eqn:E; [|discriminate].
    inversion H; subst. cbn [length].
    destruct (IH _ _ _ _ E i eq_refl) as [Hl|Hr].
    + destruct (is_variadic d); [inversion Hl; subst; right; lia | left; assumption].
    + right. lia.
Qed.

Theorem parse_dims_ivar_in_range s d : parse_dims s = Ok d -> forall i, ivar d = Some i -> (i < length (ds d))%nat.
Proof.
  unfold parse_dims. destruct (parse_tokens (split_ws s) 0 None) as [[dl iv]|c] eqn:E; [|discriminate].
  intros H i Hi. inversion H; subst. cbn in *.
  destruct (parse_tokens_iv _ _ _ _ _ E i Hi) as [Hc|Hr]; [discriminate | lia].
Qed.

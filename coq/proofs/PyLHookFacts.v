(* PyLHookFacts.v -- interpreting the term generated from the source of _JaxtypingFinder.should_instrument computes
   model/HookScope.v's should_instrument. *)
From JT Require Import model.PyL gen.ShouldInstrumentSrc model.HookScope.
Open Scope string_scope.
Set Default Timeout 60.

Lemma str_prefix_starts_with p : forall s, str_prefix p s = starts_with p s.
Proof. induction p as [|a p IH]; intros [|b s]; cbn; try reflexivity; rewrite IH; reflexivity. Qed.

Definition si_body : list pstmt := match should_instrument_src with [SForIn _ _ b; _] => b | _ => [] end.

Section H.
Variables (lbl : option string) (st : symtab) (call : string -> list pval -> option (pres * list pval)).

Lemma exec_forin x a body env :
  exec lbl st call (SForIn x a body) env =
  match evale lbl env a with
  | RVal (VStrs l) => for_in (exec_list lbl st call body) x l env
  | RVal _ => ORaise OtherExc env
  | RExn ex => ORaise ex env
  end.
Proof. reflexivity. Qed.

Lemma loop_si names : forall m env, env "module_name" = Some (VS m) ->
  if should_instrument names m
  then exists env2, for_in (exec_list lbl st call si_body) "module" names env = OReturn (VB true) env2
  else exists env2, for_in (exec_list lbl st call si_body) "module" names env = ONormal env2 /\ env2 "module_name" = Some (VS m).
Proof.
  induction names as [|n r IH]; intros m env Hm; cbn [should_instrument existsb for_in].
  - eexists; split; [reflexivity | exact Hm].
  - unfold si_body. unfold should_instrument_src.
    cbn [exec_list exec evale upd truthy val_eqb String.eqb Ascii.eqb Bool.eqb andb].
    rewrite !Hm. cbn [val_eqb]. unfold matches_name at 1. repeat match goal with |- context [str_prefix ?a ?b] => rewrite (str_prefix_starts_with a b) end.
    destruct (String.eqb m n) eqn:E1; cbn [orb truthy].
    + eauto.
    + destruct (starts_with (n ++ ".") m) eqn:E2; cbn [orb truthy].
      * eauto.
      * specialize (IH m (upd env "module" (VS n))). unfold should_instrument in IH.
        destruct (existsb (matches_name m) r); apply IH; cbn; exact Hm.
Qed.

Theorem should_instrument_src_refines_model names m env :
  env "self" = Some (VFinder names) -> env "module_name" = Some (VS m) ->
  exists env2, run_body_with call lbl st should_instrument_src env = OReturn (VB (should_instrument names m)) env2.
Proof.
  intros Hs Hm. unfold run_body_with.
  change should_instrument_src with [SForIn "module" (PAttr (PVar "self") "modules") si_body; SReturn (PBool false)].
  cbn [exec_list]. rewrite exec_forin. cbn [evale]. rewrite Hs. cbn [String.eqb Ascii.eqb Bool.eqb andb].
  pose proof (loop_si names m env Hm) as H. destruct (should_instrument names m).
  - destruct H as [env2 ->]. eauto.
  - destruct H as [env2 [-> _]]. cbn. eauto.
Qed.
End H.

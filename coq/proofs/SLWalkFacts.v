(* SLWalkFacts.v -- the two brackets of _MetaPyTree._check as regenerated from the source (gen/StorageSrc.v: walk_src): the
   flatten bracket (set_treeflatten_memo(); try: tree_flatten finally: clear_treeflatten_memo()) and the leaf loop
   (try: for i, leaf in enumerate(leaves): set_treepath_memo / leaf check / clear_treepath_memo finally: clear_treepath_memo()).
   The code they call out to (jtu.tree_flatten with the leaf predicate, the leaf check) is an arbitrary function `ext`; for the
   leaf loop it is assumed to SIMULATE the model's leaf check on the abstraction of the store. *)
From JT Require Import model.SL gen.StorageSrc model.Threads proofs.SLFacts.
Open Scope string_scope.

(* ---------- the flatten bracket ---------- *)
Lemma flatten_bracket_spec ext obj s :
  run_ext ext walk_src "flatten_bracket" [obj] s =
  Some (let '(r, s1) := ext "tree_flatten" [obj] (with_flatv s (SVBool true)) in
        (match r with
         | SRVal (SVTuple [_; _]) => SRVal SVNone
         | SRVal _ => SRExn XOther
         | SRExn x => SRExn x
         end, with_flatv s1 (SVBool false))).
Proof.
  destruct s as [st pa fl]. unfold run_ext, run_fun, with_flatv. cbn.
  match goal with |- context [ext ?f ?a ?st0] => destruct (ext f a st0) as [[v|x] s1] end; cbn; [|destruct s1; reflexivity].
  destruct v as [| | | | |[|a [|b [|c t]]]| |]; cbn; destruct s1; reflexivity.
Qed.

(* whatever tree_flatten and the leaf predicate do: they run with the flag on, and the flag is off afterwards -- on normal
   completion and on every exception *)
Theorem flatten_bracket_as_in_source ext obj s :
  wf_cells s ->
  exists r s', run_ext ext walk_src "flatten_bracket" [obj] s = Some (r, s') /\
    let s0 := with_flatv s (SVBool true) in
    abs_store s0 = with_flat (abs_store s) true /\
    abs_store s' = with_flat (abs_store (snd (ext "tree_flatten" [obj] s0))) false /\
    ps_flat (abs_store s') = false /\
    (forall x, fst (ext "tree_flatten" [obj] s0) = SRExn x -> r = SRExn x).
Proof.
  intros W. rewrite flatten_bracket_spec.
  destruct (ext "tree_flatten" [obj] (with_flatv s (SVBool true))) as [r1 s1] eqn:E.
  eexists _, _. split; [reflexivity|]. cbn zeta. rewrite E. cbn [snd fst].
  split; [reflexivity|]. split; [reflexivity|]. split; [reflexivity|].
  intros x Hx. subst r1. reflexivity.
Qed.

(* ---------- the leaf loop ---------- *)
Definition leaf_body_stmts : list sstmt :=
  match f_body src_pytree_leaf_loop with
  | [STryFinally [SForEnum _ _ _ b] _; _] => b
  | _ => []
  end.

Definition leaf_body (ext : extern_t) : senv -> tls -> sout :=
  fun env s => exec_list (run_depth ext walk_src 2) ext env s leaf_body_stmts.

Definition loop_finish (o : sout) : slres * tls :=
  match o with
  | SONormal _ s' => (SRVal (SVBool true), with_pathv s' SVNone)
  | SOReturn v s' => (SRVal v, with_pathv s' SVNone)
  | SORaise x s' => (SRExn x, with_pathv s' SVNone)
  end.

Definition loop_env0 (sv : sval) (lvs : list sval) : senv := supd (supd (fun _ => None) "structure" sv) "leaves" (SVList lvs).

Lemma leaf_loop_unfold ext sv lvs s :
  run_ext ext walk_src "leaf_loop" [sv; SVList lvs] s =
  Some (loop_finish (for_enum (leaf_body ext) "leaf_index" "leaf" lvs 0 (loop_env0 sv lvs) s)).
Proof.
  unfold run_ext, run_fun, leaf_body, loop_env0. cbn -[for_enum].
  match goal with |- context [for_enum ?b ?i ?x ?l ?k ?e ?st] => destruct (for_enum b i x l k e st) as [e' s'|v s'|x' s'] end;
    destruct s'; reflexivity.
Qed.

Definition leaf_step2 (ext : extern_t) (env : senv) (v : sval) (s1 : tls) : sout :=
  let '(r, s2) := ext "is_check_leaftype" [v] s1 in
  match r with
  | SRVal (SVBool true) => SONormal env (with_pathv s2 SVNone)
  | SRVal (SVBool false) => SOReturn (SVBool false) s2
  | SRVal _ => SORaise XOther s2
  | SRExn x => SORaise x s2
  end.

(* one iteration, for an annotation without a structure name (cls.structure is None) and with one *)
Lemma leaf_body_none ext env v (k : nat) s :
  env "structure" = Some SVNone -> env "leaf" = Some v ->
  leaf_body ext env s = leaf_step2 ext env v s.
Proof.
  intros Hs Hl. unfold leaf_body, leaf_step2. cbn. rewrite Hs. cbn. rewrite Hl.
  destruct (ext "is_check_leaftype" [v] s) as [[r|x] s2]; [|reflexivity].
  destruct r as [|[|]| | | | | |]; try reflexivity; destruct s2; reflexivity.
Qed.

Lemma leaf_body_some ext env v (k : nat) str s :
  env "structure" = Some (SVStr str) -> env "leaf" = Some v -> env "leaf_index" = Some (SVInt (Z.of_nat k)) ->
  leaf_body ext env s =
  if path_set s then SORaise XAnnotation s
  else leaf_step2 ext env v (with_pathv s (SVStr (label_of k str))).
Proof.
  intros Hs Hl Hi. unfold leaf_body, leaf_step2. cbn. rewrite Hs. cbn. rewrite Hi. cbn.
  destruct s as [st [[]|] fl]; cbn; try reflexivity;
    unfold with_pathv, label_of, ns; cbn; rewrite ?sapp_assoc; cbn; rewrite Hl;
    match goal with |- context [ext ?f ?a ?st0] => destruct (ext f a st0) as [[r|x] s2] end; try reflexivity;
    (destruct r as [|[|]| | | | | |]; try reflexivity; destruct s2; reflexivity).
Qed.

Section Sim.
Variables (ext : extern_t) (ischeck : ptree -> pstore -> verdict * pstore) (leafof : sval -> ptree).

Definition enc_exn (e : exn) : sexn := match e with AnnotationErr => XAnnotation | BaseExc => XBase | _ => XOther end.
Definition res_of (vd : verdict) : slres :=
  match vd with Acc => SRVal (SVBool true) | Rej => SRVal (SVBool false) | Raise e => SRExn (enc_exn e) end.

(* the leaf check outside the fragment simulates the model's leaf check on the abstraction of the store *)
Hypothesis ext_sim : forall v s, wf_cells s ->
  let '(r, s') := ext "is_check_leaftype" [v] s in
  let '(vd, p') := ischeck (leafof v) (abs_store s) in
  r = res_of vd /\ abs_store s' = p' /\ wf_cells s'.

Definition struct_rel (sv : sval) (structure : option string) : Prop :=
  match structure with None => sv = SVNone | Some str => sv = SVStr str end.

Definition out_rel (o : sout) (vd : verdict) (p' : pstore) : Prop :=
  match o with
  | SONormal _ s' => vd = Acc /\ abs_store s' = p' /\ wf_cells s'
  | SOReturn v s' => v = SVBool false /\ vd = Rej /\ abs_store s' = p' /\ wf_cells s'
  | SORaise x s' => exists e, vd = Raise e /\ x = enc_exn e /\ abs_store s' = p' /\ wf_cells s'
  end.

Lemma wf_with_pathv s v : wf_cells s -> (v = SVNone \/ exists p, v = SVStr p) -> wf_cells (with_pathv s v).
Proof. intros [_ W2] H. split; [|exact W2]. destruct H as [->|[p ->]]; [right; left; reflexivity | right; right; eexists; reflexivity]. Qed.

Lemma step2_sim env v s :
  wf_cells s ->
  let '(vd1, p1) := ischeck (leafof v) (abs_store s) in
  match leaf_step2 ext env v s with
  | SONormal env' s' => env' = env /\ vd1 = Acc /\ abs_store s' = with_path p1 None /\ wf_cells s'
  | o => out_rel o vd1 p1 /\ vd1 <> Acc
  end.
Proof.
  intros W. pose proof (ext_sim v s W) as H. unfold leaf_step2.
  destruct (ext "is_check_leaftype" [v] s) as [r s2]. destruct (ischeck (leafof v) (abs_store s)) as [vd1 p1].
  destruct H as [-> [H2 H3]]. destruct vd1 as [| |e]; cbn.
  - split; [reflexivity|]. split; [reflexivity|]. split; [rewrite <- H2; reflexivity|].
    apply wf_with_pathv; [exact H3 | left; reflexivity].
  - split; [|discriminate]. split; [reflexivity|]. split; [reflexivity|]. split; assumption.
  - split; [|discriminate]. exists e. split; [reflexivity|]. split; [reflexivity|]. split; assumption.
Qed.

Lemma loop_sim sv structure : struct_rel sv structure ->
  forall lvs k env s, env "structure" = Some sv -> wf_cells s ->
  let '(vd, p') := leaf_loop ischeck structure (map leafof lvs) k (abs_store s) in
  out_rel (for_enum (leaf_body ext) "leaf_index" "leaf" lvs k env s) vd p'.
Proof.
  intros SR lvs. induction lvs as [|v r IH]; intros k env s He W.
  - cbn. split; [reflexivity|]. split; [reflexivity | exact W].
  - cbn [map leaf_loop for_enum].
    set (env2 := supd (supd env "leaf_index" (SVInt (Z.of_nat k))) "leaf" v).
    assert (E1 : env2 "structure" = Some sv) by (unfold env2, supd; cbn; exact He).
    assert (E2 : env2 "leaf" = Some v) by reflexivity.
    assert (E3 : env2 "leaf_index" = Some (SVInt (Z.of_nat k))) by reflexivity.
    destruct structure as [str|]; cbn in SR; subst sv.
    + rewrite (leaf_body_some ext env2 v k str s E1 E2 E3), (path_set_abs s W).
      destruct (ps_path (abs_store s)) as [p0|] eqn:P.
      * cbn. exists AnnotationErr. split; [reflexivity|]. split; [reflexivity|]. split; [reflexivity | exact W].
      * assert (W1 : wf_cells (with_pathv s (SVStr (label_of k str)))) by (apply wf_with_pathv; [exact W | right; eexists; reflexivity]).
        pose proof (step2_sim env2 v _ W1) as H.
        change (abs_store (with_pathv s (SVStr (label_of k str)))) with (with_path (abs_store s) (Some (label_of k str))) in H.
        destruct (ischeck (leafof v) (with_path (abs_store s) (Some (label_of k str)))) as [vd1 p1].
        destruct (leaf_step2 ext env2 v (with_pathv s (SVStr (label_of k str)))) as [env' s'|v' s'|x' s'].
        -- destruct H as [-> [-> [H2 H3]]]. specialize (IH (S k) env2 s' E1 H3). rewrite H2 in IH. exact IH.
        -- destruct H as [H Hn]. destruct vd1; [contradiction| |]; exact H.
        -- destruct H as [H Hn]. destruct vd1; [contradiction| |]; exact H.
    + rewrite (leaf_body_none ext env2 v k s E1 E2).
      pose proof (step2_sim env2 v s W) as H.
      assert (M : forall A (a b : A), match ps_path (abs_store s) with Some _ => a | None => a end = a) by (intros; destruct (ps_path (abs_store s)); reflexivity).
      destruct (ischeck (leafof v) (abs_store s)) as [vd1 p1].
      destruct (leaf_step2 ext env2 v s) as [env' s'|v' s'|x' s'].
      * destruct H as [-> [-> [H2 H3]]]. specialize (IH (S k) env2 s' E1 H3). rewrite H2 in IH. exact IH.
      * destruct H as [H Hn]. destruct vd1; [contradiction| |]; exact H.
      * destruct H as [H Hn]. destruct vd1; [contradiction| |]; exact H.
Qed.
End Sim.

(* the whole fragment: the loop, its `finally: clear_treepath_memo()` and `return True` -- it computes the model's leaf_loop
   followed by with_path .. None, for every list of leaves, every starting state and every leaf check that simulates the
   model's; True / False / the exception correspond to Acc / Rej / Raise *)
Theorem leaf_loop_as_in_source ext ischeck leafof :
  (forall v s, wf_cells s ->
     let '(r, s') := ext "is_check_leaftype" [v] s in
     let '(vd, p') := ischeck (leafof v) (abs_store s) in
     r = res_of vd /\ abs_store s' = p' /\ wf_cells s') ->
  forall sv structure lvs s, struct_rel sv structure -> wf_cells s ->
  exists r s', run_ext ext walk_src "leaf_loop" [sv; SVList lvs] s = Some (r, s') /\
    let '(vd, p') := leaf_loop ischeck structure (map leafof lvs) 0 (abs_store s) in
    r = res_of vd /\ abs_store s' = with_path p' None /\ wf_cells s'.
Proof.
  intros Sim sv structure lvs s SR W. rewrite leaf_loop_unfold.
  pose proof (loop_sim ext ischeck leafof Sim sv structure SR lvs 0 (loop_env0 sv lvs) s eq_refl W) as H.
  destruct (leaf_loop ischeck structure (map leafof lvs) 0 (abs_store s)) as [vd p'].
  destruct (for_enum (leaf_body ext) "leaf_index" "leaf" lvs 0 (loop_env0 sv lvs) s) as [env' s'|v s'|x s']; cbn in H; cbn [loop_finish].
  - destruct H as [-> [H2 H3]]. eexists _, _. split; [reflexivity|]. split; [reflexivity|]. split; [rewrite <- H2; reflexivity|].
    apply wf_with_pathv; [exact H3 | left; reflexivity].
  - destruct H as [-> [-> [H2 H3]]]. eexists _, _. split; [reflexivity|]. split; [reflexivity|]. split; [rewrite <- H2; reflexivity|].
    apply wf_with_pathv; [exact H3 | left; reflexivity].
  - destruct H as [e [-> [-> [H2 H3]]]]. eexists _, _. split; [reflexivity|]. split; [reflexivity|]. split; [rewrite <- H2; reflexivity|].
    apply wf_with_pathv; [exact H3 | left; reflexivity].
Qed.

(* non-vacuity: a leaf check that accepts ints below 2 and binds nothing simulates itself; three leaves, structure "T" *)
Example leaf_loop_runs :
  let ext : extern_t := fun f args s =>
    match args with [SVInt z] => (SRVal (SVBool (z <? 2)%Z), s) | _ => (SRExn XOther, s) end in
  let s0 := mktls (Some [SVTuple [SVDict DEmpty; SVDict DEmpty; SVDict DEmpty; SVDict DEmpty]]) None None in
  option_map fst (run_ext ext walk_src "leaf_loop" [SVStr "T"; SVList [SVInt 0; SVInt 1]] s0) = Some (SRVal (SVBool true)) /\
  option_map fst (run_ext ext walk_src "leaf_loop" [SVStr "T"; SVList [SVInt 0; SVInt 5; SVInt 1]] s0) = Some (SRVal (SVBool false)) /\
  option_map (fun x => t_path (snd x)) (run_ext ext walk_src "leaf_loop" [SVStr "T"; SVList [SVInt 0; SVInt 5; SVInt 1]] s0) = Some (Some SVNone) /\
  option_map fst (run_ext ext walk_src "leaf_loop" [SVStr "T"; SVList [SVInt 0]] (mktls None (Some (SVStr "(Leaf 3 in structure S) ")) None)) = Some (SRExn XAnnotation).
Proof. vm_compute. repeat split. Qed.

(* SourceShapeFacts.v -- with the rollback structure read from the source (gen/Brackets.v) the parametrised checks are
   the model's checks, hence restore; without it they provably do not. *)
From JT Require Import model.SourceShape proofs.CheckFacts proofs.PyTreeFacts.
Open Scope string_scope.

Lemma instancecheck_src_true flat lbl st a v s : instancecheck_src true flat lbl st a v s = instancecheck flat lbl st a v s.
Proof. reflexivity. Qed.

Theorem instancecheck_src_restores rb flat lbl st a v s vd s' :
  rb = true -> instancecheck_src rb flat lbl st a v s = (vd, s') -> vd <> Acc -> s' = s.
Proof. intros -> H. rewrite instancecheck_src_true in H. eapply instancecheck_not_acc_restores; eauto. Qed.

(* without the rollback a rejected check leaves the axes it had matched so far bound *)
Theorem instancecheck_src_false_refuted : exists flat lbl st a v s vd s',
  instancecheck_src false flat lbl st a v s = (vd, s') /\ vd <> Acc /\ s' <> s.
Proof.
  destruct (parse_dims "a b a") as [d|] eqn:E; [|vm_compute in E; discriminate].
  exists false, None, [], (mkannot false None d false), (mkvalue true true "float32" [2; 3; 4]%Z), [empty_memo].
  vm_compute in E. injection E as <-. eexists. eexists. split; [vm_compute; reflexivity|]. split; discriminate.
Qed.

Lemma pytree_check_src_true st l sopt x s : pytree_check_src st true l sopt x s = leafmatch st (LPyTree l sopt) x s.
Proof. rewrite leafmatch_pytree. reflexivity. Qed.

Theorem pytree_check_src_restores rb st l sopt x s vd s' :
  rb = true -> pytree_check_src st rb l sopt x s = (vd, s') -> vd <> Acc -> ps_stack s' = ps_stack s.
Proof. intros -> H. rewrite pytree_check_src_true in H. eapply pytree_reject_restores; eauto. Qed.

Theorem pytree_check_src_false_refuted : exists st l sopt x s vd s',
  pytree_check_src st false l sopt x s = (vd, s') /\ vd <> Acc /\ ps_stack s' <> ps_stack s.
Proof.
  exists [], (LArr (AC None "a")), None,
         (Node KTuple [Leaf (PArr (mkvalue true true "float32" [3]%Z)); Leaf (PArr (mkvalue true true "float32" [4]%Z))]),
         (mkps [(empty_memo, [])] None false).
  eexists. eexists. split; [vm_compute; reflexivity|]. split; discriminate.
Qed.

(* SourceShapeFacts.v -- with the rollback structure read from the source (gen/Brackets.v) the parametrised checks are
   the model's checks, hence restore; without it they provably do not. *)
From JT Require Import model.SourceShape proofs.CheckFacts proofs.PyTreeFacts.
Open Scope string_scope.

Lemma instancecheck_src_true flat lbl st a v s : instancecheck_src true flat lbl st a v s = instancecheck flat lbl st a v s.
Proof. reflexivity. Qed.

Theorem instancecheck_src_restores rb flat lbl st a v s vd s' :
  rb = true -> instancecheck_src rb flat lbl st a v s = (vd, s') -> vd <> Acc -> s' = s.
Proof. intros -> H. rewrite instancecheck_src_true in H. eapply instancecheck_not_acc_restores; eauto. Qed.

(* without the rollback a rejected check leaves the axes it had matched so far bound *)
Theorem instancecheck_src_false_refuted : exists flat lbl st a v s vd s',
  instancecheck_src false flat lbl st a v s = (vd, s') /\ vd <> Acc /\ s' <> s.
Proof.
  destruct (parse_dims "a b a") as [d|] eqn:E; [|vm_compute in E; discriminate].
  exists false, None, [], (mkannot false None d false), (mkvalue true true "float32" [2; 3; 4]%Z), [empty_memo].
  vm_compute in E. injection E as <-. eexists. eexists. split; [vm_compute; reflexivity|]. split; discriminate.
Qed.

Lemma pytree_check_src_true st l sopt x s : pytree_check_src st true l sopt x s = leafmatch st (LPyTree l sopt) x s.
Proof. rewrite leafmatch_pytree. reflexivity. Qed.

Theorem pytree_check_src_restores rb st l sopt x s vd s' :
  rb = true -> pytree_check_src st rb l sopt x s = (vd, s') -> vd <> Acc -> ps_stack s' = ps_stack s.
Proof. intros -> H. rewrite pytree_check_src_true in H. eapply pytree_reject_restores; eauto. Qed.

Theorem pytree_check_src_false_refuted : exists st l sopt x s vd s',
  pytree_check_src st false l sopt x s = (vd, s') /\ vd <> Acc /\ ps_stack s' <> ps_stack s.
Proof.
  exists [], (LArr (AC None "a")), None,
         (Node KTuple [Leaf (PArr (mkvalue true true "float32" [3]%Z)); Leaf (PArr (mkvalue true true "float32" [4]%Z))]),
         (mkps [(empty_memo, [])] None false).
  eexists. eexists. split; [vm_compute; reflexivity|]. split; discriminate.
Qed.

(* ---------- the transient flags ---------- *)
Lemma pytree_check_flags_true st l sopt x s : pytree_check_flags st true l sopt x s = leafmatch st (LPyTree l sopt) x s.
Proof.
  rewrite leafmatch_pytree. unfold pytree_check_flags, pytree_body_flags, pytree_body.
  destruct x as [a|k cs]; [|destruct k; try reflexivity; destruct cs; try reflexivity];
  cbv zeta; destruct (flatten_with _ _ _) as [[fl s1] e]; destruct fl as [[lv sx]|]; try reflexivity;
  destruct (top_frame (with_flat s1 false)) as [m tm];
  destruct (match sopt with None => StOk tm | Some str => structure_step (read_structure str) sx tm end); try reflexivity;
  destruct (leaf_loop _ _ _ _ _) as [vd s4]; destruct vd; reflexivity.
Qed.

Theorem pytree_check_flags_reset fp st l sopt x s vd s' :
  fp = true -> pytree_check_flags st fp l sopt x s = (vd, s') ->
  (ps_flat s = false -> ps_flat s' = false) /\ (ps_path s = None -> ps_path s' = None).
Proof.
  intros -> H. rewrite pytree_check_flags_true in H. split; intros H0.
  - eapply check_leaves_flatten_mode_off; eauto.
  - eapply check_leaves_no_leaf_position; eauto.
Qed.

(* without the finally around the leaf loop: a structured tree whose second leaf does not match leaves the '?'-leaf
   position SET *)
Theorem leaf_position_without_finally_refuted : exists st l sopt x s vd s',
  pytree_check_flags st false l sopt x s = (vd, s') /\ ps_path s = None /\ ps_path s' <> None.
Proof.
  exists [], (LArr (AC None "a")), (Some "T"),
         (Node KTuple [Leaf (PArr (mkvalue true true "float32" [3]%Z)); Leaf (PArr (mkvalue true true "float32" [4]%Z))]),
         (mkps [(empty_memo, [])] None false).
  eexists. eexists. split; [vm_compute; reflexivity|]. split; [reflexivity | discriminate].
Qed.

(* ---------- the disabled wrapper ---------- *)
Theorem wrapper_trace_src_transparent early d n1 n2 c :
  early = true -> d || n1 || n2 = true -> wrapper_trace_src early d n1 n2 c = [EBody].
Proof. intros -> H. unfold wrapper_trace_src, wrapper_trace. rewrite H. reflexivity. Qed.

Theorem late_disable_test_refuted : exists d n1 n2 c, d || n1 || n2 = true /\ wrapper_trace_src false d n1 n2 c <> [EBody].
Proof. exists true, false, false, (mkcall true true false true). split; [reflexivity | discriminate]. Qed.

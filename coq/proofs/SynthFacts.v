(* SynthFacts.v -- generated names never collide (C07). *)
From JT Require Import model.Synth model.PyTreeCheck proofs.LabelFacts.
From Coq Require Import Lia.
Open Scope string_scope.
Open Scope nat_scope.

Lemma smem_In s l : smem s l = true <-> In s l.
Proof. unfold smem. rewrite existsb_exists. split.
  - intros [x [Hi He]]. apply String.eqb_eq in He. now subst.
  - intros H. exists s. split; [assumption | apply String.eqb_refl]. Qed.

Lemma cand_inj p i j : cand p i = cand p j -> i = j.
Proof. unfold cand. intros H. apply app_cancel_l in H. now apply ns_inj. Qed.

Lemma gensym_from_spec names p : forall f i,
  ~ In (gensym_from names p f i) names \/ (forall j, i <= j <= i + f -> In (cand p j) names).
Proof.
  induction f as [|f IH]; intros i; cbn [gensym_from].
  - destruct (smem (cand p i) names) eqn:E.
    + right. intros j Hj. assert (j = i) by lia. subst. now apply smem_In.
    + left. intros H. apply smem_In in H. congruence.
  - destruct (smem (cand p i) names) eqn:E.
    + destruct (IH (S i)) as [H|H]; [left; exact H|]. right. intros j Hj.
      destruct (Nat.eq_dec j i) as [->|Hn]; [now apply smem_In | apply H; lia].
    + left. intros H. apply smem_In in H. congruence.
Qed.

(* _gensym returns a name that is not taken -- whatever the taken names are (T0, default0, ret0, the function's own name ...) *)
Theorem gensym_fresh names p : ~ In (gensym names p) names.
Proof.
  unfold gensym. destruct (gensym_from_spec names p (length names) 0) as [H|H]; [exact H|]. exfalso.
  set (L := map (cand p) (seq 0 (S (length names)))).
  assert (Hnd : NoDup L).
  { unfold L. apply FinFun.Injective_map_NoDup; [intros a b; apply cand_inj | apply seq_NoDup]. }
  assert (Hincl : incl L names).
  { intros x Hx. unfold L in Hx. apply in_map_iff in Hx as [j [<- Hj]]. apply in_seq in Hj. apply H. lia. }
  pose proof (NoDup_incl_length Hnd Hincl) as Hlen. unfold L in Hlen. rewrite map_length, seq_length in Hlen. lia.
Qed.

Theorem gensym_is_candidate names p : exists i, gensym names p = cand p i /\ i <= length names.
Proof.
  unfold gensym. assert (G : forall f i, exists k, gensym_from names p f i = cand p k /\ i <= k <= i + f).
  { induction f as [|f IH]; intros i; cbn [gensym_from]; [exists i; split; [reflexivity | lia]|].
    destruct (smem (cand p i) names); [destruct (IH (S i)) as [k [Hk Hr]]; exists k; split; [exact Hk | lia] | exists i; split; [reflexivity | lia]]. }
  destruct (G (length names) 0) as [k [Hk Hr]]. exists k. split; [exact Hk | lia].
Qed.

(* every generated annotation / default name is different from every parameter name, from the function's name,
   and from every other generated name *)
Theorem gen_names_fresh params : forall n scope,
  NoDup (generated (gen_names scope params n)) /\
  forall g, In g (generated (gen_names scope params n)) -> ~ In g scope /\ ~ In g params.
Proof.
  induction n as [|n IH]; intros scope; cbn [gen_names generated flat_map]; [split; [constructor | intros g []]|].
  set (a := gensym (scope ++ params) "T").
  set (d := gensym ((a :: scope) ++ params) "default").
  pose proof (gensym_fresh (scope ++ params) "T") as Ha. fold a in Ha.
  pose proof (gensym_fresh ((a :: scope) ++ params) "default") as Hd. fold d in Hd.
  destruct (IH (d :: a :: scope)) as [Hnd Hfresh]. fold (generated (gen_names (d :: a :: scope) params n)) in *.
  cbn [fst snd app].
  assert (Had : a <> d) by (intros E; apply Hd; rewrite <- E; left; reflexivity).
  split.
  - constructor.
    + intros [E|Hi]; [congruence|]. destruct (Hfresh a Hi) as [Hs _]. apply Hs. right. left. reflexivity.
    + constructor; [|exact Hnd]. intros Hi. destruct (Hfresh d Hi) as [Hs _]. apply Hs. left. reflexivity.
  - intros g [<-|[<-|Hi]].
    + split; intros Hc; apply Ha; apply in_or_app; auto.
    + split; intros Hc; apply Hd; [right; apply in_or_app; auto | apply in_or_app; right; exact Hc].
    + destruct (Hfresh g Hi) as [Hs Hp]. split; [|exact Hp]. intros Hc. apply Hs. right. right. exact Hc.
Qed.

(* the def is written under a name that cannot clash with a parameter *)
Theorem def_name_fresh name params : ~ In (def_name false name params) params.
Proof. apply gensym_fresh. Qed.

Example gensym_collisions :
  gen_names ["T1"] ["x"; "T0"; "default0"; "T2"] 3 = [("T3", "default1"); ("T4", "default2"); ("T5", "default3")] /\
  gensym ["x"; "ret0"; "ret1"] "ret" = "ret2".
Proof. split; vm_compute; reflexivity. Qed.

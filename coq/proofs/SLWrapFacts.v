(* SLWrapFacts.v -- the wrapper that jaxtyped(typechecker=...)(fn) returns (jaxtyping/_decorator.py: the new-style wrapped_fn), as
   regenerated from the source (gen/StorageSrc.v: src_wrapped_fn).  Everything it calls that is not a storage accessor -- the
   disable switch, the no_type_check tests, signature binding, the wrapped function, wrapped_fn_impl -- is an arbitrary function
   `ext` of its arguments and the store. *)
From JT Require Import model.SL gen.StorageSrc model.Threads proofs.SLFacts.
Open Scope string_scope.

Definition truthy (r : slres * tls) (kt kf : tls -> slres * tls) : slres * tls :=
  match r with
  | (SRVal (SVBool true), s) => kt s
  | (SRVal (SVBool false), s) => kf s
  | (SRVal _, s) => (SRExn XOther, s)
  | (SRExn x, s) => (SRExn x, s)
  end.

Section Wrap.
Variable ext : extern_t.
Variables (a k c f p h i : sval).      (* args, kwargs and the closure variables config, fn, param_signature, wrapped_fn_holder, wrapped_fn_impl *)

(* checking is off for this call: the wrapper IS the call of the wrapped function -- no context is pushed or popped *)
Definition transparent_call (s : tls) : slres * tls := ext "fn" [a; k] s.

(* checking is on: bind (errors surface before any context exists), push a context holding the bound arguments, run
   wrapped_fn_impl in it, pop -- always, whatever wrapped_fn_impl returned or raised *)
Definition checked_call (s : tls) : slres * tls :=
  match ext "param_signature.bind" [a; k] s with
  | (SRExn x, s1) => (SRExn x, s1)
  | (SRVal b, s1) =>
      match ext "bound.apply_defaults" [] s1 with
      | (SRExn x, s2) => (SRExn x, s2)
      | (SRVal _, s2) =>
          match ext "bound.arguments" [] s2 with
          | (SRExn x, s3) => (SRExn x, s3)
          | (SRVal (SVDict d), s3) =>
              let fr := new_frame d in
              let s4 := with_stack s3 (Some (stack_or_nil s3 ++ [fr])%list) in
              let '(r, s5) := ext "wrapped_fn_impl" [a; k; b; fr] s4 in
              match t_stack s5 with
              | None => (SRExn XAttribute, s5)
              | Some [] => (SRExn XIndex, s5)
              | Some l => (r, with_stack s5 (Some (removelast l)))
              end
          | (SRVal _, s3) => (SRExn XOther, with_stack s3 (Some (stack_or_nil s3)))
          end
      end
  end.

Definition wrapped_spec (s : tls) : slres * tls :=
  truthy (ext "config.jaxtyping_disable" [] s) transparent_call (fun s1 =>
  truthy (ext "getattr" [f; SVStr "__no_type_check__"; SVBool false] s1) transparent_call (fun s2 =>
  match ext "wrapped_fn_holder[0]" [] s2 with
  | (SRExn x, s3) => (SRExn x, s3)
  | (SRVal hv, s3) => truthy (ext "getattr" [hv; SVStr "__no_type_check__"; SVBool false] s3) transparent_call checked_call
  end)).

Ltac ext_step :=
  match goal with
  | |- context [ext ?g ?l ?st] => let v := fresh "v" in let x := fresh "x" in let s' := fresh "s" in
                                   destruct (ext g l st) as [[v|x] s'] eqn:?; cbn
  end.

Theorem wrapped_fn_as_in_source s :
  run_ext ext wrapped_src "wrapped_fn" [a; k; c; f; p; h; i] s = Some (wrapped_spec s).
Proof.
  unfold run_ext, run_fun, wrapped_spec, truthy, transparent_call, checked_call, new_frame, with_stack, stack_or_nil. cbn.
  ext_step; [|reflexivity]. destruct v as [|[|]| | | | | |]; cbn; try reflexivity.
  { destruct (ext "fn" [a; k] s0) as [[v|x] s1]; reflexivity. }
  ext_step; [|reflexivity]. destruct v as [|[|]| | | | | |]; cbn; try reflexivity.
  { destruct (ext "fn" [a; k] s1) as [[v|x] s2]; reflexivity. }
  ext_step; [|reflexivity].
  ext_step; [|reflexivity]. destruct v0 as [|[|]| | | | | |]; cbn; try reflexivity.
  { destruct (ext "fn" [a; k] s3) as [[v0|x] s4]; reflexivity. }
  ext_step; [|reflexivity].
  ext_step; [|reflexivity].
  ext_step; [|reflexivity].
  destruct v2 as [| | | |d| | |]; cbn; try (destruct s6 as [[l6|] pa6 fl6]; reflexivity).
  destruct s6 as [[l|] pa fl]; cbn; unfold with_stack; cbn.
  - match goal with |- context [ext ?g ?l0 ?st] => destruct (ext g l0 st) as [[v2|x] s7] end; cbn;
      destruct s7 as [[[|y t]|] pa7 fl7]; reflexivity.
  - match goal with |- context [ext ?g ?l0 ?st] => destruct (ext g l0 st) as [[v2|x] s7] end; cbn;
      destruct s7 as [[[|y t]|] pa7 fl7]; reflexivity.
Qed.

(* switched off (by the global switch): the decorated call is literally the call of the wrapped function in the store the switch
   test left -- the wrapper touches no context, whatever the wrapped function does *)
Corollary wrapped_fn_disabled_is_the_plain_call s s1 :
  ext "config.jaxtyping_disable" [] s = (SRVal (SVBool true), s1) ->
  run_ext ext wrapped_src "wrapped_fn" [a; k; c; f; p; h; i] s = Some (ext "fn" [a; k] s1).
Proof. intros H. rewrite wrapped_fn_as_in_source. unfold wrapped_spec, truthy. rewrite H. reflexivity. Qed.

(* switched on: once the arguments are bound the wrapper pushes exactly one context holding them, and pops exactly one after
   wrapped_fn_impl -- whether that returned or raised *)
Corollary checked_call_brackets s b s1 v s2 d s3 :
  ext "param_signature.bind" [a; k] s = (SRVal b, s1) ->
  ext "bound.apply_defaults" [] s1 = (SRVal v, s2) ->
  ext "bound.arguments" [] s2 = (SRVal (SVDict d), s3) ->
  let s4 := with_stack s3 (Some (stack_or_nil s3 ++ [new_frame d])%list) in
  abs_stack s4 = push_memo (abs_stack s3) (dA d) /\
  forall r s5, ext "wrapped_fn_impl" [a; k; b; new_frame d] s4 = (r, s5) -> abs_stack s5 <> [] ->
    exists s', checked_call s = (r, s') /\ abs_stack s' = pop_memo (abs_stack s5) /\
               ps_path (abs_store s') = ps_path (abs_store s5) /\ ps_flat (abs_store s') = ps_flat (abs_store s5).
Proof.
  intros H1 H2 H3 s4. split.
  - destruct (push_refines s3 d _ _ (push_shape_memo_spec s3 d)) as [P _]. unfold abs_stack. fold s4 in P. rewrite P. reflexivity.
  - intros r s5 H5 N. unfold checked_call. rewrite H1, H2, H3. fold s4. rewrite H5.
    destruct s5 as [[[|y t]|] pa5 fl5].
    + exfalso. apply N. reflexivity.
    + eexists. split; [reflexivity|]. unfold with_stack; cbn [t_stack t_path t_flat].
      unfold abs_stack. rewrite (abs_stack_pop y t pa5 fl5).
      destruct (ps_stack (abs_store (mktls (Some (y :: t)) pa5 fl5))); repeat split; reflexivity.
    + exfalso. apply N. reflexivity.
Qed.
End Wrap.

(* ---------- the wrapper leaves the depth of the context stack as it found it ---------- *)
Lemma abs_stack_push s fr : abs_stack (with_stack s (Some (stack_or_nil s ++ [fr])%list)) = fst (dec_frame fr) :: abs_stack s.
Proof. unfold abs_stack, abs_store, stack_or_nil at 1; cbn [t_stack with_stack ps_stack]. rewrite rev_map_app_one. reflexivity. Qed.

Lemma abs_stack_pop' y t pa fl : abs_stack (mktls (Some (removelast (y :: t))) pa fl) = tl (abs_stack (mktls (Some (y :: t)) pa fl)).
Proof. unfold abs_stack. rewrite abs_stack_pop. destruct (ps_stack (abs_store (mktls (Some (y :: t)) pa fl))); reflexivity. Qed.

Lemma abs_stack_touch s : abs_stack (with_stack s (Some (stack_or_nil s))) = abs_stack s.
Proof. destruct s as [[l|] pa fl]; reflexivity. Qed.

Lemma pop_len s n (r : slres) r0 s' :
  length (abs_stack s) = S n ->
  match t_stack s with
  | None => (SRExn XAttribute, s)
  | Some [] => (SRExn XIndex, s)
  | Some l => (r, with_stack s (Some (removelast l)))
  end = (r0, s') ->
  length (abs_stack s') = n.
Proof.
  destruct s as [[[|y t]|] pa fl]; intros L H; try (cbn in L; discriminate).
  injection H as _ <-. unfold with_stack; cbn [t_stack t_path t_flat].
  change (match t with [] => [] | _ :: _ => y :: removelast t end) with (removelast (y :: t)). rewrite abs_stack_pop'.
  destruct (abs_stack (mktls (Some (y :: t)) pa fl)); cbn in *; [discriminate | injection L; auto].
Qed.

Section Neutral.
Variable ext : extern_t.
(* everything outside the fragment leaves the DEPTH of the context stack as it found it (it may rebind inside frames) *)
Hypothesis ext_neutral : forall g l st, length (abs_stack (snd (ext g l st))) = length (abs_stack st).

Theorem wrapped_fn_stack_neutral a k c f p h i s r s' :
  run_ext ext wrapped_src "wrapped_fn" [a; k; c; f; p; h; i] s = Some (r, s') ->
  length (abs_stack s') = length (abs_stack s).
Proof.
  rewrite wrapped_fn_as_in_source. unfold wrapped_spec, truthy, transparent_call, checked_call.
  repeat match goal with
         | |- context [ext ?g ?l ?st] =>
             let E := fresh "E" in let N := fresh "N" in
             pose proof (ext_neutral g l st) as N; destruct (ext g l st) as [[?v|?x] ?s0] eqn:E; cbn [snd] in N
         | |- context [match ?v with SVNone => _ | _ => _ end] => destruct v
         | |- context [if ?b then _ else _] => destruct b
         end; try (intros H; injection H as <- <-; congruence);
  try (intros H; injection H as <- <-; rewrite abs_stack_touch; congruence).
  all: intros H; injection H as H;
    match goal with
    | N : length (abs_stack ?s10) = length (abs_stack (with_stack ?s9 (Some (stack_or_nil ?s9 ++ [?fr])%list))) |- _ =>
        rewrite abs_stack_push in N; cbn [length] in N; rewrite (pop_len s10 _ _ _ _ N H); congruence
    end.
Qed.
End Neutral.

(* ---------- the old-style wrapper, jaxtyped(typechecker(fn)): PARTIAL -- the paths on which the wrapped function returns or raises a
   BaseException; on the `except Exception as e:` path the handler (which only reads the context to add a note) is not covered by
   a theorem, only by the interpreter-vs-CPython correspondence ---------- *)
Section Old.
Variable ext : extern_t.
Variables (a k p3 p4 p5 p6 p7 p8 p9 p10 : sval).

Theorem old_wrapped_fn_brackets_partial s b s1 v s2 d s3 r s5 :
  ext "signature.bind" [a; k] s = (SRVal b, s1) ->
  ext "bound.apply_defaults" [] s1 = (SRVal v, s2) ->
  ext "bound.arguments" [] s2 = (SRVal (SVDict d), s3) ->
  let s4 := with_stack s3 (Some (stack_or_nil s3 ++ [new_frame d])%list) in
  ext "fn" [a; k] s4 = (r, s5) ->
  (exists w, r = SRVal w) \/ r = SRExn XBase ->
  abs_stack s5 <> [] ->
  exists s', run_ext ext wrapped_src "old_wrapped_fn" [a; k; p3; p4; p5; p6; p7; p8; p9; p10] s = Some (r, s') /\
             abs_stack s' = pop_memo (abs_stack s5) /\
             ps_path (abs_store s') = ps_path (abs_store s5) /\ ps_flat (abs_store s') = ps_flat (abs_store s5).
Proof.
  intros H1 H2 H3 s4 H5 Hr N. subst s4.
  destruct s3 as [[l|] pa fl]; unfold with_stack, stack_or_nil, new_frame in H5; cbn in H5;
    unfold run_ext, run_fun; cbn; rewrite H1; cbn; rewrite H2; cbn; rewrite H3; cbn; unfold with_stack; cbn; rewrite H5;
    (destruct Hr as [[w ->] | ->]; cbn;
     (destruct s5 as [[[|y t]|] pa5 fl5]; [exfalso; apply N; reflexivity | | exfalso; apply N; reflexivity];
      eexists; split; [reflexivity|]; unfold with_stack; cbn [t_stack t_path t_flat];
      change (match t with [] => [] | _ :: _ => y :: removelast t end) with (removelast (y :: t));
      unfold abs_stack, abs_store; cbn [stack_or_nil t_stack t_path t_flat ps_stack ps_path ps_flat];
      rewrite map_removelast, rev_removelast; destruct (rev (map dec_frame (y :: t))); repeat split; reflexivity)).
Qed.
End Old.

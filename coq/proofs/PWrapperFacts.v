(* PWrapperFacts.v -- the error path of the decorator with PyTree-annotated parameters (model/PWrapper.v). *)
From Coq Require Import Lia.
From JT Require Import model.PWrapper proofs.CheckFacts proofs.PyTreeFacts.
Open Scope string_scope.

Section PW.
Variable st : symtab.

(* a use that does not accept leaves every frame of the context stack as it was: arrays by the snapshot of
   __instancecheck_str__, PyTrees by the snapshot of _MetaPyTree.__instancecheck__ *)
Theorem run_pstep_not_acc_restores u s vd s' :
  run_pstep st u s = (vd, s') -> vd <> Acc -> ps_stack s' = ps_stack s.
Proof.
  destruct u as [a v|[l|] sopt x]; cbn [run_pstep]; intros H Hv.
  - unfold arr_check in H. destruct (top_frame s) as [m t] eqn:Et. destruct (ps_stack s) as [|f r] eqn:Es.
    + destruct (instancecheck (ps_flat s) (ps_path s) st a v []); inversion H; subst. exact Es.
    + destruct (instancecheck (ps_flat s) (ps_path s) st a v [m]) as [vd1 s1] eqn:Ei. inversion H; subst.
      assert (s1 = [m]) by (eapply instancecheck_not_acc_restores; eauto). subst s1.
      unfold set_top. rewrite Es. cbn. unfold top_frame in Et. rewrite Es in Et. subst f. reflexivity.
  - eapply pytree_reject_restores; eauto.
  - inversion H; subst. congruence.
Qed.

(* where a walk stops: everything before was accepted, the stopping use did not accept and left nothing behind *)
Theorem pwalk_stops_at_first_failure us : forall s vd s',
  pwalk st us s = (vd, s') -> vd <> Acc ->
  exists pre u post s1, us = (pre ++ u :: post)%list /\ pwalk st pre s = (Acc, s1) /\
                        run_pstep st u s1 = (vd, s') /\ ps_stack s' = ps_stack s1.
Proof.
  induction us as [|u r IH]; intros s vd s' H Hv; cbn [pwalk] in H.
  - inversion H; subst; congruence.
  - destruct (run_pstep st u s) as [v1 s1] eqn:E. destruct v1.
    + destruct (IH _ _ _ H Hv) as [pre [u' [post [s2 [-> [Hp [Hu Hs]]]]]]].
      exists (u :: pre), u', post, s2. cbn [pwalk app]. rewrite E. auto.
    + inversion H; subst. exists [], u, r, s. cbn. repeat split; auto. eapply run_pstep_not_acc_restores; eauto.
    + inversion H; subst. exists [], u, r, s. cbn. repeat split; auto. eapply run_pstep_not_acc_restores; eauto.
Qed.

Theorem pproblem_blames_first_failure us : forall idx s k s',
  pproblem st us idx s = (PBlame (Some k), s') ->
  exists pre u post s1 vd, us = (pre ++ u :: post)%list /\ k = (idx + length pre)%nat /\
                           pwalk st pre s = (Acc, s1) /\ run_pstep st u s1 = (vd, s') /\ vd <> Acc /\
                           ps_stack s' = ps_stack s1.
Proof.
  induction us as [|u r IH]; intros idx s k s' H; cbn [pproblem] in H; [discriminate|].
  destruct (run_pstep st u s) as [v1 s1] eqn:E. destruct v1 as [| |e].
  - destruct (IH _ _ _ _ H) as [pre [u' [post [s2 [vd [-> [-> [Hp [Hu [Hv Hs]]]]]]]]]].
    exists (u :: pre), u', post, s2, vd. cbn [pwalk app length]. rewrite E. repeat split; auto. lia.
  - inversion H; subst. exists [], u, r, s, Rej. cbn. repeat split; auto; try lia; try discriminate.
    eapply run_pstep_not_acc_restores; eauto. discriminate.
  - destruct (is_exception_subclass e); [|discriminate]. inversion H; subst.
    exists [], u, r, s, (Raise e). cbn. repeat split; auto; try lia; try discriminate.
    eapply run_pstep_not_acc_restores; eauto. discriminate.
Qed.

Theorem pproblem_none us : forall idx s s', pproblem st us idx s = (PBlame None, s') -> pwalk st us s = (Acc, s').
Proof.
  induction us as [|u r IH]; intros idx s s' H; cbn [pproblem pwalk] in *; [inversion H; reflexivity|].
  destruct (run_pstep st u s) as [v1 s1] eqn:E. destruct v1 as [| |e]; [eapply IH; eauto | discriminate|].
  destruct (is_exception_subclass e); discriminate.
Qed.

(* the bindings a TypeCheckError lists are the top frame of the context at that moment; for a parameter failure with
   a blamed parameter that frame is the one established by exactly the parameters before it (re-checked from the
   store the failed walk left, which itself holds nothing of the use that failed) *)
Theorem pcall_error_frame params ret s0 stg k fr s' :
  pcall_new st params ret s0 = (PCTypeCheck stg k fr, s') -> fr = top_frame s'.
Proof.
  unfold pcall_new. destruct (pwalk st params s0) as [v1 s1] eqn:E1. destruct v1 as [| |e].
  - destruct ret as [r|]; [|discriminate]. destruct (pwalk st (params ++ [r]) s1) as [v2 s2]. destruct v2 as [| |e2]; try discriminate.
    + intros H; inversion H; reflexivity.
    + destruct (converted e2); intros H; inversion H; reflexivity.
  - destruct (pproblem st params 0 s1) as [[kk|e2] s2]; intros H; inversion H; reflexivity.
  - destruct (converted e); [|discriminate]. destruct (pproblem st params 0 s1) as [[kk|e2] s2]; intros H; inversion H; reflexivity.
Qed.

Lemma top_frame_of_stack s s' : ps_stack s' = ps_stack s -> top_frame s' = top_frame s.
Proof. unfold top_frame. now intros ->. Qed.

Theorem pcall_param_error_truthful params ret s0 k fr s' :
  pcall_new st params ret s0 = (PCTypeCheck SParams (Some k) fr, s') ->
  exists sw vw pre u post s1 vd,
    pwalk st params s0 = (vw, sw) /\ vw <> Acc /\
    params = (pre ++ u :: post)%list /\ k = length pre /\
    pwalk st pre sw = (Acc, s1) /\ fst (run_pstep st u s1) = vd /\ vd <> Acc /\
    fr = top_frame s1.
Proof.
  intros H. pose proof (pcall_error_frame _ _ _ _ _ _ _ H) as Hfr. unfold pcall_new in H.
  destruct (pwalk st params s0) as [v1 sw] eqn:E1.
  assert (G : v1 <> Acc -> pproblem st params 0 sw = (PBlame (Some k), s') ->
              exists sw0 vw pre u post s1 vd, (v1, sw) = (vw, sw0) /\ vw <> Acc /\ params = (pre ++ u :: post)%list /\ k = length pre /\
                pwalk st pre sw0 = (Acc, s1) /\ fst (run_pstep st u s1) = vd /\ vd <> Acc /\ fr = top_frame s1).
  { intros Hv Hp. destruct (pproblem_blames_first_failure _ _ _ _ _ Hp) as [pre [u [post [s1 [vd [-> [-> [Hw [Hu [Hvd Hs]]]]]]]]]].
    exists sw, v1, pre, u, post, s1, vd. repeat split; auto. rewrite Hu; reflexivity. rewrite Hfr. now apply top_frame_of_stack. }
  destruct v1 as [| |e].
  - destruct ret as [r|]; [|discriminate]. destruct (pwalk st (params ++ [r]) sw) as [v2 s2]. destruct v2 as [| |e2]; try discriminate.
    destruct (converted e2); discriminate.
  - destruct (pproblem st params 0 sw) as [[kk|e2] s2] eqn:Ep; [|discriminate]. inversion H; subst. apply G; [discriminate | reflexivity].
  - destruct (converted e); [|discriminate]. destruct (pproblem st params 0 sw) as [[kk|e2] s2] eqn:Ep; [|discriminate].
    inversion H; subst. apply G; [discriminate | reflexivity].
Qed.

(* the return stage: every parameter passed (twice), the listed frame holds nothing of the failed return check *)
Theorem pcall_return_error_truthful params ret s0 k fr s' :
  pcall_new st params ret s0 = (PCTypeCheck SReturn k fr, s') ->
  exists s1 r pre u post s2 vd, pwalk st params s0 = (Acc, s1) /\ ret = Some r /\
    (params ++ [r] = pre ++ u :: post)%list /\ pwalk st pre s1 = (Acc, s2) /\ fst (run_pstep st u s2) = vd /\ vd <> Acc /\
    fr = top_frame s2.
Proof.
  intros H. pose proof (pcall_error_frame _ _ _ _ _ _ _ H) as Hfr. unfold pcall_new in H.
  destruct (pwalk st params s0) as [v1 s1] eqn:E1. destruct v1 as [| |e].
  - destruct ret as [r|]; [|discriminate]. destruct (pwalk st (params ++ [r]) s1) as [v2 s2] eqn:E2.
    assert (G : v2 <> Acc -> s2 = s' -> exists s1' r' pre u post s2' vd, (Acc, s1) = (Acc, s1') /\ Some r = Some r' /\
               (params ++ [r'] = pre ++ u :: post)%list /\ pwalk st pre s1' = (Acc, s2') /\ fst (run_pstep st u s2') = vd /\ vd <> Acc /\ fr = top_frame s2').
    { intros Hv ->. destruct (pwalk_stops_at_first_failure _ _ _ _ E2 Hv) as [pre [u [post [s3 [Eq [Hw [Hu Hs]]]]]]].
      exists s1, r, pre, u, post, s3, v2. repeat split; auto. rewrite Hu; reflexivity. rewrite Hfr. now apply top_frame_of_stack. }
    destruct v2 as [| |e2]; try discriminate.
    + inversion H; subst. apply G; [discriminate | reflexivity].
    + destruct (converted e2); [|discriminate]. inversion H; subst. apply G; [discriminate | reflexivity].
  - destruct (pproblem st params 0 s1) as [[kk|e2] s2]; discriminate.
  - destruct (converted e); [|discriminate]. destruct (pproblem st params 0 s1) as [[kk|e2] s2]; discriminate.
Qed.

Theorem pcall_ok_iff params ret s0 s' :
  pcall_new st params ret s0 = (PCOk, s') <->
  exists s1, pwalk st params s0 = (Acc, s1) /\
             match ret with None => s' = s1 | Some r => pwalk st (params ++ [r]) s1 = (Acc, s') end.
Proof.
  unfold pcall_new. destruct (pwalk st params s0) as [v1 s1] eqn:E1. split.
  - destruct v1 as [| |e].
    + destruct ret as [r|].
      * destruct (pwalk st (params ++ [r]) s1) as [v2 s2] eqn:E2. destruct v2 as [| |e2]; try discriminate.
        -- intros H; inversion H; subst. exists s1. split; auto.
        -- destruct (converted e2); discriminate.
      * intros H; inversion H; subst. exists s'. split; auto.
    + destruct (pproblem st params 0 s1) as [[kk|e2] s2]; discriminate.
    + destruct (converted e); [|discriminate]. destruct (pproblem st params 0 s1) as [[kk|e2] s2]; discriminate.
  - intros [s1' [Hw Hr]]. inversion Hw; subst. destruct ret as [r|]; [rewrite Hr; reflexivity | subst; reflexivity].
Qed.

Theorem pcall_annotation_error_passes_through params ret s0 :
  (exists s1, pwalk st params s0 = (Raise AnnotationErr, s1)) \/
  (exists s1 r s2, pwalk st params s0 = (Acc, s1) /\ ret = Some r /\ pwalk st (params ++ [r]) s1 = (Raise AnnotationErr, s2)) ->
  fst (pcall_new st params ret s0) = PCRaise AnnotationErr.
Proof.
  unfold pcall_new. intros [[s1 H]|[s1 [r [s2 [H1 [-> H2]]]]]].
  - rewrite H. reflexivity.
  - rewrite H1, H2. reflexivity.
Qed.
End PW.

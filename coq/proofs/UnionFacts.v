(* UnionFacts.v -- the greedy resolution of unions is NOT "accepted iff a consistent assignment exists": a witness. *)
From JT Require Import model.UnionWalk proofs.BroadcastFacts proofs.CheckFacts.
Open Scope string_scope.

Definition AU (s : string) : annot :=
  match parse_dims s with Ok d => mkannot false None d false | Err _ => mkannot false None (mkdims [] None) true end.
Definition VU (sh : list Z) : value := mkvalue true true "float32" sh.
Definition st_n1 : symtab := [("n+1", EBin OAdd (EVar "n") (EInt 1))].

(* with a single alternative everywhere the union walk IS the ordinary walk *)
Lemma walk_union_singletons lbl st us s :
  walk_union lbl st (map (fun u => ([fst u], snd u)) us) s = walk lbl st us s.
Proof.
  revert s. induction us as [|[a v] r IH]; intros s; [reflexivity|].
  cbn [map walk_union try_alts walk fst snd]. destruct (instancecheck false lbl st a v s) as [[| |e] s'] eqn:E; try reflexivity.
  apply IH.
Qed.

Theorem union_greedy_refuted :
  let U := [AU "n"; AU "n+1"] in
  let x := VU [4%Z] in let y := VU [3%Z] in
  fst (walk_union None st_n1 [(U, x); (U, y)] (push_memo [] [])) = Rej /\
  fst (walk_union None st_n1 [(U, y); (U, x)] (push_memo [] [])) = Acc /\
  exists e, Forall (full_sat None st_n1 [] e) [(AU "n", y); (AU "n+1", x)].
Proof.
  cbv zeta. split; [vm_compute; reflexivity|]. split; [vm_compute; reflexivity|].
  assert (W : Forall (fun u : annot * value => wf_annot (fst u)) [(AU "n", VU [3%Z]); (AU "n+1", VU [4%Z])]).
  { assert (H : forall str, ivar (a_dims (AU str)) = None -> wf_annot (AU str) \/ a_skip (AU str) = true).
    { intros str Hi. destruct (a_skip (AU str)) eqn:Sk; [right; reflexivity|]. left. split; [exact Sk|]. intros i Hc. rewrite Hi in Hc. discriminate. }
    constructor; [|constructor; [|constructor]]; cbn [fst]; (split; [vm_compute; reflexivity | intros i Hi; vm_compute in Hi; discriminate]). }
  destruct (walk None st_n1 [(AU "n", VU [3%Z]); (AU "n+1", VU [4%Z])] (push_memo [] [])) as [vd s'] eqn:E.
  assert (Hvd : vd = Acc) by (vm_compute in E; injection E; auto).
  assert (NR : forall x0, vd <> Raise x0) by (subst vd; discriminate).
  apply (proj1 (walk_iff_sat None st_n1 _ [] vd s' W E NR)). exact Hvd.
Qed.

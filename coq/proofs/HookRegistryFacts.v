(* HookRegistryFacts.v -- per-load tagging (the source) against per-file tagging (model/HookRegistry.v), C18. *)
From JT Require Import model.HookCache model.HookRegistry proofs.CheckFacts proofs.HookCacheFacts.
From Coq Require Import Lia.
Open Scope string_scope.

(* in the source's design a continuation inside one interpreter is one more run: everything proved of histories holds of it *)
Lemma process_getcode_is_history : forall ps c, fst (process_getcode ps c) = run_history false ps c.
Proof.
  induction ps as [|r rest IH]; intros c; cbn [process_getcode run_history]; [reflexivity|].
  specialize (IH (rs_cache (run_once false r c))). destruct (process_getcode rest (rs_cache (run_once false r c))) as [ds c'].
  cbn [fst] in *. now rewrite IH.
Qed.

Theorem process_getcode_correct : forall ps, Forall2 (fun r d => all_correct r d) ps (fst (process_getcode ps [])).
Proof. intros ps. rewrite process_getcode_is_history. apply history_correct, cinv_nil. Qed.

(* a phase without any hook, from whatever cache earlier phases and runs left, executes only plain code from the current source *)
Theorem unhooked_phase_runs_plain : forall r c, cinv c -> r_hooked r = [] ->
  forall m k v, In (m, (k, v)) (rs_done (run_once false r c)) -> k = Uninstr /\ v = src_of r m.
Proof.
  intros r c Hc Hh m k v Hin. destruct (run_once_correct r c Hc) as [_ Hd].
  specialize (Hd _ Hin). cbn [fst snd] in Hd. unfold expected in Hd. rewrite Hh in Hd. cbn in Hd. inversion Hd. auto.
Qed.

Section OnePhase.
Variable r : runcfg.

Definition reg_sub (reg : alist string) : Prop := forall m h, aget reg m = Some h -> aget (r_hooked r) m = Some h.

Lemma load_reg_sim : forall fuel m s, reg_sub (g_reg s) ->
  g_rs (load_reg r fuel m s) = load false r fuel m None (g_rs s) /\ reg_sub (g_reg (load_reg r fuel m s)).
Proof.
  induction fuel as [|fuel IH]; intros m s Hs; cbn [load_reg load]; [auto|].
  destruct (is_done (g_rs s) m); [auto|].
  set (hk := aget (r_hooked r) m).
  set (reg' := match hk with Some h => (m, h) :: g_reg s | None => g_reg s end).
  assert (Hreg' : reg_sub reg').
  { subst reg'. destruct hk as [h|] eqn:Eh; [|exact Hs]. intros m' h' H. cbn [aget] in H.
    destruct (String.eqb_spec m' m) as [->|Hne]; [inversion H; subst; exact Eh | now apply Hs]. }
  assert (Htag : match aget reg' m with Some h => J h | None => Plain end = match hk with Some h => J h | None => Plain end).
  { subst reg'. destruct hk as [h|] eqn:Eh.
    - cbn [aget]. now rewrite String.eqb_refl.
    - destruct (aget (g_reg s) m) as [h'|] eqn:Er; [|reflexivity]. apply Hs in Er. fold hk in Er. congruence. }
  rewrite Htag.
  set (tag := match hk with Some h => J h | None => Plain end).
  set (fresh := match hk with Some h => Instr h | None => Uninstr end).
  destruct (match cget (rs_cache (g_rs s)) m tag with
            | Some (v, k) => if Nat.eqb v (src_of r m) then ((k, v), rs_cache (g_rs s)) else ((fresh, src_of r m), cset (rs_cache (g_rs s)) m tag (src_of r m, fresh))
            | None => ((fresh, src_of r m), cset (rs_cache (g_rs s)) m tag (src_of r m, fresh))
            end) as [ran c'].
  set (s1 := mkgs (mkrs c' ((m, ran) :: rs_done (g_rs s))) reg').
  change (mkrs c' ((m, ran) :: rs_done (g_rs s))) with (g_rs s1).
  assert (H1 : reg_sub (g_reg s1)) by exact Hreg'. clearbody s1. revert s1 H1.
  induction (deps_of r m) as [|d ds IHd]; intros s1 H1; cbn [fold_left]; [auto|].
  destruct (IH d s1 H1) as [E Hr]. rewrite <- E. now apply IHd.
Qed.

(* a process of ONE phase (every test of the suite, every history without a continuation) cannot tell the two designs apart *)
Theorem one_phase_agrees : forall c, g_rs (phase_reg r c []) = run_once false r c.
Proof.
  intros c. unfold phase_reg, run_once.
  assert (G : forall l s, reg_sub (g_reg s) ->
            g_rs (fold_left (fun st m => load_reg r (S (length (r_src r))) m st) l s) =
            fold_left (fun st m => load false r (S (length (r_src r))) m None st) l (g_rs s)).
  { induction l as [|m l IH]; intros s Hs; cbn [fold_left]; [reflexivity|].
    destruct (load_reg_sim (S (length (r_src r))) m s Hs) as [E Hr]. rewrite <- E. now apply IH. }
  apply (G (r_order r) (mkgs (mkrs c []) [])). intros m h H. discriminate.
Qed.
End OnePhase.

(* ... but a continuation can: hooked import of a, hook uninstalled, a imported again (as it is / after an edit) *)
Definition reg_src1 : alist nat := [("a", 1)].
Definition reg_src2 : alist nat := [("a", 2)].
Definition reg_hooked : runcfg := mkrun [("a", "h")] reg_src1 [] ["a"].
Definition reg_plain1 : runcfg := mkrun [] reg_src1 [] ["a"].
Definition reg_plain2 : runcfg := mkrun [] reg_src2 [] ["a"].
Definition reg_hooked2 : runcfg := mkrun [("a", "h")] reg_src2 [] ["a"].

Theorem per_file_registry_refuted :
  (* the un-hooked re-import runs the instrumented bytecode *)
  map show_done (fst (process_reg [reg_hooked; reg_plain1] [] [])) = ["a=hooked:h@1"; "a=hooked:h@1"] /\
  (* the un-hooked reload after an edit stores plain code under the jaxtyping tag; the next interpreter that hooks a runs it unchecked *)
  map show_done (fst (process_reg [reg_hooked2] (snd (process_reg [reg_hooked; reg_plain2] [] [])) [])) = ["a=plain@2"] /\
  (exists ps, ~ Forall2 (fun r d => all_correct r d) ps (fst (process_reg ps [] []))) /\
  (* the source's design on the same processes *)
  map show_done (fst (process_getcode [reg_hooked; reg_plain1] [])) = ["a=hooked:h@1"; "a=plain@1"] /\
  map show_done (fst (process_getcode [reg_hooked2] (snd (process_getcode [reg_hooked; reg_plain2] [])))) = ["a=hooked:h@2"].
Proof.
  split; [vm_compute; reflexivity|]. split; [vm_compute; reflexivity|]. split; [|split; vm_compute; reflexivity].
  exists [reg_hooked; reg_plain1]. intros H. inversion H as [|? ? ? ? _ H2]; subst. inversion H2 as [|? ? ? ? Hd _]; subst.
  specialize (Hd ("a", (Instr "h", 1)) ltac:(vm_compute; auto)). vm_compute in Hd. discriminate.
Qed.

(* TreeFacts.v -- the structure algebra of PyTree annotations (C09). *)
From JT Require Import model.Tree.
From Coq Require Import Lia.
Open Scope string_scope.

Section Ind.
  Variables (A : Type) (P : tree A -> Prop).
  Hypothesis HL : forall a, P (Leaf a).
  Hypothesis HN : forall k cs, Forall P cs -> P (Node k cs).
  Fixpoint tree_ind' (t : tree A) : P t :=
    match t with
    | Leaf a => HL a
    | Node k cs => HN k cs ((fix go (l : list (tree A)) : Forall P l :=
                  match l with [] => Forall_nil _ | x :: r => Forall_cons _ (tree_ind' x) (go r) end) cs)
    end.
End Ind.

Lemma strlist_eqb_eq a : forall b, strlist_eqb a b = true <-> a = b.
Proof. induction a as [|x a IH]; destruct b as [|y b]; cbn; try (split; congruence).
  rewrite andb_true_iff, String.eqb_eq, IH. split; [intros [-> ->]; reflexivity | intros H; inversion H; auto]. Qed.

Lemma kind_eqb_eq a b : kind_eqb a b = true <-> a = b.
Proof. destruct a, b; cbn; try (split; congruence).
  - rewrite strlist_eqb_eq. split; congruence.
  - rewrite String.eqb_eq. split; congruence.
  - rewrite String.eqb_eq. split; congruence. Qed.

Lemma tdef_eqb_eq : forall a b, tdef_eqb a b = true <-> a = b.
Proof.
  induction a as [[]|k cs IH] using tree_ind'; destruct b as [[]|k' cs']; cbn; try (split; congruence).
  rewrite andb_true_iff, kind_eqb_eq.
  assert (H : forall cs', (fix go (l l' : list tdef) : bool :=
         match l, l' with [], [] => true | x :: r, y :: r' => tdef_eqb x y && go r r' | _, _ => false end) cs cs' = true <-> cs = cs').
  { clear k k' cs'. induction IH as [|x r Hx Hr IHr]; destruct cs' as [|y r']; try (split; congruence); try (split; reflexivity).
    rewrite andb_true_iff, Hx, IHr. split; [intros [-> ->]; reflexivity | intros H; inversion H; auto]. }
  rewrite H. split; [intros [-> ->]; reflexivity | intros E; inversion E; auto].
Qed.

Lemma tdef_eqb_refl t : tdef_eqb t t = true. Proof. now apply tdef_eqb_eq. Qed.

(* ---------- composition ---------- *)
Lemma compose_star_l t : compose star t = t. Proof. reflexivity. Qed.

Lemma compose_star_r : forall t, compose t star = t.
Proof. induction t as [[]|k cs IH] using tree_ind'; cbn; [reflexivity|]. f_equal.
  induction IH as [|c r Hc Hr IHr]; cbn; [reflexivity | now rewrite Hc, IHr]. Qed.

Theorem compose_assoc : forall a b c, compose (compose a b) c = compose a (compose b c).
Proof. induction a as [u|k cs IH] using tree_ind'; intros b c; cbn; [reflexivity|]. f_equal.
  rewrite map_map. induction IH as [|x r Hx Hr IHr]; cbn; [reflexivity | now rewrite Hx, IHr]. Qed.

(* the fold of the implementation builds S1 o (S2 o (... o Sn)) *)
Theorem compose_impl_spec pieces : compose_impl pieces = fold_right compose star pieces.
Proof.
  unfold compose_impl.
  assert (H : forall acc, fold_left compose pieces acc = compose acc (fold_right compose star pieces)).
  { induction pieces as [|p r IH]; intros acc; cbn.
    - now rewrite compose_star_r.
    - rewrite IH. now rewrite compose_assoc. }
  rewrite H. reflexivity.
Qed.

(* ---------- prefix ---------- *)
(* x is p with every leaf of p replaced by some tree *)
Inductive Prefix : tdef -> tdef -> Prop :=
| Prefix_leaf : forall u x, Prefix (Leaf u) x
| Prefix_node : forall k cs cs', Forall2 Prefix cs cs' -> Prefix (Node k cs) (Node k cs').

Theorem is_prefix_exact : forall p x, is_prefix p x = true <-> Prefix p x.
Proof.
  induction p as [u|k cs IH] using tree_ind'; intros x.
  - cbn. split; [intros _; constructor | reflexivity].
  - destruct x as [u|k' cs']; cbn.
    + split; [discriminate | intros H; inversion H].
    + rewrite andb_true_iff, kind_eqb_eq.
      assert (H : forall cs', (fix go (l l' : list tdef) : bool :=
             match l, l' with [] , [] => true | a :: r, b :: r' => is_prefix a b && go r r' | _, _ => false end) cs cs' = true <-> Forall2 Prefix cs cs').
      { clear k k' cs'. induction IH as [|c r Hc Hr IHr]; destruct cs' as [|c' r'].
        - split; [constructor | reflexivity].
        - split; [discriminate | intros H; inversion H].
        - split; [discriminate | intros H; inversion H].
        - rewrite andb_true_iff, Hc, IHr. split; [intros [? ?]; constructor; auto | intros H; inversion H; auto]. }
      rewrite H. split; [intros [-> ?]; constructor; auto | intros Hp; inversion Hp; subst; auto].
Qed.

(* composing is a special case of having a prefix *)
Theorem compose_has_prefix : forall u t, Prefix u (compose u t).
Proof. induction u as [u|k cs IH] using tree_ind'; intros t; cbn; constructor.
  induction IH as [|c r Hc Hr IHr]; cbn; constructor; auto. Qed.

(* ---------- suffix: the greedy top-down cut is sound and complete ---------- *)
Lemma cut_unfold t x :
  cut t x = if tdef_eqb x t then [x] else match x with Leaf _ => [x] | Node k cs => flat_map (cut t) cs end.
Proof. destruct x; reflexivity. Qed.

Theorem suffix_exact : forall t x, suffix_check t x = true <-> exists u, x = compose u t.
Proof.
  intros t x. unfold suffix_check. split.
  - induction x as [u|k cs IH] using tree_ind'; rewrite cut_unfold.
    + destruct (tdef_eqb (Leaf u) t) eqn:E.
      * intros _. exists star. apply tdef_eqb_eq in E. now subst.
      * cbn [forallb]. rewrite E. discriminate.
    + destruct (tdef_eqb (Node k cs) t) eqn:E.
      * intros _. exists star. apply tdef_eqb_eq in E. now subst.
      * intros H. assert (Hs : exists us, cs = map (fun c => compose c t) us).
        { clear E. induction IH as [|c r Hc Hr IHr]; [exists []; reflexivity|].
          cbn [flat_map] in H. rewrite forallb_app in H. apply andb_true_iff in H as [H1 H2].
          destruct (Hc H1) as [u Hu]. destruct (IHr H2) as [us Hus]. exists (u :: us). cbn [map]. f_equal; assumption. }
        destruct Hs as [us ->]. exists (Node k us). reflexivity.
  - intros [u ->]. induction u as [u|k us IH] using tree_ind'.
    + cbn [compose]. rewrite cut_unfold, tdef_eqb_refl. cbn. now rewrite tdef_eqb_refl.
    + rewrite cut_unfold. destruct (tdef_eqb (compose (Node k us) t) t) eqn:E.
      * cbn [forallb]. now rewrite E.
      * cbn [compose]. clear E. induction IH as [|c r Hc Hr IHr]; [reflexivity|].
        cbn [map flat_map]. rewrite forallb_app, Hc. exact IHr.
Qed.

(* corner cases the tests never visit *)
Example suffix_corner_cases :
  let none := Node KNone [] in let unit_ := Node KTuple [] in let pair := Node KTuple [star; star] in
  suffix_check star (Node KTuple [none; unit_]) = true /\            (* T = a bare leaf: leaf-less x qualifies *)
  suffix_check pair (Node (KDict ["b"; "w"]) [none; pair]) = true /\   (* None next to copies of T is ignored *)
  suffix_check pair (Node KTuple [pair; star]) = false /\
  suffix_check none (Node KTuple [none; unit_]) = true /\        (* = (leaf, ()) o None *)
  suffix_check none (Node KTuple [none; none]) = true /\
  is_prefix pair (Node KTuple [none; Node KList [star]]) = true /\ is_prefix pair (Node KList [star; star]) = false.
Proof. vm_compute. repeat split; reflexivity. Qed.

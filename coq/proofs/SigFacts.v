From JT Require Import model.Sig.
From Coq Require Import Lia.
Open Scope string_scope.
Open Scope list_scope.

Lemma of_kind_same k l : all_kind k l -> of_kind k l = l.
Proof. unfold all_kind, of_kind. induction 1 as [|p l Hp Hl IH]; cbn; [reflexivity|]. rewrite Hp. destruct k; cbn; now rewrite IH. Qed.

Lemma of_kind_other k k' l : all_kind k' l -> k <> k' -> of_kind k l = [].
Proof. unfold all_kind, of_kind. intros H Hn. induction H as [|p l Hp Hl IH]; cbn; [reflexivity|]. rewrite Hp. destruct k', k; cbn; try congruence; exact IH. Qed.

Lemma of_kind_app k a b : of_kind k (a ++ b) = of_kind k a ++ of_kind k b.
Proof. unfold of_kind. apply filter_app. Qed.

Lemma take_params_map l rest :
  match rest with PcParam _ _ :: _ => False | _ => True end ->
  take_params (map pc l ++ rest) = (map (fun p => (p_name p, p_dflt p)) l, rest).
Proof.
  intros Hr. induction l as [|p l IH]; cbn.
  - destruct rest as [|[] r]; try reflexivity. contradiction.
  - now rewrite IH.
Qed.

Lemma mk_back k l : all_kind k l -> map (mk k) (map (fun p => (p_name p, p_dflt p)) l) = l.
Proof. induction 1 as [|p l Hp Hl IH]; cbn; [reflexivity|]. rewrite IH. f_equal. destruct p; cbn in *. now subst. Qed.

(* reading the synthesised parameter list back gives the original signature: same names, same kinds, same
   "has a default" flags, in the same order -- for all five kinds and every combination *)
Theorem signature_roundtrip ps : wf_sig ps -> sig_of_pieces (pieces_of_sig ps) = Some ps.
Proof.
  intros [pos [pk [vp [ko [vk [-> [H1 [H2 [H3 [H4 [H5 [L3 [L5 Hd]]]]]]]]]]]]].
  unfold pieces_of_sig.
  assert (EPO : of_kind PO (pos ++ pk ++ vp ++ ko ++ vk) = pos).
  { rewrite !of_kind_app, (of_kind_same _ _ H1), (of_kind_other PO _ _ H2), (of_kind_other PO _ _ H3), (of_kind_other PO _ _ H4), (of_kind_other PO _ _ H5) by discriminate. now rewrite !app_nil_r. }
  assert (EPK : of_kind PK (pos ++ pk ++ vp ++ ko ++ vk) = pk).
  { rewrite !of_kind_app, (of_kind_same _ _ H2), (of_kind_other PK _ _ H1), (of_kind_other PK _ _ H3), (of_kind_other PK _ _ H4), (of_kind_other PK _ _ H5) by discriminate. now rewrite !app_nil_r. }
  assert (EVP : of_kind VP (pos ++ pk ++ vp ++ ko ++ vk) = vp).
  { rewrite !of_kind_app, (of_kind_same _ _ H3), (of_kind_other VP _ _ H1), (of_kind_other VP _ _ H2), (of_kind_other VP _ _ H4), (of_kind_other VP _ _ H5) by discriminate. now rewrite !app_nil_r. }
  assert (EKO : of_kind KO (pos ++ pk ++ vp ++ ko ++ vk) = ko).
  { rewrite !of_kind_app, (of_kind_same _ _ H4), (of_kind_other KO _ _ H1), (of_kind_other KO _ _ H2), (of_kind_other KO _ _ H3), (of_kind_other KO _ _ H5) by discriminate. now rewrite !app_nil_r. }
  assert (EVK : of_kind VK (pos ++ pk ++ vp ++ ko ++ vk) = vk).
  { rewrite !of_kind_app, (of_kind_same _ _ H5), (of_kind_other VK _ _ H1), (of_kind_other VK _ _ H2), (of_kind_other VK _ _ H3), (of_kind_other VK _ _ H4) by discriminate. reflexivity. }
  rewrite EPO, EPK, EVP, EKO, EVK. clear EPO EPK EVP EKO EVK.
  (* the tail after the positional section *)
  set (star := match vp with [p] => [PcStarArgs (p_name p)] | _ => if nonempty ko then [PcStar] else [] end).
  set (kw := match vk with [p] => [PcStarStar (p_name p)] | _ => [] end).
  assert (Hstar_noparam : match (star ++ map pc ko ++ kw) with PcParam _ _ :: _ => False | _ => True end).
  { subst star kw. destruct vp as [|v [|v' vp']]; cbn; auto; destruct ko; cbn; auto; destruct vk as [|k [|k' vk']]; cbn; auto. }
  assert (Hkw_noparam : match kw with PcParam _ _ :: _ => False | _ => True end) by (subst kw; destruct vk as [|k [|k' vk']]; cbn; auto).
  (* the middle and the end, once the positional section has been consumed *)
  assert (Hrest : forall front,
    (let '(mid, rest3) :=
       match (star ++ map pc ko ++ kw) with
       | PcStarArgs n :: r => let '(run3, r') := take_params r in ((mkparam n VP false :: map (mk KO) run3), r')
       | PcStar :: r => let '(run3, r') := take_params r in (map (mk KO) run3, r')
       | _ => ([], star ++ map pc ko ++ kw)
       end in
     match rest3 with
     | [] => Some (front ++ mid)
     | [PcStarStar n] => Some (front ++ mid ++ [mkparam n VK false])
     | _ => None
     end) = Some (front ++ vp ++ ko ++ vk)).
  { intros front. apply Forall_app in Hd as [Hdv Hdk].
    assert (Hvk : kw = [] /\ vk = [] \/ exists k, vk = [k] /\ kw = [PcStarStar (p_name k)] /\ mkparam (p_name k) VK false = k).
    { subst kw. destruct vk as [|k [|k' vk']]; cbn in L5; try lia; [left; auto | right; exists k; repeat split].
      inversion H5; subst. inversion Hdk; subst. destruct k; cbn in *; now subst. }
    destruct vp as [|v [|v' vp']]; cbn in L3; try lia.
    - (* no *args *)
      subst star. destruct ko as [|k0 ko'].
      + cbn [nonempty map app]. destruct Hvk as [[-> ->]|[k [-> [-> Hk]]]]; cbn; [now rewrite !app_nil_r | now rewrite Hk].
      + cbn [nonempty app]. rewrite (take_params_map (k0 :: ko') kw Hkw_noparam). rewrite (mk_back KO _ H4).
        destruct Hvk as [[-> ->]|[k [-> [-> Hk]]]]; cbn; [now rewrite !app_nil_r | now rewrite Hk].
    - (* *args *)
      subst star. cbn [app]. rewrite (take_params_map ko kw Hkw_noparam). rewrite (mk_back KO _ H4).
      assert (Hv : mkparam (p_name v) VP false = v) by (inversion H3; subst; inversion Hdv; subst; destruct v; cbn in *; now subst).
      rewrite Hv. destruct Hvk as [[-> ->]|[k [-> [-> Hk]]]]; cbn; [now rewrite !app_nil_r | now rewrite Hk]. }
  unfold sig_of_pieces.
  destruct pos as [|p0 pos'].
  - cbn [nonempty app]. rewrite (take_params_map pk (star ++ map pc ko ++ kw) Hstar_noparam).
    assert (Hnoslash : match (star ++ map pc ko ++ kw) with PcSlash :: _ => False | _ => True end).
    { subst star kw. destruct vp as [|v [|v' vp']]; cbn; auto; destruct ko; cbn; auto; destruct vk as [|k [|k' vk']]; cbn; auto. }
    assert (Hm : forall (A : Type) (X : list piece -> A) (Y : A),
               match (star ++ map pc ko ++ kw) with PcSlash :: r => X r | _ => Y end = Y)
      by (intros A X Y; destruct (star ++ map pc ko ++ kw) as [|[] r]; try reflexivity; contradiction).
    rewrite Hm. rewrite (mk_back PK _ H2). apply Hrest.
  - cbn [nonempty]. rewrite <- !app_assoc. rewrite (take_params_map (p0 :: pos') ([PcSlash] ++ map pc pk ++ star ++ map pc ko ++ kw) I).
    cbn [app]. rewrite (take_params_map pk (star ++ map pc ko ++ kw) Hstar_noparam).
    rewrite (mk_back PO _ H1), (mk_back PK _ H2). rewrite (Hrest ((p0 :: pos') ++ pk)). now rewrite <- !app_assoc.
Qed.

Example pieces_examples :
  pieces_of_sig [mkparam "x" PO false; mkparam "y" PK true; mkparam "k" KO false] = [PcParam "x" false; PcSlash; PcParam "y" true; PcStar; PcParam "k" false] /\
  pieces_of_sig [mkparam "a" PK false; mkparam "args" VP false; mkparam "k" KO true; mkparam "kw" VK false] = [PcParam "a" false; PcStarArgs "args"; PcParam "k" true; PcStarStar "kw"].
Proof. split; reflexivity. Qed.

(* ConfigFacts.v -- C19 *)
From JT Require Import model.Config.
Open Scope string_scope.

Lemma smem_In s l : smem s l = true <-> In s l.
Proof. unfold smem. rewrite existsb_exists. split.
  - intros [x [Hi He]]. apply String.eqb_eq in He. now subst.
  - intros H. exists s. split; [assumption | apply String.eqb_refl]. Qed.

(* the generated spelling lists are the documented ones *)
Lemma spellings_are_documented :
  forall s, (smem s false_spellings = smem s ["0"; "false"]) /\ (smem s true_spellings = smem s ["1"; "true"]).
Proof.
  assert (Hf : false_spellings = ["0"; "false"] \/ false_spellings = ["false"; "0"]) by (vm_compute; auto).
  assert (Ht : true_spellings = ["1"; "true"] \/ true_spellings = ["true"; "1"]) by (vm_compute; auto).
  intros s. split.
  - destruct Hf as [->| ->]; [reflexivity|]. cbn. now rewrite !orb_false_r, orb_comm.
  - destruct Ht as [->| ->]; [reflexivity|]. cbn. now rewrite !orb_false_r, orb_comm.
Qed.

Theorem parse_spec v b :
  maybestr2bool v = Some b <->
  v = VBool b \/ exists s, v = VStr s /\ In (lower s) (if b then ["1"; "true"] else ["0"; "false"]).
Proof.
  destruct v as [b'|s|]; unfold maybestr2bool.
  - split; [intros H; inversion H; auto | intros [H|[s [H _]]]; [inversion H; reflexivity | discriminate]].
  - destruct (spellings_are_documented (lower s)) as [Hf Ht]. rewrite Hf, Ht.
    destruct (smem (lower s) ["0"; "false"]) eqn:E0.
    + split.
      * intros H; inversion H; subst. right. exists s. split; [reflexivity|]. now apply smem_In.
      * intros [H|[s' [H Hi]]]; [discriminate|]. inversion H; subst s'. destruct b; [|reflexivity].
        exfalso. apply smem_In in E0. cbn in E0, Hi.
        destruct E0 as [E|[E|[]]], Hi as [F|[F|[]]]; rewrite <- E in F; discriminate.
    + destruct (smem (lower s) ["1"; "true"]) eqn:E1.
      * split.
        -- intros H; inversion H; subst. right. exists s. split; [reflexivity|]. now apply smem_In.
        -- intros [H|[s' [H Hi]]]; [discriminate|]. inversion H; subst s'. destruct b; [reflexivity|].
           apply smem_In in Hi. congruence.
      * split; [discriminate|]. intros [H|[s' [H Hi]]]; [discriminate|]. inversion H; subst s'.
        apply smem_In in Hi. destruct b; congruence.
  - split; [discriminate | intros [H|[s [H _]]]; discriminate].
Qed.

Theorem parse_rejects_everything_else v :
  maybestr2bool v = None <->
  (v = VOther \/ exists s, v = VStr s /\ ~ In (lower s) ["0"; "false"; "1"; "true"]).
Proof.
  destruct v as [b|s|]; unfold maybestr2bool.
  - split; [discriminate | intros [H|[s [H _]]]; discriminate].
  - destruct (spellings_are_documented (lower s)) as [Hf Ht]. rewrite Hf, Ht.
    destruct (smem (lower s) ["0"; "false"]) eqn:E0; [|destruct (smem (lower s) ["1"; "true"]) eqn:E1].
    + split; [discriminate|]. intros [H|[s' [H Hn]]]; [discriminate|]. inversion H; subst s'. exfalso. apply Hn.
      apply smem_In in E0. cbn in *. tauto.
    + split; [discriminate|]. intros [H|[s' [H Hn]]]; [discriminate|]. inversion H; subst s'. exfalso. apply Hn.
      apply smem_In in E1. cbn in *. tauto.
    + split; [|reflexivity]. intros _. right. exists s. split; [reflexivity|]. intros Hi.
      assert (H0 : smem (lower s) ["0"; "false"] = true \/ smem (lower s) ["1"; "true"] = true).
      { cbn in Hi. destruct Hi as [H|[H|[H|[H|[]]]]]; rewrite <- H; cbn; auto. }
      destruct H0; congruence.
  - split; auto.
Qed.

Theorem case_insensitive s1 s2 : lower s1 = lower s2 -> maybestr2bool (VStr s1) = maybestr2bool (VStr s2).
Proof. unfold maybestr2bool. intros ->. reflexivity. Qed.

(* with checking off the wrapper runs the body and nothing else -- for every call, ill-typed or not *)
Theorem disabled_transparent d n1 n2 c : d || n1 || n2 = true -> wrapper_trace d n1 n2 c = [EBody].
Proof. unfold wrapper_trace. intros ->. reflexivity. Qed.

(* the early-return test in the source is the one the model assumes *)
Theorem early_return_test_unchanged : early_return_test_is_standard = true.
Proof. reflexivity. Qed.

(* every call of a history behaves according to the flag in force at that call *)
Fixpoint flag_after (flag : bool) (ops : list cop) : bool :=
  match ops with
  | [] => flag
  | OUpdate v :: r => flag_after (match maybestr2bool v with Some b => b | None => flag end) r
  | OCall _ :: r => flag_after flag r
  end.

Theorem toggle : forall pre flag c post,
  nth_error (run_ops flag (pre ++ OCall c :: post)) (length pre) =
  Some (wrapper_trace (flag_after flag pre) false false c).
Proof.
  induction pre as [|o pre IH]; intros flag c post; cbn.
  - reflexivity.
  - destruct o as [v|c']; cbn.
    + destruct (maybestr2bool v); cbn; apply IH.
    + apply IH.
Qed.

Example toggle_nonvacuous :
  let bad := mkcall true false true false in
  run_ops false [OCall bad; OUpdate (VStr "TRUE"); OCall bad; OUpdate (VStr "yes"); OCall bad; OUpdate (VBool false); OCall bad]
  = [[EBind; EPush; EParamCheck; EPop; ETypeCheckError]; []; [EBody]; [ETypeError]; [EBody]; []; [EBind; EPush; EParamCheck; EPop; ETypeCheckError]].
Proof. vm_compute. reflexivity. Qed.

(* HookScopeFacts.v -- the hook instruments exactly the named packages, only while installed (C11). *)
From JT Require Import model.HookScope proofs.DimLangFacts proofs.CheckFacts.
From Coq Require Import Lia.
Open Scope string_scope.

(* ---------- strings ---------- *)
Lemma starts_with_spec p : forall s, starts_with p s = true <-> exists r, s = p ++ r.
Proof.
  induction p as [|a p IH]; intros s; cbn.
  - split; [intros _; exists s; reflexivity | reflexivity].
  - destruct s as [|b s]; [split; [discriminate | intros [r H]; discriminate]|].
    rewrite andb_true_iff, Ascii.eqb_eq, IH. split.
    + intros [-> [r ->]]. exists r. reflexivity.
    + intros [r H]. inversion H; subst. split; [reflexivity | exists r; reflexivity].
Qed.

Lemma comps_aux_dot a : forall b cur, comps_aux (a ++ String "." b) cur = (comps_aux a cur ++ comps_aux b "")%list.
Proof.
  induction a as [|c a IH]; intros b cur; cbn [append comps_aux].
  - reflexivity.
  - destruct (Ascii.eqb c "."); [cbn; now rewrite IH | apply IH].
Qed.

Fixpoint join (l : list string) : string :=
  match l with [] => "" | [x] => x | x :: r => x ++ "." ++ join r end.

Lemma comps_aux_nonempty s : forall cur, comps_aux s cur <> [].
Proof. induction s as [|c s IH]; intros cur; cbn; [discriminate|]. destruct (Ascii.eqb c "."); [discriminate | apply IH]. Qed.

Lemma join_cons x r : r <> [] -> join (x :: r) = x ++ "." ++ join r.
Proof. destruct r; [congruence | reflexivity]. Qed.

Lemma join_comps_aux s : forall cur, join (comps_aux s cur) = cur ++ s.
Proof.
  induction s as [|c s IH]; intros cur; cbn [comps_aux].
  - cbn. now rewrite append_nil_r.
  - destruct (Ascii.eqb c ".") eqn:E.
    + apply Ascii.eqb_eq in E. subst c. rewrite join_cons by apply comps_aux_nonempty. now rewrite IH.
    + rewrite IH. now rewrite append_assoc.
Qed.

Lemma join_comps s : join (comps s) = s.
Proof. unfold comps. now rewrite join_comps_aux. Qed.

Lemma join_app xs : forall ys, xs <> [] -> ys <> [] -> join (xs ++ ys) = join xs ++ "." ++ join ys.
Proof.
  induction xs as [|x r IH]; intros ys Hx Hy; [congruence|].
  destruct r as [|x' r'].
  - cbn [app]. rewrite join_cons by assumption. reflexivity.
  - change ((x :: x' :: r') ++ ys)%list with (x :: ((x' :: r') ++ ys))%list.
    rewrite join_cons by (destruct ys; discriminate). rewrite IH by (assumption || discriminate).
    rewrite (join_cons x (x' :: r')) by discriminate. now rewrite !append_assoc.
Qed.

Lemma is_list_prefix_spec p : forall l, is_list_prefix p l = true <-> exists r, l = (p ++ r)%list.
Proof.
  induction p as [|a p IH]; intros l; cbn.
  - split; [intros _; exists l; reflexivity | reflexivity].
  - destruct l as [|b l]; [split; [discriminate | intros [r H]; discriminate]|].
    rewrite andb_true_iff, String.eqb_eq, IH. split.
    + intros [-> [r ->]]. exists r. reflexivity.
    + intros [r H]. inversion H; subst. split; [reflexivity | exists r; reflexivity].
Qed.

(* one name: equal, or beneath it -- as LISTS OF COMPONENTS, so `foobar` is not beneath `foo` *)
Theorem matches_name_spec m n : matches_name m n = true <-> is_list_prefix (comps n) (comps m) = true.
Proof.
  unfold matches_name. rewrite orb_true_iff, String.eqb_eq, starts_with_spec, is_list_prefix_spec. split.
  - intros [->|[r ->]].
    + exists []. now rewrite app_nil_r.
    + exists (comps r). unfold comps. rewrite append_assoc. cbn [append]. apply comps_aux_dot.
  - intros [rest H]. destruct rest as [|x rest].
    + left. rewrite app_nil_r in H. rewrite <- (join_comps m), <- (join_comps n). now rewrite H.
    + right. exists (join (x :: rest)). rewrite <- (join_comps m) at 1. rewrite H.
      rewrite join_app by (try discriminate; apply comps_aux_nonempty). rewrite join_comps. now rewrite append_assoc.
Qed.

Theorem should_instrument_spec names m :
  should_instrument names m = true <-> exists n, In n names /\ is_list_prefix (comps n) (comps m) = true.
Proof.
  unfold should_instrument. rewrite existsb_exists. split; intros [n [Hi H]]; exists n; (split; [assumption|]); now apply matches_name_spec.
Qed.

Example prefix_trap :
  map (should_instrument ["foo"; "bar.baz"]) ["foo"; "foo.a"; "foo.bar.qux"; "foobar"; "foo_bar"; "fo"; "bar"; "bar.baz"; "bar.bazz"; "bar.baz.x"; ""]
  = [true; true; true; false; false; false; false; true; false; true; false].
Proof. reflexivity. Qed.

(* ---------- the machine ---------- *)
(* a module, once loaded, is never touched again *)
Lemma import_one_keeps s m x t : aget (loaded s) x = Some t -> aget (loaded (import_one s m)) x = Some t.
Proof.
  intros H. unfold import_one. destruct (aget (loaded s) m) eqn:E; [assumption|]. cbn. rewrite aget_aset.
  destruct (String.eqb x m) eqn:Ex; [apply String.eqb_eq in Ex; subst; congruence | assumption].
Qed.

Lemma hstep_keeps s o x t : aget (loaded s) x = Some t -> aget (loaded (hstep s o)) x = Some t.
Proof.
  intros H. destruct o as [names chk|id|m]; cbn; try assumption.
  generalize dependent s. induction (ancestors m) as [|a r IH]; intros s H; cbn; [assumption|]. apply IH. now apply import_one_keeps.
Qed.

Theorem loaded_module_is_stable ops : forall s x t, aget (loaded s) x = Some t -> aget (loaded (hrun ops s)) x = Some t.
Proof. unfold hrun. induction ops as [|o r IH]; intros s x t H; cbn; [assumption|]. apply IH. now apply hstep_keeps. Qed.

(* a first import takes the checker of the FIRST live hook that matches (= the most recently installed) *)
Theorem first_import_tag s m : aget (loaded s) m = None -> aget (loaded (import_one s m)) m = Some (first_match (meta s) m).
Proof. intros H. unfold import_one. rewrite H. cbn. apply aget_aset_same. Qed.

Theorem first_match_spec hs m :
  (first_match hs m = None /\ forall h, In h hs -> should_instrument (h_names h) m = false) \/
  (exists pre h post, hs = (pre ++ h :: post)%list /\ first_match hs m = Some (h_chk h) /\ should_instrument (h_names h) m = true /\
                      forall h', In h' pre -> should_instrument (h_names h') m = false).
Proof.
  induction hs as [|h r IH]; [left; split; [reflexivity | intros h []]|]. cbn [first_match].
  destruct (should_instrument (h_names h) m) eqn:E.
  - right. exists [], h, r. repeat split; auto. intros h' [].
  - destruct IH as [[H1 H2]|[pre [h0 [post [H1 [H2 [H3 H4]]]]]]].
    + left. split; [assumption|]. intros h' [<-|Hi]; auto.
    + right. exists (h :: pre), h0, post. subst r. repeat split; auto. intros h' [<-|Hi]; auto.
Qed.

(* with no live hook every first import loads unmodified *)
Theorem no_hook_loads_plain s m : meta s = [] -> aget (loaded s) m = None -> aget (loaded (import_one s m)) m = Some None.
Proof. intros Hm H. rewrite (first_import_tag s m H), Hm. reflexivity. Qed.

(* uninstall removes that hook and nothing else; doing it twice is harmless *)
Lemma remove_first_id_in id hs h : In h (remove_first_id id hs) -> In h hs.
Proof. induction hs as [|a r IH]; cbn; [auto|]. destruct (Nat.eqb (h_id a) id); [auto | intros [->|H]; auto]. Qed.

Lemma remove_first_id_other id hs h : h_id h <> id -> In h hs -> In h (remove_first_id id hs).
Proof.
  intros Hn. induction hs as [|a r IH]; cbn; [auto|]. intros [->|H].
  - destruct (Nat.eqb_spec (h_id h) id); [contradiction | left; reflexivity].
  - destruct (Nat.eqb (h_id a) id); [assumption | right; auto].
Qed.

Definition ids_unique (hs : list hook) : Prop := NoDup (map h_id hs).

Lemma remove_first_id_gone id hs : ids_unique hs -> forall h, In h (remove_first_id id hs) -> h_id h <> id.
Proof.
  unfold ids_unique. induction hs as [|a r IH]; cbn; intros Hn h; [intros []|]. inversion Hn as [|? ? Hnot Hr]; subst.
  destruct (Nat.eqb_spec (h_id a) id) as [E|E].
  - intros Hi He. apply Hnot. rewrite E, <- He. now apply in_map.
  - intros [<-|Hi]; [assumption | now apply IH].
Qed.

Lemma remove_absent id hs : (forall h, In h hs -> h_id h <> id) -> remove_first_id id hs = hs.
Proof.
  induction hs as [|a r IH]; intros H; cbn; [reflexivity|].
  destruct (Nat.eqb_spec (h_id a) id) as [E|E]; [exfalso; exact (H a (or_introl eq_refl) E)|].
  f_equal. apply IH. intros h Hh. apply H. now right.
Qed.

Theorem uninstall_idempotent id hs : ids_unique hs -> remove_first_id id (remove_first_id id hs) = remove_first_id id hs.
Proof.
  unfold ids_unique. induction hs as [|a r IH]; cbn; intros Hn; [reflexivity|]. inversion Hn as [|? ? Hnot Hr]; subst.
  destruct (Nat.eqb_spec (h_id a) id) as [E|E].
  - apply remove_absent. intros h Hh He. apply Hnot. rewrite E, <- He. now apply in_map.
  - cbn. destruct (Nat.eqb_spec (h_id a) id); [contradiction|]. now rewrite IH.
Qed.

(* the identifiers of live hooks stay unique and below next_id *)
Definition hinv (s : hstate) : Prop := ids_unique (meta s) /\ forall h, In h (meta s) -> h_id h < next_id s.

Lemma remove_first_id_nodup id hs : ids_unique hs -> ids_unique (remove_first_id id hs).
Proof.
  unfold ids_unique. induction hs as [|a r IH]; cbn; intros Hn; [constructor|]. inversion Hn as [|? ? Hnot Hr]; subst.
  destruct (Nat.eqb (h_id a) id); [assumption|]. cbn. constructor; [|now apply IH].
  intros Hi. apply Hnot. apply in_map_iff in Hi as [h [He Hh]]. apply in_map_iff. exists h. split; [assumption | eapply remove_first_id_in; eauto].
Qed.

Theorem hinv_step s o : hinv s -> hinv (hstep s o).
Proof.
  intros [Hu Hl]. destruct o as [names chk|id|m]; cbn.
  - split; cbn.
    + unfold ids_unique. cbn. constructor; [|exact Hu]. intros Hi. apply in_map_iff in Hi as [h [He Hh]]. specialize (Hl h Hh). lia.
    + intros h [<-|Hh]; cbn; [lia | specialize (Hl h Hh); lia].
  - split; cbn; [now apply remove_first_id_nodup | intros h Hh; apply Hl; eapply remove_first_id_in; eauto].
  - assert (G : forall l s0, meta (fold_left import_one l s0) = meta s0 /\ next_id (fold_left import_one l s0) = next_id s0).
    { induction l as [|a r IH]; intros s0; cbn; [auto|]. destruct (IH (import_one s0 a)) as [H1 H2]. rewrite H1, H2.
      unfold import_one. destruct (aget (loaded s0) a); auto. }
    destruct (G (ancestors m) s) as [H1 H2]. split; [now rewrite H1 | rewrite H1, H2; exact Hl].
Qed.

Theorem hinv_run ops : forall s, hinv s -> hinv (hrun ops s).
Proof. unfold hrun. induction ops as [|o r IH]; intros s H; cbn; [assumption|]. apply IH. now apply hinv_step. Qed.

Lemma hinv0 : hinv hs0. Proof. split; [constructor | intros h []]. Qed.

(* after uninstall(id) the hook with that handle is not consulted any more, the others still are *)
Theorem after_uninstall s id : hinv s ->
  forall h, In h (meta (hstep s (Uninstall id))) <-> In h (meta s) /\ h_id h <> id.
Proof.
  intros [Hu _] h. cbn. split.
  - intros Hi. split; [eapply remove_first_id_in; eauto | eapply remove_first_id_gone; eauto].
  - intros [Hi Hn]. now apply remove_first_id_other.
Qed.

Example machine_nonvacuous :
  show_loaded (hrun [Install ["foo"] (Some "A"); Install ["foo.bar"; "zed"] None; Import "foo.bar.qux"; Import "foobar.m"; Uninstall 1;
                     Import "zed"; Import "foo.a"; Uninstall 0; Uninstall 0; Import "foo_bar"] hs0)
  = "foo=hooked:A,foo.bar=hooked:None,foo.bar.qux=hooked:None,foobar=plain,foobar.m=plain,zed=plain,foo.a=hooked:A,foo_bar=plain".
Proof. vm_compute. reflexivity. Qed.

(* ThreadsFacts.v -- threads never see each other's bindings or transient check state (C06). *)
From JT Require Import model.Threads.
From Coq Require Import Lia.
Open Scope string_scope.
Open Scope list_scope.
Open Scope nat_scope.

Lemma nth_set_nth_same {A} (l : list A) n x d : n < length l -> nth n (set_nth n x l) d = x.
Proof. revert n. induction l as [|y l IH]; intros n H; cbn in *; [lia|]. destruct n; cbn; [reflexivity | apply IH; lia]. Qed.

Lemma nth_set_nth_other {A} (l : list A) n m x d : n <> m -> nth m (set_nth n x l) d = nth m l d.
Proof. revert n m. induction l as [|y l IH]; intros n m H; cbn; [destruct n; reflexivity|]. destruct n, m; cbn; try reflexivity; try congruence. apply IH. congruence. Qed.

Lemma length_set_nth {A} (l : list A) n x : length (set_nth n x l) = length l.
Proof. revert n. induction l as [|y l IH]; intros n; cbn; [destruct n; reflexivity|]. destruct n; cbn; [reflexivity | now rewrite IH]. Qed.

Lemma pstore_eta s : mkps (ps_stack s) (ps_path s) (ps_flat s) = s.
Proof. destruct s; reflexivity. Qed.

Definition dflt := mkps [] None false.

(* with all three cells thread-local a step of thread t reads and writes the private copy of t only *)
Lemma view_tl g t : view ThreadLocal ThreadLocal ThreadLocal g t = nth t (g_local g) dflt.
Proof. unfold view. cbn. apply pstore_eta. Qed.

Lemma write_back_tl g t s :
  write_back ThreadLocal ThreadLocal ThreadLocal g t s = mkgs (g_shared g) (set_nth t s (g_local g)).
Proof. unfold write_back. cbn. now rewrite !pstore_eta. Qed.

Fixpoint count (t : nat) (l : list nat) : nat := match l with [] => 0 | x :: r => (if Nat.eqb x t then 1 else 0) + count t r end.

Lemma run_solo_app st a : forall b s,
  run_solo st (a ++ b) s = let '(s1, o1) := run_solo st a s in let '(s2, o2) := run_solo st b s1 in (s2, o1 ++ o2).
Proof.
  induction a as [|x a IH]; intros b s; cbn [app run_solo].
  - destruct (run_solo st b s); reflexivity.
  - destruct (step_view st x s) as [s' ob]. rewrite IH. destruct (run_solo st a s') as [s1 o1]. destruct (run_solo st b s1) as [s2 o2]. reflexivity.
Qed.

(* non-interference: for every number of threads, every workload and EVERY schedule, what thread t has computed
   so far -- its observations (verdicts, print_bindings transcripts) and its private state -- is exactly what the
   same prefix of its workload computes when run alone *)
Theorem noninterference st : forall sched progs g obs t,
  length progs = length (g_local g) -> length obs = length (g_local g) -> t < length (g_local g) ->
  let k := Nat.min (count t sched) (length (nth t progs [])) in
  let '(g', obs') := run_sched ThreadLocal ThreadLocal ThreadLocal st sched progs g obs in
  let '(s_solo, o_solo) := run_solo st (firstn k (nth t progs [])) (nth t (g_local g) dflt) in
  nth t (g_local g') dflt = s_solo /\ nth t obs' [] = nth t obs [] ++ o_solo /\ g_shared g' = g_shared g.
Proof.
  induction sched as [|u rest IH]; intros progs g obs t Hp Ho Ht.
  - cbn. rewrite app_nil_r. auto.
  - cbn [run_sched count].
    destruct (nth u progs []) as [|o more] eqn:Eu.
    + (* thread u has nothing left (or u is not a thread) *)
      destruct (Nat.eqb_spec u t) as [->|Hne].
      * rewrite Eu. cbn [length Nat.min firstn]. specialize (IH progs g obs t Hp Ho Ht). rewrite Eu in IH. cbn in IH.
        replace (Nat.min (1 + count t rest) 0) with 0 by lia. replace (Nat.min (count t rest) 0) with 0 in IH by lia. exact IH.
      * cbn [Nat.add]. exact (IH progs g obs t Hp Ho Ht).
    + rewrite view_tl. destruct (step_view st o (nth u (g_local g) dflt)) as [s' ob] eqn:Es. rewrite write_back_tl.
      assert (Hu : u < length progs).
      { destruct (Nat.lt_ge_cases u (length progs)) as [H|H]; [exact H|]. rewrite nth_overflow in Eu by exact H. discriminate. }
      set (g1 := mkgs (g_shared g) (set_nth u s' (g_local g))).
      set (progs1 := set_nth u more progs). set (obs1 := set_nth u (nth u obs [] ++ [ob]) obs).
      assert (L1 : length progs1 = length (g_local g1)) by (unfold progs1, g1; cbn; now rewrite !length_set_nth).
      assert (L2 : length obs1 = length (g_local g1)) by (unfold obs1, g1; cbn; now rewrite !length_set_nth).
      assert (L3 : t < length (g_local g1)) by (unfold g1; cbn; now rewrite length_set_nth).
      specialize (IH progs1 g1 obs1 t L1 L2 L3).
      destruct (run_sched ThreadLocal ThreadLocal ThreadLocal st rest progs1 g1 obs1) as [g' obs'].
      destruct (Nat.eqb_spec u t) as [->|Hne].
      * (* the scheduled thread is t: it executes its next step *)
        rewrite Eu. unfold progs1, g1, obs1 in IH. cbn [g_local g_shared] in IH.
        rewrite !nth_set_nth_same in IH by (try lia; try congruence).
        cbn [length]. replace (Nat.min (1 + count t rest) (S (length more))) with (S (Nat.min (count t rest) (length more))) by lia.
        cbn [firstn run_solo]. rewrite Es.
        destruct (run_solo st (firstn (Nat.min (count t rest) (length more)) more) s') as [s2 o2].
        destruct IH as [H1 [H2 H3]]. split; [exact H1|]. split; [rewrite H2; now rewrite <- app_assoc | exact H3].
      * (* another thread runs: nothing of t changes *)
        unfold progs1, g1, obs1 in IH. cbn [g_local g_shared] in IH.
        rewrite !nth_set_nth_other in IH by exact Hne. cbn [Nat.add]. exact IH.
Qed.

(* the kinds read from the source are the ones the theorem needs *)
Theorem kinds_are_thread_local : shape_kind = ThreadLocal /\ treepath_kind = ThreadLocal /\ treeflatten_kind = ThreadLocal.
Proof. repeat split; reflexivity. Qed.

Theorem storage_bindings_unchanged :
  storage_bindings = [("_shape_storage", "threading.local()"); ("_treepath_storage", "threading.local()"); ("_treeflatten_storage", "threading.local()")] /\
  forall f us, In (f, us) accessor_uses -> forall u, In u us -> In u ["_shape_storage"; "_treepath_storage"; "_treeflatten_storage"].
Proof.
  split; [reflexivity|]. intros f us Hin u Hu. cbn in Hin.
  repeat (destruct Hin as [Hin|Hin]; [inversion Hin; subst; cbn in Hu; intuition (subst; cbn; auto)|]). destruct Hin.
Qed.

(* if a cell were shared, the statement would be false: two-thread schedules with a changed verdict *)
Definition g2 := mkgs dflt [dflt; dflt].
Definition wrong_dtype : annot * value := (AC (Some ["float32"]) "a b c", mkvalue true true "int32" [2; 2]%Z).
Definition A_n := AC None "n".
Definition V3 := mkvalue true true "float32" [3]%Z.
Definition V4 := mkvalue true true "float32" [4]%Z.

Theorem shared_flatten_refuted :
  let progs := [[TSetFlat true; TSetFlat false]; [TArr (fst wrong_dtype) (snd wrong_dtype)]] in
  snd (run_sched ThreadLocal ThreadLocal Shared [] [0; 1; 0] progs g2 [[]; []]) = [[ObsNone; ObsNone]; [ObsVerdict Acc]] /\
  snd (run_solo [] (nth 1 progs []) dflt) = [ObsVerdict Rej].
Proof. split; vm_compute; reflexivity. Qed.

Theorem shared_stack_refuted :
  let progs := [[TPush; TArr A_n V3; TPop]; [TArr A_n V4]] in
  snd (run_sched Shared ThreadLocal ThreadLocal [] [0; 0; 1; 0] progs g2 [[]; []]) = [[ObsNone; ObsVerdict Acc; ObsNone]; [ObsVerdict Rej]] /\
  snd (run_solo [] (nth 1 progs []) dflt) = [ObsVerdict Acc].
Proof. split; vm_compute; reflexivity. Qed.

Theorem shared_path_refuted :
  let Aq := AC None "?q" in
  let progs := [[TPush; TSetPath (Some "(Leaf 0 in structure T) "); TArr Aq V3; TSetPath None; TPop]; [TArr Aq V4]] in
  snd (run_sched ThreadLocal Shared ThreadLocal [] [0; 0; 1; 0; 0; 0] progs g2 [[]; []]) = [[ObsNone; ObsNone; ObsVerdict Acc; ObsNone; ObsNone]; [ObsVerdict Acc]] /\
  snd (run_solo [] (nth 1 progs []) dflt) = [ObsVerdict (Raise AnnotationErr)].
Proof. split; vm_compute; reflexivity. Qed.

(* PurePyTreeFacts.v -- PyTree[L] accepts exactly the trees all of whose leaves match L, and
   PyTree[PyTree[L]] = PyTree[L], for leaf types L without array annotations (int, str, tuples and unions of them) (C08). *)
From JT Require Import model.PyTreeCheck proofs.TreeFacts proofs.PyTreeFacts.
From Coq Require Import Lia.
Open Scope string_scope.
Open Scope list_scope.

Fixpoint pure (l : leafty) : bool :=
  match l with
  | LInt | LStr => true
  | LTuple ls | LUnion ls => (fix go (ls : list leafty) : bool := match ls with [] => true | x :: r => pure x && go r end) ls
  | _ => false
  end.

(* the documented meaning of "x matches L" *)
Fixpoint pmatch (l : leafty) (x : ptree) {struct l} : bool :=
  match l with
  | LInt => match x with Leaf (PInt _) | Leaf (PBool _) => true | _ => false end
  | LStr => match x with Leaf (PStr _) => true | _ => false end
  | LTuple ls =>
      match x with
      | Node KTuple cs | Node (KNamed _) cs =>
          (fix go (ls : list leafty) (cs : list ptree) : bool :=
             match ls, cs with [], [] => true | l1 :: lr, c :: cr => pmatch l1 c && go lr cr | _, _ => false end) ls cs
      | _ => false
      end
  | LUnion ls => (fix go (ls : list leafty) : bool := match ls with [] => false | l1 :: lr => pmatch l1 x || go lr end) ls
  | _ => false
  end.

Definition vb (b : bool) : verdict := if b then Acc else Rej.

Section P.
Variable st : symtab.

Lemma pure_forall ls : (fix go (ls : list leafty) : bool := match ls with [] => true | x :: r => pure x && go r end) ls = forallb pure ls.
Proof. induction ls; cbn; [reflexivity | now rewrite IHls]. Qed.

(* on such leaf types the typeguard check is a pure function of the value: no bindings, no flags *)
Theorem pure_leafmatch : forall l, pure l = true -> forall x s, leafmatch st l x s = (vb (pmatch l x), s).
Proof.
  induction l as [| | |ls IH|ls IH|a| |l sopt IH] using leafty_ind'; intros Hp x s; try discriminate.
  - cbn. destruct x as [[]|]; reflexivity.
  - cbn. destruct x as [[]|]; reflexivity.
  - (* tuple *)
    rewrite leafmatch_tuple. cbn [pure] in Hp. rewrite pure_forall in Hp.
    assert (G : forall cs s, tuple_match st ls cs s =
              (vb ((fix go (ls : list leafty) (cs : list ptree) : bool := match ls, cs with [], [] => true | l1 :: lr, c :: cr => pmatch l1 c && go lr cr | _, _ => false end) ls cs), s)).
    { clear x s. induction IH as [|l1 lr Hl Hlr IHlr]; intros cs s; cbn [tuple_match].
      - destruct cs; reflexivity.
      - cbn [forallb] in Hp. apply andb_true_iff in Hp as [Hp1 Hp2]. destruct cs as [|c cr]; [reflexivity|].
        rewrite (Hl Hp1). destruct (pmatch l1 c); cbn; [apply IHlr; exact Hp2 | reflexivity]. }
    destruct x as [a|k cs]; [reflexivity|]. destruct k; try reflexivity; apply G.
  - (* union *)
    rewrite leafmatch_union. cbn [pure] in Hp. rewrite pure_forall in Hp. cbn [pmatch].
    revert s. induction IH as [|l1 lr Hl Hlr IHlr]; intros s; cbn [union_match]; [reflexivity|].
    cbn [forallb] in Hp. apply andb_true_iff in Hp as [Hp1 Hp2]. rewrite (Hl Hp1).
    destruct (pmatch l1 x); cbn; [reflexivity | apply IHlr; exact Hp2].
Qed.

(* ---------- leaves ---------- *)
Section Leaves.
Variable p : ptree -> bool.
Fixpoint leaves_of (x : ptree) : list ptree :=
  if p x then [x]
  else match x with Leaf _ => [x] | Node k cs => flat_map leaves_of cs end.
End Leaves.

Lemma leaves_of_eq p x : leaves_of p x = if p x then [x] else match x with Leaf _ => [x] | Node k cs => flat_map (leaves_of p) cs end.
Proof. destruct x; reflexivity. Qed.

(* flattening with an is_leaf whose verdict is a function of the node only (whatever it does to the store):
   the leaves are the topmost subtrees that match, else the non-container objects *)
Lemma flatten_pure isleaf p :
  (forall x s, fst (isleaf x s) = vb (p x)) ->
  forall x s, exists d s', flatten_with isleaf x s = (Some (leaves_of p x, d), s', None).
Proof.
  intros Hv. induction x as [a|k cs IH] using tree_ind'; intros s; rewrite flatten_with_eq, leaves_of_eq.
  - specialize (Hv (Leaf a) s). destruct (isleaf (Leaf a) s) as [vd s1]. cbn in Hv. subst vd. destruct (p (Leaf a)); cbn; eauto.
  - pose proof (Hv (Node k cs) s) as Hv0. destruct (isleaf (Node k cs) s) as [vd s1]. cbn in Hv0. subst vd.
    destruct (p (Node k cs)); cbn [vb]; [eauto|].
    assert (G : forall s1, exists ds s2, flatten_list isleaf cs s1 = (Some (flat_map (leaves_of p) cs, ds), s2, None)).
    { clear s1. induction IH as [|c r Hc Hr IHr]; intros s1; cbn [flatten_list flat_map]; [eauto|].
      destruct (Hc s1) as [d [s' Hf]]. rewrite Hf. destruct (IHr s') as [ds [s2 Hl]]. rewrite Hl. eauto. }
    destruct (G s1) as [ds [s2 Hl]]. rewrite Hl. eauto.
Qed.

Lemma leaf_loop_pure ischeck p :
  (forall x s, fst (ischeck x s) = vb (p x)) ->
  forall lv i s, fst (leaf_loop ischeck None lv i s) = vb (forallb p lv).
Proof.
  intros Hv. induction lv as [|x r IH]; intros i s; [reflexivity|].
  assert (E : leaf_loop ischeck None (x :: r) i s = match ischeck x s with (Acc, s'') => leaf_loop ischeck None r (S i) (with_path s'' None) | (vd, s'') => (vd, s'') end)
    by (cbn [leaf_loop]; destruct (ps_path s); reflexivity).
  rewrite E. cbn [forallb]. specialize (Hv x s). destruct (ischeck x s) as [vd s1]. cbn in Hv. subst vd.
  destruct (p x); cbn; [apply IH | reflexivity].
Qed.

(* a structure-less PyTree[l] whose leaf functions have store-independent verdicts p *)
Lemma pytree_body_pure l p x s :
  (forall y s, fst (flat_fn st l y s) = vb (p y)) -> (forall y s, fst (check_fn st l y s) = vb (p y)) ->
  fst (pytree_body st l None x s) = vb (forallb p (leaves_of p x)).
Proof.
  intros Hf Hc. unfold pytree_body. cbv zeta.
  destruct (flatten_pure _ _ Hf x (with_flat s true)) as [d [s1 Hfl]]. rewrite Hfl.
  destruct (top_frame (with_flat s1 false)) as [m tm].
  pose proof (leaf_loop_pure _ _ Hc (leaves_of p x) 0 (set_top (with_flat s1 false) (fst (m, tm), tm))) as Hl.
  destruct (leaf_loop (check_fn st l) None (leaves_of p x) 0 (set_top (with_flat s1 false) (fst (m, tm), tm))) as [vd s4].
  cbn in Hl. subst vd. destruct (forallb p (leaves_of p x)); reflexivity.
Qed.

Definition is_none (x : ptree) : bool := match x with Node KNone [] => true | _ => false end.

Lemma leafmatch_pytree_fst l sopt x s :
  fst (leafmatch st (LPyTree l sopt) x s) = if is_none x then Acc else fst (pytree_body st l sopt x s).
Proof. rewrite leafmatch_pytree. destruct x as [a|k cs]; [reflexivity|]. destruct k; try reflexivity. destruct cs; reflexivity. Qed.

Lemma pure_not_any l : pure l = true -> flat_fn st l = leafmatch st l /\ check_fn st l = leafmatch st l.
Proof. destruct l; try discriminate; auto. Qed.

(* C08: PyTree[L] accepts x iff every leaf of x -- a topmost subtree matching L, else a non-container object --
   matches L; None and empty containers contribute no leaves *)
Theorem pytree_accepts_iff_all_leaves_match l : pure l = true -> forall x s,
  fst (leafmatch st (LPyTree l None) x s) = vb (is_none x || forallb (pmatch l) (leaves_of (pmatch l) x)).
Proof.
  intros Hp x s. rewrite leafmatch_pytree_fst. destruct (is_none x); [reflexivity|]. cbn [orb].
  destruct (pure_not_any l Hp) as [Ef Ec].
  apply pytree_body_pure; intros y s0; rewrite ?Ef, ?Ec, (pure_leafmatch l Hp); reflexivity.
Qed.

(* None matches no pure leaf type: it is never a leaf, it is a node without leaves *)
Lemma pmatch_none l : pure l = true -> pmatch l (Node KNone []) = false.
Proof.
  induction l as [| | |ls IH|ls IH|a| |l sopt IH] using leafty_ind'; intros Hp; try discriminate; try reflexivity.
  cbn [pure] in Hp. rewrite pure_forall in Hp. cbn [pmatch].
  induction IH as [|l1 lr Hl Hlr IHlr]; [reflexivity|]. cbn [forallb] in Hp. apply andb_true_iff in Hp as [H1 H2].
  rewrite (Hl H1). cbn. apply IHlr. exact H2.
Qed.

Definition q (l : leafty) (x : ptree) : bool := forallb (pmatch l) (leaves_of (pmatch l) x).

Lemma q_none_redundant l x : pure l = true -> is_none x || q l x = q l x.
Proof.
  intros Hp. destruct x as [a|k cs]; [reflexivity|]. destruct k; try reflexivity. destruct cs; [|reflexivity].
  unfold q. rewrite leaves_of_eq, (pmatch_none l Hp). reflexivity.
Qed.

Lemma forallb_flat_map {A B} (f : B -> bool) (g : A -> list B) l : forallb f (flat_map g l) = forallb (fun a => forallb f (g a)) l.
Proof. induction l as [|a l IH]; cbn; [reflexivity | now rewrite forallb_app, IH]. Qed.

Lemma q_node l k cs : pmatch l (Node k cs) = false -> q l (Node k cs) = forallb (q l) cs.
Proof. intros H. unfold q at 1. rewrite leaves_of_eq, H. apply forallb_flat_map. Qed.

(* flattening with "is itself an acceptable tree" as the leaf test, then testing every leaf, decides the same thing *)
Lemma q_nested l : forall x, forallb (q l) (leaves_of (q l) x) = q l x.
Proof.
  induction x as [a|k cs IH] using tree_ind'; rewrite leaves_of_eq.
  - destruct (q l (Leaf a)) eqn:E; cbn [forallb]; now rewrite E.
  - destruct (q l (Node k cs)) eqn:E; [cbn [forallb]; now rewrite E|].
    destruct (pmatch l (Node k cs)) eqn:Em.
    + exfalso. unfold q in E. rewrite leaves_of_eq, Em in E. cbn in E. rewrite Em in E. discriminate.
    + rewrite forallb_flat_map. rewrite (q_node l k cs Em) in E. rewrite <- E. clear E Em.
      induction IH as [|c r Hc Hr IHr]; [reflexivity|]. cbn [forallb]. now rewrite Hc, IHr.
Qed.

(* C08: PyTree[PyTree[L]] and PyTree[L] accept the same values *)
Theorem nested_pytree_same l : pure l = true -> forall x s1 s2,
  fst (leafmatch st (LPyTree (LPyTree l None) None) x s1) = fst (leafmatch st (LPyTree l None) x s2).
Proof.
  intros Hp x s1 s2. rewrite (pytree_accepts_iff_all_leaves_match l Hp x s2). fold (q l x). rewrite (q_none_redundant l x Hp).
  rewrite leafmatch_pytree_fst.
  assert (Hin : forall y s, fst (leafmatch st (LPyTree l None) y s) = vb (q l y)).
  { intros y s. rewrite (pytree_accepts_iff_all_leaves_match l Hp y s). fold (q l y). now rewrite (q_none_redundant l y Hp). }
  rewrite (pytree_body_pure (LPyTree l None) (q l) x s1 Hin Hin). rewrite q_nested.
  destruct (is_none x) eqn:En; [|reflexivity].
  destruct x as [a|k cs]; try discriminate. destruct k; try discriminate. destruct cs; try discriminate.
  unfold q. rewrite leaves_of_eq, (pmatch_none l Hp). reflexivity.
Qed.

(* PyTree[Any] accepts everything *)
Theorem pytree_any_accepts_everything x s : fst (leafmatch st (LPyTree LAny None) x s) = Acc.
Proof.
  rewrite leafmatch_pytree_fst. destruct (is_none x); [reflexivity|]. unfold pytree_body. cbv zeta.
  destruct (flatten_pure (flat_fn st LAny) (fun _ => false) ltac:(intros; reflexivity) x (with_flat s true)) as [d [s1 Hfl]]. rewrite Hfl.
  destruct (top_frame (with_flat s1 false)) as [m tm].
  pose proof (leaf_loop_pure (check_fn st LAny) (fun _ => true) ltac:(intros; reflexivity) (leaves_of (fun _ => false) x) 0 (set_top (with_flat s1 false) (fst (m, tm), tm))) as Hl.
  destruct (leaf_loop (check_fn st LAny) None (leaves_of (fun _ => false) x) 0 (set_top (with_flat s1 false) (fst (m, tm), tm))) as [vd s4].
  cbn in Hl. assert (Ht : forallb (fun _ : ptree => true) (leaves_of (fun _ => false) x) = true) by (apply forallb_forall; auto).
  rewrite Ht in Hl. cbn in Hl. subst vd. reflexivity.
Qed.
End P.

(* BroadcastFacts.v -- np.broadcast_shapes as a least upper bound (C01, C02, C04). *)
From JT Require Import model.Broadcast.
From Coq Require Import Lia.
Open Scope Z_scope.

(* broadcast order on reversed (right-aligned) shapes: a can be broadcast TO s *)
Definition ler (a s : list Z) : Prop := bcr a s = Some s.
(* ... and on shapes as written *)
Definition ble (a s : list Z) : Prop := bcast a s = Some s.

Lemma bce_le x z : bce x z = Some z <-> (x = 1 \/ x = z).
Proof. unfold bce.
  destruct (Z.eqb_spec x 1) as [E1|E1]. { split; auto. }
  destruct (Z.eqb_spec z 1) as [E2|E2]. { split; intros H; [inversion H; lia | destruct H; [lia|subst; reflexivity]]. }
  destruct (Z.eqb_spec x z) as [E3|E3]. { subst; split; auto. }
  split; [discriminate | intros [H|H]; contradiction]. Qed.

Lemma bce_comm x y : bce x y = bce y x.
Proof. unfold bce.
  destruct (Z.eqb_spec x 1), (Z.eqb_spec y 1); subst; try reflexivity.
  destruct (Z.eqb_spec x y), (Z.eqb_spec y x); subst; try reflexivity; congruence. Qed.

Lemma bcr_nil_r a : bcr a [] = Some a. Proof. destruct a; reflexivity. Qed.

Lemma bcr_comm a : forall b, bcr a b = bcr b a.
Proof. induction a as [|x a IH]; intros b.
  - cbn. now rewrite bcr_nil_r.
  - destruct b as [|y b]; [reflexivity|]. cbn [bcr]. now rewrite bce_comm, IH. Qed.

Lemma bcast_comm a b : bcast a b = bcast b a.
Proof. unfold bcast. now rewrite bcr_comm. Qed.

Lemma ler_nil s : ler [] s. Proof. unfold ler; destruct s; reflexivity. Qed.

Lemma ler_cons x a z s : ler (x :: a) (z :: s) <-> (x = 1 \/ x = z) /\ ler a s.
Proof. unfold ler; cbn [bcr]. split.
  - destruct (bce x z) eqn:E, (bcr a s) eqn:F; intros H; inversion H; subst.
    split; [apply bce_le; assumption | reflexivity].
  - intros [Hx Ha]. apply bce_le in Hx. rewrite Hx, Ha. reflexivity. Qed.

Lemma ler_cons_nil x a : ~ ler (x :: a) []. Proof. unfold ler; cbn. discriminate. Qed.

Lemma bce_lub x y z : (x = 1 \/ x = z) -> (y = 1 \/ y = z) -> exists l, bce x y = Some l /\ (l = 1 \/ l = z).
Proof. intros Hx Hy. unfold bce.
  destruct (Z.eqb_spec x 1) as [E1|E1]. { exists y; auto. }
  destruct (Z.eqb_spec y 1) as [E2|E2]. { exists x; auto. }
  destruct (Z.eqb_spec x y) as [E3|E3]. { exists x; auto. }
  exfalso; lia. Qed.

Theorem lubr_complete : forall a b s, ler a s -> ler b s -> exists l, bcr a b = Some l /\ ler l s.
Proof.
  induction a as [|x a IH]; intros b s Ha Hb.
  - exists b. split; [reflexivity|assumption].
  - destruct b as [|y b]. { exists (x :: a). split; [reflexivity|assumption]. }
    destruct s as [|z s]. { exfalso; eapply ler_cons_nil; eauto. }
    apply ler_cons in Ha as [Hx Ha]. apply ler_cons in Hb as [Hy Hb].
    destruct (IH b s Ha Hb) as [r [Hr Hrs]].
    destruct (bce_lub x y z Hx Hy) as [l [Hl Hlz]].
    exists (l :: r). cbn [bcr]. rewrite Hl, Hr. split; [reflexivity|].
    apply ler_cons; auto. Qed.

Lemma bce_sound_l x y l z : bce x y = Some l -> (l = 1 \/ l = z) -> (x = 1 \/ x = z).
Proof. unfold bce.
  destruct (Z.eqb_spec x 1) as [E1|E1]; [auto|].
  destruct (Z.eqb_spec y 1) as [E2|E2]; [intros H; inversion H; subst; auto|].
  destruct (Z.eqb_spec x y) as [E3|E3]; intros H; inversion H; subst; auto. Qed.
Lemma bce_sound_r x y l z : bce x y = Some l -> (l = 1 \/ l = z) -> (y = 1 \/ y = z).
Proof. unfold bce.
  destruct (Z.eqb_spec x 1) as [E1|E1]; [intros H; inversion H; subst; auto|].
  destruct (Z.eqb_spec y 1) as [E2|E2]; [auto|].
  destruct (Z.eqb_spec x y) as [E3|E3]; intros H; inversion H; subst; auto. Qed.

Theorem lubr_sound : forall a b l s, bcr a b = Some l -> ler l s -> ler a s /\ ler b s.
Proof.
  induction a as [|x a IH]; intros b l s H Hl.
  - cbn in H. inversion H; subst. split; [apply ler_nil|assumption].
  - destruct b as [|y b]. { cbn in H; inversion H; subst. split; [assumption|apply ler_nil]. }
    cbn [bcr] in H. destruct (bce x y) eqn:E; [|discriminate]. destruct (bcr a b) eqn:F; [|discriminate].
    inversion H; subst. destruct s as [|w s]. { exfalso; eapply ler_cons_nil; eauto. }
    apply ler_cons in Hl as [Hz Hl]. destruct (IH b l0 s F Hl) as [Ha Hb].
    split; apply ler_cons; split; auto; [eapply bce_sound_l|eapply bce_sound_r]; eauto. Qed.

Lemma ler_refl s : ler s s.
Proof. induction s as [|z s IH]; [reflexivity|]. apply ler_cons; auto. Qed.

(* ---------- the same facts on shapes as written ---------- *)
Lemma rev_inj (a b : list Z) : rev a = rev b -> a = b.
Proof. intros H. rewrite <- (rev_involutive a), <- (rev_involutive b). now rewrite H. Qed.

Lemma ble_ler a s : ble a s <-> ler (rev a) (rev s).
Proof. unfold ble, ler, bcast. split.
  - destruct (bcr (rev a) (rev s)) as [r|]; cbn; [|discriminate].
    intros H. inversion H. now rewrite rev_involutive.
  - intros ->. cbn. now rewrite rev_involutive. Qed.

Lemma bcast_some a b l : bcast a b = Some l <-> bcr (rev a) (rev b) = Some (rev l).
Proof. unfold bcast. split.
  - destruct (bcr (rev a) (rev b)) as [r|]; cbn; [|discriminate].
    intros H. inversion H. now rewrite rev_involutive.
  - intros ->. cbn. now rewrite rev_involutive. Qed.

Theorem ble_refl s : ble s s.
Proof. apply ble_ler, ler_refl. Qed.

(* broadcasting two shapes gives their least upper bound *)
Theorem bcast_lub a b s : (ble a s /\ ble b s) <-> exists l, bcast a b = Some l /\ ble l s.
Proof. split.
  - intros [Ha Hb]. apply ble_ler in Ha, Hb.
    destruct (lubr_complete _ _ _ Ha Hb) as [l [Hl Hls]].
    exists (rev l). split.
    + apply bcast_some. now rewrite rev_involutive.
    + apply ble_ler. now rewrite rev_involutive.
  - intros [l [Hl Hls]]. apply bcast_some in Hl. apply ble_ler in Hls.
    destruct (lubr_sound _ _ _ _ Hl Hls). split; now apply ble_ler. Qed.

Lemma bcast_none_no_ub a b s : bcast a b = None -> ble a s -> ble b s -> False.
Proof. intros H Ha Hb. destruct (proj1 (bcast_lub a b s) (conj Ha Hb)) as [l [Hl _]]. congruence. Qed.

Lemma zlist_eqb_eq a : forall b, zlist_eqb a b = true <-> a = b.
Proof. induction a as [|x a IH]; destruct b as [|y b]; cbn; try (split; congruence).
  rewrite andb_true_iff, Z.eqb_eq, IH. split; [intros [-> ->]; reflexivity | intros H; inversion H; auto]. Qed.

Lemma zlist_eqb_refl a : zlist_eqb a a = true. Proof. now apply zlist_eqb_eq. Qed.

Lemma zlist_eqb_neq a b : zlist_eqb a b = false <-> a <> b.
Proof. split.
  - intros H E. apply zlist_eqb_eq in E. congruence.
  - intros H. destruct (zlist_eqb a b) eqn:E; [apply zlist_eqb_eq in E; contradiction | reflexivity]. Qed.

(* the result of a broadcast is an upper bound of both arguments *)
Lemma bcast_upper a b l : bcast a b = Some l -> ble a l /\ ble b l.
Proof. intros H. apply bcast_lub. exists l. split; [assumption | apply ble_refl]. Qed.

(* numpy's corner cases *)
Example bcast_examples :
  bcast [2;2;3] [4;1] = None /\ bcast [2;1;3] [5;1] = Some [2;5;3] /\ bcast [1] [0] = Some [0] /\
  bcast [0] [1] = Some [0] /\ bcast [0] [2] = None /\ bcast [] [3;4] = Some [3;4].
Proof. repeat split; reflexivity. Qed.

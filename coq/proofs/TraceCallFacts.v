(* TraceCallFacts.v -- C17 for a whole decorated call: every annotated argument and the return value checked in turn inside
   one context, over objects that carry element data and a tracer flag. *)
From JT Require Import model.Trace proofs.TraceFacts.
Open Scope string_scope.
Open Scope list_scope.

(* the walk of a typechecker over the uses of one call, with the accesses it makes *)
Fixpoint walk_log (lbl : option string) (st : symtab) (us : list (annot * obj)) (s : stack) : (verdict * stack) * list access :=
  match us with
  | [] => ((Acc, s), [])
  | (a, o) :: r =>
      match instancecheck_log false lbl st a o s with
      | ((Acc, s'), l) => let '(x, l') := walk_log lbl st r s' in (x, l ++ l')
      | x => x
      end
  end.

Definition observe_use (u : annot * obj) : annot * value := (fst u, observe (snd u)).

(* it computes the walk of the check model on what is observable of the objects *)
Theorem walk_log_refines lbl st : forall us s, fst (walk_log lbl st us s) = walk lbl st (map observe_use us) s.
Proof.
  induction us as [|[a o] r IH]; intros s; cbn [walk_log walk map observe_use fst snd]; [reflexivity|].
  rewrite <- (log_refines false lbl st a o s).
  destruct (instancecheck_log false lbl st a o s) as [[v s'] l]. cbn [fst].
  destruct v; try reflexivity. specialize (IH s'). destruct (walk_log lbl st r s') as [x l']. exact IH.
Qed.

(* no concrete element value is needed anywhere in the call *)
Theorem walk_never_forces lbl st : forall us s, ~ In AForce (snd (walk_log lbl st us s)).
Proof.
  induction us as [|[a o] r IH]; intros s; cbn [walk_log]; [intros []|].
  pose proof (never_forces false lbl st a o s) as Hn.
  destruct (instancecheck_log false lbl st a o s) as [[v s'] l]. cbn [snd] in Hn.
  destruct v; try exact Hn. specialize (IH s'). destruct (walk_log lbl st r s') as [x l']. cbn [snd] in *.
  intros Hin. apply in_app_or in Hin as [H|H]; [now apply Hn | now apply IH].
Qed.

(* same annotations, objects that agree on type membership, shape and dtype, argument by argument: same verdict, same bindings
   left behind, same accesses -- whatever the element values and whichever of them are tracers *)
Theorem walk_value_independent lbl st : forall us1 us2 s,
  map observe_use us1 = map observe_use us2 -> walk_log lbl st us1 s = walk_log lbl st us2 s.
Proof.
  induction us1 as [|[a1 o1] r1 IH]; intros [|[a2 o2] r2] s H; cbn [map] in H; try discriminate; [reflexivity|].
  unfold observe_use in H at 1 3. cbn [fst snd] in H.
  assert (Ha : a1 = a2) by congruence. assert (Ho : observe o1 = observe o2) by congruence.
  assert (Hr : map observe_use r1 = map observe_use r2) by congruence. clear H.
  cbn [walk_log]. subst a2.
  rewrite (value_independent false lbl st a1 o1 o2 s Ho).
  destruct (instancecheck_log false lbl st a1 o2 s) as [[v s'] l]. destruct v; try reflexivity. now rewrite (IH r2 s' Hr).
Qed.

(* jit / vmap / grad / eval_shape: the same call with every argument replaced by a tracer of the same aval *)
Definition as_tracer (u : annot * obj) : annot * obj :=
  (fst u, mkobj (o_inst (snd u)) (o_attrs (snd u)) (o_dtype (snd u)) (o_shape (snd u)) [] true).

Corollary traced_call_equals_eager_call lbl st us s : walk_log lbl st (map as_tracer us) s = walk_log lbl st us s.
Proof.
  apply walk_value_independent. rewrite map_map. apply map_ext. intros [a o]. reflexivity.
Qed.

(* non-vacuity: two arguments sharing an axis; the second mismatches; tracers of the same avals give the same rejection, the
   same (restored) bindings and a log without AForce *)
Definition cx_use (sh : list Z) (data : list Z) : annot * obj :=
  (mkannot false None (mkdims [DNamed "a" false false; DNamed "b" false false] None) false, mkobj true true "float32" sh data false).
Example walk_nonvacuous :
  let us := [cx_use [2; 3]%Z [1; 2; 3; 4; 5; 6]%Z; cx_use [2; 4]%Z [0; 0; 0; 0; 0; 0; 0; 0]%Z] in
  show_verdict (fst (fst (walk_log None [] us [empty_memo]))) = "rej" /\
  walk_log None [] (map as_tracer us) [empty_memo] = walk_log None [] us [empty_memo] /\
  List.length (snd (walk_log None [] us [empty_memo])) = 6%nat.
Proof. repeat split; vm_compute; reflexivity. Qed.

(* ProgFacts.v -- every program leaves the caller's bindings exactly as they were (C05). *)
From JT Require Import model.Prog proofs.CheckFacts proofs.WrapperFacts.
From Coq Require Import Lia.
Open Scope string_scope.

(* ---------- induction principle for the nested inductive `prog` ---------- *)
Section Ind.
Variables (P : prog -> Prop) (Q : list prog -> Prop).
Hypotheses (Hc : forall u, P (PCheck u)) (Ho : P PObserve)
           (Hcall : forall sty b ps body x, Q body -> P (PCall sty b ps body x))
           (Hctx : forall body x, Q body -> P (PContext body x))
           (Htry : forall body, Q body -> P (PTry body))
           (Hnil : Q []) (Hcons : forall p r, P p -> Q r -> Q (p :: r)).
Fixpoint prog_ind2 (p : prog) : P p :=
  let go := fix go (l : list prog) : Q l := match l with [] => Hnil | p :: r => Hcons p r (prog_ind2 p) (go r) end in
  match p with
  | PCheck u => Hc u
  | PObserve => Ho
  | PCall sty b ps body x => Hcall sty b ps body x (go body)
  | PContext body x => Hctx body x (go body)
  | PTry body => Htry body (go body)
  end.
End Ind.

Section S.
Variables (lbl : option string) (st : symtab).

(* unfolding equations: the local recursion inside `run` is `run_list` *)
Lemma run_context body x s :
  run lbl st (PContext body x) s =
  (let s0 := push_memo s [] in
   let '(s1, ev, sg) := run_list lbl st body s0 in
   (pop_memo s1, ev, match sg with Some e => Some e | None => exit_sig x end)).
Proof. reflexivity. Qed.

Lemma run_try body s :
  run lbl st (PTry body) s =
  match run_list lbl st body s with
  | (s1, ev, Some e) => (s1, (ev ++ [EvExc e])%list, None)
  | r => r
  end.
Proof. reflexivity. Qed.

Lemma run_call sty binds params body x s :
  run lbl st (PCall sty binds params body x) s =
  if negb binds then (s, [], Some OtherExc)
  else
    let s0 := push_memo s [] in
    let finish (r : stack * list pevent * sig) := let '(s1, ev, sg) := r in (pop_memo s1, ev, sg) in
    match sty with
    | SNone =>
        match x with
        | XGenerator => let '(s1, ev, sg) := run_list lbl st body (pop_memo s0) in (s1, ev, sg)
        | _ => finish (let '(s1, ev, sg) := run_list lbl st body s0 in
                       (s1, ev, match sg with Some e => Some e | None => exit_sig x end))
        end
    | SNew | SOld =>
        match walk lbl st params s0 with
        | (Acc, s1) =>
            match x with
            | XGenerator => run_list lbl st body (pop_memo s1)
            | _ => finish (let '(s2, ev, sg) := run_list lbl st body s1 in
                           (s2, ev, match sg with Some e => Some e | None => exit_sig x end))
            end
        | (Rej, s1) => (pop_memo s1, [], Some OtherExc)
        | (Raise e, s1) => (pop_memo s1, [], Some (match e with AnnotationErr => AnnotationErr | BaseExc => BaseExc | _ => OtherExc end))
        end
    end.
Proof. reflexivity. Qed.

(* "the same except, possibly, for the bindings of the current (top) context" *)
Definition below (s s' : stack) : Prop := length s' = length s /\ tl s' = tl s.

Lemma below_refl s : below s s. Proof. split; reflexivity. Qed.
Lemma below_trans a b c : below a b -> below b c -> below a c.
Proof. intros [H1 H2] [H3 H4]. split; congruence. Qed.

Lemma set_memo_below s m : below s (set_memo s m).
Proof. destruct s; split; reflexivity. Qed.

Lemma instancecheck_below flat a v s vd s' : instancecheck flat lbl st a v s = (vd, s') -> below s s'.
Proof.
  unfold instancecheck.
  destruct (a_skip a); [intros H; inversion H; apply below_refl|].
  destruct (negb (if a_any a then v_attrs v else v_inst v)); [intros H; inversion H; apply below_refl|].
  destruct flat; [intros H; inversion H; apply below_refl|].
  destruct (negb (dtype_ok a (v_dtype v))); [intros H; inversion H; apply below_refl|].
  destruct (check_shape lbl st (a_dims a) (v_shape v) (get_memo s)) as [r m'].
  destruct r; intros H; inversion H; apply set_memo_below.
Qed.

Lemma walk_below : forall us s vd s', walk lbl st us s = (vd, s') -> below s s'.
Proof.
  induction us as [|[a v] us IH]; intros s vd s' H; cbn in H.
  - inversion H; apply below_refl.
  - destruct (instancecheck false lbl st a v s) as [vd1 s1] eqn:E.
    pose proof (instancecheck_below _ _ _ _ _ _ E) as B1.
    destruct vd1; try (inversion H; subst; exact B1).
    eapply below_trans; [exact B1 | eapply IH; eauto].
Qed.

Lemma pop_push_below s m s1 : below (m :: s) s1 -> pop_memo s1 = s.
Proof. intros [_ H]. exact H. Qed.

(* the main statement, simultaneously for programs and program lists *)
Definition is_block (p : prog) : bool := match p with PCall _ _ _ _ _ | PContext _ _ => true | _ => false end.

Definition Pp (p : prog) : Prop :=
  forall s s' ev sg, run lbl st p s = (s', ev, sg) ->
    below s s' /\ (is_block p = true -> match p with PCall _ _ _ _ XGenerator => below s s' | _ => s' = s end).
Definition Qp (ps : list prog) : Prop :=
  forall s s' ev sg, run_list lbl st ps s = (s', ev, sg) -> below s s'.

Lemma Pp_all : forall p, Pp p.
Proof.
  apply (prog_ind2 Pp Qp); unfold Pp, Qp.
  - (* PCheck *) intros [a v] s s' ev sg H. cbn in H.
    destruct (instancecheck false lbl st a v s) as [vd s1] eqn:E. inversion H; subst.
    split; [eapply instancecheck_below; eauto | discriminate].
  - (* PObserve *) intros s s' ev sg H. cbn in H. inversion H; subst. split; [apply below_refl | discriminate].
  - (* PCall *) intros sty b ps body x IH s s' ev sg H. rewrite run_call in H.
    destruct b; cbn [negb] in H; [|inversion H; subst; split; [apply below_refl | destruct x; intros; try reflexivity; apply below_refl]].
    assert (Hpop : forall s1, below (push_memo s []) s1 -> pop_memo s1 = s) by (intros s1; apply pop_push_below).
    assert (Hfin : forall sa s2 ev2 sg2, below (push_memo s []) sa -> run_list lbl st body sa = (s2, ev2, sg2) -> pop_memo s2 = s).
    { intros sa s2 ev2 sg2 Ba Hr. apply Hpop. eapply below_trans; [exact Ba | eapply IH; eauto]. }
    destruct sty.
    + (* SNew *)
      destruct (walk lbl st ps (push_memo s [])) as [vd s1] eqn:Ew. pose proof (walk_below _ _ _ _ Ew) as Bw.
      destruct vd as [| |e].
      * destruct x as [|bb|].
        -- destruct (run_list lbl st body s1) as [[s2 ev2] sg2] eqn:Er. inversion H; subst.
           rewrite (Hfin _ _ _ _ Bw Er). split; [apply below_refl | reflexivity].
        -- destruct (run_list lbl st body s1) as [[s2 ev2] sg2] eqn:Er. inversion H; subst.
           rewrite (Hfin _ _ _ _ Bw Er). split; [apply below_refl | reflexivity].
        -- rewrite (Hpop _ Bw) in H. split; [eapply IH; eauto | intros _; eapply IH; eauto].
      * inversion H; subst. rewrite (Hpop _ Bw). split; [apply below_refl | destruct x; intros; try reflexivity; apply below_refl].
      * inversion H; subst. rewrite (Hpop _ Bw). split; [apply below_refl | destruct x; intros; try reflexivity; apply below_refl].
    + (* SOld *)
      destruct (walk lbl st ps (push_memo s [])) as [vd s1] eqn:Ew. pose proof (walk_below _ _ _ _ Ew) as Bw.
      destruct vd as [| |e].
      * destruct x as [|bb|].
        -- destruct (run_list lbl st body s1) as [[s2 ev2] sg2] eqn:Er. inversion H; subst.
           rewrite (Hfin _ _ _ _ Bw Er). split; [apply below_refl | reflexivity].
        -- destruct (run_list lbl st body s1) as [[s2 ev2] sg2] eqn:Er. inversion H; subst.
           rewrite (Hfin _ _ _ _ Bw Er). split; [apply below_refl | reflexivity].
        -- rewrite (Hpop _ Bw) in H. split; [eapply IH; eauto | intros _; eapply IH; eauto].
      * inversion H; subst. rewrite (Hpop _ Bw). split; [apply below_refl | destruct x; intros; try reflexivity; apply below_refl].
      * inversion H; subst. rewrite (Hpop _ Bw). split; [apply below_refl | destruct x; intros; try reflexivity; apply below_refl].
    + (* SNone *)
      destruct x as [|bb|].
      * destruct (run_list lbl st body (push_memo s [])) as [[s2 ev2] sg2] eqn:Er. inversion H; subst.
        rewrite (Hfin _ _ _ _ (below_refl _) Er). split; [apply below_refl | reflexivity].
      * destruct (run_list lbl st body (push_memo s [])) as [[s2 ev2] sg2] eqn:Er. inversion H; subst.
        rewrite (Hfin _ _ _ _ (below_refl _) Er). split; [apply below_refl | reflexivity].
      * cbn [push_memo pop_memo tl] in H.
        destruct (run_list lbl st body s) as [[s2 ev2] sg2] eqn:Er. inversion H; subst.
        split; [eapply IH; eauto | intros _; eapply IH; eauto].
  - (* PContext *) intros body x IH s s' ev sg H. rewrite run_context in H. cbv zeta in H.
    destruct (run_list lbl st body (push_memo s [])) as [[s1 ev1] sg1] eqn:Er. inversion H; subst.
    rewrite (pop_push_below s _ s1 (IH _ _ _ _ Er)). split; [apply below_refl | reflexivity].
  - (* PTry *) intros body IH s s' ev sg H. rewrite run_try in H.
    destruct (run_list lbl st body s) as [[s1 ev1] sg1] eqn:Er.
    destruct sg1; inversion H; subst; (split; [eapply IH; eauto | discriminate]).
  - (* nil *) intros s s' ev sg H. cbn in H. inversion H; apply below_refl.
  - (* cons *) intros p r IHp IHr s s' ev sg H. cbn [run_list] in H.
    destruct (run lbl st p s) as [[s1 ev1] sg1] eqn:E1. destruct (IHp _ _ _ _ E1) as [B1 _].
    destruct sg1.
    + inversion H; subst. exact B1.
    + destruct (run_list lbl st r s1) as [[s2 ev2] sg2] eqn:E2. inversion H; subst.
      eapply below_trans; [exact B1 | eapply IHr; eauto].
Qed.

(* C05: a decorated call or a context block, however it ends (return, Exception, BaseException,
   non-binding arguments, failed parameter check) leaves the WHOLE stack exactly as it was *)
Theorem block_restores_stack p s s' ev sg :
  match p with
  | PCall _ _ _ _ XGenerator => False
  | PCall _ _ _ _ _ | PContext _ _ => True
  | _ => False
  end ->
  run lbl st p s = (s', ev, sg) -> s' = s.
Proof.
  intros Hb H. destruct (Pp_all p _ _ _ _ H) as [_ Hs].
  destruct p as [u| |sty b ps body x|body x|body]; try contradiction.
  - destruct x; try contradiction; apply Hs; reflexivity.
  - apply Hs; reflexivity.
Qed.

(* a generator function: the context is closed when the call returns; what the generator does
   when the caller iterates it happens in the caller's own context *)
Theorem generator_call_does_not_keep_context sty ps body s :
  run lbl st (PCall sty true ps body XGenerator) s =
  match sty with
  | SNone => run_list lbl st body s
  | _ => match walk lbl st ps (push_memo s []) with
         | (Acc, _) => run_list lbl st body s
         | (Rej, _) => (s, [], Some OtherExc)
         | (Raise e, _) => (s, [], Some (match e with AnnotationErr => AnnotationErr | BaseExc => BaseExc | _ => OtherExc end))
         end
  end.
Proof.
  rewrite run_call. cbn [negb]. cbv zeta.
  destruct sty; try (cbn [push_memo pop_memo tl]; destruct (run_list lbl st body s) as [[? ?] ?]; reflexivity);
  destruct (walk lbl st ps (push_memo s [])) as [vd s1] eqn:Ew; pose proof (walk_below _ _ _ _ Ew) as Bw;
  rewrite (pop_push_below _ _ _ Bw); destruct vd; reflexivity.
Qed.

(* any program: the contexts below the current one are untouched, the depth is unchanged *)
Theorem program_keeps_callers_untouched ps s s' ev sg :
  run_list lbl st ps s = (s', ev, sg) -> length s' = length s /\ tl s' = tl s.
Proof.
  revert s s' ev sg. induction ps as [|p r IH]; intros s s' ev sg H; cbn [run_list] in H.
  - inversion H; split; reflexivity.
  - destruct (run lbl st p s) as [[s1 ev1] sg1] eqn:E1. destruct (Pp_all p _ _ _ _ E1) as [B1 _].
    destruct sg1.
    + inversion H; subst. exact B1.
    + destruct (run_list lbl st r s1) as [[s2 ev2] sg2] eqn:E2. inversion H; subst.
      destruct (IH _ _ _ _ E2) as [L T]. destruct B1 as [L1 T1]. split; congruence.
Qed.

(* outside every context: nothing persists, every observation is empty *)
Theorem toplevel_stateless ps s' ev sg :
  run_list lbl st ps [] = (s', ev, sg) -> s' = [].
Proof.
  intros H. destruct (program_keeps_callers_untouched _ _ _ _ _ H) as [L _]. destruct s'; [reflexivity | discriminate].
Qed.

(* inside a call the first observation sees only what the call's own parameters bound *)
Theorem fresh_context_in_call ps rest s s1 :
  walk lbl st ps (push_memo s []) = (Acc, s1) ->
  exists ev sg, run lbl st (PCall SNew true ps (PObserve :: rest) XReturn) s = (s, EvBindings (get_memo s1) (S (length s)) :: ev, sg) /\
  (ps = [] -> get_memo s1 = empty_memo).
Proof.
  intros Hw. rewrite run_call. cbn [negb]. cbv zeta. rewrite Hw. cbn [run_list run].
  pose proof (walk_below _ _ _ _ Hw) as [Bl Bt].
  destruct (run_list lbl st rest s1) as [[s2 ev2] sg2] eqn:Er.
  destruct (program_keeps_callers_untouched _ _ _ _ _ Er) as [L2 T2].
  exists ev2, (match sg2 with Some e => Some e | None => None end). split.
  - assert (E1 : pop_memo s2 = s) by (unfold pop_memo; rewrite T2, Bt; reflexivity).
    assert (E2 : length s1 = S (length s)) by (rewrite Bl; reflexivity).
    rewrite E1, E2. cbn [app]. destruct sg2; reflexivity.
  - intros ->. cbn in Hw. inversion Hw; subst. reflexivity.
Qed.

End S.

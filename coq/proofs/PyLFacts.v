(* PyLFacts.v -- interpreting the term that translator/tr_pyl.py generated from the source of _check_dims computes
   model/Check.v's check_dims: same verdict, same exception, same single-axis memo (partial progress included). *)
From JT Require Import model.PyL gen.CheckDimsSrc.
From Coq Require Import Lia.
Open Scope string_scope.
(* the generated term may change with the source: a proof step that no longer goes through must fail fast, not hang the build *)
Set Default Timeout 60.

Definition loop_body : list pstmt :=
  match check_dims_src with [_; SForZip _ _ _ _ b; _] => b | _ => [] end.

Ltac fin := eexists; split; [reflexivity | split; cbn; solve [assumption | reflexivity]].
Ltac go Hs Ha := repeat (progress (cbn; rewrite ?Hs, ?Ha)).

Section Refine.
Variables (lbl : option string) (st : symtab) (args : alist Z) (call : string -> list pval -> option (pres * list pval)).

Definition good (env : penv) (sm : alist Z) : Prop :=
  env "single_memo" = Some (VSingle sm) /\ env "arg_memo" = Some (VArgs args).

Lemma body_step env d z sm : good env sm -> is_variadic d = false ->
  let env1 := upd (upd env "cls_dim" (VDim d)) "obj_size" (VZ z) in
  match dim_step lbl st args d z sm with
  | SCont sm1 => exists env2, exec_list lbl st call loop_body env1 = ONormal env2 /\ good env2 sm1
  | SFail => exists env2, exec_list lbl st call loop_body env1 = OReturn (VS "msg") env2 /\ good env2 sm
  | SRaise e => exists env2, exec_list lbl st call loop_body env1 = ORaise e env2 /\ good env2 sm
  end.
Proof.
  intros [Hs Ha] Hv env1. unfold loop_body. cbn [check_dims_src]. subst env1.
  destruct d as [| |n bc tp|n bc tp|zz bc|src bc]; try discriminate.
  - cbn. fin.
  - (* named *)
    cbn [dim_step dkey]. destruct bc; [destruct (z =? 1)%Z eqn:E1|]; cbn [andb];
    try (destruct tp; [destruct lbl as [l|]|]; cbn [option_map]); go Hs Ha; rewrite ?E1; go Hs Ha.
    all: try fin.
    all: match goal with |- context [aget ?m ?k] => destruct (aget m k) as [v|] eqn:Eg end; go Hs Ha; try fin.
    all: destruct (v =? z)%Z eqn:Ev; cbn; fin.
  - (* fixed *)
    cbn [dim_step]. destruct bc; [destruct (z =? 1)%Z eqn:E1|]; cbn [andb]; go Hs Ha; rewrite ?E1; go Hs Ha; try fin.
    all: destruct (zz =? z)%Z eqn:Ez; cbn; fin.
  - (* symbolic *)
    cbn [dim_step]. destruct bc; [destruct (z =? 1)%Z eqn:E1|]; cbn [andb]; go Hs Ha; rewrite ?E1; go Hs Ha; try fin.
    all: destruct (aget st src) as [e|] eqn:Est; go Hs Ha; try fin.
    all: destruct (eval_sym sm args e) as [v| | |] eqn:Eev; go Hs Ha; try fin.
    all: destruct (v =? z)%Z eqn:Ev; cbn; fin.
Qed.

Lemma exec_forzip x y a b body env :
  exec lbl st call (SForZip x y a b body) env =
  match evale lbl env a, evale lbl env b with
  | RVal (VDims l1), RVal (VZs l2) => for_zip (exec_list lbl st call body) x y l1 l2 env
  | RExn ex, _ => ORaise ex env
  | _, RExn ex => ORaise ex env
  | _, _ => ORaise OtherExc env
  end.
Proof. reflexivity. Qed.

Lemma loop_refines dl : forall sh sm env, good env sm -> length dl = length sh ->
  forallb (fun d => negb (is_variadic d)) dl = true ->
  match check_dims lbl st args dl sh sm with
  | (COk, sm') => exists env2, for_zip (exec_list lbl st call loop_body) "cls_dim" "obj_size" dl sh env = ONormal env2 /\ good env2 sm'
  | (CFail, sm') => exists env2, for_zip (exec_list lbl st call loop_body) "cls_dim" "obj_size" dl sh env = OReturn (VS "msg") env2 /\ good env2 sm'
  | (CRaise e, sm') => exists env2, for_zip (exec_list lbl st call loop_body) "cls_dim" "obj_size" dl sh env = ORaise e env2 /\ good env2 sm'
  end.
Proof.
  induction dl as [|d dl IH]; intros sh sm env Hg Hlen Hnv; destruct sh as [|z sh]; try discriminate.
  - cbn. eexists; split; [reflexivity | exact Hg].
  - cbn [forallb] in Hnv. apply andb_true_iff in Hnv as [Hd Hr]. apply negb_true_iff in Hd.
    cbn [check_dims for_zip]. pose proof (body_step env d z sm Hg Hd) as Hb. cbv zeta in Hb.
    destruct (dim_step lbl st args d z sm) as [sm1| |e].
    + destruct Hb as [env2 [-> Hg2]]. apply IH; [exact Hg2 | cbn in Hlen; lia | exact Hr].
    + destruct Hb as [env2 [-> Hg2]]. eexists; split; [reflexivity | exact Hg2].
    + destruct Hb as [env2 [-> Hg2]]. eexists; split; [reflexivity | exact Hg2].
Qed.

(* the whole function, as translated from the source *)
Theorem check_dims_src_refines_model dl sh sm env :
  good env sm -> env "cls_dims" = Some (VDims dl) -> env "obj_shape" = Some (VZs sh) ->
  length dl = length sh -> forallb (fun d => negb (is_variadic d)) dl = true ->
  match check_dims lbl st args dl sh sm with
  | (COk, sm') => exists env2, run_body_with call lbl st check_dims_src env = OReturn (VS "") env2 /\ good env2 sm'
  | (CFail, sm') => exists env2, run_body_with call lbl st check_dims_src env = OReturn (VS "msg") env2 /\ good env2 sm'
  | (CRaise e, sm') => exists env2, run_body_with call lbl st check_dims_src env = ORaise e env2 /\ good env2 sm'
  end.
Proof.
  intros Hg Hd Hs Hlen Hnv. pose proof (loop_refines dl sh sm env Hg Hlen Hnv) as Hl.
  unfold run_body_with. change check_dims_src with
    [SAssert (PEq (PLen (PVar "cls_dims")) (PLen (PVar "obj_shape")));
     SForZip "cls_dim" "obj_size" (PVar "cls_dims") (PVar "obj_shape") loop_body; SReturn (PStr "")].
  cbn [exec_list].
  assert (E0 : exec lbl st call (SAssert (PEq (PLen (PVar "cls_dims")) (PLen (PVar "obj_shape")))) env = ONormal env).
  { cbn. rewrite Hd, Hs. cbn. rewrite Hlen, Z.eqb_refl. reflexivity. }
  rewrite E0, exec_forzip. cbn [evale]. rewrite Hd, Hs.
  destruct (check_dims lbl st args dl sh sm) as [[| |e] sm'].
  - destruct Hl as [env2 [-> Hg2]]. cbn. eexists; split; [reflexivity | exact Hg2].
  - destruct Hl as [env2 [-> Hg2]]. eexists; split; [reflexivity | exact Hg2].
  - destruct Hl as [env2 [-> Hg2]]. eexists; split; [reflexivity | exact Hg2].
Qed.
End Refine.

(* StructFacts.v -- structure strings and the structure step of a PyTree check (C09). *)
From JT Require Import model.PyTreeCheck proofs.TreeFacts.
From Coq Require Import Lia.
Open Scope string_scope.
Open Scope list_scope.

Lemma is_dots_eq p : is_dots p = true <-> p = "...".
Proof. unfold is_dots. apply String.eqb_eq. Qed.

Lemma dots_not_identifier p : is_dots p = true -> is_identifier p = false.
Proof. intros H. apply is_dots_eq in H. subst. reflexivity. Qed.

(* the documented shape: identifiers, optionally preceded or followed (not both) by `...` *)
Definition all_ident (l : list string) : Prop := Forall (fun p => is_identifier p = true) l.
Definition struct_ok (pieces : list string) : Prop :=
  exists ids, ids <> [] /\ all_ident ids /\ (pieces = ids \/ pieces = "..." :: ids \/ pieces = ids ++ ["..."]).

(* the loop of lines 219-239 with the length made a parameter *)
Section VL.
Variable n : nat.
Fixpoint vloop (l : list string) (idx : nat) : bool :=
  match l with
  | [] => true
  | p :: r =>
      (if ((idx =? 0)%nat || (idx =? n - 1)%nat) && is_dots p then true else is_identifier p) && vloop r (S idx)
  end.
End VL.

Lemma validate_unfold s :
  validate_structure s =
  match split_ws s with
  | [] => false
  | p0 :: _ => negb (is_dots p0 && is_dots (last (split_ws s) "")) && vloop (length (split_ws s)) (split_ws s) 0
  end.
Proof. unfold validate_structure. destruct (split_ws s); reflexivity. Qed.

Lemma forallb_all_ident l : forallb is_identifier l = true <-> all_ident l.
Proof. unfold all_ident. rewrite forallb_forall, Forall_forall. tauto. Qed.

(* from index >= 1 on, only the last piece may be `...` *)
Lemma vloop_tail : forall l idx n, (1 <= idx)%nat -> n = (idx + length l)%nat -> l <> [] ->
  vloop n l idx = forallb is_identifier (removelast l) && (is_dots (last l "") || is_identifier (last l "")).
Proof.
  induction l as [|p r IH]; intros idx n Hi Hn Hne; [congruence|].
  destruct r as [|q r'].
  - cbn [vloop removelast last forallb length] in *. 
    replace (idx =? 0)%nat with false by (symmetry; apply Nat.eqb_neq; lia).
    replace (idx =? n - 1)%nat with true by (symmetry; apply Nat.eqb_eq; lia).
    cbn. rewrite andb_true_r. destruct (is_dots p) eqn:E; reflexivity.
  - assert (Hr : q :: r' <> []) by discriminate. assert (Hlen : length (q :: r') = S (length r')) by reflexivity.
    change (removelast (p :: q :: r')) with (p :: removelast (q :: r')).
    change (last (p :: q :: r') "") with (last (q :: r') "").
    cbn [length] in Hn. remember (q :: r') as rr eqn:Err.
    cbn [vloop]. rewrite (IH (S idx) n) by (try lia; assumption).
    replace (idx =? 0)%nat with false by (symmetry; apply Nat.eqb_neq; lia).
    replace (idx =? n - 1)%nat with false by (symmetry; apply Nat.eqb_neq; lia).
    cbn [orb andb forallb]. now rewrite andb_assoc.
Qed.

Lemma removelast_last_split (l : list string) : l <> [] -> l = removelast l ++ [last l ""].
Proof. intros H. now apply app_removelast_last. Qed.

Theorem validate_structure_spec s : validate_structure s = true <-> struct_ok (split_ws s).
Proof.
  rewrite validate_unfold. destruct (split_ws s) as [|p0 r] eqn:Es.
  - split; [discriminate|]. intros [ids [Hne [_ [H|[H|H]]]]]; try discriminate.
    + congruence.
    + destruct ids; discriminate.
  - destruct r as [|p1 r'].
    + (* a single piece *)
      cbn [last length vloop]. cbn. rewrite andb_true_r.
      destruct (is_dots p0) eqn:Ed; cbn.
      * split; [discriminate|]. apply is_dots_eq in Ed. subst p0.
        intros [ids [Hne [Hid [H|[H|H]]]]].
        -- subst ids. inversion Hid; subst. discriminate.
        -- inversion H. congruence.
        -- destruct ids as [|a [|b ids]]; inversion H; congruence.
      * split.
        -- intros H. exists [p0]. repeat split; [discriminate | constructor; [assumption | constructor] | auto].
        -- intros [ids [Hne [Hid [H|[H|H]]]]].
           ++ subst ids. now inversion Hid.
           ++ inversion H; subst. discriminate.
           ++ destruct ids as [|a [|b ids]]; inversion H; try congruence; try (destruct ids; discriminate).
    + (* at least two pieces: first, middle ones, last *)
      set (l := p1 :: r') in *. assert (Hl : l <> []) by discriminate.
      change (last (p0 :: l) "") with (last l "").
      cbn [vloop length]. rewrite (vloop_tail l 1 (S (length l))) by (auto; lia).
      cbn [Nat.eqb orb andb].
      pose proof (removelast_last_split l Hl) as Hsplit.
      set (mid := removelast l) in *. set (pl := last l "") in *.
      destruct (is_dots p0) eqn:E0; destruct (is_dots pl) eqn:El; cbn [andb negb orb].
      * (* `...` at both ends *)
        split; [discriminate|]. apply is_dots_eq in E0, El. intros [ids [Hne [Hid [H|[H|H]]]]].
        -- subst ids. inversion Hid; subst. discriminate.
        -- injection H as _ Hids. subst ids. rewrite Hsplit in Hid. apply Forall_app in Hid as [_ Hlast].
           inversion Hlast as [|? ? Hpl _]; subst. rewrite El in Hpl. discriminate.
        -- rewrite H in Es. destruct ids as [|a ids]; [congruence|]. inversion H; subst a. inversion Hid; subst. discriminate.
      * (* `... ids` *)
        apply is_dots_eq in E0. subst p0. split.
        -- intros H. apply andb_true_iff in H as [Hm Hp]. exists l. repeat split; auto.
           rewrite Hsplit. apply Forall_app. split; [now apply forallb_all_ident | constructor; [assumption | constructor]].
        -- intros [ids [Hne [Hid [H|[H|H]]]]].
           ++ subst ids. inversion Hid; subst. discriminate.
           ++ inversion H; subst ids. rewrite Hsplit in Hid. apply Forall_app in Hid as [Hm Hp]. inversion Hp; subst.
              apply andb_true_iff. split; [now apply forallb_all_ident | assumption].
           ++ exfalso. assert (Hlast : last (ids ++ ["..."]) "" = "...") by (apply last_last).
              rewrite <- H in Hlast. change (last ("..." :: l) "") with (last l "") in Hlast. fold pl in Hlast.
              apply is_dots_eq in Hlast. congruence.
      * (* `ids ...` *)
        apply is_dots_eq in El. rewrite andb_true_r. split.
        -- intros H. apply andb_true_iff in H as [H0 Hm]. exists (p0 :: mid). repeat split; [discriminate | constructor; [assumption | now apply forallb_all_ident] |].
           right. right. cbn. rewrite Hsplit. now rewrite El.
        -- intros [ids [Hne [Hid [H|[H|H]]]]].
           ++ subst ids. inversion Hid as [|? ? _ Hl']; subst. rewrite Hsplit in Hl'. apply Forall_app in Hl' as [_ Hp]. inversion Hp; subst. rewrite El in *. discriminate.
           ++ inversion H; subst. discriminate.
           ++ assert (Hids : ids = p0 :: mid).
              { rewrite Hsplit, El in H. change (p0 :: mid ++ ["..."]) with ((p0 :: mid) ++ ["..."]) in H. apply app_inj_tail in H as [H _]. now symmetry. }
              subst ids. inversion Hid; subst. apply andb_true_iff. split; [assumption | now apply forallb_all_ident].
      * (* plain list of identifiers *)
        split.
        -- intros H. apply andb_true_iff in H as [H0 H]. apply andb_true_iff in H as [Hm Hp]. exists (p0 :: l). repeat split; [discriminate | | auto].
           constructor; [assumption|]. rewrite Hsplit. apply Forall_app. split; [now apply forallb_all_ident | constructor; [assumption | constructor]].
        -- intros [ids [Hne [Hid [H|[H|H]]]]].
           ++ subst ids. inversion Hid as [|? ? H0 Hl']; subst. rewrite Hsplit in Hl'. apply Forall_app in Hl' as [Hm Hp]. inversion Hp; subst.
              rewrite H0. cbn. apply andb_true_iff. split; [now apply forallb_all_ident | assumption].
           ++ inversion H; subst. discriminate.
           ++ exfalso. assert (Hlast : last (ids ++ ["..."]) "" = "...") by (apply last_last).
              rewrite <- H in Hlast. change (last (p0 :: l) "") with (last l "") in Hlast. fold pl in Hlast.
              apply is_dots_eq in Hlast. congruence.
Qed.

(* ---------- the structure step (lines 126-180) ---------- *)
Definition composed (ds : list tdef) : tdef := fold_right compose star ds.

Theorem bind_on_first_use n x tm : aget tm n = None -> structure_step (SName n) x tm = StOk (aset tm n x).
Proof. cbn. now intros ->. Qed.

Theorem equal_on_later_use n x tm prev :
  aget tm n = Some prev -> structure_step (SName n) x tm = if tdef_eqb prev x then StOk tm else StNo.
Proof. cbn. now intros ->. Qed.

Theorem later_use_accepts_iff_identical n x tm prev :
  aget tm n = Some prev -> (structure_step (SName n) x tm = StOk tm <-> x = prev).
Proof.
  intros H. rewrite (equal_on_later_use _ _ _ _ H). destruct (tdef_eqb prev x) eqn:E.
  - apply tdef_eqb_eq in E. split; auto.
  - split; [discriminate|]. intros ->. rewrite tdef_eqb_refl in E. discriminate.
Qed.

Theorem composite_exact names ds x tm :
  lookup_all tm names = Some ds ->
  (structure_step (SComp false false names) x tm = StOk tm <-> x = composed ds) /\
  (structure_step (SComp false false names) x tm = StOk tm \/ structure_step (SComp false false names) x tm = StNo).
Proof.
  intros H. cbn [structure_step]. rewrite H. rewrite compose_impl_spec. fold (composed ds).
  destruct (tdef_eqb x (composed ds)) eqn:E.
  - apply tdef_eqb_eq in E. split; [split; auto | auto].
  - split; [|auto]. split; [discriminate|]. intros ->. rewrite tdef_eqb_refl in E. discriminate.
Qed.

Theorem prefix_exact names ds x tm :
  lookup_all tm names = Some ds ->
  (structure_step (SComp true false names) x tm = StOk tm <-> Prefix (composed ds) x) /\
  (structure_step (SComp true false names) x tm = StOk tm \/ structure_step (SComp true false names) x tm = StNo).
Proof.
  intros H. cbn [structure_step]. rewrite H. rewrite compose_impl_spec. fold (composed ds).
  destruct (is_prefix (composed ds) x) eqn:E.
  - apply is_prefix_exact in E. split; [split; auto | auto].
  - split; [|auto]. split; [discriminate|]. intros Hp. apply is_prefix_exact in Hp. congruence.
Qed.

Theorem suffix_form_exact names ds x tm :
  lookup_all tm names = Some ds ->
  (structure_step (SComp false true names) x tm = StOk tm <-> exists u, x = compose u (composed ds)) /\
  (structure_step (SComp false true names) x tm = StOk tm \/ structure_step (SComp false true names) x tm = StNo).
Proof.
  intros H. cbn [structure_step]. rewrite H. rewrite compose_impl_spec. fold (composed ds).
  destruct (suffix_check (composed ds) x) eqn:E.
  - apply suffix_exact in E. split; [split; auto | auto].
  - split; [|auto]. split; [discriminate|]. intros Hp. apply suffix_exact in Hp. congruence.
Qed.

Theorem unbound_name_raises pre suf names x tm :
  lookup_all tm names = None -> structure_step (SComp pre suf names) x tm = StRaise.
Proof. intros H. cbn [structure_step]. now rewrite H. Qed.

Lemma lookup_all_none_iff tm names : lookup_all tm names = None <-> exists n, In n names /\ aget tm n = None.
Proof.
  induction names as [|n r IH]; cbn.
  - split; [discriminate | intros [? [[] _]]].
  - destruct (aget tm n) as [d|] eqn:E.
    + fold (lookup_all tm r). destruct (lookup_all tm r) as [ds|] eqn:Er.
      * split; [discriminate|]. intros [m [[->|Hi] Hm]]; [congruence|]. apply proj2 in IH. assert (H : Some ds = None) by (apply IH; eauto). discriminate.
      * split; [|reflexivity]. intros _. destruct (proj1 IH eq_refl) as [m [Hi Hm]]. exists m. auto.
    + split; [|reflexivity]. intros _. exists n. auto.
Qed.

(* how the string is read *)
Example read_structure_forms :
  read_structure "T" = SName "T" /\ read_structure "S T" = SComp false false ["S"; "T"] /\
  read_structure "T ..." = SComp true false ["T"] /\ read_structure "... T" = SComp false true ["T"] /\
  read_structure "S  T ..." = SComp true false ["S"; "T"] /\ read_structure "... S T" = SComp false true ["S"; "T"].
Proof. repeat split; reflexivity. Qed.

Example validate_examples :
  map validate_structure ["T"; "S T"; "T ..."; "... T"; "..."; "... ..."; "... T ..."; ""; "  "; "T, S"; "1T"; "T ... S"; "a b c ..."]
  = [true; true; true; true; false; false; false; false; false; false; false; false; true].
Proof. vm_compute. reflexivity. Qed.

(* AnnotFacts.v -- nested, union and scalar annotations (C15), the reducer (C20). *)
From JT Require Import model.Annot proofs.DimLangFacts.
From Coq Require Import Lia.
Open Scope string_scope.
Open Scope list_scope.

(* ---------- parsing a concatenation of two dim strings ---------- *)
Lemma parse_tokens_app ta : forall tb idx iv,
  parse_tokens (ta ++ tb) idx iv =
  match parse_tokens ta idx iv with
  | Err c => Err c
  | Ok (dl, iv') =>
      match parse_tokens tb (idx + length ta) iv' with
      | Err c => Err c
      | Ok (dl', iv'') => Ok (dl ++ dl', iv'')
      end
  end.
Proof.
  induction ta as [|e r IH]; intros tb idx iv; cbn [app parse_tokens length].
  - rewrite Nat.add_0_r. destruct (parse_tokens tb idx iv) as [[dl' iv'']|c]; reflexivity.
  - destruct (parse_token e) as [t|c]; [|reflexivity].
    destruct (build_dim _ t) as [d|c]; [|reflexivity].
    rewrite IH. replace (S idx + length r)%nat with (idx + S (length r))%nat by lia.
    destruct (parse_tokens r (S idx) _) as [[dl iv']|c]; [|reflexivity].
    destruct (parse_tokens tb _ iv') as [[dl' iv'']|c]; reflexivity.
Qed.

Lemma parse_tokens_length toks : forall idx iv dl ivf, parse_tokens toks idx iv = Ok (dl, ivf) -> length dl = length toks.
Proof.
  induction toks as [|e r IH]; intros idx iv dl ivf H; cbn in H.
  - inversion H; reflexivity.
  - destruct (parse_token e) as [t|c]; [|discriminate]. destruct (build_dim _ t) as [d|c]; [|discriminate].
    destruct (parse_tokens r (S idx) _) as [[dl' iv']|c] eqn:E; [|discriminate]. inversion H; subst. cbn. f_equal. eapply IH; eauto.
Qed.

(* the start index only shifts index_variadic *)
Lemma parse_tokens_shift toks k : forall idx iv,
  parse_tokens toks (k + idx) (option_map (Nat.add k) iv) =
  match parse_tokens toks idx iv with Err c => Err c | Ok (dl, ivf) => Ok (dl, option_map (Nat.add k) ivf) end.
Proof.
  induction toks as [|e r IH]; intros idx iv; cbn [parse_tokens]; [reflexivity|].
  destruct (parse_token e) as [t|c]; [|reflexivity].
  assert (Hs : match option_map (Nat.add k) iv with Some _ => true | None => false end = match iv with Some _ => true | None => false end) by (destruct iv; reflexivity).
  rewrite Hs. destruct (build_dim _ t) as [d|c]; [|reflexivity].
  replace (S (k + idx)) with (k + S idx)%nat by lia.
  assert (Hiv : (if is_variadic d then Some (k + idx)%nat else option_map (Nat.add k) iv) = option_map (Nat.add k) (if is_variadic d then Some idx else iv)) by (destruct (is_variadic d); reflexivity).
  rewrite Hiv, IH. destruct (parse_tokens r (S idx) _) as [[dl ivf]|c]; reflexivity.
Qed.

Lemma build_dim_variadic sv t d : build_dim sv t = Ok d -> is_variadic d = f_var (fst (fst t)).
Proof.
  destruct t as [[f rest] ty]. unfold build_dim. cbn [fst].
  destruct (f_var f && sv); [discriminate|].
  destruct ty as [|z|]; destruct (f_var f), (f_anon f), (f_bc f), (f_tp f); intros H; inversion H; reflexivity.
Qed.

Lemma build_dim_seen t : build_dim true t = if f_var (fst (fst t)) then Err 8 else build_dim false t.
Proof. destruct t as [[f rest] ty]. unfold build_dim. cbn [fst]. destruct (f_var f); reflexivity. Qed.

Lemma parse_tokens_some_stays toks : forall idx i dl ivf, parse_tokens toks idx (Some i) = Ok (dl, ivf) -> ivf = Some i.
Proof.
  induction toks as [|e r IH]; intros idx i dl ivf H; cbn in H.
  - inversion H; reflexivity.
  - destruct (parse_token e) as [t|c]; [|discriminate]. rewrite build_dim_seen in H.
    destruct (f_var (fst (fst t))) eqn:Ev; [discriminate|].
    destruct (build_dim false t) as [d|c] eqn:Eb; [|discriminate].
    rewrite (build_dim_variadic _ _ _ Eb), Ev in H.
    destruct (parse_tokens r (S idx) (Some i)) as [[dl' iv']|c] eqn:E; [|discriminate]. inversion H; subst. eapply IH; eauto.
Qed.

(* after a variadic has been seen: accepted iff there is no second one *)
Lemma parse_tokens_seen toks : forall idx i dl ivf,
  parse_tokens toks idx None = Ok (dl, ivf) ->
  match ivf with
  | None => parse_tokens toks idx (Some i) = Ok (dl, Some i)
  | Some _ => exists c, parse_tokens toks idx (Some i) = Err c
  end.
Proof.
  induction toks as [|e r IH]; intros idx i dl ivf H; cbn [parse_tokens] in *.
  - inversion H; subst. reflexivity.
  - destruct (parse_token e) as [t|c]; [|discriminate]. cbv iota in H |- *. rewrite build_dim_seen.
    destruct (build_dim false t) as [d|c] eqn:Eb; [|discriminate].
    rewrite (build_dim_variadic _ _ _ Eb) in H.
    destruct (f_var (fst (fst t))) eqn:Ev.
    + destruct (parse_tokens r (S idx) (Some idx)) as [[dl' iv']|c] eqn:E; [|discriminate]. inversion H; subst.
      rewrite (parse_tokens_some_stays _ _ _ _ _ E). eexists; reflexivity.
    + rewrite (build_dim_variadic _ _ _ Eb), Ev.
      destruct (parse_tokens r (S idx) None) as [[dl' iv']|c] eqn:E; [|discriminate]. inversion H; subst.
      pose proof (IH (S idx) i _ _ E) as Hr. destruct ivf as [j|].
      * destruct Hr as [c Hc]. rewrite Hc. eexists; reflexivity.
      * rewrite Hr. reflexivity.
Qed.

Lemma split_ws_app_space a b : split_ws (a ++ " " ++ b) = split_ws a ++ split_ws b.
Proof. apply (split_ws_sep a " " b); [reflexivity | discriminate]. Qed.

(* C14_parse_concat / the shape half of the nesting law: `s2 s1` parses to the concatenation, with the
   variadic index of s1 shifted; two variadics are an error *)
Theorem parse_concat s1 s2 d1 d2 :
  parse_dims s1 = Ok d1 -> parse_dims s2 = Ok d2 ->
  match ivar d1, ivar d2 with
  | Some _, Some _ => exists c, parse_dims (s2 ++ " " ++ s1) = Err c
  | Some i, None => parse_dims (s2 ++ " " ++ s1) = Ok (mkdims (ds d2 ++ ds d1) (Some (i + length (ds d2))%nat))
  | None, iv => parse_dims (s2 ++ " " ++ s1) = Ok (mkdims (ds d2 ++ ds d1) iv)
  end.
Proof.
  unfold parse_dims. rewrite split_ws_app_space.
  destruct (parse_tokens (split_ws s1) 0 None) as [[dl1 iv1]|c] eqn:E1; [|discriminate].
  destruct (parse_tokens (split_ws s2) 0 None) as [[dl2 iv2]|c] eqn:E2; [|discriminate].
  intros H1 H2. inversion H1; inversion H2; subst. cbn [ivar ds].
  rewrite parse_tokens_app, E2. cbn [Nat.add].
  pose proof (parse_tokens_length _ _ _ _ _ E2) as L2.
  destruct iv2 as [j|].
  - (* s2 has the variadic *)
    pose proof (parse_tokens_shift (split_ws s1) (length (split_ws s2)) 0 None) as Hs. cbn [option_map] in Hs.
    rewrite Nat.add_0_r in Hs.
    pose proof (parse_tokens_seen (split_ws s1) (length (split_ws s2)) j) as Hseen.
    rewrite Hs, E1 in Hseen. specialize (Hseen _ _ eq_refl). destruct iv1 as [i|]; cbn [option_map] in Hseen.
    + destruct Hseen as [c Hc]. rewrite Hc. eexists; reflexivity.
    + rewrite Hseen. reflexivity.
  - pose proof (parse_tokens_shift (split_ws s1) (length (split_ws s2)) 0 None) as Hs. cbn [option_map] in Hs.
    rewrite Nat.add_0_r in Hs. rewrite Hs, E1. destruct iv1 as [i|]; cbn [option_map]; [|reflexivity].
    rewrite L2. do 3 f_equal. lia.
Qed.

(* ---------- the nesting law ---------- *)
Definition inter (outer inner : option (list string)) : option (option (list string)) :=
  match outer, inner with
  | None, x => Some x
  | Some o, None => Some (Some o)
  | Some o, Some i => match filter (fun x => smem x i) o with [] => None | l => Some (Some l) end
  end.

Lemma smem_filter x o i : smem x (filter (fun y => smem y i) o) = smem x o && smem x i.
Proof.
  unfold smem. induction o as [|y o IH]; cbn; [reflexivity|]. destruct (existsb (String.eqb y) i) eqn:Ey; cbn.
  - rewrite IH. destruct (String.eqb x y) eqn:E; cbn; [|reflexivity]. apply String.eqb_eq in E. subst. now rewrite Ey.
  - rewrite IH. destruct (String.eqb x y) eqn:E; cbn; [|reflexivity]. apply String.eqb_eq in E. subst. rewrite Ey. now rewrite andb_false_r.
Qed.

(* the dtype half: the nested annotation accepts a dtype name iff both categories do; error iff none is common *)
Theorem inter_spec outer inner :
  match inter outer inner with
  | Some r => forall name, dtype_ok (mkannot false r (mkdims [] None) false) name =
                           dtype_ok (mkannot false outer (mkdims [] None) false) name && dtype_ok (mkannot false inner (mkdims [] None) false) name
  | None => exists o i, outer = Some o /\ inner = Some i /\ forall name, smem name o && smem name i = false
  end.
Proof.
  unfold inter, dtype_ok. cbn [a_dtypes]. destruct outer as [o|], inner as [i|]; try (intros name; cbn; try rewrite andb_true_r; reflexivity).
  destruct (filter (fun x => smem x i) o) as [|y l] eqn:Ef.
  - exists o, i. repeat split. intros name. rewrite <- smem_filter, Ef. reflexivity.
  - intros name. fold (smem name (y :: l)). rewrite <- Ef. apply smem_filter.
Qed.

(* D2[D1[A, s1], s2] is built exactly like (D1 n D2)[A, "s2 s1"]: same array type, same dims, same index_variadic,
   the dtype set of the intersection -- or both are errors *)
Theorem nest_law D1 D2 A s1 s2 b1 :
  (A = TAny \/ exists id, A = TClass id) ->
  make_array D1 A s1 = MBuilt b1 ->
  match make_array D2 (TNested b1) s2 with
  | MBuilt b =>
      exists dt, inter D2 D1 = Some dt /\ b_dtypes b = dt /\
      exists bflat, make_array dt A (s2 ++ " " ++ s1) = MBuilt bflat /\
                    b_dims bflat = b_dims b /\ b_any bflat = b_any b /\ b_cls bflat = b_cls b /\ b_dimstr bflat = b_dimstr b
  | MErr _ => (exists c, parse_dims s2 = Err c) \/ inter D2 D1 = None \/ (exists c, parse_dims (s2 ++ " " ++ s1) = Err c)
  | _ => False
  end.
Proof.
  intros HA H1. unfold make_array in H1. destruct (parse_dims s1) as [d1|c] eqn:E1; [|discriminate].
  assert (Hb1 : b_dims b1 = d1 /\ b_dtypes b1 = D1 /\ b_dimstr b1 = s1 /\ (b_any b1 = true -> A = TAny /\ b_cls b1 = 0%nat) /\ (b_any b1 = false -> A = TClass (b_cls b1))).
  { destruct HA as [->|[id ->]]; inversion H1; subst; cbn; repeat split; auto; discriminate. }
  destruct Hb1 as [Hd [Hdt [Hs [Hany Hcls]]]].
  unfold make_array at 1. destruct (parse_dims s2) as [d2|c] eqn:E2; [|left; eauto].
  fold (inter D2 (b_dtypes b1)). rewrite Hdt. destruct (inter D2 D1) as [dt|] eqn:Ei; [|right; left; reflexivity].
  pose proof (parse_concat s1 s2 d1 d2 E1 E2) as Hc. rewrite Hd.
  destruct (ivar d1) as [i|] eqn:Ev1; destruct (ivar d2) as [j|] eqn:Ev2.
  - right. right. exact Hc.
  - exists dt. split; [reflexivity|]. split; [reflexivity|]. unfold make_array. rewrite Hc.
    destruct (b_any b1) eqn:Ea.
    + destruct (Hany eq_refl) as [-> Hz]. eexists. split; [reflexivity|]. cbn. rewrite Hs, Hz. auto.
    + rewrite (Hcls eq_refl). eexists. split; [reflexivity|]. cbn. rewrite Hs. auto.
  - exists dt. split; [reflexivity|]. split; [reflexivity|]. unfold make_array. rewrite Hc.
    destruct (b_any b1) eqn:Ea.
    + destruct (Hany eq_refl) as [-> Hz]. eexists. split; [reflexivity|]. cbn. rewrite Hs, Hz. auto.
    + rewrite (Hcls eq_refl). eexists. split; [reflexivity|]. cbn. rewrite Hs. auto.
  - exists dt. split; [reflexivity|]. split; [reflexivity|]. unfold make_array. rewrite Hc.
    destruct (b_any b1) eqn:Ea.
    + destruct (Hany eq_refl) as [-> Hz]. eexists. split; [reflexivity|]. cbn. rewrite Hs, Hz. auto.
    + rewrite (Hcls eq_refl). eexists. split; [reflexivity|]. cbn. rewrite Hs. auto.
Qed.

(* ---------- unions ---------- *)
(* Dtype[Union[A1..An], s] is the list of the Dtype[Ai, s] that can be made, in order; an error of any member is an error *)
Theorem union_law dtypes arrs s l :
  getitem dtypes arrs s = inl l ->
  l = filter (fun m => match m with MNotMade => false | _ => true end) (map (fun a => make_array dtypes a s) arrs) /\
  Forall (fun a => forall c, make_array dtypes a s <> MErr c) arrs /\ l <> [].
Proof.
  unfold getitem. destruct (getitem_all dtypes arrs s) as [[l0|]|c] eqn:E; try discriminate.
  assert (G : forall arrs l0, getitem_all dtypes arrs s = inl (Some l0) ->
              l0 = filter (fun m => match m with MNotMade => false | _ => true end) (map (fun a => make_array dtypes a s) arrs) /\
              Forall (fun a => forall c, make_array dtypes a s <> MErr c) arrs).
  { clear. induction arrs as [|a r IH]; intros l0 H; cbn in H.
    - inversion H. split; [reflexivity | constructor].
    - destruct (make_array dtypes a s) as [b|k| |c] eqn:Em; try discriminate;
      (destruct (getitem_all dtypes r s) as [[l1|]|c1] eqn:Er; try discriminate; inversion H; subst;
       destruct (IH _ eq_refl) as [Hl Hf]; split; [cbn; rewrite Em; cbn; now rewrite <- Hl | constructor; [rewrite Em; discriminate | assumption]]). }
  destruct l0 as [|m l0]; [discriminate|]. intros H. inversion H; subst. destruct (G _ _ E) as [Hl Hf]. split; [assumption|]. split; [assumption | discriminate].
Qed.

(* ---------- the scalar ladder ---------- *)
Theorem scalar_survives_iff k dtypes s d :
  parse_dims s = Ok d ->
  (make_array dtypes (TScalar k) s = MScalar k <->
   (forall x, In x (ds d) -> is_variadic x = true) /\
   match dtypes with None => True | Some l => exists n, In n l /\ sprefix (scalar_prefix k) n = true end).
Proof.
  intros E. unfold make_array. rewrite E. unfold check_scalar, all_variadic. split.
  - destruct (forallb is_variadic (ds d)) eqn:Ef; cbn; [|discriminate].
    rewrite forallb_forall in Ef. destruct dtypes as [l|]; [|auto].
    destruct (existsb (sprefix (scalar_prefix k)) l) eqn:Ee; [|discriminate]. apply existsb_exists in Ee. auto.
  - intros [Hv Hd]. assert (Ef : forallb is_variadic (ds d) = true) by (apply forallb_forall; exact Hv). rewrite Ef. cbn.
    destruct dtypes as [l|]; [|reflexivity]. assert (Ee : existsb (sprefix (scalar_prefix k)) l = true) by (apply existsb_exists; exact Hd). now rewrite Ee.
Qed.

(* a shape all of whose axes are variadic admits rank 0 *)



(* ---------- C20: the reducer round trip ---------- *)
Definition wf_built (b : built) : Prop := parse_dims (b_dimstr b) = Ok (b_dims b).

Lemma make_flat_wf d A s b : (A = TAny \/ exists id, A = TClass id) -> make_array d A s = MBuilt b -> wf_built b.
Proof.
  intros HA H. unfold make_array in H. destruct (parse_dims s) as [d0|c] eqn:E; [|discriminate].
  destruct HA as [->|[id ->]]; inversion H; subst; exact E.
Qed.

Lemma make_nested_wf d2 b1 s2 b : wf_built b1 -> make_array d2 (TNested b1) s2 = MBuilt b -> wf_built b.
Proof.
  intros W H. unfold make_array in H. destruct (parse_dims s2) as [dd2|c] eqn:E2; [|discriminate].
  pose proof (parse_concat (b_dimstr b1) s2 (b_dims b1) dd2 W E2) as Hc.
  destruct (match d2, b_dtypes b1 with None, x => Some x | Some o, None => Some (Some o) | Some o, Some i => match filter (fun x => smem x i) o with [] => None | l => Some (Some l) end end) as [dt|]; [|discriminate].
  unfold wf_built. destruct (ivar (b_dims b1)) as [i|] eqn:Ev1; destruct (ivar dd2) as [j|] eqn:Ev2; inversion H; subst; cbn [b_dimstr b_dims]; exact Hc.
Qed.

Lemma strlist_eqb_eq' a : forall b, strlist_eqb a b = true -> a = b.
Proof. induction a as [|x a IH]; destruct b as [|y b]; cbn; try congruence. intros H. apply andb_true_iff in H as [H1 H2]. apply String.eqb_eq in H1. subst. f_equal. now apply IH. Qed.

Lemma odt_eqb_eq a b : odt_eqb a b = true -> a = b.
Proof. destruct a, b; cbn; try congruence. intros H. f_equal. now apply strlist_eqb_eq'. Qed.

(* every annotation that can be built -- flat or nested to any depth -- comes back from the reducer with the
   same array type, the same dims and the same (effective) dtypes *)
Theorem reducer_roundtrip b : wf_built b ->
  exists b', reduce_rebuild b = MBuilt b' /\ b_dims b' = b_dims b /\ b_dtypes b' = b_dtypes b /\ b_any b' = b_any b /\
             (b_any b = false -> b_cls b' = b_cls b).
Proof.
  intros W. unfold reduce_rebuild, make_array. rewrite W.
  destruct (b_any b) eqn:Ea.
  - destruct (odt_eqb (b_cat b) (b_dtypes b)) eqn:Eo; cbn [b_dtypes]; rewrite Eo.
    + eexists. split; [reflexivity|]. cbn. apply odt_eqb_eq in Eo. repeat split; auto. discriminate.
    + eexists. split; [reflexivity|]. cbn. repeat split; auto. discriminate.
  - destruct (odt_eqb (b_cat b) (b_dtypes b)) eqn:Eo; cbn [b_dtypes]; rewrite Eo.
    + eexists. split; [reflexivity|]. cbn. apply odt_eqb_eq in Eo. repeat split; auto.
    + eexists. split; [reflexivity|]. cbn. repeat split; auto.
Qed.

(* the reducer before the fix commit (x.dtype[x.array_type, x.dim_str]) widened nested annotations *)
Definition reduce_rebuild_old (b : built) : mres :=
  make_array (b_cat b) (if b_any b then TAny else TClass (b_cls b)) (b_dimstr b).

Theorem old_reducer_refuted :
  exists b b', wf_built b /\ reduce_rebuild_old b = MBuilt b' /\ b_dtypes b' <> b_dtypes b.
Proof.
  destruct (make_array (Some ["float32"; "float64"]) (TClass 1) "a") as [b1| | |] eqn:E1; try (vm_compute in E1; discriminate).
  destruct (make_array None (TNested b1) "b") as [b| | |] eqn:E2; try (vm_compute in E1; inversion E1; subst; vm_compute in E2; discriminate).
  exists b. vm_compute in E1. inversion E1; subst. vm_compute in E2. inversion E2; subst.
  eexists. split; [vm_compute; reflexivity|]. split; [vm_compute; reflexivity|]. vm_compute. discriminate.
Qed.

(* PyLShapeFacts.v -- interpreting the term generated from the source of _MetaAbstractArray._check_shape (which calls the term
   generated from _check_dims) computes model/Check.v's check_shape. *)
From JT Require Import model.PyLRun proofs.PyLFacts.
From Coq Require Import Lia.
Open Scope string_scope.
(* the generated term may change with the source: a proof step that no longer goes through must fail fast, not hang the build *)
Set Default Timeout 60.

Section Shape.
Variables (lbl : option string) (st : symtab).

Notation calls := (calls lbl st).

Definition res_of (r : cres) : pres :=
  match r with COk => RVal (VS "") | CFail => RVal (VS "msg") | CRaise e => RExn e end.

Definition nonvar (dl : list dim) : Prop := forallb (fun d => negb (is_variadic d)) dl = true.

Lemma call_check_dims dl sh sm args : length dl = length sh -> nonvar dl ->
  exists o1 o2, calls "_check_dims" [VDims dl; VZs sh; VSingle sm; VArgs args] =
                Some (res_of (fst (check_dims lbl st args dl sh sm)), [o1; o2; VSingle (snd (check_dims lbl st args dl sh sm)); VArgs args]).
Proof.
  intros Hlen Hnv. unfold PyLRun.calls. cbn [String.eqb Ascii.eqb Bool.eqb]. unfold call_fn.
  change check_dims_params with ["cls_dims"; "obj_shape"; "single_memo"; "arg_memo"]. cbn [bind_params map].
  set (env := upd (upd (upd (upd (fun _ : string => None) "cls_dims" (VDims dl)) "obj_shape" (VZs sh)) "single_memo" (VSingle sm)) "arg_memo" (VArgs args)).
  assert (Hg : good args env sm) by (split; reflexivity).
  pose proof (check_dims_src_refines_model lbl st args no_calls dl sh sm env Hg eq_refl eq_refl Hlen Hnv) as H.
  unfold run_body. destruct (check_dims lbl st args dl sh sm) as [[| |e] sm'].
  - destruct H as [env2 [-> [H1 H2]]]. cbn [fst snd res_of]. rewrite H1, H2. eauto.
  - destruct H as [env2 [-> [H1 H2]]]. cbn [fst snd res_of]. rewrite H1, H2. eauto.
  - destruct H as [env2 [-> [H1 H2]]]. cbn [fst snd res_of]. rewrite H1, H2. eauto.
Qed.

(* ---------- Python slices of the three shapes the function uses, as firstn / skipn ---------- *)
Lemma firstn_min {A} (l : list A) i : firstn (Nat.min i (length l)) l = firstn i l.
Proof.
  destruct (Nat.le_ge_cases i (length l)) as [H|H].
  - now rewrite Nat.min_l.
  - rewrite Nat.min_r by exact H. rewrite !firstn_all2; auto.
Qed.

Lemma slice_prefix {A} (l : list A) i : pyslice l None (Some (Z.of_nat i)) = firstn i l.
Proof.
  unfold pyslice, norm_idx. destruct (Z.of_nat i <? 0)%Z eqn:E; [apply Z.ltb_lt in E; lia|].
  destruct (Z.min (Z.of_nat i) (Z.of_nat (length l)) <=? 0)%Z eqn:E2.
  - apply Z.leb_le in E2. assert (H : i = 0%nat \/ length l = 0%nat) by lia. destruct H as [->|H]; [reflexivity|].
    destruct l; [now rewrite firstn_nil | discriminate].
  - rewrite Z.sub_0_r. cbn [Z.to_nat skipn]. replace (Z.to_nat (Z.min (Z.of_nat i) (Z.of_nat (length l)))) with (Nat.min i (length l)) by lia.
    apply firstn_min.
Qed.

Lemma slice_suffix {A} (l : list A) k : (0 < k)%nat -> (k <= length l)%nat ->
  pyslice l (Some (- Z.of_nat k)%Z) None = skipn (length l - k) l.
Proof.
  intros Hk Hl. unfold pyslice, norm_idx. destruct (- Z.of_nat k <? 0)%Z eqn:E; [|apply Z.ltb_ge in E; lia].
  replace (Z.max (Z.of_nat (length l) + - Z.of_nat k) 0) with (Z.of_nat (length l - k)) by lia.
  destruct (Z.of_nat (length l) <=? Z.of_nat (length l - k))%Z eqn:E2; [apply Z.leb_le in E2; lia|].
  rewrite Nat2Z.id. apply firstn_all2. rewrite skipn_length. lia.
Qed.

Lemma slice_mid_open {A} (l : list A) i : (i <= length l)%nat ->
  pyslice l (Some (Z.of_nat i)) None = firstn (length l - 0 - i) (skipn i l).
Proof.
  intros Hi. unfold pyslice, norm_idx. destruct (Z.of_nat i <? 0)%Z eqn:E; [apply Z.ltb_lt in E; lia|].
  rewrite Z.min_l by lia. destruct (Z.of_nat (length l) <=? Z.of_nat i)%Z eqn:E2.
  - apply Z.leb_le in E2. replace (length l - 0 - i)%nat with 0%nat by lia. reflexivity.
  - rewrite Nat2Z.id. f_equal. lia.
Qed.

Lemma slice_mid {A} (l : list A) i k : (0 < k)%nat -> (i + k <= length l)%nat ->
  pyslice l (Some (Z.of_nat i)) (Some (- Z.of_nat k)%Z) = firstn (length l - k - i) (skipn i l).
Proof.
  intros Hk Hl. unfold pyslice, norm_idx. destruct (Z.of_nat i <? 0)%Z eqn:E; [apply Z.ltb_lt in E; lia|].
  destruct (- Z.of_nat k <? 0)%Z eqn:E1; [|apply Z.ltb_ge in E1; lia].
  rewrite Z.min_l by lia. replace (Z.max (Z.of_nat (length l) + - Z.of_nat k) 0) with (Z.of_nat (length l - k)) by lia.
  destruct (Z.of_nat (length l - k) <=? Z.of_nat i)%Z eqn:E2.
  - apply Z.leb_le in E2. replace (length l - k - i)%nat with 0%nat by lia. reflexivity.
  - rewrite Nat2Z.id. f_equal. lia.
Qed.

Local Opaque PyLRun.calls.
Ltac icbn := cbn [exec_list exec evale evals write_back upd truthy val_eqb dim_attr dim_class String.eqb Ascii.eqb Bool.eqb negb andb fst snd app].
Ltac go5 := repeat (progress (icbn; repeat match goal with H : _ (String _ _) = Some _ |- _ => rewrite H end)).

(* the function's else-branch, split before `variadic_dim = cls.dims[i]` *)
Definition cs_cond : pexpr := Eval cbv in match check_shape_src with [SIf c _ _] => c | _ => PNone end.
Definition cs_then : list pstmt := Eval cbv in match check_shape_src with [SIf _ t _] => t | _ => [] end.
Definition cs_pre : list pstmt := Eval cbv in match check_shape_src with [SIf _ _ els] => firstn 7 els | _ => [] end.
Definition vtail_src : list pstmt := Eval cbv in match check_shape_src with [SIf _ _ els] => skipn 7 els | _ => [] end.
Lemma split_src : check_shape_src = [SIf cs_cond cs_then (cs_pre ++ vtail_src)].
Proof. reflexivity. Qed.

Definition goodS (env : penv) (d : dims) (sh : list Z) (m : memo) : Prop :=
  env "cls" = Some (VCls (ivar d) (ds d)) /\ env "obj" = Some (VObj sh) /\
  env "single_memo" = Some (VSingle (single m)) /\ env "variadic_memo" = Some (VVariadic (variadic m)) /\
  env "arg_memo" = Some (VArgs (margs m)).

Definition memo_in (env : penv) (m : memo) : Prop :=
  env "single_memo" = Some (VSingle (single m)) /\ env "variadic_memo" = Some (VVariadic (variadic m)).

(* the dims a parsed annotation has: the only variadic specifier is at index_variadic *)
Definition strict_wf (d : dims) : Prop :=
  match ivar d with
  | None => nonvar (ds d)
  | Some i => (i < length (ds d))%nat /\ nonvar (firstn i (ds d)) /\ nonvar (skipn (S i) (ds d)) /\
              exists dv, nth_error (ds d) i = Some dv /\ is_variadic dv = true
  end.

(* the last part of the function: the variadic axis itself *)
Lemma vpart dl i sh sm2 vm args (k : nat) env3 dv :
  env3 "cls" = Some (VCls (Some i) dl) -> env3 "obj" = Some (VObj sh) ->
  env3 "i" = Some (VZ (Z.of_nat i)) -> env3 "j" = Some (if (k =? 0)%nat then VNone else VZ (- Z.of_nat k)) ->
  env3 "single_memo" = Some (VSingle sm2) -> env3 "variadic_memo" = Some (VVariadic vm) ->
  nth_error dl i = Some dv -> is_variadic dv = true -> (i + k <= length sh)%nat ->
  let R := match dv with
           | DVarAnon => (COk, mkmemo sm2 vm args)
           | DVarNamed n bc tp =>
               match dkey lbl n tp with
               | None => (CRaise AnnotationErr, mkmemo sm2 vm args)
               | Some kname =>
                   let '(r3, vm') := check_variadic kname bc (firstn (length sh - k - i) (skipn i sh)) vm in
                   (r3, mkmemo sm2 vm' args)
               end
           | _ => (CRaise OtherExc, mkmemo sm2 vm args)
           end in
  exists env2,
    match exec_list lbl st calls vtail_src env3 with ONormal e => OReturn VNone e | o => o end =
    match fst R with COk => OReturn (VS "") env2 | CFail => OReturn (VS "msg") env2 | CRaise e => ORaise e env2 end /\
    memo_in env2 (snd R).
Proof.
  intros Hc Ho Hi Hj Hs Hv Hnth Hvar Hlen R. subst R.
  assert (Hmid : forall hi, hi = (if (k =? 0)%nat then None else Some (- Z.of_nat k)%Z) ->
                 pyslice sh (Some (Z.of_nat i)) hi = firstn (length sh - k - i) (skipn i sh)).
  { intros hi ->. destruct (Nat.eqb_spec k 0) as [->|Ek]; [apply slice_mid_open; lia | apply slice_mid; lia]. }
  set (hi := if (k =? 0)%nat then None else Some (- Z.of_nat k)%Z) in *.
  assert (Hb : match (if (k =? 0)%nat then VNone else VZ (- Z.of_nat k)) with
               | VZ z => @inl (option (option Z)) exn (Some (Some z)) | VNone => inl (Some None) | _ => inl None end = inl (Some hi))
    by (subst hi; destruct (k =? 0)%nat; reflexivity).
  unfold vtail_src. go5. assert (Ei : (Z.of_nat i <? 0)%Z = false) by (apply Z.ltb_ge; lia). rewrite Ei, Nat2Z.id, Hnth.
  destruct dv as [| |n bc tp|n bc tp|z bc|src bc]; try discriminate.
  - go5. eexists; split; [reflexivity | split; cbn; assumption].
  - go5. unfold dkey. destruct tp; [destruct lbl as [l|]|]; cbn [option_map]; go5.
    all: try (eexists; split; [reflexivity | split; cbn; assumption]).
    all: unfold check_variadic;
      match goal with |- context [aget ?vmm ?key] => destruct (aget vmm key) as [[pb ps]|] eqn:Eg end; go5;
      rewrite ?Hb; go5; rewrite ?(Hmid hi eq_refl); go5.
    all: try (eexists; split; [reflexivity | split; cbn; first [assumption | reflexivity]]).
    all: set (mid := firstn (length sh - k - i) (skipn i sh)) in *.
    all: destruct pb; [destruct (bcast mid ps) as [b|] eqn:Eb | destruct bc; [destruct (bcast mid ps) as [b|] eqn:Eb|]]; go5.
    all: try (eexists; split; [reflexivity | split; cbn; first [assumption | reflexivity]]).
    all: try (destruct bc; go5).
    all: try (destruct (zlist_eqb b mid) eqn:Ez1; go5).
    all: try (destruct (zlist_eqb b ps) eqn:Ez2; go5).
    all: try (destruct (zlist_eqb mid ps) eqn:Ez3; go5).
    all: try (eexists; split; [reflexivity | split; cbn; first [assumption | reflexivity]]).
Qed.

Lemma outcome_eta o : match o with ONormal e => ONormal e | OReturn v e => OReturn v e | ORaise x e => ORaise x e end = o.
Proof. destruct o; reflexivity. Qed.

Theorem check_shape_src_refines_model d sh m env :
  goodS env d sh m -> strict_wf d ->
  exists env2,
    run_body_with calls lbl st check_shape_src env =
      match fst (check_shape lbl st d sh m) with
      | COk => OReturn (VS "") env2 | CFail => OReturn (VS "msg") env2 | CRaise e => ORaise e env2
      end /\ memo_in env2 (snd (check_shape lbl st d sh m)).
Proof.
  intros [Hc [Ho [Hs [Hv Ha]]]] Hwf. unfold run_body_with, check_shape, strict_wf in *.
  destruct d as [dl iv]. cbn [ds ivar] in *. destruct iv as [i|].
  2:{ (* no variadic *)
    rewrite split_src. unfold cs_cond, cs_then. go5.
    destruct (Nat.eqb_spec (length sh) (length dl)) as [E|E].
    - assert (Ez : (Z.of_nat (length sh) =? Z.of_nat (length dl))%Z = true) by (apply Z.eqb_eq; lia).
      rewrite Ez. go5.
      destruct (call_check_dims dl sh (single m) (margs m) (eq_sym E) Hwf) as [o1 [o2 Hcall]]. rewrite Hcall.
      destruct (check_dims lbl st (margs m) dl sh (single m)) as [[| |e] sm']; cbn; eexists; (split; [reflexivity | split; cbn; [reflexivity | exact Hv]]).
    - assert (Ez : (Z.of_nat (length sh) =? Z.of_nat (length dl))%Z = false) by (apply Z.eqb_neq; lia).
      rewrite Ez. cbn. eexists; split; [reflexivity | split; assumption]. }
  destruct Hwf as [Hi [Hpre [Hsuf [dv [Hnth Hvar]]]]].
  rewrite split_src. unfold cs_cond, cs_pre. go5.
  destruct (Nat.ltb_spec (length sh) (length dl - 1)) as [E|E].
  { assert (Ez : (Z.of_nat (length sh) <? Z.of_nat (length dl) - 1)%Z = true) by (apply Z.ltb_lt; lia).
    rewrite Ez. cbn. eexists; split; [reflexivity | split; assumption]. }
  assert (Ez : (Z.of_nat (length sh) <? Z.of_nat (length dl) - 1)%Z = false) by (apply Z.ltb_ge; lia).
  rewrite Ez. go5.
  set (k := (length dl - i - 1)%nat).
  replace (- (Z.of_nat (length dl) - Z.of_nat i - 1))%Z with (- Z.of_nat k)%Z by (subst k; lia).
  (* after `if j == 0: j = None`: one environment for both branches *)
  set (jv := if (k =? 0)%nat then VNone else VZ (- Z.of_nat k)).
  set (env0 := upd (upd env "i" (VZ (Z.of_nat i))) "j" (VZ (- Z.of_nat k))).
  assert (Hex : exists env1, (if (- Z.of_nat k =? 0)%Z then ONormal (upd env0 "j" VNone) else ONormal env0) = ONormal env1 /\
                             env1 "i" = Some (VZ (Z.of_nat i)) /\ env1 "j" = Some jv /\
                             env1 "cls" = Some (VCls (Some i) dl) /\ env1 "obj" = Some (VObj sh) /\
                             env1 "single_memo" = Some (VSingle (single m)) /\ env1 "variadic_memo" = Some (VVariadic (variadic m)) /\
                             env1 "arg_memo" = Some (VArgs (margs m))).
  { subst jv env0. destruct (Nat.eqb_spec k 0) as [Ek|Ek].
    - rewrite Ek. eexists. split; [reflexivity|]. cbn. repeat split; assumption.
    - assert (Ekz : (- Z.of_nat k =? 0)%Z = false) by (apply Z.eqb_neq; lia). rewrite Ekz.
      eexists. split; [reflexivity|]. cbn. repeat split; assumption. }
  destruct Hex as [env1 [-> [H1i [H1j [H1c [H1o [H1s [H1v H1a]]]]]]]].
  clear Hc Ho Hs Hv Ha. subst env0. go5.
  rewrite !slice_prefix.
  assert (Lp : length (firstn i dl) = length (firstn i sh)) by (rewrite !firstn_length; lia).
  destruct (call_check_dims (firstn i dl) (firstn i sh) (single m) (margs m) Lp Hpre) as [o1 [o2 Hcall]]. rewrite Hcall. clear Hcall.
  destruct (check_dims lbl st (margs m) (firstn i dl) (firstn i sh) (single m)) as [r1 sm1].
  destruct r1 as [| |e1]; cbn [fst snd res_of].
  2:{ go5. eexists; split; [reflexivity | split; cbn; [reflexivity | assumption]]. }
  2:{ go5. eexists; split; [reflexivity | split; cbn; [reflexivity | assumption]]. }
  go5.
  assert (Hkk : (k <= length sh)%nat) by (subst k; lia).
  subst jv. destruct (Nat.eqb_spec k 0) as [Ek|Ek].
  - (* no suffix *)
    go5. rewrite outcome_eta.
    match goal with |- context [?f vtail_src ?e] => change (f vtail_src e) with (exec_list lbl st calls vtail_src e) end.
    rewrite Hnth.
    match goal with |- context [exec_list lbl st calls vtail_src ?e] =>
      destruct (vpart dl i sh sm1 (variadic m) (margs m) k e dv) as [env2 [H1 H2]]; try (cbn; first [assumption | reflexivity]) end.
    { cbn. rewrite H1j. destruct (Nat.eqb_spec k 0); [reflexivity | contradiction]. } { subst k. lia. }
    exists env2. split; [exact H1 | exact H2].
  - (* suffix *)
    go5. rewrite !slice_suffix by lia.
    assert (Hsuf' : nonvar (skipn (length dl - k) dl)) by (replace (length dl - k)%nat with (Datatypes.S i) by (subst k; lia); exact Hsuf).
    assert (Ls : length (skipn (length dl - k) dl) = length (skipn (length sh - k) sh)) by (rewrite !skipn_length; subst k; lia).
    destruct (call_check_dims (skipn (length dl - k) dl) (skipn (length sh - k) sh) sm1 (margs m) Ls Hsuf') as [o3 [o4 Hcall]]. rewrite Hcall. clear Hcall.
    destruct (Nat.eqb_spec k 0) as [Ek0|_]; [contradiction|].
    destruct (check_dims lbl st (margs m) (skipn (length dl - k) dl) (skipn (length sh - k) sh) sm1) as [r2 sm2].
    destruct r2 as [| |e2]; cbn [fst snd res_of].
    2:{ go5. eexists; split; [reflexivity | split; cbn; [reflexivity | assumption]]. }
    2:{ go5. eexists; split; [reflexivity | split; cbn; [reflexivity | assumption]]. }
    go5. rewrite outcome_eta.
    match goal with |- context [?f vtail_src ?e] => change (f vtail_src e) with (exec_list lbl st calls vtail_src e) end.
    rewrite Hnth.
    match goal with |- context [exec_list lbl st calls vtail_src ?e] =>
      destruct (vpart dl i sh sm2 (variadic m) (margs m) k e dv) as [env2 [H1 H2]]; try (cbn; first [assumption | reflexivity]) end.
    { cbn. rewrite H1j. destruct (Nat.eqb_spec k 0); [contradiction | reflexivity]. } { subst k. lia. }
    exists env2. split; [exact H1 | exact H2].
Qed.
End Shape.

(* HookFrontFacts.v -- facts about the pytest option and the IPython magic (model/HookFront.v). *)
From Coq Require Import Lia.
From JT Require Import model.HookFront proofs.HookScopeFacts.
Open Scope string_scope.

(* ---------- split / join ---------- *)
Fixpoint has_char (c : ascii) (s : string) : bool :=
  match s with EmptyString => false | String d r => Ascii.eqb d c || has_char c r end.

Lemma split_aux_sep sep a : forall b cur,
  split_aux sep (a ++ String sep b) cur = (split_aux sep a cur ++ split_aux sep b "")%list.
Proof.
  induction a as [|c r IH]; intros b cur; cbn [append split_aux].
  - rewrite Ascii.eqb_refl. reflexivity.
  - destruct (Ascii.eqb c sep); [cbn [app]; f_equal; apply IH | apply IH].
Qed.

Lemma append_assoc (a b c : string) : (a ++ b) ++ c = a ++ (b ++ c).
Proof. induction a as [|x a IH]; cbn; [reflexivity | now rewrite IH]. Qed.
Lemma append_nil_r (a : string) : a ++ "" = a.
Proof. induction a as [|x a IH]; cbn; [reflexivity | now rewrite IH]. Qed.

Lemma split_aux_nosep sep a : has_char sep a = false -> forall cur, split_aux sep a cur = [cur ++ a].
Proof.
  induction a as [|c r IH]; intros H cur; cbn [split_aux].
  - now rewrite append_nil_r.
  - cbn [has_char] in H. apply orb_false_iff in H. destruct H as [Hc Hr]. rewrite Hc.
    rewrite (IH Hr). rewrite append_assoc. reflexivity.
Qed.

Lemma split_aux_nonempty sep s : forall cur, split_aux sep s cur <> [].
Proof. induction s as [|c r IH]; intros cur; cbn; [discriminate|]. destruct (Ascii.eqb c sep); [discriminate | apply IH]. Qed.

Definition join_on (sep : ascii) (l : list string) : string := String.concat (String sep "") l.

Lemma join_on_cons sep x y r : join_on sep (x :: y :: r) = x ++ String sep (join_on sep (y :: r)).
Proof. reflexivity. Qed.

Theorem split_join sep l : l <> [] -> (forall x, In x l -> has_char sep x = false) ->
  split_on sep (join_on sep l) = l.
Proof.
  unfold split_on. induction l as [|x r IH]; intros Hne Hall; [congruence|].
  destruct r as [|y r].
  - cbn. rewrite split_aux_nosep by (apply Hall; now left). reflexivity.
  - rewrite join_on_cons, split_aux_sep. rewrite split_aux_nosep by (apply Hall; now left).
    cbn [append app]. f_equal. apply IH; [congruence | intros z Hz; apply Hall; now right].
Qed.

(* ---------- strip ---------- *)
Fixpoint all_ws (s : string) : bool :=
  match s with EmptyString => true | String c r => is_ws c && all_ws r end.

Lemma lstrip_ws w : all_ws w = true -> forall y, lstrip (w ++ y) = lstrip y.
Proof.
  induction w as [|c r IH]; intros H y; [reflexivity|].
  cbn [all_ws] in H. apply andb_true_iff in H. destruct H as [Hc Hr].
  cbn [append lstrip]. rewrite Hc. now apply IH.
Qed.

Lemma rstrip_all_ws w : all_ws w = true -> rstrip w = "".
Proof.
  induction w as [|c r IH]; intros H; [reflexivity|].
  cbn [all_ws] in H. apply andb_true_iff in H. destruct H as [Hc Hr].
  cbn [rstrip]. rewrite (IH Hr), Hc. reflexivity.
Qed.

Lemma rstrip_ws w : all_ws w = true -> forall x, rstrip (x ++ w) = rstrip x.
Proof.
  intros H x. induction x as [|c r IH]; cbn [append].
  - now rewrite rstrip_all_ws.
  - cbn [rstrip]. rewrite IH. reflexivity.
Qed.

(* "tight": no leading and no trailing whitespace (the empty string is tight) *)
Definition tight (x : string) : Prop := lstrip x = x /\ rstrip x = x.

Lemma lstrip_tight_app x w : lstrip x = x -> all_ws w = true -> rstrip (lstrip (x ++ w)) = rstrip x.
Proof.
  intros Hx Hw. destruct x as [|c r].
  - cbn [append]. rewrite <- (append_nil_r w). rewrite lstrip_ws by exact Hw. reflexivity.
  - cbn [append lstrip] in *. destruct (is_ws c) eqn:Hc.
    + (* lstrip (c::r) = c::r with c whitespace: impossible, lstrip r is a suffix of r *)
      exfalso. assert (Hlen : forall s, String.length (lstrip s) <= String.length s).
      { induction s as [|d s IHs]; cbn; [lia|]. destruct (is_ws d); cbn; lia. }
      specialize (Hlen r). rewrite Hx in Hlen. cbn in Hlen. lia.
    + change (String c (r ++ w)) with (String c r ++ w). apply rstrip_ws. exact Hw.
Qed.

Theorem pystrip_padded w1 x w2 : all_ws w1 = true -> all_ws w2 = true -> tight x -> pystrip (w1 ++ x ++ w2) = x.
Proof.
  intros H1 H2 [Hl Hr]. unfold pystrip. rewrite lstrip_ws by exact H1.
  rewrite lstrip_tight_app by assumption. exact Hr.
Qed.

(* stripping never leaves surrounding whitespace, and only removes whitespace *)
Lemma lstrip_split s : exists w, all_ws w = true /\ s = w ++ lstrip s.
Proof.
  induction s as [|c r [w [Hw Hs]]]; [exists ""; split; reflexivity|].
  cbn [lstrip]. destruct (is_ws c) eqn:Hc.
  - exists (String c w). cbn [all_ws append]. rewrite Hc, Hw. split; [reflexivity | now rewrite <- Hs].
  - exists "". split; reflexivity.
Qed.

Lemma rstrip_split s : exists w, all_ws w = true /\ s = rstrip s ++ w.
Proof.
  induction s as [|c r [w [Hw Hs]]]; [exists ""; split; reflexivity|].
  cbn [rstrip]. destruct (rstrip r) as [|d r'] eqn:E.
  - destruct (is_ws c) eqn:Hc.
    + exists (String c w). cbn [all_ws append]. rewrite Hc, Hw. split; [reflexivity|]. cbn in Hs. now rewrite <- Hs.
    + exists w. split; [exact Hw|]. cbn [append]. cbn in Hs. now rewrite <- Hs.
  - exists w. split; [exact Hw|]. cbn [append]. f_equal. exact Hs.
Qed.

Theorem pystrip_only_removes_whitespace s : exists w1 w2,
  all_ws w1 = true /\ all_ws w2 = true /\ s = w1 ++ pystrip s ++ w2.
Proof.
  destruct (lstrip_split s) as [w1 [H1 E1]]. destruct (rstrip_split (lstrip s)) as [w2 [H2 E2]].
  exists w1, w2. split; [exact H1|]. split; [exact H2|]. unfold pystrip. rewrite <- E2. exact E1.
Qed.

(* ---------- the pytest option ---------- *)
Lemma last_str_snoc l x : last_str (l ++ [x]) = x.
Proof.
  induction l as [|y r IH]; [reflexivity|]. cbn [app last_str].
  destruct (r ++ [x])%list eqn:E; [destruct r; discriminate|]. exact IH.
Qed.

Theorem pytest_configure_spec imported v names chk :
  pytest_configure imported v = PInstall names chk ->
  v <> "" /\ (names ++ [chk])%list = pytest_items v /\ forall n, In n names -> ~ In n imported.
Proof.
  unfold pytest_configure. destruct (String.eqb v "") eqn:Ev; [discriminate|].
  destruct (filter _ _) eqn:F; [|discriminate]. intros H. injection H as <- <-.
  split; [intros ->; discriminate|]. split.
  - assert (Hne : pytest_items v <> []).
    { unfold pytest_items, split_on. intros E. apply map_eq_nil in E. exact (split_aux_nonempty _ _ _ E). }
    destruct (exists_last Hne) as [l [x E]]. rewrite E. rewrite removelast_last, last_str_snoc. reflexivity.
  - intros n Hn Hi. assert (Hin : In n (filter (fun n => existsb (String.eqb n) imported) (removelast (pytest_items v)))).
    { apply filter_In. split; [exact Hn|]. apply existsb_exists. exists n. split; [exact Hi | apply String.eqb_refl]. }
    rewrite F in Hin. exact Hin.
Qed.

Theorem pytest_already_imported_spec imported v bad :
  pytest_configure imported v = PAlready bad ->
  bad <> [] /\ forall n, In n bad <-> In n (removelast (pytest_items v)) /\ In n imported.
Proof.
  unfold pytest_configure. destruct (String.eqb v "") eqn:Ev; [discriminate|].
  destruct (filter _ _) eqn:F; [discriminate|]. intros H. injection H as <-. split; [discriminate|].
  intros n. rewrite <- F. rewrite filter_In. split; intros [H1 H2]; (split; [exact H1|]).
  - apply existsb_exists in H2. destruct H2 as [y [Hy E]]. apply String.eqb_eq in E. now subst.
  - apply existsb_exists. exists n. split; [exact H2 | apply String.eqb_refl].
Qed.

(* the option as a user writes it: names and checker, each possibly padded with whitespace, joined by commas *)
Definition pad (p : string * string * string) : string := let '(w1, x, w2) := p in w1 ++ x ++ w2.
Definition core (p : string * string * string) : string := let '(_, x, _) := p in x.
Definition good_item (p : string * string * string) : Prop :=
  let '(w1, x, w2) := p in all_ws w1 = true /\ all_ws w2 = true /\ tight x /\ has_char ","%char x = false.

Lemma all_ws_no_comma w : all_ws w = true -> has_char ","%char w = false.
Proof.
  induction w as [|c r IH]; intros H; [reflexivity|]. cbn [all_ws] in H. apply andb_true_iff in H. destruct H as [Hc Hr].
  cbn [has_char]. rewrite (IH Hr). destruct (Ascii.eqb c ","%char) eqn:E; [|reflexivity].
  apply Ascii.eqb_eq in E. subst c. discriminate.
Qed.
Lemma has_char_app c a b : has_char c (a ++ b) = has_char c a || has_char c b.
Proof. induction a as [|d a IH]; cbn; [reflexivity|]. rewrite IH. now rewrite orb_assoc. Qed.

Theorem pytest_items_of_padded ps : ps <> [] -> Forall good_item ps ->
  pytest_items (join_on ","%char (map pad ps)) = map core ps.
Proof.
  intros Hne Hall. unfold pytest_items. rewrite split_join.
  - rewrite map_map. apply map_ext_in. intros [[w1 x] w2] Hin. rewrite Forall_forall in Hall.
    destruct (Hall _ Hin) as [H1 [H2 [Ht _]]]. cbn [pad core]. now apply pystrip_padded.
  - destruct ps; [congruence | discriminate].
  - intros s Hs. apply in_map_iff in Hs. destruct Hs as [[[w1 x] w2] [<- Hin]]. rewrite Forall_forall in Hall.
    destruct (Hall _ Hin) as [H1 [H2 [_ Hc]]]. cbn [pad]. rewrite !has_char_app, Hc, (all_ws_no_comma _ H1), (all_ws_no_comma _ H2). reflexivity.
Qed.

(* end to end: `--jaxtyping-packages=<names...>,<checker>` (padded or not) behaves like
   install_import_hook(names, checker) followed by the session's imports *)
Theorem pytest_option_is_install preload ps pc imports :
  Forall good_item (ps ++ [pc]) -> join_on ","%char (map pad (ps ++ [pc])) <> "" ->
  (forall n, In n (map core ps) -> ~ In n (akeys (loaded (hrun (map Import preload) hs0)))) ->
  pytest_run preload (join_on ","%char (map pad (ps ++ [pc]))) imports =
  Some (hrun (Install (map core ps) (Some (core pc)) :: map Import imports) (hrun (map Import preload) hs0)).
Proof.
  intros Hall Hne Hfresh. unfold pytest_run, pytest_configure.
  destruct (String.eqb _ "") eqn:E; [apply String.eqb_eq in E; congruence|].
  rewrite pytest_items_of_padded; [|destruct ps; discriminate | exact Hall].
  rewrite map_app. cbn [map]. rewrite removelast_last, last_str_snoc.
  replace (filter _ (map core ps)) with (@nil string); [reflexivity|].
  symmetry. revert Hfresh. generalize (akeys (loaded (hrun (map Import preload) hs0))). intros imported Hfresh.
  induction (map core ps) as [|a l IH]; [reflexivity|]. cbn [filter].
  destruct (existsb (String.eqb a) imported) eqn:Ex.
  - exfalso. apply existsb_exists in Ex. destruct Ex as [y [Hy Ey]]. apply String.eqb_eq in Ey. subst y.
    exact (Hfresh a (or_introl eq_refl) Hy).
  - apply IH. intros n Hn. apply Hfresh. now right.
Qed.

(* ---------- the IPython magic ---------- *)
Definition opt_list (o : option string) : list string := match o with None => [] | Some c => [c] end.

Fixpoint spec_cells (ops : list iop) (cur : option string) : list (string * list string) :=
  match ops with
  | [] => []
  | IMagic c :: r => spec_cells r (Some c)
  | IAddOther _ :: r => spec_cells r cur
  | ICell n :: r => (n, opt_list cur) :: spec_cells r cur
  end.

Lemma cell_checkers_app a b : cell_checkers (a ++ b) = (cell_checkers a ++ cell_checkers b)%list.
Proof. unfold cell_checkers. apply flat_map_app. Qed.
Lemma cell_checkers_nonjax ts : cell_checkers (filter (fun t => negb (is_jax t)) ts) = [].
Proof. induction ts as [|[c|i] r IH]; cbn; [reflexivity | exact IH | exact IH]. Qed.
Lemma cell_checkers_magic ts c : cell_checkers (magic ts c) = [c].
Proof. unfold magic. rewrite cell_checkers_app, cell_checkers_nonjax. reflexivity. Qed.

Theorem magic_run ops : forall s cur, cell_checkers (xfs s) = opt_list cur ->
  cells (irun ops s) = (cells s ++ spec_cells ops cur)%list /\
  cell_checkers (xfs (irun ops s)) = opt_list (latest_magic ops cur).
Proof.
  induction ops as [|o r IH]; intros s cur H; cbn [irun fold_left spec_cells latest_magic].
  - rewrite app_nil_r. split; [reflexivity | exact H].
  - destruct o as [c|i|n]; cbn [istep].
    + apply (IH (mkis (magic (xfs s) c) (cells s)) (Some c)). cbn [xfs]. apply cell_checkers_magic.
    + apply (IH (mkis (xfs s ++ [XOther i]) (cells s)) cur). cbn [xfs]. rewrite cell_checkers_app, H. cbn. now rewrite app_nil_r.
    + destruct (IH (mkis (xfs s) (cells s ++ [(n, cell_checkers (xfs s))])) cur H) as [H1 H2].
      split; [|exact H2]. unfold irun in H1. rewrite H1. cbn [cells]. rewrite H, <- app_assoc. reflexivity.
Qed.

(* the other extensions' transformers are never removed or reordered by the magic *)
Fixpoint others_added (ops : list iop) : list xf :=
  match ops with [] => [] | IAddOther i :: r => XOther i :: others_added r | _ :: r => others_added r end.
Definition nonjax (ts : list xf) := filter (fun t => negb (is_jax t)) ts.
Lemma nonjax_app a b : nonjax (a ++ b) = (nonjax a ++ nonjax b)%list. Proof. apply filter_app. Qed.
Lemma nonjax_idem a : nonjax (nonjax a) = nonjax a.
Proof. unfold nonjax. induction a as [|[c|i] r IH]; cbn; [reflexivity | exact IH | now rewrite IH]. Qed.

Theorem magic_keeps_others ops : forall s, nonjax (xfs (irun ops s)) = (nonjax (xfs s) ++ others_added ops)%list.
Proof.
  induction ops as [|o r IH]; intros s; cbn [irun fold_left others_added]; [now rewrite app_nil_r|].
  destruct o as [c|i|n]; cbn [istep]; unfold irun in IH; rewrite IH; cbn [xfs].
  - unfold magic. rewrite nonjax_app. fold (nonjax (xfs s)). rewrite nonjax_idem. cbn. now rewrite app_nil_r.
  - rewrite nonjax_app. cbn. now rewrite <- app_assoc.
  - reflexivity.
Qed.

(* at most one jaxtyping transformer is ever active *)
Theorem at_most_one_jax ops : length (cell_checkers (xfs (irun ops is0))) <= 1.
Proof. destruct (magic_run ops is0 None eq_refl) as [_ H]. rewrite H. destruct (latest_magic ops None); cbn; lia. Qed.

(* DtypeFacts.v -- the generated dtype tables against the documented hierarchy (C03). *)
From JT Require Import model.Dtype gen.DtypeTables.
From Coq Require Import Lia.
Open Scope string_scope.
Open Scope list_scope.

(* ---------- the documented hierarchy (docs/api/array.md, "Dtype") ---------- *)
Definition s_bool := ["bool"; "bool_"].
Definition s_key := ["prng_key"].
Definition s_uint := ["uint2"; "uint4"; "uint8"; "uint16"; "uint32"; "uint64"].
Definition s_int := ["int2"; "int4"; "int8"; "int16"; "int32"; "int64"].
Definition s_float8 := ["float8_e4m3b11fnuz"; "float8_e4m3fn"; "float8_e4m3fnuz"; "float8_e5m2"; "float8_e5m2fnuz"].
Definition s_float := s_float8 ++ ["bfloat16"; "float16"; "float32"; "float64"].
Definition s_complex := ["complex64"; "complex128"].
Definition s_integer := s_uint ++ s_int.
Definition s_inexact := s_float ++ s_complex.
Definition s_real := s_float ++ s_integer.
Definition s_num := s_integer ++ s_inexact.

(* one class per precision: class name, its one dtype *)
Definition precision_classes : list (string * string) :=
  [("UInt2","uint2"); ("UInt4","uint4"); ("UInt8","uint8"); ("UInt16","uint16"); ("UInt32","uint32"); ("UInt64","uint64");
   ("Int2","int2"); ("Int4","int4"); ("Int8","int8"); ("Int16","int16"); ("Int32","int32"); ("Int64","int64");
   ("Float8e4m3b11fnuz","float8_e4m3b11fnuz"); ("Float8e4m3fn","float8_e4m3fn"); ("Float8e4m3fnuz","float8_e4m3fnuz");
   ("Float8e5m2","float8_e5m2"); ("Float8e5m2fnuz","float8_e5m2fnuz");
   ("BFloat16","bfloat16"); ("Float16","float16"); ("Float32","float32"); ("Float64","float64");
   ("Complex64","complex64"); ("Complex128","complex128")].

Definition spec_table : list (string * option (list string)) :=
  map (fun p => (fst p, Some [snd p])) precision_classes ++
  [("Bool", Some s_bool); ("UInt", Some s_uint); ("Int", Some s_int); ("Integer", Some s_integer);
   ("Float", Some s_float); ("Complex", Some s_complex); ("Inexact", Some s_inexact); ("Real", Some s_real);
   ("Num", Some s_num); ("Shaped", None); ("Key", Some s_key)].

Fixpoint lookup {V} (k : string) (t : list (string * V)) : option V :=
  match t with [] => None | (k', v) :: r => if String.eqb k k' then Some v else lookup k r end.

Definition mem (s : string) (l : list string) : bool := existsb (String.eqb s) l.
Definition subset (a b : list string) : bool := forallb (fun s => mem s b) a.
Definition set_eqb (a b : list string) : bool := subset a b && subset b a.
Definition oset_eqb (a b : option (list string)) : bool :=
  match a, b with None, None => true | Some x, Some y => set_eqb x y | _, _ => false end.

Lemma mem_In s l : mem s l = true <-> In s l.
Proof. unfold mem. rewrite existsb_exists. split.
  - intros [x [Hi He]]. apply String.eqb_eq in He. now subst.
  - intros H. exists s. split; [assumption | apply String.eqb_refl]. Qed.

Lemma subset_spec a b : subset a b = true -> forall s, mem s a = true -> mem s b = true.
Proof. unfold subset. rewrite forallb_forall. intros H s Hs. apply mem_In in Hs. now apply H. Qed.

Lemma set_eqb_spec a b : set_eqb a b = true -> forall s, mem s a = mem s b.
Proof. unfold set_eqb. intros H s. apply andb_true_iff in H as [H1 H2].
  destruct (mem s a) eqn:Ea.
  - symmetry. eapply subset_spec; eauto.
  - destruct (mem s b) eqn:Eb; [|reflexivity]. rewrite (subset_spec _ _ H2 s Eb) in Ea. discriminate. Qed.

(* the table as the match loop sees it: every entry of a built-in category is a plain string *)
Definition as_pats (o : option (list string)) : option (list dpat) := option_map (map PStr) o.

Lemma cat_accepts_strings l name : cat_accepts (Some (map PStr l)) name = mem name l.
Proof. cbn. unfold mem. induction l as [|x l IH]; cbn; [reflexivity | now rewrite IH]. Qed.

(* every category of the generated table has the documented contents, and the two tables
   define the same categories (a bounded sweep over the 34 names, decided by computation) *)
Definition tables_agree : bool :=
  forallb (fun kv => match lookup (fst kv) spec_table with Some v => oset_eqb (snd kv) v | None => false end) category_table &&
  forallb (fun kv => match lookup (fst kv) category_table with Some _ => true | None => false end) spec_table.

Lemma tables_agree_true : tables_agree = true.
Proof. vm_compute. reflexivity. Qed.

Lemma forallb_lookup {V} (P : string * V -> bool) t k v :
  forallb P t = true -> lookup k t = Some v -> exists k', String.eqb k k' = true /\ P (k', v) = true.
Proof. induction t as [|[k0 v0] t IH]; cbn; [discriminate|]. intros H. apply andb_true_iff in H as [H0 Ht].
  destruct (String.eqb k k0) eqn:E; [intros Hv; inversion Hv; subst; eauto | auto]. Qed.

(* for ALL strings: a built-in category accepts a dtype name iff the documentation lists it *)
Theorem table_eq_spec c gen :
  lookup c category_table = Some gen ->
  exists sp, lookup c spec_table = Some sp /\
    forall name, cat_accepts (as_pats gen) name = match sp with None => true | Some l => mem name l end.
Proof.
  intros Hg. pose proof tables_agree_true as H. unfold tables_agree in H. apply andb_true_iff in H as [H1 _].
  destruct (forallb_lookup _ _ _ _ H1 Hg) as [k' [Hk Hp]]. apply String.eqb_eq in Hk; subst k'. cbn [fst snd] in Hp.
  destruct (lookup c spec_table) as [sp|]; [|discriminate]. exists sp. split; [reflexivity|].
  intros name. destruct gen as [g|], sp as [s|]; cbn in Hp; try discriminate; [|reflexivity].
  unfold as_pats, option_map. rewrite cat_accepts_strings. now apply set_eqb_spec.
Qed.

Theorem every_documented_category_exists c sp :
  lookup c spec_table = Some sp -> exists gen, lookup c category_table = Some gen.
Proof.
  intros Hs. pose proof tables_agree_true as H. unfold tables_agree in H. apply andb_true_iff in H as [_ H2].
  destruct (forallb_lookup _ _ _ _ H2 Hs) as [k' [Hk Hp]]. apply String.eqb_eq in Hk; subst k'. cbn [fst] in Hp.
  destruct (lookup c category_table) as [g|]; [eauto | discriminate].
Qed.

(* the documented inclusions, unions and disjointness hold of the spec *)
Definition disjoint (a b : list string) : bool := forallb (fun s => negb (mem s b)) a.
Theorem hierarchy :
  set_eqb s_num (s_inexact ++ s_integer) = true /\ set_eqb s_inexact (s_float ++ s_complex) = true /\
  set_eqb s_integer (s_uint ++ s_int) = true /\ set_eqb s_real (s_float ++ s_integer) = true /\
  disjoint s_bool s_num = true /\ disjoint s_key s_num = true /\ disjoint s_bool s_key = true /\
  disjoint s_float s_complex = true /\ disjoint s_uint s_int = true /\ disjoint s_float s_integer = true /\
  forallb (fun p => mem (snd p) s_num) precision_classes = true /\ NoDup (map snd precision_classes).
Proof.
  repeat split; try (vm_compute; reflexivity).
  assert (H : forall l : list string, (fix nd (l : list string) := match l with [] => true | x :: r => negb (mem x r) && nd r end) l = true -> NoDup l).
  { induction l as [|x r IH]; intros Hn; constructor.
    - apply andb_true_iff in Hn as [Hx _]. intros Hi. apply mem_In in Hi. rewrite Hi in Hx. discriminate.
    - apply IH. now apply andb_true_iff in Hn as [_ Hr]. }
  apply H. vm_compute. reflexivity.
Qed.

(* the verdict is a function of the extracted name only: the backend does not matter *)
Theorem backend_independent d f1 f2 :
  extract_name f1 = extract_name f2 -> accepts_facets d f1 = accepts_facets d f2.
Proof. unfold accepts_facets. intros ->. reflexivity. Qed.

(* per-backend extraction *)
Theorem extract_numpy_jax n r : extract_name (mkfacets (Some n) None None None r) = NName n.
Proof. reflexivity. Qed.
Theorem extract_struct n s r : extract_name (mkfacets (Some n) (Some s) None None r) = NName s.
Proof. reflexivity. Qed.
Theorem extract_tensorflow n r : extract_name (mkfacets None None (Some (Some n)) None r) = NName n.
Proof. reflexivity. Qed.
Theorem extract_duck_string s r : extract_name (mkfacets None None None (Some s) r) = NName s.
Proof. reflexivity. Qed.
Theorem extract_torch_style : extract_name (mkfacets None None None None "torch.float32") = NName "float32".
Proof. reflexivity. Qed.

(* a user category accepts exactly the names equal to one of its strings or matched by one
   of its patterns ... *)
Theorem user_category_spec pats name :
  cat_accepts (Some pats) name = true <->
  exists p, In p pats /\ (p = PStr name \/ exists r, p = PRe r /\ re_match r name = true).
Proof.
  cbn. rewrite existsb_exists. split.
  - intros [p [Hi Hm]]. exists p. split; [assumption|]. destruct p as [s0|r]; cbn in Hm.
    + left. apply String.eqb_eq in Hm. now subst.
    + right. eauto.
  - intros [p [Hi [->|[r [-> Hm]]]]]; eexists; (split; [eassumption|]); cbn; [apply String.eqb_refl | assumption].
Qed.

(* ... where Pattern.match means: SOME PREFIX of the name is matched, and `$` can only be
   used up by a prefix that is the whole name *)
Fixpoint derivs (r : re) (p : string) : re :=
  match p with EmptyString => r | String c p' => derivs (deriv c r) p' end.
Definition is_empty (s : string) : bool := match s with EmptyString => true | _ => false end.

Theorem re_match_is_prefix_match : forall s r,
  re_match r s = true <-> exists p q, s = (p ++ q)%string /\ nullable (is_empty q) (derivs r p) = true.
Proof.
  induction s as [|c s IH]; intros r; cbn [re_match].
  - split.
    + intros H. exists "", "". split; [reflexivity | exact H].
    + intros [p [q [Hs Hn]]]. destruct p; [|discriminate]. destruct q; [|discriminate]. exact Hn.
  - rewrite orb_true_iff, IH. split.
    + intros [H|[p [q [Hs Hn]]]].
      * exists "", (String c s). split; [reflexivity | exact H].
      * exists (String c p), q. split; [cbn; now rewrite Hs | exact Hn].
    + intros [p [q [Hs Hn]]]. destruct p as [|c' p].
      * cbn in Hs. subst q. left. exact Hn.
      * cbn in Hs. inversion Hs; subst. right. exists p, q. split; [reflexivity | exact Hn].
Qed.

(* init_subclass normalisation (str / Pattern / list / tuple -> tuple) does not change the accepted set *)
Theorem user_category_single_is_singleton p name : cat_accepts (Some [p]) name = pat_matches name p.
Proof. cbn. now rewrite orb_false_r. Qed.

Example re_examples :
  let float_any := RCat (RChr "f") (RCat (RChr "l") (RCat (RChr "o") (RCat (RChr "a") (RCat (RChr "t") (RStar RAny))))) in
  let int8_end := RCat (RChr "i") (RCat (RChr "n") (RCat (RChr "t") (RCat (RChr "8") REnd))) in
  let int8 := RCat (RChr "i") (RCat (RChr "n") (RCat (RChr "t") (RChr "8"))) in
  map (re_match float_any) ["float32"; "float"; "bfloat16"; "floa"] = [true; true; false; false] /\
  map (re_match int8_end) ["int8"; "int80"; "uint8"] = [true; false; false] /\
  map (re_match int8) ["int8"; "int80"; "uint8"] = [true; true; false].
Proof. vm_compute. repeat split. Qed.

(* ---------- evaluation entry points for the correspondence check ---------- *)
Definition vchar (v : verdict) : string := match v with Acc => "1" | Rej => "0" | Raise _ => "E" end.
Definition run_builtin (f : facets) : string :=
  (show_nameres (extract_name f) ++ " " ++
  sep_concat "," (map (fun kv => fst kv ++ "=" ++ vchar (accepts_facets (as_pats (snd kv)) f)) category_table))%string.
Definition run_user (pats : list dpat) (names : list string) : string :=
  sep_concat "" (map (fun n => if cat_accepts (Some pats) n then "1" else "0") names).

(* TraceFacts.v -- C17 *)
From JT Require Import model.Trace.
Open Scope string_scope.

(* the logging version computes exactly the check of the model *)
Theorem log_refines flat lbl st a o s :
  fst (instancecheck_log flat lbl st a o s) = instancecheck flat lbl st a (observe o) s.
Proof.
  unfold instancecheck_log, instancecheck, observe. cbn [v_inst v_attrs v_dtype v_shape].
  destruct (a_skip a); [reflexivity|].
  destruct (negb (if a_any a then o_attrs o else o_inst o)); [reflexivity|].
  destruct flat; [reflexivity|].
  destruct (negb (dtype_ok a (o_dtype o))); [reflexivity|].
  destruct (check_shape lbl st (a_dims a) (o_shape o) (get_memo s)) as [r m']. destruct r; reflexivity.
Qed.

(* a check never needs a concrete element value *)
Theorem never_forces flat lbl st a o s : ~ In AForce (snd (instancecheck_log flat lbl st a o s)).
Proof.
  unfold instancecheck_log.
  destruct (a_skip a); [intros []|].
  destruct (negb (if a_any a then o_attrs o else o_inst o)); [destruct (a_any a); cbn; intuition discriminate|].
  destruct flat; [destruct (a_any a); cbn; intuition discriminate|].
  destruct (negb (dtype_ok a (o_dtype o))); [destruct (a_any a); cbn; intuition discriminate|].
  destruct (check_shape lbl st (a_dims a) (o_shape o) (get_memo s)) as [r m']. destruct (a_any a); cbn; intuition discriminate.
Qed.

(* two values with the same type membership, shape and dtype -- e.g. a tracer and a concrete array with the same
   aval, or two arrays with different elements -- get the same verdict, the same bindings and the same accesses *)
Theorem value_independent flat lbl st a o1 o2 s :
  observe o1 = observe o2 -> instancecheck_log flat lbl st a o1 s = instancecheck_log flat lbl st a o2 s.
Proof.
  unfold observe. intros H. inversion H as [[Hi Ha Hd Hs]]. unfold instancecheck_log. now rewrite Hi, Ha, Hd, Hs.
Qed.

Corollary tracer_equals_eager flat lbl st a i at_ d sh data1 data2 s :
  instancecheck_log flat lbl st a (mkobj i at_ d sh data1 true) s = instancecheck_log flat lbl st a (mkobj i at_ d sh data2 false) s.
Proof. apply value_independent. reflexivity. Qed.

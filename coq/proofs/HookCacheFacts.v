(* HookCacheFacts.v -- cached bytecode never makes a module run with the wrong instrumentation (C18). *)
From JT Require Import model.HookCache proofs.CheckFacts.
From Coq Require Import Lia.
Open Scope string_scope.

Definition kind_of_tag (t : ctag) : ckind := match t with Plain => Uninstr | J h => Instr h end.

(* the cache invariant: the tag determines what was compiled *)
Definition cinv (c : cache) : Prop := forall m t v k, cget c m t = Some (v, k) -> k = kind_of_tag t.

Lemma ctag_eqb_eq a b : ctag_eqb a b = true <-> a = b.
Proof. destruct a, b; cbn; try (split; congruence). rewrite String.eqb_eq. split; congruence. Qed.

Lemma cinv_nil : cinv []. Proof. intros m t v k H. discriminate. Qed.

Lemma cinv_cset c m t v : cinv c -> cinv (cset c m t (v, kind_of_tag t)).
Proof.
  intros Hc m' t' v' k'. unfold cset. cbn. destruct (String.eqb m' m && ctag_eqb t' t) eqn:E.
  - apply andb_true_iff in E as [_ Et]. apply ctag_eqb_eq in Et. subst. intros H; inversion H; reflexivity.
  - apply Hc.
Qed.

Definition all_correct (r : runcfg) (d : list (string * (ckind * nat))) : Prop :=
  forall x, In x d -> snd x = expected r (fst x).

Section GetCode.
Variable r : runcfg.

(* with the patch confined to get_code: every load keeps the invariant and executes what the current
   source and the current hook configuration call for *)
Lemma load_correct : forall fuel m s,
  cinv (rs_cache s) -> all_correct r (rs_done s) ->
  cinv (rs_cache (load false r fuel m None s)) /\ all_correct r (rs_done (load false r fuel m None s)).
Proof.
  induction fuel as [|fuel IH]; intros m s Hc Hd; cbn [load]; [auto|].
  destruct (is_done s m); [auto|].
  set (hk := aget (r_hooked r) m).
  set (tag := match hk with Some h => J h | None => Plain end).
  set (fresh := match hk with Some h => Instr h | None => Uninstr end).
  assert (Hfresh : fresh = kind_of_tag tag) by (subst fresh tag; destruct hk; reflexivity).
  assert (Hexp : expected r m = (fresh, src_of r m)) by (unfold expected; subst fresh hk; reflexivity).
  (* the state after this module's own cache access *)
  assert (Hstep : exists ran c', (match cget (rs_cache s) m tag with
            | Some (v, k) => if Nat.eqb v (src_of r m) then ((k, v), rs_cache s) else ((fresh, src_of r m), cset (rs_cache s) m tag (src_of r m, fresh))
            | None => ((fresh, src_of r m), cset (rs_cache s) m tag (src_of r m, fresh))
            end) = (ran, c') /\ cinv c' /\ ran = expected r m).
  { destruct (cget (rs_cache s) m tag) as [[v k]|] eqn:Eg.
    - destruct (Nat.eqb_spec v (src_of r m)) as [Ev|Ev].
      + eexists _, _. split; [reflexivity|]. split; [assumption|]. rewrite Hexp, (Hc _ _ _ _ Eg), <- Hfresh, Ev. reflexivity.
      + eexists _, _. split; [reflexivity|]. split; [rewrite Hfresh; now apply cinv_cset | now rewrite Hexp].
    - eexists _, _. split; [reflexivity|]. split; [rewrite Hfresh; now apply cinv_cset | now rewrite Hexp]. }
  destruct Hstep as [ran [c' [Eq [Hc' Hran]]]]. fold hk. fold tag. fold fresh. rewrite Eq.
  assert (Hd1 : all_correct r ((m, ran) :: rs_done s)) by (intros x [<-|Hx]; [exact Hran | now apply Hd]).
  set (s1 := mkrs c' ((m, ran) :: rs_done s)).
  assert (Hc1 : cinv (rs_cache s1)) by exact Hc'. assert (Hd1' : all_correct r (rs_done s1)) by exact Hd1.
  clearbody s1. revert s1 Hc1 Hd1'.
  induction (deps_of r m) as [|d ds IHd]; intros s1 Hc1 Hd1'; cbn [fold_left]; [auto|].
  destruct (IH d s1 Hc1 Hd1') as [Hc2 Hd2]. now apply IHd.
Qed.

Theorem run_once_correct c : cinv c ->
  cinv (rs_cache (run_once false r c)) /\ all_correct r (rs_done (run_once false r c)).
Proof.
  intros Hc. unfold run_once.
  assert (G : forall l s, cinv (rs_cache s) -> all_correct r (rs_done s) ->
            cinv (rs_cache (fold_left (fun st m => load false r (S (length (r_src r))) m None st) l s)) /\
            all_correct r (rs_done (fold_left (fun st m => load false r (S (length (r_src r))) m None st) l s))).
  { induction l as [|m l IH]; intros s H1 H2; cbn [fold_left]; [auto|]. destruct (load_correct (S (length (r_src r))) m s H1 H2). now apply IH. }
  apply G; [exact Hc | intros x []].
Qed.
End GetCode.

(* for EVERY history of runs over one cache directory (any hooked subsets, checkers, import orders with nested
   imports, source edits in between): every module executed in every run is what that run's configuration and
   the current source call for *)
Theorem history_correct : forall rs c, cinv c ->
  Forall2 (fun r d => all_correct r d) rs (run_history false rs c).
Proof.
  induction rs as [|r rest IH]; intros c Hc; cbn [run_history]; [constructor|].
  destruct (run_once_correct r c Hc) as [Hc' Hd]. constructor; [|now apply IH].
  intros x Hx. apply Hd. now apply in_rev.
Qed.

(* a different typechecker string gives a different tag: bytecode is never shared between checkers *)
Theorem checker_change_never_reuses c m h h' v k :
  cinv c -> h <> h' -> cget c m (J h) = Some (v, k) -> k <> Instr h'.
Proof. intros Hc Hn Hg. rewrite (Hc _ _ _ _ Hg). cbn. congruence. Qed.

(* the same statement is FALSE when the patch spans exec_module (the code before the fix commit in /repo):
   run 1 hooks {a}, a imports b  ->  plain b is cached under a's jaxtyping tag;
   run 2 hooks {a, b} with the same checker  ->  b runs uninstrumented; and the converse *)
Definition witness_deps : alist (list string) := [("a", ["b"])].
Definition witness_src : alist nat := [("a", 1); ("b", 1)].
Theorem exec_module_scope_refuted :
  (exists rs, ~ Forall2 (fun r d => all_correct r d) rs (run_history true rs [])) /\
  show_done (nth 1 (run_history true [mkrun [("a", "h")] witness_src witness_deps ["a"]; mkrun [("a", "h"); ("b", "h")] witness_src witness_deps ["a"]] []) [])
    = "a=hooked:h@1,b=plain@1" /\
  show_done (nth 1 (run_history true [mkrun [("a", "h"); ("b", "h")] witness_src witness_deps ["a"]; mkrun [("a", "h")] witness_src witness_deps ["a"]] []) [])
    = "a=hooked:h@1,b=hooked:h@1".
Proof.
  split; [|split; vm_compute; reflexivity].
  exists [mkrun [("a", "h")] witness_src witness_deps ["a"]; mkrun [("a", "h"); ("b", "h")] witness_src witness_deps ["a"]].
  intros H. inversion H as [|? ? ? ? _ H2]; subst. inversion H2 as [|? ? ? ? Hd _]; subst.
  specialize (Hd ("b", (Uninstr, 1)) ltac:(vm_compute; auto)). vm_compute in Hd. discriminate.
Qed.

Example history_nonvacuous :
  map show_done (run_history false [mkrun [("a", "h")] witness_src witness_deps ["a"]; mkrun [("a", "h"); ("b", "h")] witness_src witness_deps ["a"];
                                    mkrun [("b", "g")] [("a", 2); ("b", 1)] witness_deps ["b"; "a"]] [])
  = ["a=hooked:h@1,b=plain@1"; "a=hooked:h@1,b=hooked:h@1"; "b=hooked:g@1,a=plain@2"].
Proof. vm_compute. reflexivity. Qed.

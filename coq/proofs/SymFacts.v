(* SymFacts.v -- a symbolic axis raises AnnotationError exactly for a name that is not bound (yet) (C01). *)
From JT Require Import model.Check proofs.CheckFacts.
Open Scope string_scope.

Fixpoint vars (e : expr) : list string :=
  match e with
  | EInt _ | EArg _ | ERaise _ => []
  | EVar n => [n]
  | ENeg a => vars a
  | EBin _ a b | EMin a b | EMax a b => vars a ++ vars b
  end.
Fixpoint argrefs (e : expr) : list string :=
  match e with
  | EInt _ | EVar _ | ERaise _ => []
  | EArg n => [n]
  | ENeg a => argrefs a
  | EBin _ a b | EMin a b | EMax a b => argrefs a ++ argrefs b
  end.

Lemma stage1_nameerr args e : stage1 args e = Some ENameErr -> exists n, In n (argrefs e) /\ aget args n = None.
Proof.
  induction e as [z|n|n|b|a IHa|op a IHa b IHb|a IHa b IHb|a IHa b IHb]; cbn; try discriminate.
  - destruct (aget args n) eqn:E; [discriminate|]. intros _. exists n. auto.
  - destruct b; discriminate.
  - exact IHa.
  - destruct (stage1 args a) as [r|]; [intros H; inversion H; subst; destruct (IHa eq_refl) as [n [Hi Hn]]; exists n; split; [apply in_or_app; auto | exact Hn]
                                     | intros H; destruct (IHb H) as [n [Hi Hn]]; exists n; split; [apply in_or_app; auto | exact Hn]].
  - destruct (stage1 args a) as [r|]; [intros H; inversion H; subst; destruct (IHa eq_refl) as [n [Hi Hn]]; exists n; split; [apply in_or_app; auto | exact Hn]
                                     | intros H; destruct (IHb H) as [n [Hi Hn]]; exists n; split; [apply in_or_app; auto | exact Hn]].
  - destruct (stage1 args a) as [r|]; [intros H; inversion H; subst; destruct (IHa eq_refl) as [n [Hi Hn]]; exists n; split; [apply in_or_app; auto | exact Hn]
                                     | intros H; destruct (IHb H) as [n [Hi Hn]]; exists n; split; [apply in_or_app; auto | exact Hn]].
Qed.

Lemma apply_op_not_nameerr op x y : apply_op op x y <> ENameErr.
Proof. destruct op; cbn; try discriminate; destruct (y =? 0)%Z; discriminate. Qed.

Lemma stage2_nameerr sm args e : stage2 sm args e = ENameErr ->
  (exists n, In n (vars e) /\ aget sm n = None) \/ (exists n, In n (argrefs e) /\ aget args n = None).
Proof.
  induction e as [z|n|n|b|a IHa|op a IHa b IHb|a IHa b IHb|a IHa b IHb]; cbn; try discriminate.
  - destruct (aget sm n) eqn:E; [discriminate|]. intros _. left. exists n. auto.
  - destruct (aget args n) eqn:E; [discriminate|]. intros _. right. exists n. auto.
  - destruct b; discriminate.
  - destruct (stage2 sm args a); try discriminate. intros _. apply IHa. reflexivity.
  - destruct (stage2 sm args a) eqn:Ea.
    + destruct (stage2 sm args b) eqn:Eb; try discriminate.
      * intros H. exfalso. eapply apply_op_not_nameerr; eauto.
      * intros _. destruct (IHb eq_refl) as [[n [Hi Hn]]|[n [Hi Hn]]]; [left | right]; exists n; (split; [apply in_or_app; auto | exact Hn]).
    + intros _. destruct (IHa eq_refl) as [[n [Hi Hn]]|[n [Hi Hn]]]; [left | right]; exists n; (split; [apply in_or_app; auto | exact Hn]).
    + discriminate.
    + discriminate.
  - destruct (stage2 sm args a) eqn:Ea.
    + destruct (stage2 sm args b) eqn:Eb; try discriminate.
      intros _. destruct (IHb eq_refl) as [[n [Hi Hn]]|[n [Hi Hn]]]; [left | right]; exists n; (split; [apply in_or_app; auto | exact Hn]).
    + intros _. destruct (IHa eq_refl) as [[n [Hi Hn]]|[n [Hi Hn]]]; [left | right]; exists n; (split; [apply in_or_app; auto | exact Hn]).
    + discriminate.
    + discriminate.
  - destruct (stage2 sm args a) eqn:Ea.
    + destruct (stage2 sm args b) eqn:Eb; try discriminate.
      intros _. destruct (IHb eq_refl) as [[n [Hi Hn]]|[n [Hi Hn]]]; [left | right]; exists n; (split; [apply in_or_app; auto | exact Hn]).
    + intros _. destruct (IHa eq_refl) as [[n [Hi Hn]]|[n [Hi Hn]]]; [left | right]; exists n; (split; [apply in_or_app; auto | exact Hn]).
    + discriminate.
    + discriminate.
Qed.

(* an AnnotationError from a symbolic axis always names a culprit: an axis name not bound in the context yet, or a
   {argument} the call does not have *)
Theorem nameerr_has_unbound_name sm args e : eval_sym sm args e = ENameErr ->
  (exists n, In n (vars e) /\ aget sm n = None) \/ (exists n, In n (argrefs e) /\ aget args n = None).
Proof.
  unfold eval_sym. destruct (stage1 args e) as [r|] eqn:E1.
  - intros ->. right. now apply stage1_nameerr.
  - apply stage2_nameerr.
Qed.

(* conversely: when every name it mentions is bound, evaluating never raises a name error *)
Lemma stage1_bound args e : (forall n, In n (argrefs e) -> aget args n <> None) -> stage1 args e <> Some ENameErr.
Proof. intros H E. destruct (stage1_nameerr _ _ E) as [n [Hi Hn]]. exact (H n Hi Hn). Qed.

Theorem bound_names_no_nameerr sm args e :
  (forall n, In n (vars e) -> aget sm n <> None) -> (forall n, In n (argrefs e) -> aget args n <> None) ->
  eval_sym sm args e <> ENameErr.
Proof.
  intros Hv Ha E. destruct (nameerr_has_unbound_name _ _ _ E) as [[n [Hi Hn]]|[n [Hi Hn]]]; [exact (Hv n Hi Hn) | exact (Ha n Hi Hn)].
Qed.

(* at the level of one axis: AnnotationError iff evaluation reaches the axis (not excused by #-and-size-1) and a name is unbound,
   or a '?' axis is used outside a structured PyTree *)
Theorem dim_step_annotation_error lbl st args d z sm :
  dim_step lbl st args d z sm = SRaise AnnotationErr <->
  match d with
  | DSym src bc => bc && (z =? 1)%Z = false /\ exists e, aget st src = Some e /\ eval_sym sm args e = ENameErr
  | DNamed n bc tp => bc && (z =? 1)%Z = false /\ dkey lbl n tp = None
  | _ => False
  end.
Proof.
  destruct d as [| |n bc tp|n bc tp|n bc|src bc]; cbn; try (split; [discriminate | tauto]).
  - destruct (bc && (z =? 1)%Z); [split; [discriminate | intros [? _]; discriminate]|].
    destruct (dkey lbl n tp) as [k|]; [|tauto].
    destruct (aget sm k) as [v|]; [destruct (v =? z)%Z|]; (split; [discriminate | intros [_ ?]; discriminate]).
  - destruct (bc && (n =? z)%Z) eqn:E; destruct (bc && (z =? 1)%Z); try (split; [discriminate | tauto]);
      destruct (n =? z)%Z; split; try discriminate; tauto.
  - destruct (bc && (z =? 1)%Z); [split; [discriminate | intros [? _]; discriminate]|].
    destruct (aget st src) as [e|]; [|split; [discriminate | intros [_ [e [? _]]]; discriminate]].
    destruct (eval_sym sm args e) eqn:Ev.
    + destruct (z0 =? z)%Z; (split; [discriminate | intros [_ [e' [He Hn]]]; inversion He; subst; congruence]).
    + split; [intros _; split; [reflexivity | eauto] | reflexivity].
    + split; [discriminate | intros [_ [e' [He Hn]]]; inversion He; subst; congruence].
    + split; [discriminate | intros [_ [e' [He Hn]]]; inversion He; subst; congruence].
Qed.

(* SLWrapPassFacts.v -- C07 read off the wrapper regenerated from the source (gen/StorageSrc.v: src_wrapped_fn): what the decorated
   call hands back is what wrapped_fn_impl -- or, with checking off, the wrapped function itself -- handed back, called with the
   very same args / kwargs objects. *)
From JT Require Import model.SL gen.StorageSrc model.Threads proofs.SLFacts proofs.SLWrapFacts.
Open Scope string_scope.

Section Pass.
Variable ext : extern_t.
Variables (a k c f p h i : sval).

(* checking on, the call binds: the result value or exception of the decorated call IS that of wrapped_fn_impl(args, kwargs, bound, memos),
   args and kwargs being the objects the caller passed *)
Theorem wrapped_fn_hands_back_the_impl_result s s1 s2 hv s3 s4 b s5 v s6 d s7 r s8 :
  ext "config.jaxtyping_disable" [] s = (SRVal (SVBool false), s1) ->
  ext "getattr" [f; SVStr "__no_type_check__"; SVBool false] s1 = (SRVal (SVBool false), s2) ->
  ext "wrapped_fn_holder[0]" [] s2 = (SRVal hv, s3) ->
  ext "getattr" [hv; SVStr "__no_type_check__"; SVBool false] s3 = (SRVal (SVBool false), s4) ->
  ext "param_signature.bind" [a; k] s4 = (SRVal b, s5) ->
  ext "bound.apply_defaults" [] s5 = (SRVal v, s6) ->
  ext "bound.arguments" [] s6 = (SRVal (SVDict d), s7) ->
  ext "wrapped_fn_impl" [a; k; b; new_frame d] (with_stack s7 (Some (stack_or_nil s7 ++ [new_frame d])%list)) = (r, s8) ->
  abs_stack s8 <> [] ->
  exists s', run_ext ext wrapped_src "wrapped_fn" [a; k; c; f; p; h; i] s = Some (r, s').
Proof.
  intros H1 H2 H3 H4 H5 H6 H7 H8 N. rewrite wrapped_fn_as_in_source. unfold wrapped_spec, truthy. rewrite H1, H2, H3, H4.
  destruct (checked_call_brackets ext a k s4 b s5 v s6 d s7 H5 H6 H7) as [_ G].
  destruct (G r s8 H8 N) as [s' [E _]]. exists s'. now rewrite E.
Qed.

(* a call that does not bind to the signature: the error of Signature.bind itself surfaces (the ordinary TypeError), nothing else ran *)
Theorem wrapped_fn_nonbinding_call_raises_the_bind_error s s1 s2 hv s3 s4 x s5 :
  ext "config.jaxtyping_disable" [] s = (SRVal (SVBool false), s1) ->
  ext "getattr" [f; SVStr "__no_type_check__"; SVBool false] s1 = (SRVal (SVBool false), s2) ->
  ext "wrapped_fn_holder[0]" [] s2 = (SRVal hv, s3) ->
  ext "getattr" [hv; SVStr "__no_type_check__"; SVBool false] s3 = (SRVal (SVBool false), s4) ->
  ext "param_signature.bind" [a; k] s4 = (SRExn x, s5) ->
  run_ext ext wrapped_src "wrapped_fn" [a; k; c; f; p; h; i] s = Some (SRExn x, s5).
Proof.
  intros H1 H2 H3 H4 H5. rewrite wrapped_fn_as_in_source. unfold wrapped_spec, truthy, checked_call. now rewrite H1, H2, H3, H4, H5.
Qed.

(* checking off in any of the three ways (global switch, @no_type_check on the function, on the wrapper): the plain call *)
Theorem wrapped_fn_off_is_the_plain_call s :
  (forall s1, ext "config.jaxtyping_disable" [] s = (SRVal (SVBool true), s1) ->
     run_ext ext wrapped_src "wrapped_fn" [a; k; c; f; p; h; i] s = Some (ext "fn" [a; k] s1)) /\
  (forall s1 s2, ext "config.jaxtyping_disable" [] s = (SRVal (SVBool false), s1) ->
     ext "getattr" [f; SVStr "__no_type_check__"; SVBool false] s1 = (SRVal (SVBool true), s2) ->
     run_ext ext wrapped_src "wrapped_fn" [a; k; c; f; p; h; i] s = Some (ext "fn" [a; k] s2)) /\
  (forall s1 s2 hv s3 s4, ext "config.jaxtyping_disable" [] s = (SRVal (SVBool false), s1) ->
     ext "getattr" [f; SVStr "__no_type_check__"; SVBool false] s1 = (SRVal (SVBool false), s2) ->
     ext "wrapped_fn_holder[0]" [] s2 = (SRVal hv, s3) ->
     ext "getattr" [hv; SVStr "__no_type_check__"; SVBool false] s3 = (SRVal (SVBool true), s4) ->
     run_ext ext wrapped_src "wrapped_fn" [a; k; c; f; p; h; i] s = Some (ext "fn" [a; k] s4)).
Proof.
  repeat split; intros; rewrite wrapped_fn_as_in_source; unfold wrapped_spec, truthy, transparent_call;
    repeat match goal with H : ext _ _ _ = _ |- _ => rewrite H; clear H end; reflexivity.
Qed.
End Pass.

(* HookCompleteFacts.v -- the transformation decorates EVERY def and class, at any nesting depth (C10). *)
From JT Require Import model.HookAst proofs.HookFacts.
From Coq Require Import Lia.
Open Scope string_scope.
Open Scope list_scope.

(* a test holds of every node of a tree *)
Section AllN.
Variable p : ast -> bool.
Fixpoint all_nodes (a : ast) : bool :=
  p a &&
  match a with
  | N c l fs =>
      (fix go (fs : list (string * field)) : bool :=
         match fs with
         | [] => true
         | (n, f) :: r =>
             match f with
             | FScalar _ => true
             | FNode x => all_nodes x
             | FList xs => (fix gol (xs : list ast) : bool := match xs with [] => true | x :: r => all_nodes x && gol r end) xs
             end && go r
         end) fs
  end.
End AllN.

Fixpoint all_asts (q : ast -> bool) (xs : list ast) : bool := match xs with [] => true | x :: r => q x && all_asts q r end.
Fixpoint all_fields (q : ast -> bool) (fs : list (string * field)) : bool :=
  match fs with
  | [] => true
  | (n, f) :: r => match f with FScalar _ => true | FNode x => q x | FList xs => all_asts q xs end && all_fields q r
  end.

Lemma all_nodes_eq p c l fs : all_nodes p (N c l fs) = p (N c l fs) && all_fields (all_nodes p) fs.
Proof.
  cbn [all_nodes]. f_equal. induction fs as [|[n f] r IH]; [reflexivity|]. cbn [all_fields]. rewrite <- IH. f_equal.
  destruct f as [s|x|xs]; [reflexivity | reflexivity |]. induction xs as [|x r' IH']; [reflexivity|]. cbn [all_asts]. now rewrite <- IH'.
Qed.

(* a class carries the decorator FIRST (outermost), a def carries it LAST (innermost), relocated onto the node's own position.
   (A node without a `decorator_list` list is not a def or class of a real tree; nothing is asked of it.) *)
Definition decorated (dec : ast) (a : ast) : bool :=
  match a with
  | N c l fs =>
      if String.eqb c "ClassDef" then
        match get_field "decorator_list" fs with Some (FList (d :: _)) => ast_eqb d (relocate dec l) | Some (FList []) => false | _ => true end
      else if String.eqb c "FunctionDef" then
        match get_field "decorator_list" fs with Some (FList d) => match rev d with x :: _ => ast_eqb x (relocate dec l) | [] => false end | _ => true end
      else true
  end.

Lemma all_asts_app q a b : all_asts q (a ++ b) = all_asts q a && all_asts q b.
Proof. induction a as [|x r IH]; [reflexivity|]. cbn [all_asts app]. now rewrite IH, andb_assoc. Qed.

Lemma all_fields_get q name fs xs : all_fields q fs = true -> get_field name fs = Some (FList xs) -> all_asts q xs = true.
Proof.
  induction fs as [|[n f] r IH]; cbn [all_fields get_field]; [discriminate|]. intros H Hg. apply andb_true_iff in H as [H1 H2].
  destruct (String.eqb n name); [inversion Hg; subst f; exact H1 | now apply IH].
Qed.

Lemma all_fields_set q name xs fs : all_fields q fs = true -> all_asts q xs = true -> all_fields q (set_field name (FList xs) fs) = true.
Proof.
  intros H Hx. induction fs as [|[n f] r IH]; [reflexivity|]. cbn [all_fields] in H. apply andb_true_iff in H as [H1 H2].
  cbn [set_field]. destruct (String.eqb n name); cbn [all_fields]; [now rewrite Hx, H2 | now rewrite H1, IH].
Qed.

Lemma all_asts_insert q b : q the_import = true -> all_asts q b = true -> all_asts q (insert_import b) = true.
Proof.
  intros Hi. induction b as [|s r IH]; [reflexivity|]. cbn [all_asts insert_import]. intros H. apply andb_true_iff in H as [H1 H2].
  destruct (is_future_import s || is_const_expr s); cbn [all_asts]; [now rewrite H1, IH | now rewrite Hi, H1, H2].
Qed.

(* nothing is asked of a tree without def / class *)
Lemma closed_all_decorated dec : forall a, closed a = true -> all_nodes (decorated dec) a = true.
Proof.
  apply (ast_ind' (fun a => closed a = true -> all_nodes (decorated dec) a = true)). intros c l fs IH Hc.
  rewrite closed_eq in Hc. apply andb_true_iff in Hc as [Hcls Hfs].
  apply negb_true_iff in Hcls. apply orb_false_iff in Hcls as [Hcls H3]. apply orb_false_iff in Hcls as [H1 H2].
  rewrite all_nodes_eq. apply andb_true_iff. split; [cbn [decorated]; now rewrite H2, H3|].
  clear H1 H2 H3. induction IH as [|[n f] r Hf Hr IHr]; [reflexivity|]. cbn [forallb snd] in Hfs. apply andb_true_iff in Hfs as [Ha Hb].
  cbn [all_fields]. rewrite (IHr Hb), andb_true_r. destruct f as [s|x|xs]; cbn in Hf; [reflexivity | now apply Hf |].
  induction Hf as [|x r' Hx Hr' IHr']; [reflexivity|]. cbn [forallb] in Ha. apply andb_true_iff in Ha as [Hx1 Hx2].
  cbn [all_asts]. now rewrite (Hx Hx1), (IHr' Hx2).
Qed.

Theorem every_def_and_class_decorated dec : closed dec = true -> forall t, all_nodes (decorated dec) (xform dec t) = true.
Proof.
  intros Hdec. apply ast_ind'. intros c l fs IH.
  rewrite xform_eq, all_nodes_eq.
  assert (Hrel : all_nodes (decorated dec) (relocate dec l) = true) by (apply closed_all_decorated, closed_relocate, Hdec).
  assert (Himp : all_nodes (decorated dec) the_import = true) by (apply closed_all_decorated, closed_the_import).
  (* the children *)
  assert (Hch : all_fields (all_nodes (decorated dec)) (map_fields (xform dec) fs) = true).
  { induction IH as [|[n f] r Hf Hr IHr]; [reflexivity|]. cbn [map_fields all_fields]. rewrite IHr, andb_true_r.
    destruct f as [s|x|xs]; cbn in Hf; [reflexivity | exact Hf |].
    induction Hf as [|x r' Hx Hr' IHr']; [reflexivity|]. cbn [map_asts all_asts]. now rewrite Hx, IHr'. }
  set (fs' := map_fields (xform dec) fs) in *. clearbody fs'. clear IH.
  unfold post_x.
  destruct (String.eqb c "Module") eqn:Ec1.
  - apply String.eqb_eq in Ec1. subst c. apply andb_true_iff. split; [reflexivity|].
    destruct (get_field "body" fs') as [[s|x|b]|] eqn:Eb; try exact Hch.
    apply all_fields_set; [exact Hch|]. apply all_asts_insert; [exact Himp|]. exact (all_fields_get _ _ _ _ Hch Eb).
  - destruct (String.eqb c "ClassDef") eqn:Ec2.
    + destruct (get_field "decorator_list" fs') as [[s|x|d]|] eqn:Eb.
      * apply andb_true_iff. split; [cbn [decorated]; now rewrite Ec2, Eb | exact Hch].
      * apply andb_true_iff. split; [cbn [decorated]; now rewrite Ec2, Eb | exact Hch].
      * apply andb_true_iff. split.
        -- cbn [decorated]. rewrite Ec2, (get_set_same _ _ _ _ Eb). apply ast_eqb_refl.
        -- apply all_fields_set; [exact Hch|]. cbn [all_asts]. rewrite Hrel. exact (all_fields_get _ _ _ _ Hch Eb).
      * apply andb_true_iff. split; [cbn [decorated]; now rewrite Ec2, Eb | exact Hch].
    + destruct (String.eqb c "FunctionDef") eqn:Ec3.
      * destruct (get_field "decorator_list" fs') as [[s|x|d]|] eqn:Eb.
        -- apply andb_true_iff. split; [cbn [decorated]; now rewrite Ec2, Ec3, Eb | exact Hch].
        -- apply andb_true_iff. split; [cbn [decorated]; now rewrite Ec2, Ec3, Eb | exact Hch].
        -- apply andb_true_iff. split.
           ++ cbn [decorated]. rewrite Ec2, Ec3, (get_set_same _ _ _ _ Eb), rev_unit. apply ast_eqb_refl.
           ++ apply all_fields_set; [exact Hch|]. rewrite all_asts_app. cbn [all_asts]. rewrite Hrel, (all_fields_get _ _ _ _ Hch Eb). reflexivity.
        -- apply andb_true_iff. split; [cbn [decorated]; now rewrite Ec2, Ec3, Eb | exact Hch].
      * apply andb_true_iff. split; [cbn [decorated]; now rewrite Ec2, Ec3 | exact Hch].
Qed.

(* nothing is lost: two different modules never transform to the same tree *)
Theorem xform_injective dec : closed dec = true -> forall t1 t2, xform dec t1 = xform dec t2 -> t1 = t2.
Proof. intros Hdec t1 t2 H. rewrite <- (strip_xform dec Hdec t1), <- (strip_xform dec Hdec t2). now rewrite H. Qed.

(* class and position of every transformed node are those of the original *)
Lemma root_kept dec t : cls_of (xform dec t) = cls_of t /\ loc_of (xform dec t) = loc_of t.
Proof. destruct t as [c l fs]. split; reflexivity. Qed.

(* non-vacuity: a class holding a method holding a nested def, all three decorated; without the transformation the test fails *)
Definition cx_dec : ast := N "Call" None [("func", FNode (N "Name" None [("id", FScalar "'jaxtyped'")]))].
Definition cx_fn (name : string) (body : list ast) : ast :=
  N "FunctionDef" (Some (3, 4, 5, 6)%Z) [("name", FScalar name); ("body", FList body); ("decorator_list", FList [N "Name" None [("id", FScalar "'staticmethod'")]])].
Definition cx_mod : ast :=
  N "Module" None [("body", FList [N "ClassDef" (Some (1, 0, 9, 9)%Z) [("name", FScalar "'K'"); ("body", FList [cx_fn "'m'" [cx_fn "'inner'" []]]); ("decorator_list", FList [])]])].
Example decorated_nonvacuous :
  all_nodes (decorated cx_dec) (xform cx_dec cx_mod) = true /\ all_nodes (decorated cx_dec) cx_mod = false /\ closed cx_dec = true.
Proof. repeat split; vm_compute; reflexivity. Qed.

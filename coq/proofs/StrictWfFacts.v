(* StrictWfFacts.v -- what the parser guarantees about its output: at most one variadic specifier, at index_variadic. *)
From JT Require Import model.PyL gen.CheckDimsSrc proofs.PyLFacts proofs.PyLShapeFacts proofs.DimLangFacts.
From Coq Require Import Lia.
Open Scope string_scope.

Lemma build_dim_seen t d : build_dim true t = Ok d -> is_variadic d = false.
Proof.
  destruct t as [[f rest] ty]. unfold build_dim. destruct (f_var f) eqn:Fv; [cbn; discriminate|]. cbn [andb].
  destruct ty; repeat match goal with |- context [if ?b then _ else _] => destruct b end; intros H; inversion H; reflexivity.
Qed.

Lemma nonvar_cons d dl : nonvar (d :: dl) <-> is_variadic d = false /\ nonvar dl.
Proof. unfold nonvar. cbn [forallb]. rewrite andb_true_iff, negb_true_iff. tauto. Qed.

(* once a variadic has been seen, the rest has none and the index is kept *)
Lemma parse_tokens_after : forall toks index j dl ivf,
  parse_tokens toks index (Some j) = Ok (dl, ivf) -> nonvar dl /\ ivf = Some j.
Proof.
  induction toks as [|e r IH]; intros index j dl ivf H; cbn in H.
  - inversion H; subst. split; reflexivity.
  - destruct (parse_token e) as [t|c]; [|discriminate].
    destruct (build_dim true t) as [d|c] eqn:B; [|discriminate].
    rewrite (build_dim_seen _ _ B) in H.
    destruct (parse_tokens r (S index) (Some j)) as [[dl' ivf']|c] eqn:E; [|discriminate].
    inversion H; subst. destruct (IH _ _ _ _ E) as [Hn ->]. split; [|reflexivity].
    apply nonvar_cons. split; [exact (build_dim_seen _ _ B) | exact Hn].
Qed.

Lemma parse_tokens_before : forall toks index dl ivf,
  parse_tokens toks index None = Ok (dl, ivf) ->
  match ivf with
  | None => nonvar dl
  | Some i => (index <= i)%nat /\ nonvar (firstn (i - index) dl) /\ nonvar (skipn (Datatypes.S (i - index)) dl) /\
              exists dv, nth_error dl (i - index) = Some dv /\ is_variadic dv = true
  end.
Proof.
  induction toks as [|e r IH]; intros index dl ivf H; cbn in H.
  - inversion H; subst. reflexivity.
  - destruct (parse_token e) as [t|c]; [|discriminate].
    destruct (build_dim false t) as [d|c] eqn:B; [|discriminate].
    destruct (is_variadic d) eqn:Vd.
    + destruct (parse_tokens r (Datatypes.S index) (Some index)) as [[dl' ivf']|c] eqn:E; [|discriminate].
      inversion H; subst. destruct (parse_tokens_after _ _ _ _ _ E) as [Hn ->].
      rewrite Nat.sub_diag. cbn [firstn skipn nth_error]. repeat split; try lia; try reflexivity; try exact Hn. eauto.
    + destruct (parse_tokens r (Datatypes.S index) None) as [[dl' ivf']|c] eqn:E; [|discriminate].
      inversion H; subst. specialize (IH _ _ _ E). destruct ivf as [i|].
      * destruct IH as [Hle [Hp [Hs [dv [Hn Hv]]]]].
        replace (i - index)%nat with (Datatypes.S (i - Datatypes.S index)) by lia.
        cbn [firstn skipn nth_error]. repeat split; try lia; try exact Hs.
        -- apply nonvar_cons. split; assumption.
        -- eauto.
      * apply nonvar_cons. split; assumption.
Qed.

Theorem parse_dims_strict_wf s d : parse_dims s = Ok d -> strict_wf d.
Proof.
  unfold parse_dims. destruct (parse_tokens (split_ws s) 0 None) as [[dl iv]|c] eqn:E; [|discriminate].
  intros H. inversion H; subst. pose proof (parse_tokens_before _ _ _ _ E) as Hb. unfold strict_wf. cbn [ivar ds].
  destruct iv as [i|]; [|exact Hb].
  destruct Hb as [_ [Hp [Hs [dv [Hn Hv]]]]]. rewrite Nat.sub_0_r in *.
  split; [|split; [exact Hp | split; [exact Hs | eauto]]].
  apply nth_error_Some. rewrite Hn. discriminate.
Qed.
